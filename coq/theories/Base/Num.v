(* Exact rational arithmetic helpers shared by all models.
   Every f32 the implementation consumes or returns is a dyadic rational and is
   printed by the harness as [dy m e] = m * 2^e, never as a decimal approximation. *)
From Coq Require Import ZArith NArith QArith Qabs Qround Bool List.
Import ListNotations.
Local Open Scope Q_scope.

Definition dy (m : Z) (e : Z) : Q :=
  match e with
  | Z0 => inject_Z m
  | Zpos p => inject_Z (m * Z.pow_pos 2 p)
  | Zneg p => Qmake m (Pos.shiftl 1 (Npos p))
  end.

Definition qleb (a b : Q) : bool := Qle_bool a b.
Definition qltb (a b : Q) : bool := negb (Qle_bool b a).
Definition qeqb (a b : Q) : bool := Qeq_bool a b.
Definition qmax (a b : Q) : Q := if qleb a b then b else a.
Definition qmin (a b : Q) : Q := if qleb a b then a else b.

(* |a - b| <= tol *)
Definition close_abs (tol a b : Q) : bool := qleb (Qabs (a - b)) tol.
(* |impl - model| <= ab + rel * |model| *)
Definition close_rel (rel ab impl model : Q) : bool :=
  qleb (Qabs (impl - model)) (ab + rel * Qabs model).

(* Round half away from zero, like f32::round *)
Definition round_haz (x : Q) : Z :=
  if qleb 0 x then Qfloor (x + (1#2)) else (- Qfloor ((- x) + (1#2)))%Z.
Definition round2 (x : Q) : Q := inject_Z (round_haz (x * 100)) / 100.
Definition round3 (x : Q) : Q := inject_Z (round_haz (x * 1000)) / 1000.

(* sums are kept in lowest terms while they are evaluated (the value is the plain sum: Qred x == x);
   without this the denominators of a 365-term sum of dyadic numbers grow to 10^5 bits *)
Definition qsum (l : list Q) : Q := fold_right (fun x acc => Qred (x + acc)) 0 l.

Definition opt_close (f : Q -> Q -> bool) (a b : option Q) : bool :=
  match a, b with
  | Some x, Some y => f x y
  | None, None => true
  | _, _ => false
  end.

(* result codes of correspondences: 0 = agree, k>0 = first failing sub-check *)
Definition first_fail (checks : list (N * bool)) : N :=
  match find (fun p => negb (snd p)) checks with
  | Some (k, _) => k
  | None => 0%N
  end.
