(* Proofs about Model/Conv3.v: the algebra of turning points, outlines and whole buildings *)
From Coq Require Import ZArith QArith Qabs Bool List Lia Lqa.
From CTE Require Import Base.Num Model.Aabb Model.Conv3.
Import ListNotations.
Local Open Scope Q_scope.

Definition veq (a b : vec3) : Prop := vx a == vx b /\ vy a == vy b /\ vz a == vz b.

(* two turns are the turn by the sum of the angles *)
Theorem rotz_compose a b p : veq (rotz a (rotz b p)) (rotz (compose a b) p).
Proof. unfold veq, rotz, compose; cbn. repeat split; ring. Qed.

Lemma cw_compose a b : fst (cw (compose a b)) == fst (compose (cw a) (cw b)) /\ snd (cw (compose a b)) == snd (compose (cw a) (cw b)).
Proof. unfold cw, compose; cbn. split; ring. Qed.

(* a turn keeps heights, and multiplies squared horizontal distances by cos^2 + sin^2 (= 1 for an angle) *)
Theorem rotz_height r p : vz (rotz r p) == vz p.
Proof. reflexivity. Qed.
Theorem rotz_dist2 r p q :
  (vx (rotz r p) - vx (rotz r q)) * (vx (rotz r p) - vx (rotz r q)) + (vy (rotz r p) - vy (rotz r q)) * (vy (rotz r p) - vy (rotz r q)) ==
  (fst r * fst r + snd r * snd r) * ((vx p - vx q) * (vx p - vx q) + (vy p - vy q) * (vy p - vy q)).
Proof. unfold rotz; cbn. ring. Qed.

(* turning the whole building by a further angle e turns every position by e *)
Theorem turn_building dev e s q : veq (to_global (compose dev e) s q) (rotz (cw e) (to_global dev s q)).
Proof. unfold veq, to_global, to_building, rotz, cw, compose, vadd; cbn. repeat split; ring. Qed.

(* ... and leaves every area unchanged: the shoelace sum of a turned outline *)
Definition rot2 (r : cs) (p : Q * Q) : Q * Q := (fst r * fst p - snd r * snd p, snd r * fst p + fst r * snd p).
Lemma shoelace2_rot r first prev l :
  shoelace2 (rot2 r first) (rot2 r prev) (map (rot2 r) l) == (fst r * fst r + snd r * snd r) * shoelace2 first prev l.
Proof.
  revert prev. induction l as [|p l IH]; intros prev; cbn [map shoelace2].
  - unfold rot2; cbn. ring.
  - rewrite IH. unfold rot2; cbn. ring.
Qed.
Theorem area_turn_invariant r l : fst r * fst r + snd r * snd r == 1 ->
  signed_area2 (map (rot2 r) l) == signed_area2 l.
Proof.
  intros H. destruct l as [|p l]; [reflexivity|]. cbn [map signed_area2]. rewrite shoelace2_rot, H. ring.
Qed.
(* a shift leaves it unchanged too *)
Definition shift2 (d : Q * Q) (p : Q * Q) : Q * Q := (fst p + fst d, snd p + snd d).
Lemma shoelace2_shift d first prev l :
  shoelace2 (shift2 d first) (shift2 d prev) (map (shift2 d) l) ==
  shoelace2 first prev l + (fst d * (snd first - snd prev) - snd d * (fst first - fst prev)).
Proof.
  revert prev. induction l as [|p l IH]; intros prev; cbn [map shoelace2].
  - unfold shift2; cbn. ring.
  - rewrite IH. unfold shift2; cbn. ring.
Qed.
Theorem area_shift_invariant d l : signed_area2 (map (shift2 d) l) == signed_area2 l.
Proof. destruct l as [|p l]; [reflexivity|]. cbn [map signed_area2]. rewrite shoelace2_shift. ring. Qed.

(* ---------- the wall rectangle of the converted model lands on its edge ---------- *)
(* WallGeom::to_global_coords_matrix for a vertical element (tilt 90): position + Rz(azimuth) * Rx(90) * (x, y, 0) *)
Definition wall_point (pos : vec3) (az : cs) (x y : Q) : vec3 := vadd pos (rotz az (mkV x 0 y)).
(* its normal Rz(azimuth) * Rx(90) * (0, 0, 1) *)
Definition wall_normal (az : cs) : vec3 := rotz az (mkV 0 (-1) 0).

Theorem to_global_lift dev s p z off :
  veq (to_global dev s (vadd (lift p z) off)) (vadd (to_global dev s (vadd (lift p 0) off)) (mkV 0 0 z)).
Proof. unfold veq, to_global, to_building, rotz, vadd, lift, cw; cbn. repeat split; ring. Qed.

(* if the model azimuth az is the direction of the (global) edge p1 -> p2 of length w, the rectangle
   (0,0) (w,0) (w,h) (0,h) of the converted wall spans exactly that edge over the storey height *)
Theorem wall_spans_edge dev s n off az w :
  let P := edge_wall_corners dev s n off in
  let P1 := nth 0 P (mkV 0 0 0) in let P2 := nth 1 P (mkV 0 0 0) in
  vx P2 - vx P1 == w * fst az -> vy P2 - vy P1 == w * snd az ->
  veq (wall_point P1 az 0 0) P1 /\ veq (wall_point P1 az w 0) P2 /\
  veq (wall_point P1 az w (ss_height s)) (nth 2 P (mkV 0 0 0)) /\ veq (wall_point P1 az 0 (ss_height s)) (nth 3 P (mkV 0 0 0)).
Proof.
  cbn zeta. unfold edge_wall_corners. cbn [nth].
  set (p1 := nth_pt (ss_poly s) n). set (p2 := nth_pt (ss_poly s) (Nat.modulo (S n) (length (ss_poly s)))).
  intros Hx Hy.
  destruct (to_global_lift dev s p2 (ss_height s) off) as [A2 [B2 C2]].
  destruct (to_global_lift dev s p1 (ss_height s) off) as [A1 [B1 C1]].
  assert (Hz : vz (to_global dev s (vadd (lift p2 0) off)) == vz (to_global dev s (vadd (lift p1 0) off)))
    by (unfold to_global, to_building, rotz, vadd, lift, cw; cbn; ring).
  unfold veq, wall_point, rotz, vadd in *; cbn in *.
  repeat split; try ring; try lra.
Qed.

(* and its normal is the edge turned by -90 degrees: pointing away from a counter-clockwise outline *)
Theorem wall_normal_outward az w ex ey : ex == w * fst az -> ey == w * snd az ->
  veq (vscale w (wall_normal az)) (mkV ey (- ex) 0).
Proof. intros Hx Hy. unfold veq, vscale, wall_normal, rotz; cbn. repeat split; try rewrite Hx; try rewrite Hy; ring. Qed.

(* the comparison used by the correspondence accepts equal point lists *)
Lemma close_refl tol a : 0 <= tol -> close tol a a = true.
Proof.
  intros H. unfold close, qleb.
  assert (E : forall x, Qle_bool (Qabs (x - x)) tol = true).
  { intros x. apply Qle_bool_iff. setoid_replace (x - x) with 0 by ring. exact H. }
  rewrite !E. reflexivity.
Qed.

(* a rectangular shade turns with the building, corner by corner *)
Theorem rect_shade_turns dev e az tilt origin w h :
  Forall2 veq (rect_shade_corners (compose dev e) az tilt origin w h)
              (map (rotz (cw e)) (rect_shade_corners dev az tilt origin w h)).
Proof.
  unfold rect_shade_corners. cbn [map].
  repeat constructor; unfold veq, vadd, rotz, south_ccw, compose, cw; cbn; repeat split; ring.
Qed.

(* a wall given by its own polygon turns with the building, corner by corner *)
Theorem poly_wall_turns dev e s az tilt w poly :
  Forall2 veq (poly_wall_corners (compose dev e) s az tilt w poly)
              (map (rotz (cw e)) (poly_wall_corners dev s az tilt w poly)).
Proof.
  unfold poly_wall_corners. induction poly as [|p r IH]; cbn [map]; constructor; [|exact IH].
  apply turn_building.
Qed.
