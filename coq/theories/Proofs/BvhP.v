(* Proofs about the generic BVH (Model/Bvh.v) *)
From Coq Require Import List Arith Bool Permutation Lia.
From CTE Require Import Model.Bvh.
Import ListNotations.

Section BVH.
Variables (T aabb ray : Type).
Variable box : T -> aabb.
Variable hit : T -> ray -> bool.
Variable bhit : aabb -> ray -> bool.
Variable join : aabb -> aabb -> aabb.
Variable empty_box : aabb.
(* an element that is hit has its box hit *)
Hypothesis H1 : forall e r, hit e r = true -> bhit (box e) r = true.

Notation tree := (tree T aabb).
Notation trav := (trav T aabb ray hit bhit).
Notation wf := (wf T aabb ray box bhit).
Notation covers := (covers T aabb ray box bhit).
Notation elems := (@elems T aabb).
Notation size := (@size T aabb).
Notation ssize := (@ssize T aabb).

Definition isSome {A} (o : option A) : bool := match o with Some _ => true | None => false end.

Lemma find_some_existsb {A} (f : A -> bool) l : isSome (find f l) = existsb f l.
Proof. induction l as [|a l IH]; [reflexivity|]. cbn. destruct (f a); [reflexivity | exact IH]. Qed.

Lemma size_pos (t : tree) : 1 <= size t. Proof. destruct t; cbn; lia. Qed.

Lemma covers_miss b es r : covers b es -> bhit b r = false -> existsb (fun e => hit e r) es = false.
Proof.
  intros Hc Hb. apply not_true_is_false. intros He. apply existsb_exists in He.
  destruct He as [e [Hin Hh]]. rewrite (Hc e r Hin (H1 e r Hh)) in Hb. discriminate.
Qed.

Lemma wf_covers_elems (t : tree) : wf t -> covers (tbox T aabb t) (elems t).
Proof. destruct t; cbn; tauto. Qed.

Lemma trav_spec fuel : forall (st : list tree) r, ssize st <= fuel -> Forall wf st ->
  isSome (trav fuel st r) = existsb (fun t => existsb (fun e => hit e r) (elems t)) st.
Proof.
  induction fuel as [|f IH]; intros st r Hs Hw.
  - destruct st as [|t st']; [reflexivity|]. cbn in Hs. pose proof (size_pos t). lia.
  - destruct st as [|t st']; [reflexivity|]. cbn [trav existsb].
    inversion Hw as [|? ? Hwt Hw']; subst. cbn [ssize] in Hs.
    destruct (bhit (tbox T aabb t) r) eqn:Hb.
    + destruct t as [b es|b l rr].
      * cbn [elems]. rewrite <- find_some_existsb.
        destruct (find (fun e => hit e r) es) eqn:Hf; cbn [isSome orb]; [reflexivity|].
        apply IH; [cbn in Hs; lia | exact Hw'].
      * cbn [elems]. rewrite IH.
        -- cbn [existsb]. rewrite existsb_app, orb_assoc. reflexivity.
        -- cbn [ssize size] in *. lia.
        -- cbn in Hwt. destruct Hwt as [_ [Hl Hr]]. repeat constructor; assumption.
    + rewrite (covers_miss _ _ _ (wf_covers_elems t Hwt) Hb). cbn [orb].
      apply IH; [pose proof (size_pos t); lia | exact Hw'].
Qed.

(* accelerated query = exhaustive query, for any tree shape, any number of elements, duplicates *)
Theorem bvh_complete (t : tree) es r :
  wf t -> Permutation (elems t) es ->
  blocked_tree T aabb ray hit bhit t r = blocked_list T ray hit es r.
Proof.
  intros Hw Hp. unfold blocked_tree, blocked_list.
  change (match trav (size t) [t] r with Some _ => true | None => false end) with (isSome (trav (size t) [t] r)).
  rewrite trav_spec; [|cbn; lia | repeat constructor; exact Hw].
  cbn [existsb]. rewrite orb_false_r.
  apply Bool.eq_iff_eq_true. rewrite !existsb_exists.
  split; intros [e [Hin Hh]]; exists e; (split; [|exact Hh]).
  - eapply Permutation_in; eassumption.
  - eapply Permutation_in; [apply Permutation_sym|]; eassumption.
Qed.

(* ---------- construction ---------- *)
(* enlarging a box by a join never loses a ray *)
Hypothesis H2 : forall a b r, bhit a r = true -> bhit (join a b) r = true /\ bhit (join b a) r = true.

Lemma fold_join_keeps es : forall b r, bhit b r = true -> bhit (fold_left (fun b e => join b (box e)) es b) r = true.
Proof. induction es as [|e es IH]; intros b r H; [exact H|]. cbn. apply IH. destruct (H2 b (box e) r H) as [A _]. exact A. Qed.

Lemma boxes_covers es : covers (boxes T aabb box join empty_box es) es.
Proof.
  unfold boxes. generalize empty_box as b0. induction es as [|a es IH]; intros b0 e r Hin Hb; [destruct Hin|].
  cbn. destruct Hin as [->|Hin].
  - apply fold_join_keeps. destruct (H2 (box e) b0 r Hb) as [_ B]. exact B.
  - apply (IH _ e r Hin Hb).
Qed.

Variable part : list T -> list T * list T.
Notation build := (build T aabb box join empty_box part).

Theorem build_wf maxn : progressive T part maxn ->
  forall fuel es, length es <= fuel -> 1 <= fuel ->
  exists t, build fuel maxn es = Some t /\ wf t /\ Permutation (elems t) es.
Proof.
  intros Hprog. induction fuel as [|f IH]; intros es Hlen Hf; [lia|].
  cbn [Bvh.build]. destruct (Nat.leb_spec (length es) maxn) as [Hle|Hgt].
  - exists (Leaf (boxes T aabb box join empty_box es) es). split; [reflexivity|]. split; [|apply Permutation_refl].
    cbn. apply boxes_covers.
  - destruct (part es) as [l r] eqn:Hp. destruct (Hprog es l r Hgt Hp) as [Hl [Hr Hperm]].
    pose proof (Permutation_length Hperm) as Hpl. rewrite app_length in Hpl.
    assert (Hf1 : 1 <= f) by lia.
    destruct (IH l ltac:(lia) Hf1) as [a [Ha [Hwa Hpa]]].
    destruct (IH r ltac:(lia) Hf1) as [b [Hb [Hwb Hpb]]].
    rewrite Ha, Hb. eexists. split; [reflexivity|]. split.
    + cbn. split; [|split; assumption]. intros e ray0 Hin Hbe. apply in_app_or in Hin. destruct Hin as [Hin|Hin].
      * destruct (H2 (tbox T aabb a) (tbox T aabb b) ray0 (wf_covers_elems a Hwa e ray0 Hin Hbe)) as [A _]. exact A.
      * destruct (H2 (tbox T aabb b) (tbox T aabb a) ray0 (wf_covers_elems b Hwb e ray0 Hin Hbe)) as [_ B]. exact B.
    + cbn [Bvh.elems]. eapply Permutation_trans; [|exact Hperm]. apply Permutation_app; assumption.
Qed.

(* construction terminates with a tree, and the tree answers like the exhaustive test *)
Corollary build_correct maxn es r : progressive T part maxn ->
  exists t, build (S (length es)) maxn es = Some t /\
            blocked_tree T aabb ray hit bhit t r = blocked_list T ray hit es r.
Proof.
  intros Hp. destruct (build_wf maxn Hp (S (length es)) es ltac:(lia) ltac:(lia)) as [t [Hb [Hw Hperm]]].
  exists t. split; [exact Hb|]. apply bvh_complete; assumption.
Qed.
End BVH.

(* ---------- the repaired split makes progress for every predicate ---------- *)
Lemma partition_perm {T} (f : T -> bool) es l r : partition f es = (l, r) -> Permutation (l ++ r) es.
Proof.
  revert l r. induction es as [|a es IH]; intros l r H; cbn in H.
  - inversion H; subst. constructor.
  - destruct (partition f es) as [l' r'] eqn:E. specialize (IH l' r' eq_refl). destruct (f a); inversion H; subst.
    + cbn. constructor. exact IH.
    + eapply Permutation_trans; [apply Permutation_sym, Permutation_middle|]. constructor. exact IH.
Qed.

Lemma halves_progress {T} (es : list T) : 2 <= length es ->
  let (l, r) := halves es in length l < length es /\ length r < length es /\ l ++ r = es.
Proof.
  intros H. unfold halves.
  assert (Hd : 1 <= length es / 2) by (apply Nat.div_le_lower_bound; lia).
  assert (Hu : length es / 2 < length es) by (apply Nat.div_lt; lia).
  rewrite firstn_length, skipn_length, firstn_skipn. repeat split; lia.
Qed.

Theorem part_fb_progressive {T} (p : list T -> T -> bool) maxn : 1 <= maxn -> progressive T (part_fb p) maxn.
Proof.
  intros Hm es l r Hlen Hp. unfold part_fb in Hp.
  destruct (partition (p es) es) as [l0 r0] eqn:E.
  pose proof (partition_perm _ _ _ _ E) as Hperm.
  assert (Hl2 : 2 <= length (l0 ++ r0)) by (rewrite (Permutation_length Hperm); lia).
  assert (Hfall : halves (l0 ++ r0) = (l, r) ->
     length l < length es /\ length r < length es /\ Permutation (l ++ r) es).
  { intros Hh. pose proof (halves_progress (l0 ++ r0) Hl2) as Hpr. rewrite Hh in Hpr.
    destruct Hpr as [A [B C]]. rewrite (Permutation_length Hperm) in A, B. repeat split; try assumption.
    rewrite C. exact Hperm. }
  destruct l0 as [|x l0']; [apply Hfall; exact Hp|]. destruct r0 as [|y r0']; [apply Hfall; exact Hp|].
  inversion Hp; subst l r. pose proof (Permutation_length Hperm) as Hlen2. rewrite app_length in Hlen2. cbn in *.
  repeat split; try lia. exact Hperm.
Qed.
