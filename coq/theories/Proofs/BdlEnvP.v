(* Proofs about Model/BdlTypedEnv.v: defaults and boundary of walls, defaults of spaces *)
From Coq Require Import NArith ZArith QArith Bool List String.
From CTE Require Import Model.Bdl Model.BdlDoc Proofs.BdlP Model.BdlTyped Model.BdlTypedEnv Proofs.BdlTypedP.
From CTEGen Require Import BdlTypes.
Import ListNotations.
Local Open Scope N_scope.
Local Open Scope string_scope.

Definition loc_is (w : twall) (x : string) : bool := match twl_location w with Some l => str_eqb l (s2l x) | None => false end.
(* without a written TILT: roofs and ceilings 0, floors 180, everything else 90; a floor always has azimuth 180,
   other elements their written azimuth or 0; only interior partitions keep NEXT-TO *)
Theorem wall_defaults b w : wall_of b = Ok w -> get_num "TILT" (b_attrs b) = None ->
  twl_tilt w = (if N.eqb (b_type b) BT_Roof || loc_is w "TOP" then NConst 0 else if loc_is w "BOTTOM" then NConst 180 else NConst 90) /\
  twl_azimuth w = (if loc_is w "BOTTOM" then NConst 180 else num_or (get_num "AZIMUTH" (b_attrs b)) 0) /\
  twl_x w = num_or (get_num "X" (b_attrs b)) 0 /\ twl_y w = num_or (get_num "Y" (b_attrs b)) 0 /\ twl_z w = num_or (get_num "Z" (b_attrs b)) 0 /\
  twl_nextto w = (match twl_bounds w with TB_INTERIOR => get_text "NEXT-TO" (b_attrs b) | _ => None end).
Proof.
  unfold wall_of. intros H Ht.
  destruct (b_parent b); [|discriminate]. destruct (get_text "CONSTRUCTION" (b_attrs b)); [|discriminate].
  destruct (match get_text "LOCATION" (b_attrs b) with
            | Some l => if (str_eqb l (s2l "TOP") || str_eqb l (s2l "BOTTOM"))%bool then Ok (Some l)
                        else if prefixb space_prefix l then Ok (Some (skipn 6 l)) else Err 6%N
            | None => Ok None end) as [loc|]; [|discriminate].
  destruct (if N.eqb (b_type b) BT_InteriorWall
            then match get_text "INT-WALL-TYPE" (b_attrs b) with
                 | Some k => if str_eqb k (s2l "STANDARD") then Ok TB_INTERIOR else if str_eqb k (s2l "ADIABATIC") then Ok TB_ADIABATIC else Err 6%N
                 | None => Err 5%N end
            else if N.eqb (b_type b) BT_UndergroundWall then Ok TB_GROUND
            else if (N.eqb (b_type b) BT_ExteriorWall || N.eqb (b_type b) BT_Roof)%bool then Ok TB_EXTERIOR else Err 6%N) as [bd|]; [|discriminate].
  rewrite Ht in H. injection H as <-. unfold loc_is. cbn [twl_tilt twl_azimuth twl_x twl_y twl_z twl_nextto twl_bounds twl_location].
  repeat split; reflexivity.
Qed.
(* the boundary follows the block kind; an interior wall says whether it is adiabatic *)
Theorem wall_boundary b w : wall_of b = Ok w ->
  twl_bounds w = (if N.eqb (b_type b) BT_InteriorWall
                  then (if match get_text "INT-WALL-TYPE" (b_attrs b) with Some k => str_eqb k (s2l "ADIABATIC") | None => false end then TB_ADIABATIC else TB_INTERIOR)
                  else if N.eqb (b_type b) BT_UndergroundWall then TB_GROUND else TB_EXTERIOR).
Proof.
  unfold wall_of. intros H.
  destruct (b_parent b); [|discriminate]. destruct (get_text "CONSTRUCTION" (b_attrs b)); [|discriminate].
  destruct (match get_text "LOCATION" (b_attrs b) with
            | Some l => if (str_eqb l (s2l "TOP") || str_eqb l (s2l "BOTTOM"))%bool then Ok (Some l)
                        else if prefixb space_prefix l then Ok (Some (skipn 6 l)) else Err 6%N
            | None => Ok None end) as [loc|]; [|discriminate].
  destruct (N.eqb (b_type b) BT_InteriorWall).
  - destruct (get_text "INT-WALL-TYPE" (b_attrs b)) as [k|]; [|discriminate].
    destruct (str_eqb k (s2l "STANDARD")) eqn:E1.
    + injection H as <-. cbn [twl_bounds]. apply str_eqb_eq in E1. subst k. reflexivity.
    + destruct (str_eqb k (s2l "ADIABATIC")); [|discriminate]. injection H as <-. reflexivity.
  - destruct (N.eqb (b_type b) BT_UndergroundWall).
    + injection H as <-. reflexivity.
    + destruct (N.eqb (b_type b) BT_ExteriorWall || N.eqb (b_type b) BT_Roof)%bool; [|discriminate]. injection H as <-. reflexivity.
Qed.
(* SPACE: inside the thermal envelope when the file says SI, or when it says nothing and the space is conditioned;
   use and system conditions default to the SPACE-TYPE name *)
Theorem space_defaults b s : space_of b = Ok s ->
  tsp_inside s = (match get_text "perteneceALaEnvolventeTermica" (b_attrs b) with
                  | Some v => str_eqb v (s2l "SI")
                  | None => match get_text "TYPE" (b_attrs b) with Some ty => str_eqb ty (s2l "CONDITIONED") | None => false end end) /\
  Some (tsp_spaceconds s) = (match get_text "SPACE-CONDITIONS" (b_attrs b) with Some c => Some c | None => get_text "SPACE-TYPE" (b_attrs b) end) /\
  Some (tsp_systemconds s) = (match get_text "SYSTEM-CONDITIONS" (b_attrs b) with Some c => Some c | None => get_text "SPACE-TYPE" (b_attrs b) end) /\
  tsp_x s = num_or (get_num "X" (b_attrs b)) 0 /\ tsp_y s = num_or (get_num "Y" (b_attrs b)) 0 /\
  tsp_z s = num_or (get_num "Z" (b_attrs b)) 0 /\ tsp_azimuth s = num_or (get_num "AZIMUTH" (b_attrs b)) 0.
Proof.
  unfold space_of. intros H.
  destruct (get_text "SHAPE" (b_attrs b)) as [sh|]; [|discriminate]. destruct (get_text "TYPE" (b_attrs b)) as [ty|]; [|discriminate].
  destruct (get_text "POLYGON" (b_attrs b)) as [po|]; [|discriminate].
  destruct (negb (str_eqb sh (s2l "POLYGON"))); [discriminate|].
  destruct (b_parent b); [|discriminate]. destruct (get_num "POWER" (b_attrs b)); [|discriminate].
  destruct (get_num "VEEI-OBJ" (b_attrs b)); [|discriminate]. destruct (get_num "VEEI-REF" (b_attrs b)); [|discriminate].
  destruct (get_text "SPACE-TYPE" (b_attrs b)) as [st|]; [|discriminate]. destruct (get_num "MULTIPLIER" (b_attrs b)); [|discriminate].
  destruct (get_num "MULTIPLIED" (b_attrs b)); [|discriminate].
  injection H as <-. cbn [tsp_inside tsp_spaceconds tsp_systemconds tsp_x tsp_y tsp_z tsp_azimuth].
  repeat split; try reflexivity.
  - destruct (get_text "SPACE-CONDITIONS" (b_attrs b)); reflexivity.
  - destruct (get_text "SYSTEM-CONDITIONS" (b_attrs b)); reflexivity.
Qed.
