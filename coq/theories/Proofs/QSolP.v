(* Proofs about the q_sol;jul model (Model/QSolJul.v) *)
From Coq Require Import ZArith NArith QArith Qabs Bool List Lia Lqa Permutation Morphisms Setoid.
From CTE Require Import Base.Num Model.BModel Model.Props Model.QSolJul Proofs.NumP Proofs.KP.
From CTEGen Require Import Tables.
Import ListNotations.
Local Open Scope Q_scope.

(* ---- the formula ---- *)
Theorem qsol_formula aref l :
  qs_Q (QSol_of_items aref l) = qsum (map (fun i => si_fsh i * si_g i * (1 - si_ff i) * si_area i * si_rad i) l) /\
  (~ aref == 0 -> qs_q (QSol_of_items aref l) * aref == qs_Q (QSol_of_items aref l)).
Proof.
  split; [reflexivity|]. intros H. unfold QSol_of_items. cbn [qs_q qs_Q]. unfold qdiv0.
  apply qeqb_neq in H. rewrite H. apply qeqb_neq in H. field. exact H.
Qed.

(* Fsh,obst: user override, else computed, else 1; defaults without construction *)
Theorem sol_item_spec zone p w i :
  sol_item zone p w = Some i ->
  si_fsh i = match np_fshov (snd w), np_fsh (snd w) with Some x, _ => x | None, Some y => y | None, None => 1 end /\
  si_area i = np_area (snd w) * np_mult (snd w) /\
  july_total zone (np_orient (snd w)) = Some (si_rad i) /\
  (si_g i, si_ff i) = match lookup (np_cons (snd w)) (ep_wincons p) with
                      | Some c => (cp_gglshwi c, cp_ff c) | None => (77 # 100, 1 # 5) end.
Proof.
  unfold sol_item. destruct (july_total zone (np_orient (snd w))) as [rad|]; [|discriminate].
  intros H. inversion H; subst i; clear H. cbn [si_fsh si_area si_rad si_g si_ff].
  repeat split.
  - destruct (np_fshov (snd w)), (np_fsh (snd w)); reflexivity.
  - destruct (lookup (np_cons (snd w)) (ep_wincons p)); reflexivity.
Qed.

(* ---- the per-orientation detail adds up to the totals ---- *)
Lemma orient_partition (f : solitem -> Q) l :
  qsum (map f l) == qsum (map (fun o => qsum (map f (of_orient o l))) all_orients).
Proof.
  induction l as [|a l IH]; [cbn; lra|]. cbn [map]. rewrite qsum_cons, IH.
  unfold all_orients, of_orient. cbn [map]. rewrite !qsum_cons, !qsum_nil.
  destruct (si_orient a) eqn:Eo; cbn [filter]; rewrite Eo; cbn [orient_eqb orient_idx N.eqb Pos.eqb map];
    rewrite ?qsum_cons; ring.
Qed.

Lemma detail_flat (g : qdetail -> Q) (f : solitem -> Q) l :
  (forall l', g (detail_of l') = qsum (map f l')) ->
  qsum (map (fun od => g (snd od))
       (flat_map (fun o => match of_orient o l with [] => [] | l' => [(o, detail_of l')] end) all_orients)) ==
  qsum (map (fun o => qsum (map f (of_orient o l))) all_orients).
Proof.
  intros Hg. induction all_orients as [|o os IH]; [reflexivity|].
  cbn [flat_map map]. rewrite map_app, qsum_app, qsum_cons, IH.
  destruct (of_orient o l) as [|x l'] eqn:E; [cbn [map]; rewrite !qsum_nil; ring|].
  cbn [map snd]. rewrite Hg. cbn [map]. rewrite !qsum_cons, !qsum_nil. ring.
Qed.

Theorem detail_sums_to_total aref l :
  let d := QSol_of_items aref l in
  qs_Q d == qsum (map (fun od => qd_gains (snd od)) (qs_detail d)) /\
  qs_awp d == qsum (map (fun od => qd_a (snd od)) (qs_detail d)).
Proof.
  cbv zeta. unfold QSol_of_items. cbn [qs_Q qs_awp qs_detail]. split.
  - rewrite (detail_flat qd_gains si_gain); [apply orient_partition | reflexivity].
  - rewrite (detail_flat qd_a si_area); [apply (orient_partition si_area) | reflexivity].
Qed.

(* ---- every reported mean is the area-weighted mean of its inputs ---- *)
Theorem mean_is_weighted f l :
  ~ area_sum l == 0 -> qdiv0 (wsum f l) (area_sum l) * area_sum l == wsum f l.
Proof. intros H. unfold qdiv0. apply qeqb_neq in H. rewrite H. apply qeqb_neq in H. field. exact H. Qed.

Theorem weighted_mean_between f l lo hi :
  (forall i, In i l -> 0 <= si_area i) -> 0 < area_sum l ->
  (forall i, In i l -> lo <= f i <= hi) ->
  lo <= qdiv0 (wsum f l) (area_sum l) <= hi.
Proof.
  intros Hpos Ha Hb. unfold qdiv0.
  assert (E : qeqb (area_sum l) 0 = false) by (apply qeqb_neq; lra). rewrite E.
  assert (Hlo : lo * area_sum l <= wsum f l).
  { unfold area_sum, wsum. rewrite <- qsum_map_scal. apply qsum_map_le. intros i Hi.
    pose proof (Hpos i Hi). pose proof (Hb i Hi). nra. }
  assert (Hhi : wsum f l <= hi * area_sum l).
  { unfold area_sum, wsum. rewrite <- qsum_map_scal. apply qsum_map_le. intros i Hi.
    pose proof (Hpos i Hi). pose proof (Hb i Hi). nra. }
  split; [apply Qle_shift_div_l | apply Qle_shift_div_r]; lra.
Qed.

(* ---- no envelope window: every figure is a defined number, and it is 0 ---- *)
Theorem no_window_all_zero aref :
  QSol_of_items aref [] = mkQSol (qdiv0 0 aref) 0 0 0 0 0 0 [].
Proof. reflexivity. Qed.
Lemma qdiv0_zero a : qdiv0 0 a == 0.
Proof. unfold qdiv0. destruct (qeqb a 0); [reflexivity|]. unfold Qdiv. lra. Qed.

Theorem no_window_model zone p :
  solset p = [] -> exists d, QSol_model zone p = Some d /\ qs_Q d = 0 /\ qs_q d == 0 /\ qs_detail d = [].
Proof.
  intros H. unfold QSol_model, sol_items. rewrite H. cbn [map all_some].
  eexists. split; [reflexivity|]. cbn [QSol_of_items qs_Q qs_q qs_detail]. repeat split; try reflexivity.
  apply qdiv0_zero.
Qed.

(* a window counts exactly when its wall is in the envelope and bounds outside air or ground *)
Lemma sol_win_spec w : sol_win w = true <->
  np_tenv (snd w) = true /\ (np_bounds (snd w) = EXTERIOR \/ np_bounds (snd w) = GROUND).
Proof.
  unfold sol_win, is_ext_or_gnd. rewrite andb_true_iff.
  destruct (np_bounds (snd w)); split; intros [A B]; split; auto; try discriminate; destruct B; discriminate.
Qed.

(* ---- the regenerated tables: every zone and orientation class has a non-negative July total ---- *)
Definition zones32 : list N := map N.of_nat (seq 0 32).
Definition table_ok : bool :=
  forallb (fun z => forallb (fun o => match july_total z o with Some h => qleb 0 h | None => false end) all_orients) zones32.

Lemma table_ok_true : table_ok = true.
Proof. vm_compute. reflexivity. Qed.

Theorem table_total z o : In z zones32 -> exists h, july_total z o = Some h /\ 0 <= h.
Proof.
  intros Hz. pose proof table_ok_true as H. unfold table_ok in H.
  rewrite forallb_forall in H. specialize (H z Hz). rewrite forallb_forall in H.
  assert (Ho : In o all_orients) by (destruct o; cbn; tauto). specialize (H o Ho).
  destruct (july_total z o) as [h|]; [|discriminate]. exists h. split; [reflexivity|]. apply qleb_le. exact H.
Qed.

(* exactly one table entry per zone and orientation, each with 12 months (the code's HashMap
   collect and dir[6] are then unambiguous and cannot fail) *)
Definition table_shape_ok : bool :=
  forallb (fun z => forallb (fun o =>
    match filter (fun e => match e with (z', o', _, _) => N.eqb z' z && orient_eqb o' o end) monthly with
    | [(_, _, dir, dif)] => Nat.eqb (length dir) 12 && Nat.eqb (length dif) 12 &&
                            forallb (qleb 0) dir && forallb (qleb 0) dif
    | _ => false end) all_orients) zones32 && Nat.eqb (length monthly) 288.
Lemma table_shape_ok_true : table_shape_ok = true.
Proof. vm_compute. reflexivity. Qed.

(* with complete tables the model never predicts a crash *)
Theorem qsol_defined zone p : In zone zones32 -> exists d, QSol_model zone p = Some d.
Proof.
  intros Hz. unfold QSol_model, sol_items.
  assert (H : exists l, all_some (map (sol_item zone p) (solset p)) = Some l).
  { induction (solset p) as [|w ws IH]; [exists []; reflexivity|]. cbn [map all_some].
    destruct IH as [l Hl]. rewrite Hl. unfold sol_item.
    destruct (table_total zone (np_orient (snd w)) Hz) as [h [Hh _]]. rewrite Hh. eexists. reflexivity. }
  destruct H as [l Hl]. rewrite Hl. eexists. reflexivity.
Qed.
