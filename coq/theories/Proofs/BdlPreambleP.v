From Coq Require Import NArith ZArith Bool List Lia.
From CTE Require Import Model.Bdl Model.BdlDoc Proofs.BdlP.
From CTEGen Require Import BdlTypes.
From Coq Require Import String.
Local Open Scope string_scope.
Import ListNotations.
Local Open Scope N_scope.

(* ---------- the loose LIDER preamble (attribute lines before the general data block) ---------- *)
Definition pre_lines (pre : list aattr) : list str := flat_map attr_lines pre.
Definition partelider_block (pre : list aattr) : block :=
  mkBlock BT_ParteLider (s2l "PARTELIDER") None (attrs_result pre).

Lemma head_facts : edges_ok partelider_head = true /\ ddfree partelider_head = true /\ has nl partelider_head = false /\
  starts_with quote partelider_head = true.
Proof. repeat split; vm_compute; reflexivity. Qed.

Lemma parse_partelider pre : pre <> [] -> forallb wf_attr pre = true ->
  parse_block (partelider_head ++ nl :: join [nl] (pre_lines pre)) = Ok (partelider_block pre).
Proof.
  intros Hne Hwf. destruct head_facts as [He [_ [Hn _]]].
  pose proof (attr_lines_wf pre Hwf) as HA. fold (pre_lines pre) in HA.
  unfold parse_block. rewrite (split_first_app nl _ _ Hn).
  rewrite (trim_id _ He).
  replace (split_first 61 partelider_head) with (s2l """PARTELIDER"" ", Some (s2l " PARTELIDER")) by (vm_compute; reflexivity).
  replace (trim_ch quote (trim (s2l """PARTELIDER"" "))) with (s2l "PARTELIDER") by (vm_compute; reflexivity).
  replace (trim_ch quote (trim (s2l " PARTELIDER"))) with (s2l "PARTELIDER") by (vm_compute; reflexivity).
  unfold parse_attributes. rewrite (data_lines _ HA). unfold pre_lines.
  rewrite <- (app_nil_r (flat_map attr_lines pre)), (attrs_parse pre [] [] Hwf). cbn [parse_attrs].
  replace (parse_type (s2l "PARTELIDER")) with (Some BT_ParteLider) by (vm_compute; reflexivity).
  replace (trim (s2l "PARTELIDER")) with (s2l "PARTELIDER") by (vm_compute; reflexivity).
  reflexivity.
Qed.

Local Close Scope string_scope.

Lemma parent_step_partelider st pre : parent_step st (partelider_block pre) = (None, st).
Proof. destruct st. vm_compute. reflexivity. Qed.

Theorem preamble_roundtrip pre d pls :
  pre <> [] -> forallb wf_attr pre = true -> wf_doc d = true ->
  pls <> [] -> forallb wf_pline pls = true -> forallb not_removed (render pls) = true ->
  contents pls = pre_lines pre ++ doc_lines d ->
  first_marker lider_markers (join [nl] (pre_lines pre ++ doc_lines d)) =
    Some (join [nl] (pre_lines pre) ++ [nl], join [nl] (doc_lines d)) ->
  exists l, expected_from init_ps d = Some l /\ build_blocks (render pls) = Ok (partelider_block pre :: l).
Proof.
  intros Hpre Hwfp Hwf Hne Hpl Hrm Hc Hm.
  destruct (blocks_loop_doc d init_ps Hwf) as [l [He Hl]]. exists l. split; [exact He|].
  destruct head_facts as [Hhe [Hhd [Hhn Hhq]]].
  pose proof (attr_lines_wf pre Hwfp) as HA. fold (pre_lines pre) in HA.
  assert (HPne : pre_lines pre <> []).
  { unfold pre_lines. destruct pre as [|a r]; [contradiction|]. cbn [flat_map]. unfold attr_lines. discriminate. }
  set (c := join [nl] (partelider_head :: pre_lines pre)).
  assert (Hc_eq : c = partelider_head ++ nl :: join [nl] (pre_lines pre)).
  { unfold c. destruct (pre_lines pre); [contradiction | reflexivity]. }
  assert (Hlines : forallb wf_line (partelider_head :: pre_lines pre) = true).
  { cbn [forallb]. rewrite HA. replace (wf_line partelider_head) with true by (vm_compute; reflexivity). reflexivity. }
  assert (Hce : edges_ok c = true).
  { apply edges_ok_join; [discriminate|]. revert Hlines. apply forallb_impl. intros x Hx. apply (wf_line_parts x Hx). }
  assert (Hcd : ddfree c = true).
  { apply ddfree_join. revert Hlines. apply forallb_impl. intros x Hx. apply (wf_line_parts x Hx). }
  assert (Hcq : starts_with quote c = true) by (rewrite Hc_eq; reflexivity).
  clearbody c.
  assert (Hnz : (match c with [] => false | _ => true end) = true) by (destruct c; [discriminate Hce | reflexivity]).
  unfold build_blocks, sanitize, clean_lines.
  rewrite (content_lines_render pls Hne Hpl Hrm), Hc, Hm.
  assert (Htext : partelider_head ++ [nl] ++ (join [nl] (pre_lines pre) ++ [nl]) ++ [nl; 46; 46; nl] ++ join [nl] (doc_lines d) =
                  (c ++ [nl; nl]) ++ 46 :: 46 :: [nl] ++ join [nl] (doc_lines d)).
  { rewrite Hc_eq. cbn [app]. rewrite <- !app_assoc. cbn [app]. reflexivity. }
  rewrite Htext. unfold block_texts. rewrite split_dd_sep.
  - cbn [map filter]. rewrite (trim_wrap_r c [nl; nl] eq_refl Hce).
    cbn [filter]. rewrite Hnz.
    fold (block_texts ([nl] ++ join [nl] (doc_lines d))).
    rewrite (block_texts_doc d [nl] (or_intror eq_refl) Hwf).
    cbn [blocks_loop]. rewrite (is_ignored_quote c Hcq). rewrite Hc_eq at 1. rewrite (parse_partelider pre Hpre Hwfp).
    rewrite parent_step_partelider. rewrite Hl. reflexivity.
  - change (c ++ [nl; nl]) with (c ++ nl :: [nl]). rewrite ddfree_app_nl, Hcd. reflexivity.
  - right. change (c ++ [nl; nl]) with (c ++ [nl] ++ [nl]). rewrite app_assoc, last_app_one. discriminate.
Qed.
