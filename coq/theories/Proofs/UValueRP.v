(* Real-valued facts about the EN ISO 13370 formulas *)
From Coq Require Import Reals Lra.
From Interval Require Import Tactic.
From CTE Require Import Model.UValueR.
Local Open Scope R_scope.

(* perimeter insulation never increases the U-value of the slab: psi <= 0 *)
Theorem psi_nonpos dd dt d1 : 0 <= dd -> 0 < dt -> 0 <= d1 -> psi_ge dd dt d1 <= 0.
Proof.
  intros Hd Ht H1. unfold psi_ge.
  assert (Hq : dd / (dt + d1) <= dd / dt).
  { unfold Rdiv. apply Rmult_le_compat_l; [exact Hd|]. apply Rinv_le_contravar; lra. }
  assert (Hp : 0 <= dd / (dt + d1)) by (unfold Rdiv; apply Rmult_le_pos; [exact Hd | left; apply Rinv_0_lt_compat; lra]).
  assert (Hl : ln (1 + dd / (dt + d1)) <= ln (1 + dd / dt)).
  { destruct (Req_dec (dd / (dt + d1)) (dd / dt)) as [E|E]; [rewrite E; lra|]. left. apply ln_increasing; lra. }
  assert (Hpi : 0 < 2 / PI) by (apply Rdiv_lt_0_compat; [lra | apply PI_RGT_0]).
  replace (- 2 / PI) with (- (2 / PI)) by (unfold Rdiv; ring).
  assert (0 <= (2 / PI) * (ln (1 + dd / dt) - ln (1 + dd / (dt + d1)))) by (apply Rmult_le_pos; lra).
  lra.
Qed.

(* without perimeter insulation (D = 0 or no extra thickness) the correction vanishes *)
Theorem psi_zero_d dt d1 : psi_ge 0 dt d1 = 0.
Proof. unfold psi_ge. unfold Rdiv at 2 3. rewrite !Rmult_0_l, !Rplus_0_r, ln_1. ring. Qed.
Theorem psi_zero_d1 dd dt : psi_ge dd dt 0 = 0.
Proof. unfold psi_ge. rewrite Rplus_0_r. ring. Qed.

(* the reported basement-wall value lies between the buried part and the air part *)
Theorem bwall_between z dw dtm h hnet uw :
  0 < z -> 0 <= h -> hnet = z + h ->
  Rmin (ubw z dw dtm) uw <= bwall_u z dw dtm h hnet uw <= Rmax (ubw z dw dtm) uw.
Proof.
  intros Hz Hh E. unfold bwall_u. subst hnet. set (a := ubw z dw dtm).
  assert (Hs : 0 < z + h) by lra.
  pose proof (Rmin_l a uw). pose proof (Rmin_r a uw). pose proof (Rmax_l a uw). pose proof (Rmax_r a uw).
  split.
  - apply Rmult_le_reg_r with (z + h); [exact Hs|]. unfold Rdiv. rewrite Rmult_assoc, Rinv_l by lra. nra.
  - apply Rmult_le_reg_r with (z + h); [exact Hs|]. unfold Rdiv. rewrite Rmult_assoc, Rinv_l by lra. nra.
Qed.
