(* Proofs about Model/Solar.v *)
From Coq Require Import Reals Lra Nsatz.
From CTE Require Import Model.Solar.
Local Open Scope R_scope.

Lemma sc2 x : sind x * sind x + cosd x * cosd x = 1.
Proof. unfold sind, cosd. pose proof (sin2_cos2 (rad x)) as H. unfold Rsqr in H. exact H. Qed.

(* the sun vector is a unit vector *)
Theorem sun_unit d w l : sun_E d w * sun_E d w + sun_N d w l * sun_N d w l + sun_U d w l * sun_U d w l = 1.
Proof.
  unfold sun_E, sun_N, sun_U.
  pose proof (sc2 d) as Hd. pose proof (sc2 w) as Hw. pose proof (sc2 l) as Hl.
  set (sd := sind d) in *. set (cd := cosd d) in *. set (sw := sind w) in *. set (cw := cosd w) in *.
  set (sl := sind l) in *. set (cl := cosd l) in *. nsatz.
Qed.
Theorem normal_unit b g : nrm_E b g * nrm_E b g + nrm_N b g * nrm_N b g + nrm_U b * nrm_U b = 1.
Proof.
  unfold nrm_E, nrm_N, nrm_U. pose proof (sc2 b) as Hb. pose proof (sc2 g) as Hg.
  set (sb := sind b) in *. set (cb := cosd b) in *. set (sg := sind g) in *. set (cg := cosd g) in *. nsatz.
Qed.

(* the incidence formula of the code is the dot product of the sun vector and the outward normal *)
Theorem incidence_is_dot d w l b g :
  cos_inc d w l b g = sun_E d w * nrm_E b g + sun_N d w l * nrm_N b g + sun_U d w l * nrm_U b.
Proof. unfold cos_inc, sun_E, sun_N, sun_U, nrm_E, nrm_N, nrm_U. ring. Qed.

(* altitude and azimuth (from south, east positive) reconstruct the sun vector *)
Theorem altitude_azimuth_reconstruct d w l az alt :
  sind alt = sun_U d w l -> cosd alt <> 0 ->
  sind az = sun_E d w / cosd alt -> cosd az = - sun_N d w l / cosd alt ->
  ray_E az alt = sun_E d w /\ ray_N az alt = sun_N d w l /\ ray_U alt = sun_U d w l.
Proof.
  intros Ha Hc Hs Hco. unfold ray_E, ray_N, ray_U. rewrite Hs, Hco, Ha. repeat split; field; exact Hc.
Qed.

(* the normal of the model against the ray towards the sun *)
Theorem normal_matches_dir b g az alt :
  nrm_E b g * ray_E az alt + nrm_N b g * ray_N az alt + nrm_U b * ray_U alt =
  sind b * cosd alt * cos (rad az - rad g) + cosd b * sind alt.
Proof. unfold nrm_E, nrm_N, nrm_U, ray_E, ray_N, ray_U, sind, cosd. rewrite cos_minus. ring. Qed.

(* horizontal surface: beam + diffuse = horizontal input *)
Theorem horizontal_conserves gb gdir dif f1 f2 a b rho salt :
  b <> 0 -> a = b -> 0 <= gdir -> gb * salt = gdir ->
  dir_tot gb salt dif f1 a b + dif_tot gb dif f1 f2 a b 0 salt rho = gdir + dif.
Proof.
  intros Hb Hab Hg Hgb. unfold dir_tot, dif_tot, i_dir, i_circum, i_dif, i_dif_grnd, cosd, sind, rad.
  replace (0 * PI / 180) with 0 by field. rewrite cos_0, sin_0, Hgb, Rmax_right by exact Hg. subst a. field. exact Hb.
Qed.

(* downward-facing surface: no beam, diffuse = albedo x global horizontal *)
Theorem downward_albedo gb gdir dif f1 f2 b rho salt ct :
  b <> 0 -> gb * ct <= 0 -> gb * salt = gdir ->
  dir_tot gb ct dif f1 0 b = 0 /\ dif_tot gb dif f1 f2 0 b 180 salt rho = rho * (gdir + dif).
Proof.
  intros Hb Hct Hgb. unfold dir_tot, dif_tot, i_dir, i_circum, i_dif, i_dif_grnd, cosd, sind, rad.
  replace (180 * PI / 180) with PI by field. rewrite cos_PI, sin_PI, Hgb, Rmax_left by exact Hct. split; field; exact Hb.
Qed.

(* beam radiation (direct + circumsolar) is never negative *)
Theorem beam_nonneg gb ct dif f1 a b : 0 <= dif -> 0 <= f1 -> 0 <= a -> 0 < b -> 0 <= dir_tot gb ct dif f1 a b.
Proof.
  intros Hd Hf Ha Hb. unfold dir_tot, i_dir, i_circum.
  pose proof (Rmax_l 0 (gb * ct)).
  assert (0 <= dif * f1 * a / b).
  { unfold Rdiv. apply Rmult_le_pos; [apply Rmult_le_pos; [apply Rmult_le_pos|]|]; try assumption. left. apply Rinv_0_lt_compat. exact Hb. }
  lra.
Qed.
