(* Proofs about Model/History.v *)
From Coq Require Import NArith Bool List Lia.
From CTE Require Import Model.History.
Import ListNotations.

Section MachineP.
  Variables (state op out : Type).
  Variable step : state -> op -> state * out.
  Hypothesis RO : read_only step.

  Lemma run_state s h : fst (run step s h) = s.
  Proof.
    revert s; induction h as [|o r IH]; intros s; cbn [run]; [reflexivity|].
    destruct (step s o) as [s1 x] eqn:E. specialize (IH s1). destruct (run step s1 r) as [s2 xs].
    cbn [fst] in *. rewrite IH. pose proof (RO s o) as H. rewrite E in H. exact H.
  Qed.

  (* whatever ran before, and in whatever order the threads took the state, every operation
     returns what it returns when run alone from the initial state *)
  Theorem history_independent s0 h : snd (run step s0 h) = map (alone step s0) h.
  Proof.
    revert s0; induction h as [|o r IH]; intros s0; cbn [run map]; [reflexivity|].
    destruct (step s0 o) as [s1 x] eqn:E. specialize (IH s1).
    assert (Hs : s1 = s0) by (pose proof (RO s0 o) as H; rewrite E in H; exact H). subst s1.
    destruct (run step s0 r) as [s2 xs]. cbn [snd] in *. rewrite IH. f_equal. unfold alone. rewrite E. reflexivity.
  Qed.

  Corollary after_any_prefix s0 pre o : snd (step (fst (run step s0 pre)) o) = alone step s0 o.
  Proof. rewrite run_state. reflexivity. Qed.

  (* two schedules that are permutations of each other (any interleaving of the same threads)
     give each operation the same output *)
  Corollary schedule_independent s0 h1 h2 o x :
    In (o, x) (combine h1 (snd (run step s0 h1))) -> In o h2 ->
    In (o, x) (combine h2 (snd (run step s0 h2))).
  Proof.
    rewrite !history_independent. intros H1 H2.
    assert (Hx : x = alone step s0 o).
    { clear H2. induction h1 as [|a r IH]; [contradiction|]. cbn in H1. destruct H1 as [H|H]; [inversion H; reflexivity | exact (IH H)]. }
    subst x. clear H1. induction h2 as [|a r IH]; [contradiction|]. cbn. destruct H2 as [->|H]; [left; reflexivity | right; exact (IH H)].
  Qed.
End MachineP.

(* the observations of a read-only machine always pass the test the correspondence applies *)
Definition observe {op out} (key : op -> N) (dig : out -> N) (h : list op) (xs : list out) : list obs :=
  map (fun p => mkObs (key (fst p)) (dig (snd p))) (combine h xs).

Lemma functionalb_spec l : functionalb l = true <->
  forall a b, In a l -> In b l -> ob_key a = ob_key b -> ob_out a = ob_out b.
Proof.
  unfold functionalb. rewrite forallb_forall. split.
  - intros H a b Ha Hb Hk. specialize (H a Ha). rewrite forallb_forall in H. specialize (H b Hb).
    apply orb_true_iff in H. destruct H as [H|H].
    + apply negb_true_iff, N.eqb_neq in H. contradiction.
    + apply N.eqb_eq, H.
  - intros H a Ha. apply forallb_forall. intros b Hb. destruct (N.eqb_spec (ob_key a) (ob_key b)) as [E|E]; cbn; [|reflexivity].
    apply N.eqb_eq, (H a b Ha Hb E).
Qed.

Theorem read_only_functional {state op out} (step : state -> op -> state * out) (key : op -> N) (dig : out -> N) :
  read_only step -> (forall o1 o2, key o1 = key o2 -> o1 = o2) ->
  forall s0 (hs : list (list op)),
    functionalb (concat (map (fun h => observe key dig h (snd (run step s0 h))) hs)) = true.
Proof.
  intros RO Kinj s0 hs. apply functionalb_spec.
  assert (Hall : forall a, In a (concat (map (fun h => observe key dig h (snd (run step s0 h))) hs)) ->
                 exists o, ob_key a = key o /\ ob_out a = dig (alone step s0 o)).
  { intros a Ha. apply in_concat in Ha. destruct Ha as [l [Hl Ha]]. apply in_map_iff in Hl. destruct Hl as [h [<- _]].
    rewrite (history_independent _ _ _ step RO) in Ha. unfold observe in Ha. apply in_map_iff in Ha. destruct Ha as [[o x] [<- Hin]].
    exists o. cbn. split; [reflexivity|].
    assert (x = alone step s0 o); [|subst; reflexivity].
    clear -Hin. induction h as [|a r IH]; [contradiction|]. cbn in Hin. destruct Hin as [H|H]; [inversion H; reflexivity | exact (IH H)]. }
  intros a b Ha Hb Hk. destruct (Hall a Ha) as [o1 [K1 O1]]. destruct (Hall b Hb) as [o2 [K2 O2]].
  rewrite K1, K2 in Hk. apply Kinj in Hk. subst o2. congruence.
Qed.

(* a writing machine can fail the test: the test is not vacuous *)
Definition cache_step (s : option N) (o : N) : option N * N :=
  match s with Some v => (s, v) | None => (Some o, o) end.
Lemma cache_not_functional :
  functionalb (observe (fun o => o) (fun x => x) [1;2]%N (snd (run cache_step None [1;2]%N)) ++
               observe (fun o => o) (fun x => x) [2]%N (snd (run cache_step None [2]%N))) = false.
Proof. reflexivity. Qed.

Lemma first_clash_none l : first_clash l = None -> functionalb l = true.
Proof.
  intros H. apply functionalb_spec.
  induction l as [|x r IH]; [intros ? ? []|]. cbn [first_clash] in H.
  destruct (find _ r) eqn:F; [discriminate|]. specialize (IH H).
  assert (Hx : forall b, In b r -> ob_key x = ob_key b -> ob_out x = ob_out b).
  { intros b Hb Hk. pose proof (find_none _ _ F b Hb) as N0. cbn in N0. rewrite (proj2 (N.eqb_eq _ _) Hk) in N0. cbn in N0.
    apply negb_false_iff, N.eqb_eq in N0. exact N0. }
  intros a b [<-|Ha] [<-|Hb] Hk; [reflexivity | apply Hx; assumption | symmetry; apply Hx; [assumption | symmetry; assumption] | apply IH; assumption].
Qed.

(* adding definitions never changes the id of an element whose id is a function of its own definition *)
Theorem ids_kept_of_local_ids {el} (key id : el -> N) (proj extra : list el) :
  ids_kept (map (fun e => mkObs (key e) (id e)) proj) (map (fun e => mkObs (key e) (id e)) (proj ++ extra)) = true.
Proof.
  unfold ids_kept. apply forallb_forall. intros a Ha. apply existsb_exists. exists a. split.
  - rewrite map_app. apply in_or_app. left. exact Ha.
  - rewrite !N.eqb_refl. reflexivity.
Qed.

Lemma shared_state_read_only_ok : shared_state_read_only = true.
Proof. vm_compute. reflexivity. Qed.
