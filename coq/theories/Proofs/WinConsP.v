(* Proofs about Model/WinCons.v *)
From Coq Require Import ZArith NArith QArith Qabs Bool List Lia Lqa.
From CTE Require Import Base.Num Model.BModel Model.Props Model.WinCons Proofs.NumP.
Import ListNotations.
Local Open Scope Q_scope.

(* the U-value lies between the glazing and frame values scaled by (1 + dU/100) *)
Theorem u_win_between du ff uf ug :
  0 <= ff <= 1 -> 0 <= du ->
  (1 + du / 100) * qmin ug uf <= u_win_formula du ff uf ug <= (1 + du / 100) * qmax ug uf.
Proof.
  intros [Hf0 Hf1] Hdu. unfold u_win_formula.
  assert (Hk : 0 < 1 + du / 100). { assert (0 <= du / 100) by (apply Qle_shift_div_l; lra). lra. }
  pose proof (qmin_lb_l ug uf). pose proof (qmin_lb_r ug uf). pose proof (qmax_ub_l ug uf). pose proof (qmax_ub_r ug uf).
  set (k := 1 + du / 100) in *. set (lo := qmin ug uf) in *. set (hi := qmax ug uf) in *.
  assert (A : lo <= uf * ff + ug * (1 - ff)) by nra.
  assert (B : uf * ff + ug * (1 - ff) <= hi) by nra.
  split; nra.
Qed.

Theorem u_win_ff0 du uf ug : u_win_formula du 0 uf ug == (1 + du / 100) * ug.
Proof. unfold u_win_formula. ring. Qed.
Theorem u_win_ff1 du uf ug : u_win_formula du 1 uf ug == (1 + du / 100) * uf.
Proof. unfold u_win_formula. ring. Qed.

Theorem u_win_monotone_du du du' ff uf ug :
  0 <= ff <= 1 -> 0 <= uf -> 0 <= ug -> du <= du' -> u_win_formula du ff uf ug <= u_win_formula du' ff uf ug.
Proof.
  intros [Hf0 Hf1] Huf Hug Hd. unfold u_win_formula.
  assert (0 <= uf * ff + ug * (1 - ff)) by nra.
  assert (du / 100 <= du' / 100) by (unfold Qdiv; apply Qmult_le_compat_r; [exact Hd | apply Qinv_le_0_compat; lra]).
  nra.
Qed.

Theorem u_win_spec db wc g f :
  get_glass db (wnc_glass wc) = Some g -> get_frame db (wnc_frame wc) = Some f ->
  u_win db wc = Some ((1 + wnc_du wc / 100) * (fr_u f * wnc_ff wc + gl_u g * (1 - wnc_ff wc))).
Proof. intros Hg Hf. unfold u_win. rewrite Hg, Hf. reflexivity. Qed.

Theorem missing_glass_none db wc : get_glass db (wnc_glass wc) = None -> u_win db wc = None /\ g_glwi db wc = None.
Proof. intros H. unfold u_win, g_glwi. rewrite H. split; reflexivity. Qed.
Theorem missing_frame_none db wc : get_frame db (wnc_frame wc) = None -> u_win db wc = None.
Proof. intros H. unfold u_win. rewrite H. destruct (get_glass db (wnc_glass wc)); reflexivity. Qed.

Theorem g_glwi_spec db wc g : get_glass db (wnc_glass wc) = Some g -> g_glwi db wc = Some ((9 # 10) * gl_g g).
Proof. intros H. unfold g_glwi. rewrite H. reflexivity. Qed.

(* the user value when given, the unshaded factor otherwise *)
Theorem g_precedence_user db wc x : wnc_gglshwi wc = Some x -> g_glshwi db wc = Some x.
Proof. intros H. unfold g_glshwi. rewrite H. reflexivity. Qed.
Theorem g_precedence_none db wc : wnc_gglshwi wc = None -> g_glshwi db wc = g_glwi db wc.
Proof. intros H. unfold g_glshwi. rewrite H. reflexivity. Qed.

(* documented default when the glazing is missing *)
Theorem props_defaults db wc :
  get_glass db (wnc_glass wc) = None ->
  props_g_glwi db wc = 77 # 100 /\
  props_g_glshwi db wc = match wnc_gglshwi wc with Some x => x | None => 77 # 100 end.
Proof.
  intros H. unfold props_g_glshwi, props_g_glwi, g_glshwi, g_glwi. rewrite H.
  split; [reflexivity|]. destruct (wnc_gglshwi wc); reflexivity.
Qed.
