(* Proofs about the U-value model (Model/UValue.v, Model/UValueR.v) *)
From Coq Require Import ZArith NArith QArith Qabs Bool List Lia Lqa.
From CTE Require Import Base.Num Model.BModel Model.Props Model.Geometry Model.UValue Proofs.NumP.
From CTEGen Require Import Constants.
Import ListNotations.
Local Open Scope Q_scope.

Lemma rsi_pos t : 0 < rsi t. Proof. destruct t; reflexivity. Qed.

Lemma inv_antitone a b : 0 < a -> a <= b -> 1 / b <= 1 / a.
Proof.
  intros Ha Hab. apply Qle_shift_div_l; [lra|].
  assert (E : 1 / b * a == a / b) by (field; lra). rewrite E. apply Qle_shift_div_r; lra.
Qed.

(* ---- air contact ---- *)
Theorem u_air_formula r t :
  u_air r t == 1 / (r + match t with BOTTOM => 17 # 100 | TOP => 10 # 100 | SIDE => 13 # 100 end + (4 # 100)).
Proof. unfold u_air. destruct t; reflexivity. Qed.

(* more resistance, less transmittance *)
Theorem u_air_antitone r d t : 0 <= r -> 0 <= d -> u_air (r + d) t <= u_air r t.
Proof.
  intros Hr Hd. unfold u_air, RSE. pose proof (rsi_pos t). apply inv_antitone; lra.
Qed.
Theorem u_air_pos r t : 0 <= r -> 0 < u_air r t.
Proof.
  intros Hr. unfold u_air, RSE. pose proof (rsi_pos t).
  apply Qlt_shift_div_l; lra.
Qed.

(* adding a layer (of non-negative resistance) never increases U *)
Theorem add_layer_le db l ls r r' t :
  layers_r db ls = Some r -> layers_r db (l :: ls) = Some r' -> 0 <= r ->
  (forall x, layer_r db l = Some x -> 0 <= x) -> u_air r' t <= u_air r t.
Proof.
  intros H1 H2 Hr Hx. cbn [layers_r] in H2. rewrite H1 in H2.
  destruct (layer_r db l) as [x|] eqn:E; [|discriminate]. injection H2 as <-.
  specialize (Hx x eq_refl).
  assert (Eq : x + r == r + x) by ring. unfold u_air. rewrite Eq. apply (u_air_antitone r x t Hr Hx).
Qed.

(* thickening a layer never decreases its resistance *)
Theorem thicken_layer_le db m e e' x x' :
  layer_r db (mkLayer m e) = Some x -> layer_r db (mkLayer m e') = Some x' -> e <= e' -> x <= x'.
Proof.
  unfold layer_r. cbn [l_mat l_e]. destruct (get_material db m) as [mt|]; [|discriminate].
  destruct (m_props mt) as [k d c v|rr v].
  - destruct (qltb 0 k) eqn:Ek; [|discriminate]. apply qltb_lt' in Ek.
    intros H1 H2 He. injection H1 as <-. injection H2 as <-.
    unfold Qdiv. apply Qmult_le_compat_r; [exact He | apply Qinv_le_0_compat; lra].
  - intros H1 H2 _. injection H1 as <-. injection H2 as <-. lra.
Qed.

Lemma layer_r_nonneg db l x : 0 <= l_e l -> layer_r db l = Some x ->
  (forall mt rr v, get_material db (l_mat l) = Some mt -> m_props mt = Resistance rr v -> 0 <= rr) -> 0 <= x.
Proof.
  intros He H Hr. unfold layer_r in H. destruct (get_material db (l_mat l)) as [mt|] eqn:Em; [|discriminate].
  destruct (m_props mt) as [k d c v|rr v] eqn:Ep.
  - destruct (qltb 0 k) eqn:Ek; [|discriminate]. apply qltb_lt' in Ek. injection H as <-.
    apply Qle_shift_div_l; lra.
  - injection H as <-. apply (Hr mt rr v eq_refl Ep).
Qed.

(* ---- partitions towards an unconditioned space ---- *)
Theorem u_partition_formula a_i r_f ua q : ~ ua + (33 # 100) * q == 0 ->
  u_partition a_i r_f ua q == 1 / (r_f + a_i / (ua + (33 # 100) * q)).
Proof.
  intros H. unfold u_partition, VENT_COEF. apply qeqb_neq in H. rewrite H. reflexivity.
Qed.

Theorem u_partition_le_uf a_i r_f ua q :
  0 < r_f -> 0 <= a_i -> 0 <= ua + VENT_COEF * q -> u_partition a_i r_f ua q <= 1 / r_f.
Proof.
  intros Hr Ha Hh. unfold u_partition. destruct (qeqb (ua + VENT_COEF * q) 0) eqn:E.
  - apply Qle_shift_div_l; lra.
  - apply qeqb_neq in E. assert (Hpos : 0 < ua + VENT_COEF * q).
    { destruct (Qlt_le_dec 0 (ua + VENT_COEF * q)); [assumption|]. exfalso. apply E. lra. }
    assert (0 <= a_i / (ua + VENT_COEF * q)) by (apply Qle_shift_div_l; lra).
    apply inv_antitone; lra.
Qed.

Theorem u_partition_antitone a_i r_f r_f' ua q :
  0 < r_f -> r_f <= r_f' -> 0 <= a_i -> 0 <= ua + VENT_COEF * q ->
  u_partition a_i r_f' ua q <= u_partition a_i r_f ua q.
Proof.
  intros Hr Hle Ha Hh. unfold u_partition. destruct (qeqb (ua + VENT_COEF * q) 0) eqn:E; [lra|].
  apply qeqb_neq in E. assert (Hpos : 0 < ua + VENT_COEF * q).
  { destruct (Qlt_le_dec 0 (ua + VENT_COEF * q)); [assumption|]. exfalso. apply E. lra. }
  assert (0 <= a_i / (ua + VENT_COEF * q)) by (apply Qle_shift_div_l; lra).
  apply inv_antitone; lra.
Qed.

(* heat-flow direction: downwards through a floor above an unconditioned space, upwards through a
   ceiling below one, horizontal otherwise *)
Theorem rf_dir_spec :
  rf_dir true false BOTTOM = RSI_DOWN /\ rf_dir false true TOP = RSI_DOWN /\
  rf_dir true false TOP = RSI_UP /\ rf_dir false true BOTTOM = RSI_UP /\
  (forall a b, rf_dir a b SIDE = RSI_HORIZ) /\ (forall t, rf_dir true true t = RSI_HORIZ) /\
  (forall t, rf_dir false false t = RSI_HORIZ).
Proof. repeat split; try reflexivity; intros; try (destruct a, b; reflexivity); destruct t; reflexivity. Qed.

(* ---- missing data: no U-value ---- *)
Theorem missing_cons_none m p cd v w : get_wallcons (m_cons m) (w_cons w) = None -> u_model m p cd v w = UNone.
Proof. intros H. unfold u_model. rewrite H. reflexivity. Qed.

Theorem missing_material_none m p cd v w c :
  get_wallcons (m_cons m) (w_cons w) = Some c -> resistance (m_cons m) c = None -> u_model m p cd v w = UNone.
Proof.
  intros Hc Hr. unfold u_model. rewrite Hc, Hr.
  destruct (w_bounds w); try reflexivity.
  destruct (get_space m (w_space w)); [|reflexivity].
  destruct (w_next w); [|reflexivity]. destruct (get_space m u); reflexivity.
Qed.

Theorem air_contact_value m p cd v w c r :
  get_wallcons (m_cons m) (w_cons w) = Some c -> resistance (m_cons m) c = Some r ->
  (w_bounds w = EXTERIOR \/ w_bounds w = ADIABATIC) -> u_model m p cd v w = URat (u_air r (wall_tilt w)).
Proof. intros Hc Hr [Hb|Hb]; unfold u_model; rewrite Hc, Hr, Hb; reflexivity. Qed.

(* ---- the constants of the code are the constants of the standards ---- *)
Fixpoint qlist_eqb (a b : list Q) : bool :=
  match a, b with [], [] => true | x :: a', y :: b' => qeqb x y && qlist_eqb a' b' | _, _ => false end.
Theorem constants_match : qlist_eqb repo_u_constants spec_constants = true.
Proof. vm_compute. reflexivity. Qed.
