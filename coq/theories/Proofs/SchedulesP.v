(* Proofs about the schedule models (Model/Schedules.v) *)
From Coq Require Import ZArith NArith QArith Qabs Bool List Arith Lia Lqa.
From CTE Require Import Base.Num Model.BModel Model.Props Model.Schedules Proofs.NumP.
Import ListNotations.
Local Open Scope nat_scope.

(* ---------- expansion: as many days as the period lengths add up to ---------- *)
Definition counts_sum (vals : list (uuid * N)) : nat := fold_right Nat.add O (map (fun v => N.to_nat (snd v)) vals).
Definition weeks_nonempty (db : scheddb) (vals : list (uuid * N)) : Prop :=
  forall v, In v vals -> week_days_of db (fst v) <> [].
Definition weeks_7 (db : scheddb) (vals : list (uuid * N)) : Prop :=
  forall v, In v vals -> length (week_days_of db (fst v)) = 7.

Lemma cyc_take_length l skip count : l <> [] -> length (cyc_take l skip count) = count.
Proof. intros H. destruct l; [contradiction|]. unfold cyc_take. rewrite map_length, seq_length. reflexivity. Qed.

Lemma expand_from_length db vals : forall cur,
  weeks_nonempty db vals -> length (expand_from db vals cur) = counts_sum vals.
Proof.
  induction vals as [|[wid c] r IH]; intros cur H; [reflexivity|].
  cbn [expand_from]. rewrite app_length, cyc_take_length, IH.
  - reflexivity.
  - intros v Hv. apply H. right. exact Hv.
  - apply (H (wid, c)). left. reflexivity.
Qed.

Theorem expand_length db id y :
  get_year db id = Some y -> weeks_nonempty db (sc_values y) ->
  length (expand db id) = counts_sum (sc_values y).
Proof. intros Hy H. unfold expand. rewrite Hy. apply expand_from_length. exact H. Qed.

(* ---------- weekday alignment: day d takes slot (d mod 7) of the week of its period ---------- *)
(* the weekly schedule in force on day d (counted from the start of vals) *)
Fixpoint week_at (vals : list (uuid * N)) (d : nat) : option uuid :=
  match vals with
  | [] => None
  | (wid, c) :: r => if d <? N.to_nat c then Some wid else week_at r (d - N.to_nat c)
  end.

Lemma cyc_take_nth l skip count k :
  l <> [] -> k < count -> nth k (cyc_take l skip count) 0%N = nth ((skip + k) mod length l) l 0%N.
Proof.
  intros Hl Hk. destruct l as [|x l']; [contradiction|]. unfold cyc_take.
  set (f := fun k0 => nth ((skip + k0) mod length (x :: l')) (x :: l') 0%N).
  rewrite (nth_indep _ 0%N (f 0)) by (rewrite map_length, seq_length; exact Hk).
  rewrite map_nth. unfold f. rewrite seq_nth by exact Hk. reflexivity.
Qed.

Lemma expand_from_weekday db vals : forall cur d,
  weeks_7 db vals -> d < counts_sum vals ->
  exists wid, week_at vals d = Some wid /\
    nth d (expand_from db vals cur) 0%N = nth ((cur + d) mod 7) (week_days_of db wid) 0%N.
Proof.
  induction vals as [|[wid c] r IH]; intros cur d H7 Hd; [cbn in Hd; lia|].
  cbn [expand_from week_at]. cbn [counts_sum map fold_right snd] in Hd. fold (counts_sum r) in Hd.
  assert (Hw : length (week_days_of db wid) = 7) by (apply (H7 (wid, c)); left; reflexivity).
  assert (Hne : week_days_of db wid <> []) by (intros E; rewrite E in Hw; discriminate).
  destruct (Nat.ltb_spec d (N.to_nat c)) as [Hlt|Hge].
  - exists wid. split; [reflexivity|].
    rewrite app_nth1 by (rewrite cyc_take_length; assumption).
    rewrite cyc_take_nth by assumption. rewrite Hw.
    f_equal. rewrite Nat.add_mod_idemp_l by lia. reflexivity.
  - destruct (IH (cur + N.to_nat c) (d - N.to_nat c)) as [w [Hwa Hn]].
    + intros v Hv. apply H7. right. exact Hv.
    + lia.
    + exists w. split; [exact Hwa|].
      rewrite app_nth2 by (rewrite cyc_take_length; assumption).
      rewrite cyc_take_length by assumption. rewrite Hn. f_equal. f_equal. lia.
Qed.

Theorem expand_weekday db id y d :
  get_year db id = Some y -> weeks_7 db (sc_values y) -> d < counts_sum (sc_values y) ->
  exists wid, week_at (sc_values y) d = Some wid /\
    nth d (expand db id) 0%N = nth (d mod 7) (week_days_of db wid) 0%N.
Proof.
  intros Hy H7 Hd. unfold expand. rewrite Hy.
  destruct (expand_from_weekday db (sc_values y) 0 d H7 Hd) as [w [Hw Hn]]. exists w. split; assumption.
Qed.

(* ---------- day of year agrees with the calendar (non-leap year) ---------- *)
Definition valid_date (m d : Z) : bool := (1 <=? m)%Z && (m <=? 12)%Z && (1 <=? d)%Z && (d <=? month_len m)%Z.
Definition all_dates : list (Z * Z) :=
  flat_map (fun m => map (fun d => (Z.of_nat m, Z.of_nat d)) (seq 1 31)) (seq 1 12).
Definition doy_ok : bool :=
  forallb (fun md => if valid_date (fst md) (snd md)
                     then Z.eqb (day_of_year (snd md) (fst md)) (cum_days (fst md) + snd md) else true) all_dates.
Lemma doy_ok_true : doy_ok = true. Proof. vm_compute. reflexivity. Qed.

Lemma in_all_dates m d : (1 <= m <= 12)%Z -> (1 <= d <= 31)%Z -> In (m, d) all_dates.
Proof.
  intros Hm Hd. unfold all_dates. apply in_flat_map. exists (Z.to_nat m). split.
  - apply in_seq. lia.
  - apply in_map_iff. exists (Z.to_nat d). split; [f_equal; lia | apply in_seq; lia].
Qed.

Theorem day_of_year_calendar m d :
  valid_date m d = true -> day_of_year d m = (cum_days m + d)%Z.
Proof.
  intros Hv. pose proof doy_ok_true as H. unfold doy_ok in H. rewrite forallb_forall in H.
  assert (Hin : In (m, d) all_dates).
  { unfold valid_date in Hv. rewrite !andb_true_iff, !Z.leb_le in Hv. apply in_all_dates; [lia|].
    assert (month_len m <= 31)%Z by (destruct m as [|p|p]; try (cbn; lia); do 4 (try destruct p; cbn; try lia)). lia. }
  specialize (H (m, d) Hin). cbn [fst snd] in H. rewrite Hv in H. apply Z.eqb_eq. exact H.
Qed.

Theorem day_of_year_31_dec : day_of_year 31 12 = 365%Z. Proof. reflexivity. Qed.

(* ---------- end dates partition the year exactly at those dates ---------- *)
Fixpoint increasing_from (prev : Z) (l : list Z) : Prop :=
  match l with [] => True | e :: r => (prev < e)%Z /\ increasing_from e r end.
Fixpoint prefix_sums (acc : Z) (l : list Z) : list Z :=
  match l with [] => [] | x :: r => (acc + x)%Z :: prefix_sums (acc + x) r end.
Definition zsum (l : list Z) : Z := fold_right Z.add 0%Z l.

Lemma periods_from_spec ends : forall prev,
  increasing_from prev ends ->
  Forall (fun p => (0 < p)%Z) (periods_from prev ends) /\
  prefix_sums prev (periods_from prev ends) = ends /\
  zsum (periods_from prev ends) = (last ends prev - prev)%Z /\
  length (periods_from prev ends) = length ends.
Proof.
  induction ends as [|e r IH]; intros prev H.
  - cbn. repeat split; try constructor; lia.
  - destruct H as [Hlt Hr]. destruct (IH e Hr) as [Hpos [Hpre [Hsum Hlen]]].
    cbn [periods_from prefix_sums zsum fold_right length]. repeat split.
    + constructor; [lia | exact Hpos].
    + replace (prev + (e - prev))%Z with e by lia. rewrite Hpre. reflexivity.
    + fold (zsum (periods_from e r)). rewrite Hsum.
      assert (Hl : forall (l : list Z) a b c, last (a :: l) b = last (a :: l) c).
      { clear. induction l as [|x l IHl]; intros a b c; [reflexivity|]. 
        change (last (a :: x :: l) b) with (last (x :: l) b). change (last (a :: x :: l) c) with (last (x :: l) c). apply IHl. }
      destruct r as [|e' r']; [cbn [last]; lia|].
      change (last (e :: e' :: r') prev) with (last (e' :: r') prev). rewrite (Hl r' e' prev e). lia.
    + rewrite Hlen. reflexivity.
Qed.

Theorem end_dates_partition ends :
  increasing_from 0 ends -> last ends 0%Z = 365%Z ->
  zsum (periods ends) = 365%Z /\ Forall (fun p => (0 < p)%Z) (periods ends) /\
  prefix_sums 0 (periods ends) = ends /\ length (periods ends) = length ends.
Proof.
  intros Hinc Hlast. unfold periods. destruct (periods_from_spec ends 0 Hinc) as [Hpos [Hpre [Hsum Hlen]]].
  repeat split; try assumption. rewrite Hsum, Hlast. reflexivity.
Qed.

(* ---------- weekly runs cover the 7 given days ---------- *)
Definition runs_days (v : list (uuid * N)) : list uuid := flat_map (fun p => repeat (fst p) (N.to_nat (snd p))) v.

Lemma rle_from_expand l : forall cur n,
  runs_days (rle_from cur n l) = repeat cur (N.to_nat n) ++ l.
Proof.
  induction l as [|x r IH]; intros cur n.
  - cbn. rewrite !app_nil_r. reflexivity.
  - cbn [rle_from]. destruct (N.eqb_spec x cur) as [->|Hne].
    + rewrite IH. replace (N.to_nat (n + 1)) with (N.to_nat n + 1) by lia.
      rewrite repeat_app, <- app_assoc. reflexivity.
    + change (runs_days ((cur, n) :: rle_from x 1 r)) with (repeat cur (N.to_nat n) ++ runs_days (rle_from x 1 r)).
      rewrite IH. reflexivity.
Qed.

Theorem week_runs_expand names v : week_runs names = Some v ->
  (length names = 7 -> runs_days v = names) /\
  (forall x, names = [x] -> runs_days v = repeat x 7) /\ length (runs_days v) = 7.
Proof.
  unfold week_runs. destruct names as [|x r]; [discriminate|]. destruct r as [|y r'].
  - intros H. inversion H; subst v. cbn. repeat split; try reflexivity; try discriminate.
    intros x0 E. inversion E; subst. reflexivity.
  - destruct (Nat.eqb_spec (length (x :: y :: r')) 7) as [H7|H7]; [|discriminate].
    intros H. injection H as <-.
    change (if (y =? x)%N then rle_from x 2 r' else (x, 1%N) :: rle_from y 1 r') with (rle_from x 1 (y :: r')).
    rewrite rle_from_expand. cbn [N.to_nat Pos.to_nat Pos.iter_op repeat app].
    repeat split; try assumption; try reflexivity. intros x0 E. discriminate.
Qed.

Theorem day_values_24 vals v : day_values vals = Some v ->
  length v = 24 /\ (length vals = 24 -> v = vals) /\ (forall x, vals = [x] -> v = repeat x 24).
Proof.
  unfold day_values. destruct vals as [|x r]; [cbn; discriminate|]. destruct r as [|y r'].
  - intros H. inversion H; subst v. repeat split; [discriminate | intros x0 E; inversion E; reflexivity].
  - destruct (Nat.eqb_spec (length (x :: y :: r')) 24) as [H24|H24]; [|discriminate].
    intros H. injection H as <-. repeat split; try assumption; try reflexivity. intros x0 E. discriminate.
Qed.

(* ---------- occupied hours ---------- *)
(* an hour counts exactly when some listed daily schedule is non-zero in it *)
Theorem hours_of_day_spec db ids :
  hours_of_day db ids = length (filter (fun h => existsb (fun id => day_nonzero db id h) ids) (seq 0 24)) /\
  hours_of_day db ids <= 24.
Proof.
  split; [reflexivity|]. unfold hours_of_day.
  assert (H : forall (f : nat -> bool) l, length (filter f l) <= length l).
  { intros f l. induction l as [|a l IH]; cbn; [lia|]. destruct (f a); cbn; lia. }
  specialize (H (fun h => existsb (fun id => day_nonzero db id h) ids) hours24). unfold hours24 in *.
  rewrite seq_length in H. exact H.
Qed.

(* duplicates and order of the day's schedules are irrelevant (the code sorts and dedups them) *)
Theorem hours_of_day_same_set db ids ids' :
  (forall x, In x ids <-> In x ids') -> hours_of_day db ids = hours_of_day db ids'.
Proof.
  intros H. unfold hours_of_day. f_equal. apply filter_ext. intros h.
  apply Bool.eq_iff_eq_true. rewrite !existsb_exists. split; intros [x [Hx Hn]]; exists x; (split; [apply H; exact Hx | exact Hn]).
Qed.

(* no occupied space: no hour in use *)
Theorem hours_in_use_none m sps : occ_people_schedules m sps = [] -> hours_in_use m sps = 0%N.
Proof. intros H. unfold hours_in_use. rewrite H. reflexivity. Qed.

(* ---------- mean internal load: floor-area-weighted mean over the occupied spaces ---------- *)
Local Open Scope Q_scope.
Theorem avg_load_weighted m sps t a :
  occ_load_sum m sps = Some t -> avg_load m sps = Some a -> (1 # 8388608) < occ_area sps ->
  a * occ_area sps == t.
Proof.
  intros Ht Ha Hpos. unfold avg_load in Ha. rewrite Ht in Ha. apply qltb_lt' in Hpos. rewrite Hpos in Ha.
  inversion Ha; subst a. apply qltb_lt' in Hpos. field. lra.
Qed.

Theorem avg_load_no_area m sps t :
  occ_load_sum m sps = Some t -> occ_area sps <= (1 # 8388608) -> avg_load m sps = Some 0.
Proof. intros Ht H. unfold avg_load. rewrite Ht. apply qltb_ge in H. rewrite H. reflexivity. Qed.

Theorem loads_avg_formula m l p li e :
  opt_avg (m_sched m) (ld_people_sch l) = Some p -> opt_avg (m_sched m) (ld_light_sch l) = Some li ->
  opt_avg (m_sched m) (ld_equip_sch l) = Some e ->
  loads_avg m l = Some (p * ld_people_sens l + li * ld_light l + e * ld_equip l).
Proof. intros H1 H2 H3. unfold loads_avg. rewrite H1, H2, H3. reflexivity. Qed.
