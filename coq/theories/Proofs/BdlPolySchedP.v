(* Polygons and year schedules carry the written values *)
From Coq Require Import NArith ZArith QArith Bool List Lia String.
From CTE Require Import Model.Bdl Model.BdlDoc Proofs.BdlP.
From CTE Require Import Model.BdlTyped Model.BdlTypedDb Proofs.BdlTypedP Proofs.BdlTypedDbP.
Import ListNotations.
Local Open Scope N_scope.

(* ---------- a vertex "( x, y )" ---------- *)
Definition point_text (lead g1 g2 trail : str) (x y : str) : str :=
  40 :: lead ++ x ++ g1 ++ 44 :: g2 ++ y ++ trail ++ [41].
Definition coord_ok (t : str) : bool :=
  is_number t && negb (has_char 44 t) &&
  match t with c :: _ => negb (is_pc c) && negb (is_pc (last t 0)) | [] => false end.

Lemma spaces_pc l : forallb (N.eqb 32) l = true -> forallb is_pc l = true.
Proof. rewrite !forallb_forall. intros H c Hc. specialize (H c Hc). apply N.eqb_eq in H. subst. reflexivity. Qed.
Lemma spaces_no_comma l : forallb (N.eqb 32) l = true -> forallb (fun c => negb (c =? 44)) l = true.
Proof. rewrite !forallb_forall. intros H c Hc. specialize (H c Hc). apply N.eqb_eq in H. subst. reflexivity. Qed.

Lemma coord_parts t : coord_ok t = true ->
  is_number t = true /\ has_char 44 t = false /\ exists c r, t = c :: r /\ is_pc c = false /\ is_pc (last t 0) = false.
Proof.
  unfold coord_ok. intros H. apply andb_true_iff in H. destruct H as [H H3]. apply andb_true_iff in H. destruct H as [H1 H2].
  apply negb_true_iff in H2. destruct t as [|c r]; [discriminate|]. apply andb_true_iff in H3. destruct H3 as [H3 H4].
  apply negb_true_iff in H3. apply negb_true_iff in H4. repeat split; try assumption. exists c, r. repeat split; assumption.
Qed.

Theorem vertex_recovered lead g1 g2 trail x y :
  forallb (N.eqb 32) lead = true -> forallb (N.eqb 32) g1 = true -> forallb (N.eqb 32) g2 = true -> forallb (N.eqb 32) trail = true ->
  coord_ok x = true -> coord_ok y = true ->
  point2 (point_text lead g1 g2 trail x y) = Some [x; y].
Proof.
  intros Hl H1 H2 Ht Hx Hy.
  destruct (coord_parts x Hx) as [Nx [Cx [cx [rx [Ex [Px Lx]]]]]].
  destruct (coord_parts y Hy) as [Ny [Cy [cy [ry [Ey [Py Ly]]]]]].
  unfold point2, point_text.
  replace (40 :: lead ++ x ++ g1 ++ 44 :: g2 ++ y ++ trail ++ [41])
    with ((40 :: lead ++ x ++ g1) ++ 44 :: (g2 ++ y ++ trail ++ [41]))
    by (cbn [app]; rewrite <- !app_assoc; reflexivity).
  rewrite split_on_app.
  - rewrite split_on_no.
    + cbn [map].
      replace (40 :: lead ++ x ++ g1) with ((40 :: lead) ++ x ++ g1) by reflexivity.
      rewrite (trim_parens_wrap (40 :: lead) x g1 cx rx); try assumption;
        [| cbn [forallb]; rewrite (spaces_pc lead Hl); reflexivity | apply spaces_pc, H1].
      replace (g2 ++ y ++ trail ++ [41]) with (g2 ++ y ++ (trail ++ [41])) by reflexivity.
      rewrite (trim_parens_wrap g2 y (trail ++ [41]) cy ry); try assumption;
        [| apply spaces_pc, H2 | rewrite forallb_app, (spaces_pc trail Ht); reflexivity].
      rewrite Nx, Ny. reflexivity.
    + repeat apply no_char_app; try (apply spaces_no_comma; assumption); try (apply has_char_no; assumption). reflexivity.
  - cbn [forallb]. cbn. repeat apply no_char_app; try (apply spaces_no_comma; assumption). apply has_char_no, Cx.
Qed.

(* ---------- POLYGON: V1 .. Vn come back in the order of their numbers, whatever their order in the file
   (the attribute map is sorted by key: V10 sorts before V2) ---------- *)
Definition vkey (i : nat) : str := 86 :: nat_str 5 i.
Theorem polygon_recovered a : forall pts start fuel,
  (List.length pts < fuel)%nat ->
  (forall k, (k < List.length pts)%nat -> exists s, lookup_attr (vkey (start + k)) a = Some (VStr s) /\ point2 s = Some (nth k pts [])) ->
  match lookup_attr (vkey (start + List.length pts)) a with Some (VStr _) => False | _ => True end ->
  polygon_from fuel start a = Some pts.
Proof.
  induction pts as [|p r IH]; intros start fuel Hf Hk Hend.
  - destruct fuel as [|f]; [lia|]. cbn [polygon_from]. cbn [List.length] in Hend. rewrite Nat.add_0_r in Hend.
    fold (vkey start). destruct (lookup_attr (vkey start) a) as [[t|s]|]; try reflexivity. contradiction.
  - destruct fuel as [|f]; [cbn in Hf; lia|]. cbn [polygon_from]. fold (vkey start).
    destruct (Hk 0%nat ltac:(cbn; lia)) as [s [Hs Hp]]. rewrite Nat.add_0_r in Hs. rewrite Hs. cbn [nth] in Hp. rewrite Hp.
    rewrite (IH (S start) f).
    + reflexivity.
    + cbn [List.length] in Hf. lia.
    + intros k Hlt. destruct (Hk (S k) ltac:(cbn; lia)) as [s' [Hs' Hp']].
      exists s'. split; [| exact Hp']. replace (S start + k)%nat with (start + S k)%nat by lia. exact Hs'.
    + replace (S start + List.length r)%nat with (start + List.length (p :: r))%nat by (cbn; lia). exact Hend.
Qed.

(* ---------- lists of counts (MONTH, DAY) ---------- *)
Definition count_ok (d : str) : bool := negb (is_empty d) && all_digits d && (digits_val d 0 <=? 4294967295).
Lemma digit_facts c : is_digit c = true -> is_ws c = false /\ is_pc c = false /\ (c =? 44) = false /\ (c =? 43) = false.
Proof.
  unfold is_digit. intros H. apply andb_true_iff in H. destruct H as [H1 H2]. apply N.leb_le in H1. apply N.leb_le in H2.
  assert (Hne : forall k, (k < 48 \/ 57 < k) -> (c =? k) = false) by (intros k Hk; apply N.eqb_neq; lia).
  assert (Hle : forall k, 57 < k -> (k <=? c) = false) by (intros k Hk; apply N.leb_gt; lia).
  repeat split.
  - unfold is_ws. rewrite !Hne by lia. rewrite (Hle 8192) by lia.
    assert (E : (c <=? 13) = false) by (apply N.leb_gt; lia). rewrite E. rewrite !andb_false_r. reflexivity.
  - unfold is_pc. rewrite !Hne by lia. reflexivity.
  - apply Hne. lia.
  - apply Hne. lia.
Qed.
Lemma all_digits_last d x : all_digits d = true -> d <> [] -> is_digit x = true -> is_digit (last d x) = true.
Proof.
  induction d as [|c r IH]; [contradiction|]. cbn [all_digits]. intros H _ Hx. apply andb_true_iff in H. destruct H as [Hc Hr].
  destruct r as [|c' r']; [exact Hc|]. change (last (c :: c' :: r') x) with (last (c' :: r') x). apply IH; [exact Hr | discriminate | exact Hx].
Qed.
Lemma last_default_irrelevant {A} (l : list A) d d' : l <> [] -> last l d = last l d'.
Proof. induction l as [|x r IH]; [contradiction|]. intros _. destruct r; [reflexivity|]. apply IH. discriminate. Qed.

Lemma count_item d : count_ok d = true ->
  edges_ok d = true /\ has_char 44 d = false /\ parse_u32 d = Some (digits_val d 0) /\
  exists c r, d = c :: r /\ is_pc c = false /\ is_pc (last d 0) = false.
Proof.
  unfold count_ok. intros H. apply andb_true_iff in H. destruct H as [H H3]. apply andb_true_iff in H. destruct H as [H1 H2].
  destruct d as [|c r]; [discriminate|]. clear H1.
  assert (Hc : is_digit c = true) by (cbn [all_digits] in H2; apply andb_true_iff in H2; tauto).
  assert (Hl : is_digit (last (c :: r) 0) = true).
  { rewrite (last_default_irrelevant (c :: r) 0 c) by discriminate. apply all_digits_last; [exact H2 | discriminate | exact Hc]. }
  destruct (digit_facts c Hc) as [W1 [P1 [C1 S1]]]. destruct (digit_facts _ Hl) as [W2 [P2 [C2 S2]]].
  repeat split.
  - unfold edges_ok. rewrite W1, W2. reflexivity.
  - clear -H2. unfold has_char. induction (c :: r) as [|x l IH]; [reflexivity|]. cbn [all_digits] in H2. apply andb_true_iff in H2.
    destruct H2 as [Hx Hr]. cbn [existsb]. destruct (digit_facts x Hx) as [_ [_ [Cx _]]]. rewrite N.eqb_sym, Cx. exact (IH Hr).
  - unfold parse_u32. apply N.eqb_neq in S1.
    assert (E : match c :: r with 43 :: r0 => r0 | _ => c :: r end = c :: r).
    { destruct c as [|p]; [reflexivity|]. do 6 (destruct p as [p|p|]; try reflexivity). exfalso. apply S1. reflexivity. }
    rewrite E. cbn [is_empty orb]. rewrite H2. cbn [negb]. rewrite H3. reflexivity.
  - exists c, r. repeat split; assumption.
Qed.

Lemma map_trim_parse items : forallb count_ok items = true ->
  all_some (map (fun p => parse_u32 (trim p)) items) = Some (map (fun d => digits_val d 0) items).
Proof.
  induction items as [|d r IH]; [reflexivity|]. cbn [forallb]. intros H. apply andb_true_iff in H. destruct H as [Hd Hr].
  destruct (count_item d Hd) as [E [_ [P _]]]. cbn [map all_some]. rewrite (trim_id d E), P, (IH Hr). reflexivity.
Qed.

Theorem count_list_recovered lead trail g1 g2 ds :
  forallb (N.eqb 32) lead = true -> forallb (N.eqb 32) trail = true -> all_wsb g1 = true -> all_wsb g2 = true ->
  ds <> [] -> forallb count_ok ds = true ->
  u32vec (list_text lead trail g1 g2 ds) = Some (map (fun d => digits_val d 0) ds).
Proof.
  intros Hl Ht Hg1 Hg2 Hne Hok.
  assert (He : forallb (fun t => edges_ok t && negb (has_char 44 t)) ds = true).
  { clear Hne. induction ds as [|d r IH]; [reflexivity|]. cbn [forallb] in *. apply andb_true_iff in Hok. destruct Hok as [Hd Hr].
    destruct (count_item d Hd) as [E [C _]]. rewrite E, C, (IH Hr). reflexivity. }
  set (body := join (g1 ++ 44 :: g2) ds).
  destruct ds as [|d0 r0] eqn:Eds; [contradiction|].
  assert (H0 : count_ok d0 = true) by (cbn [forallb] in Hok; apply andb_true_iff in Hok; tauto).
  assert (Hlast : count_ok (last (d0 :: r0) []) = true).
  { rewrite forallb_forall in Hok. apply Hok. apply (@exists_last _ (d0 :: r0)) in Hne. destruct Hne as [q [z E]].
    rewrite E, last_last. apply in_or_app. right. left. reflexivity. }
  destruct (count_item d0 H0) as [_ [_ [_ [c0 [t0 [E0 [P0 _]]]]]]].
  destruct (count_item _ Hlast) as [_ [_ [_ [cl [tl [El [_ Pl]]]]]]].
  assert (Hb : exists rb, body = c0 :: rb).
  { unfold body. rewrite E0. destruct r0; [exists t0; reflexivity|]. eexists. cbn [join app]. reflexivity. }
  destruct Hb as [rb Eb].
  assert (Hbl : last body 0 = last (last (d0 :: r0) []) 0).
  { unfold body. apply join_last; [discriminate | rewrite El; discriminate]. }
  unfold u32vec, list_text. fold body.
  replace (40 :: lead ++ body ++ trail ++ [41]) with ((40 :: lead) ++ body ++ (trail ++ [41])) by reflexivity.
  rewrite (trim_parens_wrap (40 :: lead) body (trail ++ [41]) c0 rb).
  - change body with ([] ++ body). unfold body.
    assert (G : forall l, map (fun p => parse_u32 (trim p)) l = map (fun p => parse_u32 (trim p)) (map (fun x => x) l)) by (intros; rewrite map_id; reflexivity).
    rewrite <- (map_map trim parse_u32).
    rewrite (split_join_items g1 g2 (d0 :: r0) Hg1 Hg2 Hne He [] eq_refl).
    clear -Hok. induction (d0 :: r0) as [|d r IH]; [reflexivity|]. cbn [forallb] in Hok. apply andb_true_iff in Hok. destruct Hok as [Hd Hr].
    destruct (count_item d Hd) as [_ [_ [P _]]]. cbn [map all_some]. rewrite P, (IH Hr). reflexivity.
  - cbn [forallb]. rewrite (spaces_pc lead Hl). reflexivity.
  - rewrite forallb_app, (spaces_pc trail Ht). reflexivity.
  - exact Eb.
  - exact P0.
  - rewrite Hbl. exact Pl.
Qed.

(* SCHEDULE-PD: the spans (last month, last day, weekly schedule) come back in order *)
Local Open Scope string_scope.
Theorem year_schedule_recovered b kt k l1 t1 a1 b1 l2 t2 a2 b2 l3 t3 a3 b3 ms ds ws :
  get_text "TYPE" (b_attrs b) = Some kt -> skind_of kt = Some k ->
  forallb (N.eqb 32) l1 = true -> forallb (N.eqb 32) t1 = true -> all_wsb a1 = true -> all_wsb b1 = true ->
  forallb (N.eqb 32) l2 = true -> forallb (N.eqb 32) t2 = true -> all_wsb a2 = true -> all_wsb b2 = true ->
  forallb (N.eqb 32) l3 = true -> forallb (N.eqb 32) t3 = true -> all_wsb a3 = true -> all_wsb b3 = true ->
  ms <> [] -> forallb count_ok ms = true -> ds <> [] -> forallb count_ok ds = true -> forallb name_item_ok ws = true ->
  get_text "MONTH" (b_attrs b) = Some (list_text l1 t1 a1 b1 ms) ->
  get_text "DAY" (b_attrs b) = Some (list_text l2 t2 a2 b2 ds) ->
  get_text "WEEK-SCHEDULES" (b_attrs b) = Some (list_text l3 t3 a3 b3 (map quoted ws)) ->
  year_of b = Ok (TYear (squeeze2 (b_name b)) k (map (fun d => digits_val d 0) ds) (map (fun d => digits_val d 0) ms) ws).
Proof.
  intros Ht Hk A1 A2 A3 A4 B1 B2 B3 B4 C1 C2 C3 C4 Hm Hmo Hd Hdo Hw Em Ed Ew.
  unfold year_of, kind_of. rewrite Ht, Hk, Ed, Em, Ew.
  rewrite (count_list_recovered l2 t2 a2 b2 ds B1 B2 B3 B4 Hd Hdo).
  rewrite (count_list_recovered l1 t1 a1 b1 ms A1 A2 A3 A4 Hm Hmo).
  rewrite (names_list_recovered l3 t3 a3 b3 ws C1 C2 C3 C4 Hw). reflexivity.
Qed.
