(* Proofs for C14: embedded tables are complete (table lookups cannot fail), schedule expansion is
   bounded, the inventory of partial operations of /repo is covered. *)
From Coq Require Import ZArith NArith QArith Bool List Arith Lia.
From CTE Require Import Base.Num Model.BModel Model.Props Model.Schedules Model.QSolJul Model.Sites Proofs.NumP Proofs.QSolP Proofs.SchedulesP.
From CTEGen Require Import Tables PartialOps.
Import ListNotations.

(* every climate zone has its metadata and its July design day with at least one hour, all
   irradiances non-negative and sun altitudes within [0, 90] *)
Definition tables_ok : bool :=
  forallb (fun z =>
    existsb (fun e => N.eqb (fst e) z) zmeta &&
    match find (fun e => N.eqb (fst e) z) july with
    | Some (_, rows) => negb (Nat.eqb (length rows) 0) &&
        forallb (fun r => match r with (mo, d, h, az, alt, dir, dif) =>
          N.leb 1 mo && N.leb mo 12 && N.leb 1 d && N.ltb d 31 &&      (* nday_from_md asserts day < 31 *)
          qleb 0 dir && qleb 0 dif && qleb 0 alt && qleb alt 90 end) rows
    | None => false end) zones32.
Lemma tables_ok_true : tables_ok = true. Proof. vm_compute. reflexivity. Qed.

Theorem tables_complete z : In z zones32 ->
  (exists m, In (z, m) zmeta) /\ (exists rows, In (z, rows) july /\ rows <> []).
Proof.
  intros Hz. pose proof tables_ok_true as H. unfold tables_ok in H. rewrite forallb_forall in H.
  specialize (H z Hz). apply andb_true_iff in H. destruct H as [Hm Hj]. split.
  - apply existsb_exists in Hm. destruct Hm as [[z' m] [Hin He]]. cbn in He. apply N.eqb_eq in He. subst z'. exists m. exact Hin.
  - destruct (find (fun e => N.eqb (fst e) z) july) as [[z' rows]|] eqn:Ef; [|discriminate].
    apply find_some in Ef. destruct Ef as [Hin He]. cbn in He. apply N.eqb_eq in He. subst z'.
    exists rows. split; [exact Hin|]. apply andb_true_iff in Hj. destruct Hj as [Hn _].
    intros E. subst rows. discriminate Hn.
Qed.

(* zone names round-trip through their textual form (Display / TryFrom) *)
Definition zones_roundtrip_ok : bool :=
  Nat.eqb (length zone_roundtrip) 32 &&
  forallb (fun e => match snd e with Some k => N.eqb k (fst e) | None => false end) zone_roundtrip.
Lemma zones_roundtrip_true : zones_roundtrip_ok = true. Proof. vm_compute. reflexivity. Qed.

(* expanding a yearly schedule never yields more days than its period lengths add up to *)
Lemma cyc_take_length_le l skip count : (length (cyc_take l skip count) <= count)%nat.
Proof. unfold cyc_take. destruct l; cbn [length]; [lia|]. rewrite map_length, seq_length. lia. Qed.
Theorem expand_bounded db vals : forall cur, (length (expand_from db vals cur) <= counts_sum vals)%nat.
Proof.
  induction vals as [|[wid c] r IH]; intros cur; [cbn; lia|].
  cbn [expand_from]. rewrite app_length. pose proof (cyc_take_length_le (week_days_of db wid) (cur mod 7) (N.to_nat c)).
  specialize (IH (cur + N.to_nat c)%nat). unfold counts_sum in *. cbn [map fold_right snd]. lia.
Qed.

(* every partial operation found in /repo on this run is one the totality argument knows about *)
Theorem sites_covered_c14 : covered c14_known c14_partial_ops = true.
Proof. vm_compute. reflexivity. Qed.
