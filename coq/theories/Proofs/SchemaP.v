(* The round-trip argument for one object level, generic in the value type: omitting the fields a
   skip predicate selects and restoring absent fields from their defaults gives the object back
   (up to a relation R that the coherence hypothesis establishes for skipped values). *)
From Coq Require Import List String Bool Arith Lia.
From CTE Require Import Model.Schema.
Import ListNotations.
Local Open Scope string_scope.

Section Level.
Variables (F V : Type).
Variable name : F -> string.
Variable skipb : F -> V -> bool.
Variable dflt : F -> option V.
Variable R : V -> V -> Prop.
Hypothesis R_refl : forall v, R v v.
(* coherence: whatever is omitted is what absence restores *)
Hypothesis coherent : forall f x, skipb f x = true -> exists d, dflt f = Some d /\ R x d.

Definition lookupv (k : string) (o : list (string * V)) : option V :=
  match find (fun p => String.eqb (fst p) k) o with Some p => Some (snd p) | None => None end.

(* serialise: drop the skipped fields *)
Fixpoint ser1 (fs : list F) (o : list (string * V)) : list (string * V) :=
  match fs, o with
  | f :: fs', (k, x) :: o' => if skipb f x then ser1 fs' o' else (k, x) :: ser1 fs' o'
  | _, _ => []
  end.
(* deserialise: every field of the struct, from the object or from its default *)
Fixpoint de1 (fs : list F) (j : list (string * V)) : option (list (string * V)) :=
  match fs with
  | [] => Some []
  | f :: fs' =>
      match (match lookupv (name f) j with Some x => Some x | None => dflt f end), de1 fs' j with
      | Some x, Some r => Some ((name f, x) :: r)
      | _, _ => None
      end
  end.

Definition names_match (fs : list F) (o : list (string * V)) : Prop := map name fs = map fst o.

Lemma lookupv_notin k (o : list (string * V)) : ~ In k (map fst o) -> lookupv k o = None.
Proof.
  unfold lookupv. induction o as [|[k' x] o IH]; intros H; [reflexivity|]. cbn [find fst].
  destruct (String.eqb_spec k' k) as [->|Hne]; [exfalso; apply H; left; reflexivity|].
  apply IH. intros Hin. apply H. right. exact Hin.
Qed.

Lemma ser1_keys fs o : names_match fs o -> incl (map fst (ser1 fs o)) (map name fs).
Proof.
  revert o. induction fs as [|f fs IH]; intros o H; [intros x Hx; destruct o; destruct Hx|].
  destruct o as [|[k x] o]; [discriminate H|]. injection H as Hk Ht. cbn [ser1].
  destruct (skipb f x).
  - intros y Hy. right. apply (IH o Ht y Hy).
  - intros y [Hy|Hy]; [left; cbn in Hy; congruence | right; apply (IH o Ht y Hy)].
Qed.

Lemma de1_skip_head fs : forall k x j, ~ In k (map name fs) -> de1 fs ((k, x) :: j) = de1 fs j.
Proof.
  induction fs as [|f fs IH]; intros k x j H; [reflexivity|]. cbn [de1].
  assert (Hne : String.eqb k (name f) = false).
  { apply String.eqb_neq. intros E. apply H. left. symmetry. exact E. }
  unfold lookupv at 1. cbn [find fst]. rewrite Hne. fold (lookupv (name f) j).
  rewrite IH; [reflexivity|]. intros Hin. apply H. right. exact Hin.
Qed.

(* the round trip of one level *)
Theorem level_roundtrip fs : forall o,
  NoDup (map name fs) -> names_match fs o ->
  exists o', de1 fs (ser1 fs o) = Some o' /\
             Forall2 (fun a b => fst a = fst b /\ R (snd a) (snd b)) o o'.
Proof.
  induction fs as [|f fs IH]; intros o Hnd Hm.
  - destruct o; [|discriminate Hm]. exists []. split; [reflexivity | constructor].
  - destruct o as [|[k x] o]; [discriminate Hm|]. injection Hm as Hk Ht. subst k.
    inversion Hnd as [|? ? Hnotin Hnd']; subst.
    destruct (IH o Hnd' Ht) as [o' [Hde Hall]].
    cbn [ser1 de1]. destruct (skipb f x) eqn:Es.
    + (* omitted: absent from the rest (names are distinct), restored from the default *)
      destruct (coherent f x Es) as [d [Hd Hr]].
      assert (Hl : lookupv (name f) (ser1 fs o) = None).
      { apply lookupv_notin. intros Hin. apply Hnotin. apply (ser1_keys fs o Ht). exact Hin. }
      rewrite Hl, Hd, Hde. eexists. split; [reflexivity|]. constructor; [split; [reflexivity | exact Hr] | exact Hall].
    + unfold lookupv at 1. cbn [find fst]. rewrite String.eqb_refl. cbn [snd].
      rewrite de1_skip_head by exact Hnotin. rewrite Hde.
      eexists. split; [reflexivity|]. constructor; [split; [reflexivity | apply R_refl] | exact Hall].
Qed.

(* serialising what was restored omits the same fields again: the text is stable *)
Hypothesis skip_respects : forall f x y, R x y -> skipb f x = skipb f y.
Theorem level_idempotent fs : forall o o',
  Forall2 (fun a b => fst a = fst b /\ R (snd a) (snd b)) o o' ->
  map fst (ser1 fs o') = map fst (ser1 fs o).
Proof.
  induction fs as [|f fs IH]; intros o o' H; [destruct o, o'; reflexivity|].
  destruct H as [|[k x] [k' x'] o o' [Hk Hr] H]; [reflexivity|]. cbn [fst snd] in *. subst k'.
  cbn [ser1]. rewrite <- (skip_respects f x x' Hr). destruct (skipb f x); cbn [map fst]; rewrite (IH o o' H); reflexivity.
Qed.
End Level.
