(* Proofs about Model/Geometry.v *)
From Coq Require Import ZArith NArith QArith Qabs Qround Bool List Lia Lqa Setoid Morphisms.
From CTE Require Import Base.Num Model.BModel Model.Props Model.Geometry Proofs.NumP Proofs.ChecksP.
Import ListNotations.
Local Open Scope Q_scope.

(* ---------- envelope membership ---------- *)
Theorem tenv_rule_spec m w :
  tenv_rule m w = true <->
  ((w_bounds w = EXTERIOR \/ w_bounds w = GROUND \/ w_bounds w = ADIABATIC) /\ space_inside m (w_space w) = true) \/
  (w_bounds w = INTERIOR /\
   space_inside m (w_space w) <> match w_next w with Some n => space_inside m n | None => false end).
Proof.
  unfold tenv_rule. destruct (w_bounds w); split.
  all: try (intros H; left; split; [tauto | exact H]).
  all: try (intros [[_ H]|[H _]]; [exact H | discriminate H]).
  - intros H. right. split; [reflexivity|]. apply negb_true_iff in H.
    intros E. rewrite E in H. rewrite Bool.eqb_reflx in H. discriminate.
  - intros [[[H|[H|H]] _]|[_ H]]; try discriminate H. apply negb_true_iff.
    destruct (space_inside m (w_space w)), (match w_next w with Some n => space_inside m n | None => false end);
      try reflexivity; exfalso; apply H; reflexivity.
Qed.

(* ---------- normalisation and periodicity of the classifiers ---------- *)
Lemma Qfloor_plus_Z x (k : Z) : Qfloor (x + inject_Z k) = (Qfloor x + k)%Z.
Proof.
  pose proof (Qfloor_le x) as H1. pose proof (Qlt_floor x) as H2.
  rewrite inject_Z_plus in H2. change (inject_Z 1) with 1 in H2.
  pose proof (Qfloor_le (x + inject_Z k)) as H3. pose proof (Qlt_floor (x + inject_Z k)) as H4.
  rewrite inject_Z_plus in H4. change (inject_Z 1) with 1 in H4.
  set (a := Qfloor x) in *. set (b := Qfloor (x + inject_Z k)) in *.
  assert (A : inject_Z b < inject_Z (a + k + 1)).
  { rewrite !inject_Z_plus. change (inject_Z 1) with 1. lra. }
  assert (B : inject_Z (a + k) < inject_Z (b + 1)).
  { rewrite !inject_Z_plus. change (inject_Z 1) with 1. lra. }
  rewrite <- Zlt_Qlt in A, B. lia.
Qed.

Lemma normalize_range v : 0 <= normalize v 0 360 < 360.
Proof.
  unfold normalize. pose proof (Qfloor_le ((v - 0) / (360 - 0))) as H1. pose proof (Qlt_floor ((v - 0) / (360 - 0))) as H2.
  rewrite inject_Z_plus in H2. change (inject_Z 1) with 1 in H2.
  set (f := inject_Z (Qfloor ((v - 0) / (360 - 0)))) in *.
  assert (E : (v - 0) / (360 - 0) == v / 360) by (field).
  rewrite E in H1, H2.
  set (q := v / 360) in *. assert (Eq : q * 360 == v) by (unfold q; field).
  split; lra.
Qed.

Theorem normalize_periodic v (k : Z) : normalize (v + inject_Z k * 360) 0 360 == normalize v 0 360.
Proof.
  unfold normalize.
  assert (E : (v + inject_Z k * 360 - 0) / (360 - 0) == (v - 0) / (360 - 0) + inject_Z k) by field.
  rewrite E, Qfloor_plus_Z, inject_Z_plus. ring.
Qed.

Theorem normalize_id v : 0 <= v < 360 -> normalize v 0 360 == v.
Proof.
  intros [H0 H1]. unfold normalize.
  assert (F : Qfloor ((v - 0) / (360 - 0)) = 0%Z).
  { assert (E : (v - 0) / (360 - 0) == v / 360) by field.
    pose proof (Qfloor_le ((v - 0) / (360 - 0))) as H2. pose proof (Qlt_floor ((v - 0) / (360 - 0))) as H3.
    rewrite inject_Z_plus in H3. change (inject_Z 1) with 1 in H3.
    set (z := Qfloor ((v - 0) / (360 - 0))) in *. rewrite E in H2, H3.
    set (q := v / 360) in *. assert (Eq : q * 360 == v) by (unfold q; field).
    assert (C : inject_Z z < inject_Z 1) by (change (inject_Z 1) with 1; lra).
    assert (D : inject_Z (-1) < inject_Z z) by (change (inject_Z (-1)) with (-1); lra).
    rewrite <- Zlt_Qlt in C, D. lia. }
  rewrite F. change (inject_Z 0) with 0. ring.
Qed.

Global Instance normalize_proper : Proper (Qeq ==> Qeq ==> Qeq ==> Qeq) normalize.
Proof.
  intros a a' Ha s s' Hs e e' He. unfold normalize.
  assert (F : Qfloor ((a - s) / (e - s)) = Qfloor ((a' - s') / (e' - s'))).
  { apply Qfloor_comp. rewrite Ha, Hs, He. reflexivity. }
  rewrite F. set (z := inject_Z (Qfloor ((a' - s') / (e' - s')))). rewrite Ha, Hs, He. reflexivity.
Qed.

Global Instance tilt_class_raw_proper : Proper (Qeq ==> eq) tilt_class_raw.
Proof.
  intros a b E. unfold tilt_class_raw.
  assert (H1 : forall c, qleb a c = qleb b c) by (intros c; apply qleb_proper; [exact E | reflexivity]).
  assert (H2 : forall c, qltb a c = qltb b c) by (intros c; apply qltb_proper; [exact E | reflexivity]).
  rewrite H1, !H2. reflexivity.
Qed.
Global Instance orient_class_raw_proper : Proper (Qeq ==> eq) orient_class_raw.
Proof.
  intros a b E. unfold orient_class_raw.
  assert (H2 : forall c, qltb a c = qltb b c) by (intros c; apply qltb_proper; [exact E | reflexivity]).
  rewrite !H2. reflexivity.
Qed.

(* floor/wall/roof and compass classes depend only on the angle modulo 360 degrees *)
Theorem tilt_class_periodic t (k : Z) : tilt_class (t + inject_Z k * 360) = tilt_class t.
Proof. unfold tilt_class. rewrite normalize_periodic. reflexivity. Qed.
Theorem orient_class_periodic a (k : Z) : orient_class (a + inject_Z k * 360) = orient_class a.
Proof. unfold orient_class. rewrite normalize_periodic. reflexivity. Qed.

(* the parser and the model classify every tilt in [0,360] identically *)
Theorem classifiers_agree t : 0 <= t <= 360 -> hulc_position t = tilt_class t.
Proof.
  intros [H0 H1]. unfold hulc_position, tilt_class.
  destruct (Qlt_le_dec t 360) as [Hlt|Hge].
  - rewrite normalize_id by (split; assumption). reflexivity.
  - assert (E : t == 0 + inject_Z 1 * 360) by (change (inject_Z 1) with 1; lra).
    rewrite E at 2. rewrite normalize_periodic, normalize_id by lra.
    assert (E2 : t == 360) by lra. rewrite E2. reflexivity.
Qed.

(* ---------- scaling ---------- *)
Definition scale_poly (s : Q) (l : list (Q * Q)) : list (Q * Q) := map (fun p => (s * fst p, s * snd p)) l.

Lemma shoelace_from_scale s first l :
  shoelace_from (s * fst first, s * snd first) (scale_poly s l) == s * s * shoelace_from first l.
Proof.
  induction l as [|p r IH]; [cbn; ring|].
  destruct r as [|q r'].
  - cbn. ring.
  - change (scale_poly s (p :: q :: r')) with ((s * fst p, s * snd p) :: scale_poly s (q :: r')).
    change (scale_poly s (q :: r')) with ((s * fst q, s * snd q) :: scale_poly s r') in *.
    cbn [shoelace_from fst snd] in *. rewrite IH. ring.
Qed.

Theorem scale_area s l : poly_area (scale_poly s l) == s * s * poly_area l.
Proof.
  unfold poly_area, shoelace2. destruct l as [|p r]; [cbn; ring|]. destruct r as [|q r'].
  - cbn. ring.
  - change (scale_poly s (p :: q :: r')) with ((s * fst p, s * snd p) :: scale_poly s (q :: r')).
    change (scale_poly s (q :: r')) with ((s * fst q, s * snd q) :: scale_poly s r').
    change ((s * fst p, s * snd p) :: (s * fst q, s * snd q) :: scale_poly s r') with (scale_poly s (p :: q :: r')).
    rewrite (shoelace_from_scale s p (p :: q :: r')).
    assert (E : (1 # 2) * (s * s * shoelace_from p (p :: q :: r')) == (s * s) * ((1 # 2) * shoelace_from p (p :: q :: r'))) by ring.
    rewrite E, Qabs_Qmult. assert (Hs : Qabs (s * s) == s * s) by (apply Qabs_pos; nra). rewrite Hs. ring.
Qed.

Theorem scale_volume s a h : (s * s * a) * (s * h) == s * s * s * (a * h).
Proof. ring. Qed.
Theorem scale_compactness s v a : 0 < s -> ~ a == 0 -> (s * s * s * v) / (s * s * a) == s * (v / a).
Proof. intros Hs Ha. field. split; [exact Ha | lra]. Qed.

(* ---------- the two ventilation-rate formulas agree ---------- *)
Lemma dedup_nodup l : NoDup l -> dedup l = l.
Proof.
  induction 1 as [|x l Hx _ IH]; [reflexivity|]. cbn [dedup].
  assert (E : mem x l = false) by (apply mem_false_In; exact Hx). rewrite E, IH. reflexivity.
Qed.

Lemma find_rev_nodup {A} (idf : A -> uuid) (l : list A) x :
  NoDup (map idf l) -> In x l -> find (fun y => N.eqb (idf y) (idf x)) (rev l) = Some x.
Proof.
  intros Hnd Hin.
  assert (H : forall l', NoDup (map idf l') -> In x l' -> find (fun y => N.eqb (idf y) (idf x)) l' = Some x).
  { clear. induction l' as [|a l' IH]; intros Hnd Hin; [destruct Hin|].
    cbn [map] in Hnd. inversion Hnd as [|? ? Ha Hnd']; subst. cbn [find].
    destruct Hin as [->|Hin]; [rewrite N.eqb_refl; reflexivity|].
    destruct (N.eqb_spec (idf a) (idf x)) as [E|_]; [|apply IH; assumption].
    exfalso. apply Ha. rewrite E. apply in_map. exact Hin. }
  apply H.
  - rewrite map_rev. apply NoDup_rev. exact Hnd.
  - apply in_rev. rewrite rev_involutive. exact Hin.
Qed.

Theorem vent_rates_agree m :
  NoDup (map s_id (m_spaces m)) -> vent_props m = vent_model m.
Proof.
  intros Hnd. unfold vent_props, vent_model. f_equal.
  unfold vol_env_inh_net, vol_env_inh_net_raw, vol_inh_net_model. f_equal. f_equal.
  unfold all_space_props, space_keys. rewrite (dedup_nodup _ Hnd).
  assert (H : forall l, (forall s, In s l -> In s (m_spaces m)) ->
     map (fun p => if pp_inside p && habitable p then pp_area p * pp_height_net p * pp_mult p else 0)
       (flat_map (fun id => match space_props m id with Some p => [p] | None => [] end) (map s_id l)) =
     map (fun s => if s_inside s && negb (spacetype_eqb (s_kind s) UNINHABITED)
                   then space_area m (s_id s) * space_height_net m s * s_mult s else 0) l).
  { induction l as [|s l IH]; intros Hin; [reflexivity|]. cbn [map flat_map].
    unfold space_props at 1, last_space.
    rewrite (find_rev_nodup s_id (m_spaces m) s Hnd (Hin s (or_introl eq_refl))).
    cbn [app map pp_inside pp_kind pp_area pp_height_net pp_mult habitable]. unfold habitable. cbn [pp_kind].
    f_equal. apply IH. intros x Hx. apply Hin. right. exact Hx. }
  apply H. intros s Hs. exact Hs.
Qed.
