(* Proofs about the name-level conversion model (Model/Convert.v) *)
From Coq Require Import NArith Bool List Lia.
From CTE Require Import Base.Num Model.Convert.
Import ListNotations.
Local Open Scope N_scope.

Lemma first_bad_ok l : first_bad l = SOk -> forall r, In r l -> r = SOk.
Proof.
  unfold first_bad. intros H r Hin.
  destruct (find (fun r0 => match r0 with SOk => false | _ => true end) l) as [x|] eqn:E.
  - apply find_some in E. destruct E as [_ Hx]. subst x. discriminate Hx.
  - pose proof (find_none _ _ E r Hin) as Hn. destruct r; [reflexivity | discriminate | discriminate].
Qed.

Lemma week_res_ok b w : week_res b w = SOk -> all_names_in (snd w) (d_days b) = true.
Proof.
  unfold week_res. destruct (snd w) as [|d [|d' r]].
  - cbn. discriminate.
  - destruct (nmem d (d_days b)) eqn:E; [|discriminate]. intros _. cbn. rewrite E. reflexivity.
  - destruct (Nat.eqb (length (d :: d' :: r)) 7%nat); [|discriminate].
    destruct (all_names_in (d :: d' :: r) (d_days b)); [reflexivity | discriminate].
Qed.
Lemma year_res_ok b y : year_res b y = SOk -> all_names_in (snd y) (map fst (d_weeks b)) = true.
Proof. unfold year_res. destruct (all_names_in (snd y) (map fst (d_weeks b))); [reflexivity | discriminate]. Qed.

(* whenever conversion yields a model, every reference of every kind resolves to a definition of the
   project: the model is referentially closed at the level of names *)
Theorem convert_closed b : convert b = COk -> links_closed b = true.
Proof.
  unfold convert.
  destruct (parse_ok b) eqn:Hp; [|discriminate]. cbn [negb].
  destruct (cons_step b) eqn:Hc; [|discriminate]. cbn [negb].
  destruct (walls_step b) eqn:Hw; [|discriminate]. cbn [negb].
  destruct (windows_wall_missing b) eqn:Hn; [discriminate|].
  destruct (sched_step b) eqn:Hs; try discriminate.
  destruct (loads_step b) eqn:Hl; [|discriminate]. cbn [negb].
  destruct (thermostats_step b) eqn:Ht; [|discriminate]. intros _.
  unfold links_closed. rewrite !andb_true_iff.
  unfold parse_ok in Hp. rewrite !andb_true_iff in Hp. destruct Hp as [[_ _] Hpw].
  unfold cons_step in Hc. rewrite andb_true_iff in Hc. destruct Hc as [Hcw Hcn].
  rewrite forallb_forall in Hpw, Hcw, Hcn. unfold walls_step in Hw. rewrite forallb_forall in Hw.
  unfold windows_wall_missing in Hn. apply negb_false_iff in Hn. rewrite forallb_forall in Hn.
  repeat split.
  - apply forallb_forall. intros w Hin. specialize (Hpw w Hin). specialize (Hcw w Hin). specialize (Hw w Hin).
    apply andb_true_iff in Hpw. destruct Hpw as [_ Hpc]. apply andb_true_iff in Hw. destruct Hw as [Hs1 Hs2].
    rewrite Hs1, Hpc, Hs2. cbn [andb]. exact Hcw.
  - apply forallb_forall. intros n Hin. rewrite (Hn n Hin). cbn [andb]. exact (Hcn n Hin).
  - unfold loads_step in Hl. rewrite forallb_forall in Hl. apply forallb_forall. intros c Hin.
    specialize (Hl c Hin). rewrite !andb_true_iff in Hl. destruct Hl as [[A B] C]. cbn. rewrite A, B, C. reflexivity.
  - unfold thermostats_step in Ht. rewrite forallb_forall in Ht. apply forallb_forall. intros s Hin.
    specialize (Ht s Hin). destruct (by_scheds s) as [[c h]|]; [|reflexivity]. apply andb_true_iff in Ht. destruct Ht as [A B].
    cbn. rewrite A, B. reflexivity.
  - apply forallb_forall. intros y Hin. apply year_res_ok. apply (first_bad_ok _ Hs). apply in_or_app. right. apply in_map. exact Hin.
  - apply forallb_forall. intros w Hin. apply week_res_ok. apply (first_bad_ok _ Hs). apply in_or_app. left. apply in_map. exact Hin.
Qed.

(* hence a project with a broken reference of one of those kinds is never converted *)
Corollary convert_rejects b : links_closed b = false -> convert b <> COk.
Proof. intros H E. rewrite (convert_closed b E) in H. discriminate. Qed.

(* a window whose wall is not among the walls is rejected with an error (it used to crash the converter) *)
Theorem window_wall_missing_rejected b :
  parse_ok b = true -> cons_step b = true -> walls_step b = true -> windows_wall_missing b = true -> convert b = CErr.
Proof. intros A B C D. unfold convert. rewrite A, B, C, D. reflexivity. Qed.

(* but the link from a space to its space / system conditions is dropped silently *)
Definition wit : bdoc :=
  mkBDoc [mkBSpace 1 2 99 98] [] [] [2] [] [] [] [] [] [] [] [] [] [] [] 50.
Theorem space_conds_refuted : space_conds_dangling wit = true /\ convert wit = COk.
Proof. split; reflexivity. Qed.
