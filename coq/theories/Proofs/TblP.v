(* Proofs about Model/Tbl.v: an element / space written as a name line and a values line is read back *)
From Coq Require Import NArith ZArith Bool List Lia.
From CTE Require Import Model.Bdl Model.BdlDoc Proofs.BdlP.
From CTE Require Import Model.Tbl.
Import ListNotations.
Local Open Scope N_scope.

Definition word_ok (f : str) : bool := match f with [] => false | _ => true end && forallb (fun c => negb (is_ws c)) f.

Lemma split_ws_aux_word f : forall r cur, forallb (fun c => negb (is_ws c)) f = true ->
  split_ws_aux (f ++ r) cur = split_ws_aux r (rev f ++ cur).
Proof.
  induction f as [|c f IH]; intros r cur H; [reflexivity|]. cbn in H. apply andb_true_iff in H. destruct H as [Hc Hf].
  apply negb_true_iff in Hc. cbn [app split_ws_aux]. rewrite Hc, (IH r (c :: cur) Hf). cbn [rev]. rewrite <- app_assoc. reflexivity.
Qed.

(* words separated by one or more blanks, with any blanks in front *)
Lemma split_ws_words (ws : list str) : forall (pre : str), forallb word_ok ws = true -> all_wsb pre = true ->
  split_ws_aux (pre ++ join [32] ws) [] = ws.
Proof.
  induction ws as [|w r IH]; intros pre Hw Hpre.
  - cbn [join]. rewrite app_nil_r. clear Hw. induction pre as [|c p IHp]; [reflexivity|].
    cbn in Hpre. apply andb_true_iff in Hpre. destruct Hpre as [Hc Hp]. cbn [split_ws_aux]. rewrite Hc. exact (IHp Hp).
  - cbn [forallb] in Hw. apply andb_true_iff in Hw. destruct Hw as [Hw0 Hr].
    unfold word_ok in Hw0. apply andb_true_iff in Hw0. destruct Hw0 as [Hne Hnw].
    (* skip the blanks in front *)
    assert (Hskip : forall s, split_ws_aux (pre ++ s) [] = split_ws_aux s []).
    { intros s. clear -Hpre. induction pre as [|c p IHp]; [reflexivity|].
      cbn in Hpre. apply andb_true_iff in Hpre. destruct Hpre as [Hc Hp]. cbn [app split_ws_aux]. rewrite Hc. exact (IHp Hp). }
    rewrite Hskip. destruct r as [|w2 r'].
    + cbn [join]. rewrite <- (app_nil_r w) at 1. rewrite (split_ws_aux_word w [] [] Hnw). cbn [split_ws_aux]. rewrite app_nil_r.
      destruct (rev w) eqn:E; [destruct w; [discriminate | apply (f_equal (@List.length N)) in E; rewrite rev_length in E; discriminate]|].
      rewrite <- E, rev_involutive. reflexivity.
    + change (join [32] (w :: w2 :: r')) with (w ++ 32 :: join [32] (w2 :: r')).
      rewrite (split_ws_aux_word w _ [] Hnw). rewrite app_nil_r. cbn [split_ws_aux]. change (is_ws 32) with true. cbv iota.
      destruct (rev w) eqn:E; [destruct w; [discriminate | apply (f_equal (@List.length N)) in E; rewrite rev_length in E; discriminate]|].
      rewrite <- E, rev_involutive. f_equal.
      exact (IH [] Hr eq_refl).
Qed.

Lemma split_ws_line name (ws : list str) pre : word_ok name = true -> forallb word_ok ws = true -> all_wsb pre = true ->
  split_ws (name ++ 32 :: pre ++ join [32] ws) = name :: ws.
Proof.
  intros Hn Hw Hp. unfold split_ws. unfold word_ok in Hn. apply andb_true_iff in Hn. destruct Hn as [Hne Hnw].
  rewrite (split_ws_aux_word name _ [] Hnw), app_nil_r. cbn [split_ws_aux]. change (is_ws 32) with true. cbv iota.
  destruct (rev name) eqn:E; [destruct name; [discriminate | apply (f_equal (@List.length N)) in E; rewrite rev_length in E; discriminate]|].
  rewrite <- E, rev_involutive. f_equal. apply split_ws_words; assumption.
Qed.

Definition wf_telem (e : telem) (s1 s2 : str) : bool :=
  word_ok (te_name e) && forallb word_ok (te_vals e ++ [te_type e; s1; s2]) && Nat.eqb (List.length (te_vals e)) 7 &&
  forallb is_number (te_vals e) && existsb (str_eqb (te_type e)) elem_types &&
  match parse_i32 s1, parse_i32 s2 with Some z1, Some z2 => Z.eqb z1 (te_surf e) && Z.eqb z2 (te_space e) | _, _ => false end.

(* name line + values line (any blanks in front of the values, single blanks between them) -> the element *)
Theorem elem_roundtrip e s1 s2 pre : wf_telem e s1 s2 = true -> all_wsb pre = true ->
  parse_elem (te_name e) (pre ++ join [32] (te_vals e ++ [te_type e; s1; s2])) = Some e.
Proof.
  unfold wf_telem. intros H Hp. repeat (apply andb_true_iff in H; destruct H as [H ?]).
  destruct e as [name vals ty z1 z2]. cbn [te_name te_vals te_type te_surf te_space] in *.
  assert (Hn : word_ok name = true) by (unfold word_ok; rewrite H, H5; reflexivity).
  unfold parse_elem. rewrite (split_ws_line name _ pre Hn H4 Hp).
  match goal with K : Nat.eqb _ 7 = true |- _ => apply Nat.eqb_eq in K end.
  destruct vals as [|a [|u [|w [|g1 [|g2 [|an [|ti [|x r]]]]]]]]; try discriminate. cbn [app].
  match goal with K : forallb is_number _ = true |- _ => rewrite K end.
  match goal with K : existsb _ elem_types = true |- _ => rewrite K end. cbn [andb].
  destruct (parse_i32 s1) as [y1|]; [|discriminate]. destruct (parse_i32 s2) as [y2|]; [|discriminate].
  match goal with K : (Z.eqb y1 z1 && Z.eqb y2 z2)%bool = true |- _ => apply andb_true_iff in K; destruct K as [K1 K2]; apply Z.eqb_eq in K1, K2; subst end.
  reflexivity.
Qed.

Definition wf_tspace (s : tspace) (si sm : str) : bool :=
  word_ok (ts_name s) && forallb word_ok [si; sm; ts_area s; ts_qint s] &&
  is_number (ts_area s) && is_number (ts_qint s) &&
  match parse_i32 si, parse_i32 sm with Some zi, Some zm => Z.eqb zi (ts_id s) && Z.eqb zm (ts_mult s) | _, _ => false end.

Theorem space_roundtrip s si sm pre : wf_tspace s si sm = true -> all_wsb pre = true ->
  parse_space (ts_name s) (pre ++ join [32] [si; sm; ts_area s; ts_qint s]) = Some s.
Proof.
  unfold wf_tspace. intros H Hp. repeat (apply andb_true_iff in H; destruct H as [H ?]).
  destruct s as [name zi zm a q]. cbn [ts_name ts_id ts_mult ts_area ts_qint] in *.
  assert (Hn : word_ok name = true) by (unfold word_ok; rewrite H, H4; reflexivity).
  unfold parse_space. rewrite (split_ws_line name _ pre Hn H3 Hp).
  destruct (parse_i32 si) as [y1|]; [|discriminate]. destruct (parse_i32 sm) as [y2|]; [|discriminate].
  match goal with K : (Z.eqb y1 zi && Z.eqb y2 zm)%bool = true |- _ => apply andb_true_iff in K; destruct K as [K1 K2]; apply Z.eqb_eq in K1, K2; subst end.
  match goal with K : is_number a = true |- _ => rewrite K end.
  match goal with K : is_number q = true |- _ => rewrite K end. reflexivity.
Qed.

(* the counts line decides how many (name, values) pairs are elements; the rest are spaces *)
Lemma read_elems_one e s1 s2 pre rest : wf_telem e s1 s2 = true -> all_wsb pre = true ->
  edges_ok (te_name e) = true -> quote_free_edges (te_name e) = true ->
  read_elems ((quote :: te_name e ++ [quote]) :: (pre ++ join [32] (te_vals e ++ [te_type e; s1; s2])) :: rest) 1 0 = Ok2 [e] rest.
Proof.
  intros Hwf Hp He Hq. cbn [read_elems].
  rewrite (trim_ch_wrap quote (te_name e) Hq), (trim_id _ He), (elem_roundtrip e s1 s2 pre Hwf Hp). reflexivity.
Qed.
