(* Proofs about the n50 model (Model/N50.v) *)
From Coq Require Import ZArith NArith QArith Qabs Bool List Lia Lqa Permutation Morphisms Setoid.
From CTE Require Import Base.Num Model.BModel Model.Props Model.N50 Proofs.NumP Proofs.KP.
Import ListNotations.
Local Open Scope Q_scope.

Theorem n50_ref_formula p :
  (1 # 1000) < gp_vol_net (ep_global p) ->
  nd_n50_ref (N50_model p) ==
  (629 # 1000) * (gp_co100 (ep_global p) * n50_walls_a p + n50_windows_ca p) / gp_vol_net (ep_global p).
Proof.
  intros H. apply qltb_lt' in H. unfold N50_model.
  destruct (gp_n50test (ep_global p)); [destruct (qltb (1 # 1000) (n50_walls_a p))|];
    cbn [nd_n50_ref]; rewrite H; unfold n50_coef; apply Qeq_bool_eq; (* normalise *)
    apply Qeq_eq_bool.
  all: apply qltb_lt' in H; field; lra.
Qed.

Theorem n50_zero_volume p : gp_vol_net (ep_global p) <= (1 # 1000) -> nd_n50_ref (N50_model p) = 0.
Proof.
  intros H. apply qltb_ge in H. unfold N50_model.
  destruct (gp_n50test (ep_global p)); [destruct (qltb (1 # 1000) (n50_walls_a p))|];
    cbn [nd_n50_ref]; rewrite H; reflexivity.
Qed.

(* without a blower-door value: n50 = n50_ref and the wall permeability is Co *)
Theorem n50_no_test p :
  gp_n50test (ep_global p) = None ->
  nd_n50 (N50_model p) = nd_n50_ref (N50_model p) /\ nd_walls_c (N50_model p) = gp_co100 (ep_global p).
Proof. intros H. unfold N50_model. rewrite H. split; reflexivity. Qed.

(* with a blower-door value: n50 is that value and the reported wall permeability satisfies the
   same equation *)
Theorem n50_test_consistent p t :
  gp_n50test (ep_global p) = Some t ->
  (1 # 1000) < n50_walls_a p -> (1 # 1000) < gp_vol_net (ep_global p) ->
  nd_n50 (N50_model p) = t /\
  (629 # 1000) * (nd_walls_c (N50_model p) * n50_walls_a p + n50_windows_ca p) / gp_vol_net (ep_global p) == t.
Proof.
  intros Ht Ha Hv. unfold N50_model. rewrite Ht. pose proof Ha as Ha'. apply qltb_lt' in Ha'. rewrite Ha'.
  cbn [nd_n50 nd_walls_c]. split; [reflexivity|]. unfold n50_coef. field. split; lra.
Qed.

Theorem n50_test_no_walls p t :
  gp_n50test (ep_global p) = Some t -> n50_walls_a p <= (1 # 1000) ->
  nd_n50 (N50_model p) = t /\ nd_walls_c (N50_model p) = gp_co100 (ep_global p).
Proof.
  intros Ht Ha. unfold N50_model. rewrite Ht. apply qltb_ge in Ha. rewrite Ha. split; reflexivity.
Qed.

(* construction permeability: the window's construction, 100 when it has none *)
Theorem win_c100_default p w : lookup (np_cons w) (ep_wincons p) = None -> win_c100 p w = 100.
Proof. intros H. unfold win_c100. rewrite H. reflexivity. Qed.
Theorem win_c100_cons p w c : lookup (np_cons w) (ep_wincons p) = Some c -> win_c100 p w = cp_c100 c.
Proof. intros H. unfold win_c100. rewrite H. reflexivity. Qed.

(* ground, adiabatic, interior and non-envelope elements do not count *)
Theorem n50_excludes p ws1 w ws2 :
  ep_walls p = ws1 ++ w :: ws2 -> air_wall w = false ->
  N50_model (with_walls p (ws1 ++ ws2)) = N50_model p.
Proof.
  intros Hw He.
  assert (Hset : airset (with_walls p (ws1 ++ ws2)) = airset p).
  { unfold airset, with_walls. cbn [ep_walls]. rewrite Hw. symmetry. apply filter_app_mid. exact He. }
  unfold N50_model, n50_walls_a, n50_windows_a, n50_windows_ca, wins_of, win_c100. rewrite Hset. reflexivity.
Qed.

Lemma air_wall_spec w : air_wall w = true <-> wp_tenv (snd w) = true /\ wp_bounds (snd w) = EXTERIOR.
Proof.
  unfold air_wall, is_ext. rewrite andb_true_iff. destruct (wp_bounds (snd w)); split; intros [A B]; split; auto; discriminate.
Qed.

(* order of walls and windows is irrelevant *)
Theorem n50_permutation p p' :
  ep_global p = ep_global p' -> ep_wincons p = ep_wincons p' ->
  Permutation (ep_walls p) (ep_walls p') -> Permutation (ep_windows p) (ep_windows p') ->
  n50_walls_a p == n50_walls_a p' /\ n50_windows_a p == n50_windows_a p' /\ n50_windows_ca p == n50_windows_ca p'.
Proof.
  intros _ Hc Hw Hn.
  assert (Hset : Permutation (airset p) (airset p')) by (apply perm_filter; exact Hw).
  assert (Hwins : forall id, Permutation (wins_of p id) (wins_of p' id)) by (intros id; apply perm_filter; exact Hn).
  unfold n50_walls_a, n50_windows_a, n50_windows_ca. repeat split.
  - apply qsum_perm, Permutation_map, Hset.
  - etransitivity; [apply qsum_perm, Permutation_map, Hset|].
    apply qsum_map_ext. intros w _. rewrite (qsum_perm _ _ (Permutation_map _ (Hwins (fst w)))). reflexivity.
  - etransitivity; [apply qsum_perm, Permutation_map, Hset|].
    apply qsum_map_ext. intros w _.
    assert (E : forall x, win_c100 p x = win_c100 p' x) by (intros x; unfold win_c100; rewrite Hc; reflexivity).
    rewrite (qsum_perm _ _ (Permutation_map _ (Hwins (fst w)))).
    apply Qmult_comp; [|reflexivity]. apply qsum_map_ext. intros x _. rewrite E. reflexivity.
Qed.
