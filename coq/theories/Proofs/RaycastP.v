(* Proofs for C13: validation of a dumped tree, bounding boxes, pose isometry, point-in-polygon
   translation invariance, reveal surfaces. *)
From Coq Require Import ZArith NArith QArith Qabs Bool List Lia Lqa Permutation.
From CTE Require Import Base.Num Model.Aabb Model.Poly Model.Bvh Model.Raycast Proofs.NumP Proofs.KP Proofs.AabbP Proofs.BvhP.
Import ListNotations.
Local Open Scope Q_scope.

(* ---------- a dumped tree that passes wf_treeb is well formed ---------- *)
Lemma properb_proper b : properb b = true -> proper b.
Proof. unfold properb, proper. rewrite !andb_true_iff, !qleb_le. tauto. Qed.

Lemma wf_treeb_tbox (t : btree) : wf_treeb t = true -> proper (tbox elt aabbq t).
Proof.
  destruct t as [b es|b l r]; cbn [wf_treeb tbox]; rewrite ?andb_true_iff; intros H; apply properb_proper; tauto.
Qed.

Lemma wf_treeb_sound (t : btree) :
  wf_treeb t = true ->
  wf elt aabbq rayq ebox bhitq t /\ covers elt aabbq rayq ebox bhitq (tbox elt aabbq t) (elems elt aabbq t).
Proof.
  induction t as [b es|b l IHl r IHr]; intros Hw.
  - cbn [wf_treeb] in Hw. apply andb_true_iff in Hw. destruct Hw as [_ Hw]. rewrite forallb_forall in Hw.
    assert (C : covers elt aabbq rayq ebox bhitq b es).
    { intros e ray0 Hin Hb. specialize (Hw e Hin). apply andb_true_iff in Hw. destruct Hw as [Pe Le].
      apply (box_le_bhit (ebox e) b ray0 (properb_proper _ Pe) Le Hb). }
    split; exact C.
  - cbn [wf_treeb] in Hw. rewrite !andb_true_iff in Hw. destruct Hw as [[[[_ Hl] Hr] Hwl] Hwr].
    destruct (IHl Hwl) as [Wl Cl]. destruct (IHr Hwr) as [Wr Cr].
    assert (C : covers elt aabbq rayq ebox bhitq b (elems elt aabbq l ++ elems elt aabbq r)).
    { intros e ray0 Hin Hb. apply in_app_or in Hin. destruct Hin as [Hin|Hin].
      - apply (box_le_bhit _ b ray0 (wf_treeb_tbox l Hwl) Hl). apply (Cl e ray0 Hin Hb).
      - apply (box_le_bhit _ b ray0 (wf_treeb_tbox r Hwr) Hr). apply (Cr e ray0 Hin Hb). }
    split; [cbn; split; [exact C | split; assumption] | exact C].
Qed.

(* a validated tree answers every ray exactly like testing every box one by one *)
Theorem validated_tree_complete (t : btree) es r :
  wf_treeb t = true -> Permutation (elems elt aabbq t) es ->
  blocked_tree elt aabbq rayq ehit bhitq t r = blocked_list elt rayq ehit es r.
Proof.
  intros Hw Hp.
  exact (bvh_complete elt aabbq rayq ebox ehit bhitq box_join (tbox elt aabbq t) (fun e r0 H => H) t es r (proj1 (wf_treeb_sound t Hw)) Hp).
Qed.

(* ---------- the bounding box of points contains them ---------- *)
Definition box_add (b : aabbq) (v : vec3) : aabbq :=
  mkBox (mkV (qmin (vx (blo b)) (vx v)) (qmin (vy (blo b)) (vy v)) (qmin (vz (blo b)) (vz v)))
        (mkV (qmax (vx (bhi b)) (vx v)) (qmax (vy (bhi b)) (vy v)) (qmax (vz (bhi b)) (vz v))).

Lemma box_add_keeps b v p : inside b p -> inside (box_add b v) p.
Proof.
  unfold inside, box_add. cbn [blo bhi vx vy vz]. intros [[A B] [[C D] [E F]]].
  pose proof (qmin_lb_l (vx (blo b)) (vx v)). pose proof (qmax_ub_l (vx (bhi b)) (vx v)).
  pose proof (qmin_lb_l (vy (blo b)) (vy v)). pose proof (qmax_ub_l (vy (bhi b)) (vy v)).
  pose proof (qmin_lb_l (vz (blo b)) (vz v)). pose proof (qmax_ub_l (vz (bhi b)) (vz v)).
  repeat split; lra.
Qed.
Lemma box_add_has b v : inside (box_add b v) v.
Proof.
  unfold inside, box_add. cbn [blo bhi vx vy vz].
  pose proof (qmin_lb_r (vx (blo b)) (vx v)). pose proof (qmax_ub_r (vx (bhi b)) (vx v)).
  pose proof (qmin_lb_r (vy (blo b)) (vy v)). pose proof (qmax_ub_r (vy (bhi b)) (vy v)).
  pose proof (qmin_lb_r (vz (blo b)) (vz v)). pose proof (qmax_ub_r (vz (bhi b)) (vz v)).
  repeat split; lra.
Qed.

Lemma fold_box_add_keeps l : forall b p, inside b p -> inside (fold_left box_add l b) p.
Proof. induction l as [|v l IH]; intros b p H; [exact H|]. cbn. apply IH, box_add_keeps, H. Qed.

Theorem aabb_contains_corners first l p : In p (first :: l) -> inside (aabb_of_points first l) p.
Proof.
  unfold aabb_of_points. change (fun b v => mkBox _ _) with box_add.
  intros [<-|Hin].
  - apply fold_box_add_keeps. unfold inside. cbn. repeat split; lra.
  - revert Hin. generalize (mkBox first first) as b. induction l as [|v l IH]; intros b Hin; [destruct Hin|].
    cbn. destruct Hin as [->|Hin]; [apply fold_box_add_keeps, box_add_has | apply IH, Hin].
Qed.

(* ---------- poses are exact isometries ---------- *)
Definition veq (a b : vec3) : Prop := vx a == vx b /\ vy a == vy b /\ vz a == vz b.

Theorem rot_local_global p v : unit_pose p -> veq (rot_local p (rot_global p v)) v.
Proof.
  intros [Ha Ht]. unfold veq, rot_local, rot_global, rot_x, rot_z. cbn [vx vy vz].
  set (ca := p_ca p) in *. set (sa := p_sa p) in *. set (ct := p_ct p) in *. set (st := p_st p) in *.
  repeat split.
  - transitivity (vx v * (ca * ca + sa * sa)); [ring | rewrite Ha; ring].
  - transitivity ((vy v * ct - vz v * st) * (ca * ca + sa * sa) * ct + (vy v * st + vz v * ct) * st); [ring|].
    rewrite Ha. transitivity (vy v * (ct * ct + st * st)); [ring | rewrite Ht; ring].
  - transitivity (vz v * (ct * ct + st * st)); [|rewrite Ht; ring].
    transitivity ((vy v * ct - vz v * st) * (ca * ca + sa * sa) * (- st) + (vy v * st + vz v * ct) * ct); [ring|].
    rewrite Ha. ring.
Qed.

Theorem to_local_to_global p v : unit_pose p -> veq (to_local p (to_global p v)) v.
Proof.
  intros Hu. destruct (rot_local_global p v Hu) as [A [B C]]. unfold veq, to_local, to_global in *.
  unfold rot_local, rot_global, rot_x, rot_z, vsub, vadd in *. cbn [vx vy vz] in *.
  repeat split.
  - etransitivity; [|exact A]. ring.
  - etransitivity; [|exact B]. ring.
  - etransitivity; [|exact C]. ring.
Qed.

(* rotations preserve the dot product (hence lengths and angles) *)
Theorem rot_global_dot p a b : unit_pose p -> vdot (rot_global p a) (rot_global p b) == vdot a b.
Proof.
  intros [Ha Ht]. unfold vdot, rot_global, rot_x, rot_z. cbn [vx vy vz].
  set (ca := p_ca p) in *. set (sa := p_sa p) in *. set (ct := p_ct p) in *. set (st := p_st p) in *.
  transitivity (vx a * vx b * (ca * ca + sa * sa)
                + vy a * vy b * (ct * ct) * (ca * ca + sa * sa) + vz a * vz b * (st * st) * (ca * ca + sa * sa)
                - (vy a * vz b + vz a * vy b) * ct * st * (ca * ca + sa * sa)
                + vy a * vy b * (st * st) + vz a * vz b * (ct * ct) + (vy a * vz b + vz a * vy b) * ct * st); [ring|].
  rewrite Ha.
  transitivity (vx a * vx b + vy a * vy b * (ct * ct + st * st) + vz a * vz b * (ct * ct + st * st)); [ring|].
  rewrite Ht. ring.
Qed.

(* ---------- point in polygon depends only on relative positions ---------- *)
Lemma qleb_shift a b d : qleb (a + d) (b + d) = qleb a b.
Proof.
  destruct (qleb a b) eqn:E.
  - apply qleb_le in E. apply qleb_le. lra.
  - apply qleb_gt in E. apply qleb_gt. lra.
Qed.

Definition shift (d : pt2) (q : pt2) : pt2 := (fst q + fst d, snd q + snd d).

Lemma pip_toggle_shift x y vj vi d :
  pip_toggle (x + fst d) (y + snd d) (shift d vj) (shift d vi) = pip_toggle x y vj vi.
Proof.
  unfold pip_toggle, shift. cbn [fst snd]. rewrite !qleb_shift.
  assert (E : qleb ((fst vi + fst d - (x + fst d)) * (snd vj + snd d - (snd vi + snd d)))
                   ((snd vi + snd d - (y + snd d)) * (fst vj + fst d - (fst vi + fst d)))
            = qleb ((fst vi - x) * (snd vj - snd vi)) ((snd vi - y) * (fst vj - fst vi))).
  { apply qleb_proper; ring. }
  rewrite E. reflexivity.
Qed.

Lemma pip_loop_shift x y d l : forall vj acc,
  pip_loop (x + fst d) (y + snd d) (shift d vj) (map (shift d) l) acc = pip_loop x y vj l acc.
Proof.
  induction l as [|vi r IH]; intros vj acc; [reflexivity|]. cbn [map pip_loop].
  rewrite pip_toggle_shift. apply IH.
Qed.

Lemma last_map {A B} (f : A -> B) l d : last (map f l) (f d) = f (last l d).
Proof. induction l as [|a l IH]; [reflexivity|]. destruct l; [reflexivity|]. cbn [map last] in *. exact IH. Qed.

Theorem pip_translate q poly d :
  point_in_poly (shift d q) (map (shift d) poly) = point_in_poly q poly.
Proof.
  unfold point_in_poly. destruct poly as [|v r]; [reflexivity|].
  change (map (shift d) (v :: r)) with (shift d v :: map (shift d) r) at 1.
  cbv iota beta. change (shift d v :: map (shift d) r) with (map (shift d) (v :: r)).
  rewrite last_map. unfold shift at 1. cbn [fst snd]. apply pip_loop_shift.
Qed.

(* ---------- reveal surfaces ---------- *)
Fixpoint quad_eq (a b : quad) : Prop :=
  match a, b with
  | [], [] => True
  | u :: a', v :: b' => veq u v /\ quad_eq a' b'
  | _, _ => False
  end.

(* the overhang and the sill built by the code are the reveals along the top and bottom edges,
   for EVERY wall pose *)
Theorem code_overhang_spans p x y w h s :
  quad_eq (code_overhang p x y w h s) (map (to_global p) (reveal_top x y w h s)).
Proof.
  unfold code_overhang, reveal_top, pose_at, to_global, rot_global, rot_x, rot_z, vadd, corner3, quad_eq, veq.
  cbn [map p_pos p_ca p_sa p_ct p_st vx vy vz fst snd]. repeat split; ring.
Qed.
Theorem code_sill_spans p x y w h s :
  quad_eq (code_sill p x y w h s) (map (to_global p) (reveal_sill x y w h s)).
Proof.
  unfold code_sill, reveal_sill, pose_at, to_global, rot_global, rot_x, rot_z, vadd, corner3, quad_eq, veq.
  cbn [map p_pos p_ca p_sa p_ct p_st vx vy vz fst snd]. repeat split; ring.
Qed.

(* the fins as repaired span the gap along the side edges for every wall pose *)
Theorem code_left_fin_spans p x y w h s :
  quad_eq (code_left_fin p x y w h s) (map (to_global p) (reveal_left x y w h s)).
Proof.
  unfold code_left_fin, reveal_left, fin_pt, pose_at, to_global, rot_global, rot_x, rot_z, vadd, corner3, quad_eq, veq.
  cbn [map p_pos p_ca p_sa p_ct p_st vx vy vz fst snd]. repeat split; ring.
Qed.
Theorem code_right_fin_spans p x y w h s :
  quad_eq (code_right_fin p x y w h s) (map (to_global p) (reveal_right x y w h s)).
Proof.
  unfold code_right_fin, reveal_right, rfin_pt, pose_at, to_global, rot_global, rot_x, rot_z, vadd, corner3, quad_eq, veq.
  cbn [map p_pos p_ca p_sa p_ct p_st vx vy vz fst snd]. repeat split; ring.
Qed.

(* before the repair the fins kept the wall's tilt: right for vertical walls only *)
Theorem old_left_fin_vertical p x y w h s : p_ct p == 0 -> p_st p == 1 ->
  quad_eq (old_left_fin p x y w h s) (map (to_global p) (reveal_left x y w h s)).
Proof.
  intros Hc Hs.
  unfold old_left_fin, reveal_left, pose_at, to_global, rot_global, rot_x, rot_z, vadd, corner3, quad_eq, veq.
  cbn [map p_pos p_ca p_sa p_ct p_st vx vy vz fst snd]. rewrite !Hc, !Hs. repeat split; ring.
Qed.
Definition roof_pose : pose := mkPose (mkV 0 0 3) 1 0 1 0.   (* horizontal roof at z = 3, azimuth 0, tilt 0 *)
Theorem old_left_fin_refuted :
  unit_pose roof_pose /\
  ~ quad_eq (old_left_fin roof_pose 1 1 1 1 (1 # 2)) (map (to_global roof_pose) (reveal_left 1 1 1 1 (1 # 2))).
Proof.
  split; [split; reflexivity|]. unfold quad_eq, veq. cbn. intros H. decompose [and] H.
  repeat match goal with Hh : (_ == _)%Q |- _ => first [vm_compute in Hh; discriminate Hh | clear Hh] end.
Qed.
