(* Facts about the exact-rational helpers of Base/Num.v *)
From Coq Require Import ZArith NArith QArith Qabs Qround Bool List Lia Lqa Permutation Morphisms Setoid.
From CTE Require Import Base.Num.
Import ListNotations.
Local Open Scope Q_scope.

Lemma qleb_le a b : qleb a b = true <-> a <= b.
Proof. unfold qleb. apply Qle_bool_iff. Qed.
Lemma qleb_gt a b : qleb a b = false <-> b < a.
Proof.
  unfold qleb. split; intros H.
  - apply Qnot_le_lt. intros Hle. apply Qle_bool_iff in Hle. congruence.
  - destruct (Qle_bool a b) eqn:E; [|reflexivity]. apply Qle_bool_iff in E. lra.
Qed.
Lemma qltb_lt' a b : qltb a b = true <-> a < b.
Proof. unfold qltb. rewrite negb_true_iff. apply (qleb_gt b a). Qed.
Lemma qltb_ge a b : qltb a b = false <-> b <= a.
Proof. unfold qltb. rewrite negb_false_iff. apply (qleb_le b a). Qed.
Lemma qeqb_eq a b : qeqb a b = true <-> a == b.
Proof. unfold qeqb. apply Qeq_bool_iff. Qed.
Lemma qeqb_neq a b : qeqb a b = false <-> ~ a == b.
Proof.
  unfold qeqb. split; intros H.
  - intros E. apply Qeq_bool_iff in E. congruence.
  - destruct (Qeq_bool a b) eqn:E; [|reflexivity]. apply Qeq_bool_iff in E. contradiction.
Qed.

Global Instance qleb_proper : Proper (Qeq ==> Qeq ==> eq) qleb.
Proof.
  intros a a' Ha b b' Hb. destruct (qleb a b) eqn:E, (qleb a' b') eqn:E'; try reflexivity.
  - apply qleb_le in E. apply qleb_gt in E'. lra.
  - apply qleb_gt in E. apply qleb_le in E'. lra.
Qed.
Global Instance qltb_proper : Proper (Qeq ==> Qeq ==> eq) qltb.
Proof. intros a a' Ha b b' Hb. unfold qltb. rewrite Ha, Hb. reflexivity. Qed.
Global Instance qeqb_proper : Proper (Qeq ==> Qeq ==> eq) qeqb.
Proof.
  intros a a' Ha b b' Hb. destruct (qeqb a b) eqn:E, (qeqb a' b') eqn:E'; try reflexivity.
  - apply qeqb_eq in E. apply qeqb_neq in E'. exfalso. apply E'. rewrite <- Ha, <- Hb. exact E.
  - apply qeqb_neq in E. apply qeqb_eq in E'. exfalso. apply E. rewrite Ha, Hb. exact E'.
Qed.

Lemma qmax_ub_l a b : a <= qmax a b.
Proof. unfold qmax. destruct (qleb a b) eqn:E; [apply qleb_le in E; exact E | lra]. Qed.
Lemma qmax_ub_r a b : b <= qmax a b.
Proof. unfold qmax. destruct (qleb a b) eqn:E; [lra | apply qleb_gt in E; lra]. Qed.
Lemma qmin_lb_l a b : qmin a b <= a.
Proof. unfold qmin. destruct (qleb a b) eqn:E; [lra | apply qleb_gt in E; lra]. Qed.
Lemma qmin_lb_r a b : qmin a b <= b.
Proof. unfold qmin. destruct (qleb a b) eqn:E; [apply qleb_le in E; exact E | lra]. Qed.

(* ---- sums ---- *)
Lemma qsum_nil : qsum [] = 0. Proof. reflexivity. Qed.
Lemma qsum_cons a l : qsum (a :: l) == a + qsum l.
Proof. unfold qsum. cbn [fold_right]. apply Qred_correct. Qed.
Lemma qsum_app a b : qsum (a ++ b) == qsum a + qsum b.
Proof. induction a as [|x a IH]; cbn [app]; rewrite ?qsum_cons, ?qsum_nil; [lra|]. rewrite IH. lra. Qed.

Lemma qsum_perm a b : Permutation a b -> qsum a == qsum b.
Proof.
  induction 1 as [|x l l' _ IH|x y l|l l' l'' _ IH1 _ IH2]; rewrite ?qsum_cons.
  - reflexivity.
  - rewrite IH. reflexivity.
  - lra.
  - rewrite IH1. exact IH2.
Qed.

Lemma qsum_map_ext {A} (f g : A -> Q) l : (forall x, In x l -> f x == g x) -> qsum (map f l) == qsum (map g l).
Proof.
  induction l as [|a l IH]; intros H; cbn [map]; rewrite ?qsum_cons; [reflexivity|].
  rewrite (H a (or_introl eq_refl)), IH; [reflexivity|]. intros x Hx. apply H. right. exact Hx.
Qed.

Lemma qsum_map_nonneg {A} (f : A -> Q) l : (forall x, In x l -> 0 <= f x) -> 0 <= qsum (map f l).
Proof.
  induction l as [|a l IH]; intros H; cbn [map]; rewrite ?qsum_cons; [cbn; lra|].
  pose proof (H a (or_introl eq_refl)). assert (0 <= qsum (map f l)) by (apply IH; intros x Hx; apply H; right; exact Hx). lra.
Qed.

Lemma qsum_map_le {A} (f g : A -> Q) l : (forall x, In x l -> f x <= g x) -> qsum (map f l) <= qsum (map g l).
Proof.
  induction l as [|a l IH]; intros H; cbn [map]; rewrite ?qsum_cons; [lra|].
  pose proof (H a (or_introl eq_refl)).
  assert (qsum (map f l) <= qsum (map g l)) by (apply IH; intros x Hx; apply H; right; exact Hx). lra.
Qed.

Lemma qsum_map_scal {A} (c : Q) (f : A -> Q) l : qsum (map (fun x => c * f x) l) == c * qsum (map f l).
Proof. induction l as [|a l IH]; cbn [map]; rewrite ?qsum_cons; [cbn; lra|]. rewrite IH. lra. Qed.

Lemma qsum_map_plus {A} (f g : A -> Q) l :
  qsum (map (fun x => f x + g x) l) == qsum (map f l) + qsum (map g l).
Proof. induction l as [|a l IH]; cbn [map]; rewrite ?qsum_cons; [cbn; lra|]. rewrite IH. lra. Qed.

(* splitting a sum by a boolean predicate *)
Lemma qsum_filter_split {A} (f : A -> Q) (p : A -> bool) l :
  qsum (map f l) == qsum (map f (filter p l)) + qsum (map f (filter (fun x => negb (p x)) l)).
Proof.
  induction l as [|a l IH]; cbn [map filter]; [cbn; lra|]. rewrite qsum_cons, IH.
  destruct (p a); cbn [negb map]; rewrite qsum_cons; lra.
Qed.

Lemma qsum_flat_map {A B} (f : B -> Q) (g : A -> list B) l :
  qsum (map f (flat_map g l)) == qsum (map (fun a => qsum (map f (g a))) l).
Proof.
  induction l as [|a l IH]; cbn [flat_map map]; [reflexivity|].
  rewrite map_app, qsum_app, qsum_cons, IH. reflexivity.
Qed.

(* ---- rounding ---- *)
Lemma round_haz_close x : Qabs (inject_Z (round_haz x) - x) <= 1 # 2.
Proof.
  unfold round_haz. destruct (qleb 0 x) eqn:E.
  - pose proof (Qfloor_le (x + (1#2))) as H1. pose proof (Qlt_floor (x + (1#2))) as H2.
    rewrite inject_Z_plus in H2. change (inject_Z 1) with 1 in H2.
    set (f := inject_Z (Qfloor (x + (1 # 2)))) in *. apply Qabs_Qle_condition. split; lra.
  - pose proof (Qfloor_le (- x + (1#2))) as H1. pose proof (Qlt_floor (- x + (1#2))) as H2.
    rewrite inject_Z_plus in H2. change (inject_Z 1) with 1 in H2. rewrite inject_Z_opp.
    set (f := inject_Z (Qfloor (- x + (1 # 2)))) in *. apply Qabs_Qle_condition. split; lra.
Qed.

Lemma round2_close x : Qabs (round2 x - x) <= 1 # 200.
Proof.
  unfold round2. pose proof (round_haz_close (x * 100)) as H.
  apply Qabs_Qle_condition in H. apply Qabs_Qle_condition.
  assert (E : inject_Z (round_haz (x * 100)) / 100 - x == (inject_Z (round_haz (x * 100)) - x * 100) / 100) by (field).
  rewrite E. split.
  - apply Qle_shift_div_l; lra.
  - apply Qle_shift_div_r; lra.
Qed.

Lemma round_haz_mono x y : x <= y -> (round_haz x <= round_haz y)%Z.
Proof.
  intros H. unfold round_haz.
  destruct (qleb 0 x) eqn:Ex, (qleb 0 y) eqn:Ey.
  - apply Qfloor_resp_le. lra.
  - apply qleb_le in Ex. apply qleb_gt in Ey. lra.
  - apply qleb_gt in Ex. apply qleb_le in Ey.
    assert (0 <= Qfloor (y + (1#2)))%Z. { change 0%Z with (Qfloor 0). apply Qfloor_resp_le. lra. }
    assert (0 <= Qfloor (- x + (1#2)))%Z. { change 0%Z with (Qfloor 0). apply Qfloor_resp_le. lra. }
    lia.
  - assert (Qfloor (- y + (1#2)) <= Qfloor (- x + (1#2)))%Z by (apply Qfloor_resp_le; lra). lia.
Qed.

Lemma round2_mono x y : x <= y -> round2 x <= round2 y.
Proof.
  intros H. unfold round2.
  assert (round_haz (x * 100) <= round_haz (y * 100))%Z by (apply round_haz_mono; lra).
  apply Qmult_le_compat_r; [|apply Qinv_le_0_compat; lra]. rewrite <- Zle_Qle. assumption.
Qed.
