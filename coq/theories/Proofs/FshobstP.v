(* Proofs about Model/Fshobst.v *)
From Coq Require Import ZArith NArith QArith Qabs Bool List Lia Lqa.
From CTE Require Import Base.Num Model.Aabb Model.Poly Model.Fshobst Proofs.NumP.
Import ListNotations.
Local Open Scope Q_scope.

(* ---------- exact sunlit fraction (no margins) ---------- *)
Definition blocked_exact (cands : list occ) (d : vec3) (o : vec3) : bool :=
  existsb (fun c => ray_hits_poly (oc_pose c) (oc_poly c) (mkRay o d)) cands.
Definition count_blocked (cands : list occ) (origins : list vec3) (d : vec3) : nat :=
  length (filter (blocked_exact cands d) origins).
Definition sunlit_exact (cands : list occ) (origins : list vec3) (d : vec3) : Q :=
  sunlit_of (count_blocked cands origins d) (length origins).

Lemma filter_length_le {A} (f : A -> bool) l : (length (filter f l) <= length l)%nat.
Proof. induction l as [|a l IH]; cbn; [lia|]. destruct (f a); cbn; lia. Qed.

Lemma filter_length_mono {A} (f g : A -> bool) l :
  (forall x, f x = true -> g x = true) -> (length (filter f l) <= length (filter g l))%nat.
Proof.
  intros H. induction l as [|a l IH]; cbn; [lia|].
  destruct (f a) eqn:Ef; [rewrite (H a Ef); cbn; lia|]. destruct (g a); cbn; lia.
Qed.

Lemma sunlit_of_range b t : (b <= t)%nat -> (0 < t)%nat -> 0 <= sunlit_of b t <= 1.
Proof.
  intros Hb Ht. unfold sunlit_of.
  assert (Ht' : 0 < inject_Z (Z.of_nat t)) by (change 0 with (inject_Z 0); rewrite <- Zlt_Qlt; lia).
  assert (Hb0 : 0 <= inject_Z (Z.of_nat b)) by (change 0 with (inject_Z 0); rewrite <- Zle_Qle; lia).
  assert (Hbt : inject_Z (Z.of_nat b) <= inject_Z (Z.of_nat t)) by (rewrite <- Zle_Qle; lia).
  assert (0 <= inject_Z (Z.of_nat b) / inject_Z (Z.of_nat t)) by (apply Qle_shift_div_l; lra).
  assert (inject_Z (Z.of_nat b) / inject_Z (Z.of_nat t) <= 1) by (apply Qle_shift_div_r; lra).
  split; lra.
Qed.

Lemma sunlit_of_antitone b b' t : (b <= b')%nat -> (0 < t)%nat -> sunlit_of b' t <= sunlit_of b t.
Proof.
  intros Hb Ht. unfold sunlit_of.
  assert (Ht' : 0 < inject_Z (Z.of_nat t)) by (change 0 with (inject_Z 0); rewrite <- Zlt_Qlt; lia).
  assert (Hbb : inject_Z (Z.of_nat b) <= inject_Z (Z.of_nat b')) by (rewrite <- Zle_Qle; lia).
  assert (inject_Z (Z.of_nat b) / inject_Z (Z.of_nat t) <= inject_Z (Z.of_nat b') / inject_Z (Z.of_nat t)).
  { unfold Qdiv. apply Qmult_le_compat_r; [exact Hbb | apply Qinv_le_0_compat; lra]. }
  lra.
Qed.

Theorem sunlit_range cands origins d : origins <> [] -> 0 <= sunlit_exact cands origins d <= 1.
Proof.
  intros H. apply sunlit_of_range; [apply filter_length_le | destruct origins; [contradiction | cbn; lia]].
Qed.

(* more obstacles never unblock a sample point ... *)
Theorem blocked_monotone cands cands' d o :
  incl cands cands' -> blocked_exact cands d o = true -> blocked_exact cands' d o = true.
Proof.
  intros Hi H. unfold blocked_exact in *. apply existsb_exists in H. destruct H as [c [Hin Hh]].
  apply existsb_exists. exists c. split; [apply Hi, Hin | exact Hh].
Qed.

(* ... so adding any obstacle, whatever its geometry, never increases the sunlit fraction *)
Theorem add_obstacle_le c cands origins d : origins <> [] ->
  sunlit_exact (c :: cands) origins d <= sunlit_exact cands origins d.
Proof.
  intros H. unfold sunlit_exact. apply sunlit_of_antitone; [|destruct origins; [contradiction | cbn; lia]].
  apply filter_length_mono. intros x. apply blocked_monotone. intros y Hy. right. exact Hy.
Qed.

(* the sure-blocked count used by the correspondence is monotone too *)
Theorem verdict_blocked_monotone c cands o d :
  point_verdict cands o d = Blocked -> point_verdict (c :: cands) o d = Blocked.
Proof.
  unfold point_verdict. cbn [map existsb].
  destruct (existsb (fun v => match v with Some true => true | _ => false end)
              (map (fun c0 => decided_hit (oc_pose c0) (oc_poly c0) (mkRay o d)) cands)) eqn:E.
  - intros _. rewrite orb_true_r. reflexivity.
  - destruct (forallb _ _); discriminate.
Qed.

(* ---------- aggregation ---------- *)
Definition hour_sane (h : hour) : Prop := 0 <= hr_f h <= 1 /\ 0 <= hr_dir h /\ 0 <= hr_dif h /\ 0 < hr_dir h + hr_dif h.

Lemma hour_factor_range h : hour_sane h -> 0 <= hour_factor h <= 1.
Proof.
  intros [[F0 F1] [D0 [E0 S]]]. unfold hour_factor.
  assert (P0 : 0 <= hr_f h * hr_dir h) by (apply Qmult_le_0_compat; assumption).
  assert (P1 : hr_f h * hr_dir h <= 1 * hr_dir h) by (apply Qmult_le_compat_r; assumption).
  set (pr := hr_f h * hr_dir h) in *.
  split.
  - apply Qle_shift_div_l; [exact S | lra].
  - apply Qle_shift_div_r; [exact S | lra].
Qed.

Lemma mean_range (l : list Q) lo hi : l <> [] -> (forall x, In x l -> lo <= x <= hi) ->
  lo <= qsum l / inject_Z (Z.of_nat (length l)) <= hi.
Proof.
  intros Hne H.
  assert (Hn : 0 < inject_Z (Z.of_nat (length l))).
  { change 0 with (inject_Z 0). rewrite <- Zlt_Qlt. destruct l; [contradiction | cbn; lia]. }
  assert (Hs : lo * inject_Z (Z.of_nat (length l)) <= qsum l /\ qsum l <= hi * inject_Z (Z.of_nat (length l))).
  { clear Hne Hn. induction l as [|a l IH]; [rewrite qsum_nil; cbn [length Z.of_nat]; change (inject_Z 0) with 0; split; lra|].
    assert (Ha := H a (or_introl eq_refl)).
    destruct IH as [I1 I2]; [intros x Hx; apply H; right; exact Hx|].
    rewrite qsum_cons. cbn [length]. rewrite Nat2Z.inj_succ, <- Z.add_1_r, inject_Z_plus. change (inject_Z 1) with 1.
    split; nra. }
  destruct Hs as [S1 S2]. split; [apply Qle_shift_div_l | apply Qle_shift_div_r]; lra.
Qed.

(* every factor lies in [0,1] *)
Theorem fsh_range hs : hs <> [] -> (forall h, In h hs -> hour_sane h) -> 0 <= fsh hs <= 1.
Proof.
  intros Hne H. unfold fsh. rewrite <- (map_length hour_factor hs). apply mean_range.
  - destruct hs; [contradiction | discriminate].
  - intros x Hx. apply in_map_iff in Hx. destruct Hx as [h [<- Hh]]. apply hour_factor_range, H, Hh.
Qed.

(* the factor is monotone in every hourly sunlit fraction *)
Definition same_weights (a b : hour) : Prop := hr_dir a == hr_dir b /\ hr_dif a == hr_dif b.

Lemma hour_factor_mono a b : same_weights a b -> 0 <= hr_dir a -> 0 < hr_dir a + hr_dif a -> hr_f a <= hr_f b ->
  hour_factor a <= hour_factor b.
Proof.
  intros [E1 E2] D S F. unfold hour_factor. rewrite <- E1, <- E2.
  assert (P : hr_f a * hr_dir a <= hr_f b * hr_dir a) by (apply Qmult_le_compat_r; assumption).
  set (p1 := hr_f a * hr_dir a) in *. set (p2 := hr_f b * hr_dir a) in *.
  unfold Qdiv. apply Qmult_le_compat_r; [lra | apply Qinv_le_0_compat; lra].
Qed.

Theorem fsh_monotone hs hs' :
  Forall2 (fun a b => same_weights a b /\ 0 <= hr_dir a /\ 0 < hr_dir a + hr_dif a /\ hr_f a <= hr_f b) hs hs' ->
  fsh hs <= fsh hs'.
Proof.
  intros H. unfold fsh.
  assert (Hs : qsum (map hour_factor hs) <= qsum (map hour_factor hs')).
  { induction H as [|a b l l' [Hw [Hd [Hs Hf]]] _ IH]; [cbn; lra|]. cbn [map]. rewrite !qsum_cons.
    pose proof (hour_factor_mono a b Hw Hd Hs Hf). lra. }
  assert (Hl : length hs = length hs') by (clear Hs; induction H; cbn; congruence).
  rewrite <- Hl.
  destruct hs as [|h0 hs0].
  - destruct hs'; [apply Qle_refl | discriminate Hl].
  - assert (Hn : 0 < inject_Z (Z.of_nat (length (h0 :: hs0)))) by (change 0 with (inject_Z 0); rewrite <- Zlt_Qlt; cbn; lia).
    unfold Qdiv. apply Qmult_le_compat_r; [exact Hs | apply Qinv_le_0_compat; lra].
Qed.

(* nothing hides the window at any hour: the factor is 1 *)
Theorem fsh_unobstructed hs : hs <> [] ->
  (forall h, In h hs -> hr_f h == 1 /\ 0 < hr_dir h + hr_dif h) -> fsh hs == 1.
Proof.
  intros Hne H. unfold fsh.
  assert (Hs : qsum (map hour_factor hs) == inject_Z (Z.of_nat (length hs))).
  { clear Hne. induction hs as [|a l IH]; [reflexivity|]. cbn [map length]. rewrite qsum_cons, IH.
    - destruct (H a (or_introl eq_refl)) as [F S]. unfold hour_factor. rewrite F.
      rewrite Nat2Z.inj_succ, <- Z.add_1_r, inject_Z_plus. change (inject_Z 1) with 1. field. lra.
    - intros h Hh. apply H. right. exact Hh. }
  rewrite Hs. field.
  assert (0 < inject_Z (Z.of_nat (length hs))) by (change 0 with (inject_Z 0); rewrite <- Zlt_Qlt; destruct hs; [contradiction | cbn; lia]).
  lra.
Qed.

(* hidden at every hour: the diffuse share only *)
Theorem fsh_hidden hs : (forall h, In h hs -> hr_f h == 0) ->
  fsh hs == qsum (map (fun h => hr_dif h / (hr_dir h + hr_dif h)) hs) / inject_Z (Z.of_nat (length hs)).
Proof.
  intros H. unfold fsh.
  assert (Hs : qsum (map hour_factor hs) == qsum (map (fun h => hr_dif h / (hr_dir h + hr_dif h)) hs)).
  { apply qsum_map_ext. intros h Hh. unfold hour_factor. rewrite (H h Hh). unfold Qdiv. ring. }
  rewrite Hs. reflexivity.
Qed.

(* two decimals keep the inequalities *)
Theorem round2_keeps_le x y : x <= y -> round2 x <= round2 y.
Proof. exact (round2_mono x y). Qed.
