From Coq Require Import ZArith NArith QArith Qabs Bool List Lia.
From CTE Require Import Base.Num Model.BModel Model.Checks Model.Purge Proofs.ChecksP.
Import ListNotations.
Local Open Scope nat_scope.

(* ---------- generic facts about keep / filter ---------- *)
Lemma In_keep {A} (idf : A -> uuid) used l x :
  In x (keep idf used l) <-> In x l /\ In (idf x) used.
Proof. unfold keep. rewrite filter_In, mem_In. reflexivity. Qed.

Lemma filter_idem {A} (f : A -> bool) l : filter f (filter f l) = filter f l.
Proof.
  induction l as [|a l IH]; [reflexivity|]. cbn. destruct (f a) eqn:E; [|exact IH].
  cbn. rewrite E, IH. reflexivity.
Qed.

Lemma keep_keep {A} (idf : A -> uuid) used l : keep idf used (keep idf used l) = keep idf used l.
Proof. apply filter_idem. Qed.

Lemma filter_ext_in' {A} (f g : A -> bool) l :
  (forall x, In x l -> f x = g x) -> filter f l = filter g l.
Proof.
  induction l as [|a l IH]; intros H; [reflexivity|]. cbn.
  rewrite (H a (or_introl eq_refl)), IH; [reflexivity|]. intros x Hx. apply H. right. exact Hx.
Qed.

Lemma flat_map_ext_in' {A B} (f g : A -> list B) l :
  (forall x, In x l -> f x = g x) -> flat_map f l = flat_map g l.
Proof.
  induction l as [|a l IH]; intros H; [reflexivity|]. cbn.
  rewrite (H a (or_introl eq_refl)), IH; [reflexivity|]. intros x Hx. apply H. right. exact Hx.
Qed.

Lemma mem_map_keep {A} (idf : A -> uuid) used l x :
  mem x (map idf (keep idf used l)) = mem x (map idf l) && mem x used.
Proof.
  apply Bool.eq_iff_eq_true. rewrite andb_true_iff, !mem_In, !in_map_iff. split.
  - intros [a [He Ha]]. apply In_keep in Ha. destruct Ha as [Ha Hu]. subst x.
    split; [exists a; auto | exact Hu].
  - intros [[a [He Ha]] Hu]. subst x. exists a. split; [reflexivity|]. apply In_keep. auto.
Qed.

(* order is kept: the result of every filter is a sublist of its input *)
Inductive sublist {A} : list A -> list A -> Prop :=
| sl_nil : sublist [] []
| sl_skip x l1 l2 : sublist l1 l2 -> sublist l1 (x :: l2)
| sl_keep x l1 l2 : sublist l1 l2 -> sublist (x :: l1) (x :: l2).

Lemma filter_sublist {A} (f : A -> bool) l : sublist (filter f l) l.
Proof.
  induction l as [|a l IH]; cbn; [constructor|]. destruct (f a); constructor; exact IH.
Qed.

(* ---------- declarative reachability ---------- *)
Definition space_reach (m : model) (s : space) : Prop :=
  exists w, In w (m_walls m) /\ (w_space w = s_id s \/ w_next w = Some (s_id s)).
Definition kept_space (m : model) (s : space) : Prop := In s (m_spaces m) /\ space_reach m s.

Definition loads_reach (m : model) (l : loads) : Prop :=
  exists s, kept_space m s /\ s_loads s = Some (ld_id l).
Definition kept_loads (m : model) (l : loads) : Prop := In l (m_loads m) /\ loads_reach m l.
Definition thermostat_reach (m : model) (t : thermostat) : Prop :=
  exists s, kept_space m s /\ s_thermostat s = Some (th_id t).
Definition kept_thermostat (m : model) (t : thermostat) : Prop :=
  In t (m_thermostats m) /\ thermostat_reach m t.

Definition year_reach (m : model) (y : sched) : Prop :=
  (exists l, kept_loads m l /\
     (ld_people_sch l = Some (sc_id y) \/ ld_equip_sch l = Some (sc_id y) \/ ld_light_sch l = Some (sc_id y))) \/
  (exists t, kept_thermostat m t /\ (th_max t = Some (sc_id y) \/ th_min t = Some (sc_id y))).
Definition kept_year (m : model) (y : sched) : Prop := In y (sch_year (m_sched m)) /\ year_reach m y.
Definition week_reach (m : model) (w : sched) : Prop :=
  exists y, kept_year m y /\ In (sc_id w) (map fst (sc_values y)).
Definition kept_week (m : model) (w : sched) : Prop := In w (sch_week (m_sched m)) /\ week_reach m w.
Definition day_reach (m : model) (d : schedday) : Prop :=
  exists w, kept_week m w /\ In (sd_id d) (map fst (sc_values w)).

Definition wallcons_reach (m : model) (c : wallcons) : Prop :=
  exists w, In w (m_walls m) /\ w_cons w = wc_id c.
Definition kept_wallcons m c := In c (c_wallcons (m_cons m)) /\ wallcons_reach m c.
Definition wincons_reach (m : model) (c : wincons) : Prop :=
  exists w, In w (m_windows m) /\ win_cons w = wnc_id c.
Definition kept_wincons m c := In c (c_wincons (m_cons m)) /\ wincons_reach m c.
Definition material_reach (m : model) (x : material) : Prop :=
  exists c l, kept_wallcons m c /\ In l (wc_layers c) /\ l_mat l = m_id x.
Definition glass_reach (m : model) (x : glass) : Prop :=
  exists c, kept_wincons m c /\ wnc_glass c = gl_id x.
Definition frame_reach (m : model) (x : frame) : Prop :=
  exists c, kept_wincons m c /\ wnc_frame c = fr_id x.
Definition tb_reach (t : tbridge) : Prop := (f32_eps < Qabs (tb_l t))%Q.

(* ---------- membership in the used-id lists ---------- *)
Lemma In_opt_list {A} (o : option A) x : In x (opt_list o) <-> o = Some x.
Proof. destruct o; cbn; split; intros H; try tauto; try discriminate.
  - destruct H as [->|[]]. reflexivity.
  - inversion H. auto.
Qed.

Lemma In_used_spaces ws x :
  In x (used_spaces ws) <-> exists w, In w ws /\ (w_space w = x \/ w_next w = Some x).
Proof.
  unfold used_spaces. rewrite in_flat_map. split; intros [w [Hw H]]; exists w; (split; [exact Hw|]).
  - cbn in H. destruct H as [H|H]; [left; exact H | right; now apply In_opt_list].
  - cbn. destruct H as [H|H]; [left; exact H | right; now apply In_opt_list].
Qed.

(* ---------- purge removes exactly the unreachable items ---------- *)
Theorem purge_spaces_exact m s : In s (m_spaces (purge m)) <-> kept_space m s.
Proof.
  unfold purge, kept_space, space_reach. cbn [m_spaces]. rewrite In_keep, In_used_spaces. reflexivity.
Qed.

Theorem purge_tbs_exact m t : In t (m_tbs (purge m)) <-> In t (m_tbs m) /\ tb_reach t.
Proof.
  unfold purge, tb_reach. cbn [m_tbs]. rewrite filter_In. unfold tb_kept. rewrite qltb_lt. reflexivity.
Qed.

Theorem purge_wallcons_exact m c : In c (c_wallcons (m_cons (purge m))) <-> kept_wallcons m c.
Proof.
  unfold purge, kept_wallcons, wallcons_reach. cbn [m_cons c_wallcons]. rewrite In_keep.
  unfold used_wallcons. rewrite in_map_iff.
  split; intros [H [w [H1 H2]]]; (split; [exact H|]); exists w; auto.
Qed.

Theorem purge_wincons_exact m c : In c (c_wincons (m_cons (purge m))) <-> kept_wincons m c.
Proof.
  unfold purge, kept_wincons, wincons_reach. cbn [m_cons c_wincons]. rewrite In_keep.
  unfold used_wincons. rewrite in_map_iff.
  split; intros [H [w [H1 H2]]]; (split; [exact H|]); exists w; auto.
Qed.

Theorem purge_materials_exact m x :
  In x (c_materials (m_cons (purge m))) <-> In x (c_materials (m_cons m)) /\ material_reach m x.
Proof.
  unfold material_reach. pose proof (purge_wallcons_exact m) as Hc.
  unfold purge in *. cbn [m_cons c_materials c_wallcons] in *. rewrite In_keep.
  unfold used_materials. rewrite in_flat_map. split.
  - intros [Hx [c [Hin Hl]]]. split; [exact Hx|]. apply in_map_iff in Hl. destruct Hl as [l [Hl1 Hl2]].
    exists c, l. split; [now apply Hc | auto].
  - intros [Hx [c [l [Hk [Hl He]]]]]. split; [exact Hx|]. exists c. split; [now apply Hc|].
    apply in_map_iff. exists l. auto.
Qed.

Theorem purge_glasses_exact m x :
  In x (c_glasses (m_cons (purge m))) <-> In x (c_glasses (m_cons m)) /\ glass_reach m x.
Proof.
  unfold glass_reach. pose proof (purge_wincons_exact m) as Hc.
  unfold purge in *. cbn [m_cons c_glasses c_wincons] in *. rewrite In_keep.
  unfold used_glasses. rewrite in_map_iff. split.
  - intros [Hx [c [He Hin]]]. split; [exact Hx|]. exists c. split; [now apply Hc | exact He].
  - intros [Hx [c [Hk He]]]. split; [exact Hx|]. exists c. split; [exact He | now apply Hc].
Qed.

Theorem purge_frames_exact m x :
  In x (c_frames (m_cons (purge m))) <-> In x (c_frames (m_cons m)) /\ frame_reach m x.
Proof.
  unfold frame_reach. pose proof (purge_wincons_exact m) as Hc.
  unfold purge in *. cbn [m_cons c_frames c_wincons] in *. rewrite In_keep.
  unfold used_frames. rewrite in_map_iff. split.
  - intros [Hx [c [He Hin]]]. split; [exact Hx|]. exists c. split; [now apply Hc | exact He].
  - intros [Hx [c [Hk He]]]. split; [exact Hx|]. exists c. split; [exact He | now apply Hc].
Qed.

Theorem purge_loads_exact m l : In l (m_loads (purge m)) <-> kept_loads m l.
Proof.
  unfold kept_loads, loads_reach. pose proof (purge_spaces_exact m) as Hs.
  unfold purge in *. cbn [m_loads m_spaces] in *. rewrite In_keep.
  unfold used_loads. rewrite in_flat_map. split.
  - intros [Hx [s [Hin Ho]]]. split; [exact Hx|]. exists s. split; [now apply Hs | now apply In_opt_list].
  - intros [Hx [s [Hk Ho]]]. split; [exact Hx|]. exists s. split; [now apply Hs | now apply In_opt_list].
Qed.

Theorem purge_thermostats_exact m t : In t (m_thermostats (purge m)) <-> kept_thermostat m t.
Proof.
  unfold kept_thermostat, thermostat_reach. pose proof (purge_spaces_exact m) as Hs.
  unfold purge in *. cbn [m_thermostats m_spaces] in *. rewrite In_keep.
  unfold used_thermostats. rewrite in_flat_map. split.
  - intros [Hx [s [Hin Ho]]]. split; [exact Hx|]. exists s. split; [now apply Hs | now apply In_opt_list].
  - intros [Hx [s [Hk Ho]]]. split; [exact Hx|]. exists s. split; [now apply Hs | now apply In_opt_list].
Qed.

Lemma In_used_years ls ts x :
  In x (used_years ls ts) <->
  (exists l, In l ls /\ (ld_people_sch l = Some x \/ ld_equip_sch l = Some x \/ ld_light_sch l = Some x)) \/
  (exists t, In t ts /\ (th_max t = Some x \/ th_min t = Some x)).
Proof.
  unfold used_years. rewrite in_app_iff, !in_flat_map. split.
  - intros [[l [Hl H]]|[t [Ht H]]].
    + left. exists l. split; [exact Hl|]. rewrite !in_app_iff, !In_opt_list in H. tauto.
    + right. exists t. split; [exact Ht|]. rewrite !in_app_iff, !In_opt_list in H. tauto.
  - intros [[l [Hl H]]|[t [Ht H]]].
    + left. exists l. split; [exact Hl|]. rewrite !in_app_iff, !In_opt_list. tauto.
    + right. exists t. split; [exact Ht|]. rewrite !in_app_iff, !In_opt_list. tauto.
Qed.

Theorem purge_year_exact m y : In y (sch_year (m_sched (purge m))) <-> kept_year m y.
Proof.
  unfold kept_year, year_reach.
  pose proof (purge_loads_exact m) as Hl. pose proof (purge_thermostats_exact m) as Ht.
  unfold purge in *. cbn [m_sched sch_year m_loads m_thermostats] in *.
  rewrite In_keep, In_used_years. split.
  - intros [Hy [[l [Hin H]]|[t [Hin H]]]]; (split; [exact Hy|]).
    + left. exists l. split; [now apply Hl | exact H].
    + right. exists t. split; [now apply Ht | exact H].
  - intros [Hy [[l [Hin H]]|[t [Hin H]]]]; (split; [exact Hy|]).
    + left. exists l. split; [now apply Hl | exact H].
    + right. exists t. split; [now apply Ht | exact H].
Qed.

Lemma In_used_sub ss x : In x (used_sub ss) <-> exists s, In s ss /\ In x (map fst (sc_values s)).
Proof. unfold used_sub. rewrite in_flat_map. reflexivity. Qed.

Theorem purge_week_exact m w : In w (sch_week (m_sched (purge m))) <-> kept_week m w.
Proof.
  unfold kept_week, week_reach. pose proof (purge_year_exact m) as Hy.
  unfold purge in *. cbn [m_sched sch_year sch_week] in *. rewrite In_keep, In_used_sub. split.
  - intros [Hw [y [Hin H]]]. split; [exact Hw|]. exists y. split; [now apply Hy | exact H].
  - intros [Hw [y [Hin H]]]. split; [exact Hw|]. exists y. split; [now apply Hy | exact H].
Qed.

Theorem purge_day_exact m d :
  In d (sch_day (m_sched (purge m))) <-> In d (sch_day (m_sched m)) /\ day_reach m d.
Proof.
  unfold day_reach. pose proof (purge_week_exact m) as Hw.
  unfold purge in *. cbn [m_sched sch_day sch_week] in *. rewrite In_keep, In_used_sub. split.
  - intros [Hd [w [Hin H]]]. split; [exact Hd|]. exists w. split; [now apply Hw | exact H].
  - intros [Hd [w [Hin H]]]. split; [exact Hd|]. exists w. split; [now apply Hw | exact H].
Qed.

(* relative order is kept in every collection *)
Theorem purge_order m :
  sublist (m_spaces (purge m)) (m_spaces m) /\ sublist (m_tbs (purge m)) (m_tbs m) /\
  sublist (c_wallcons (m_cons (purge m))) (c_wallcons (m_cons m)) /\
  sublist (c_wincons (m_cons (purge m))) (c_wincons (m_cons m)) /\
  sublist (c_materials (m_cons (purge m))) (c_materials (m_cons m)) /\
  sublist (c_glasses (m_cons (purge m))) (c_glasses (m_cons m)) /\
  sublist (c_frames (m_cons (purge m))) (c_frames (m_cons m)) /\
  sublist (m_loads (purge m)) (m_loads m) /\ sublist (m_thermostats (purge m)) (m_thermostats m) /\
  sublist (sch_year (m_sched (purge m))) (sch_year (m_sched m)) /\
  sublist (sch_week (m_sched (purge m))) (sch_week (m_sched m)) /\
  sublist (sch_day (m_sched (purge m))) (sch_day (m_sched m)).
Proof. unfold purge, keep. cbn. repeat split; apply filter_sublist. Qed.

(* what purge never touches *)
Theorem purge_untouched m :
  m_walls (purge m) = m_walls m /\ m_windows (purge m) = m_windows m /\
  m_shades (purge m) = m_shades m /\ m_meta (purge m) = m_meta m /\
  m_ov_walls (purge m) = m_ov_walls m /\ m_ov_wins (purge m) = m_ov_wins m.
Proof. unfold purge. cbn. repeat split. Qed.

(* purging twice equals purging once *)
Theorem purge_idempotent m : purge (purge m) = purge m.
Proof.
  unfold purge. cbn [m_meta m_spaces m_walls m_windows m_tbs m_shades m_cons m_sched m_loads
    m_thermostats m_ov_walls m_ov_wins c_wallcons c_wincons c_materials c_glasses c_frames
    sch_year sch_week sch_day].
  rewrite !keep_keep, filter_idem. reflexivity.
Qed.

(* purge introduces no broken link *)
Definition with_tbs (m : model) (tbs : list tbridge) : model :=
  mkModel (m_meta m) (m_spaces m) (m_walls m) (m_windows m) tbs (m_shades m) (m_cons m) (m_sched m)
    (m_loads m) (m_thermostats m) (m_ov_walls m) (m_ov_wins m).

Lemma mem_true_In x l : In x l -> mem x l = true.
Proof. apply mem_In. Qed.

Theorem purge_check m : check (purge m) = check (with_tbs m (filter tb_kept (m_tbs m))).
Proof.
  unfold check. f_equal; [|f_equal].
  - apply flat_map_ext_in'. intros w Hw. unfold check_wall, space_ids, wallcons_ids, purge.
    cbn [m_spaces m_cons c_wallcons with_tbs m_walls].
    rewrite !mem_map_keep.
    assert (H1 : mem (w_space w) (used_spaces (m_walls m)) = true).
    { apply mem_true_In, In_used_spaces. exists w. auto. }
    assert (H2 : mem (w_cons w) (used_wallcons (m_walls m)) = true).
    { apply mem_true_In. unfold used_wallcons. apply in_map. exact Hw. }
    rewrite H1, H2, !andb_true_r. destruct (w_next w) as [n|] eqn:En; [|reflexivity].
    rewrite mem_map_keep.
    assert (H3 : mem n (used_spaces (m_walls m)) = true).
    { apply mem_true_In, In_used_spaces. exists w. auto. }
    rewrite H3, andb_true_r. reflexivity.
  - apply flat_map_ext_in'. intros w Hw. unfold check_win, wall_ids, wincons_ids, purge.
    cbn [m_walls m_cons c_wincons with_tbs m_windows].
    rewrite mem_map_keep.
    assert (H2 : mem (win_cons w) (used_wincons (m_windows m)) = true).
    { apply mem_true_In. unfold used_wincons. apply in_map. exact Hw. }
    rewrite H2, andb_true_r. reflexivity.
Qed.

Lemma incl_flat_map_filter {A B} (f : A -> list B) p l : incl (flat_map f (filter p l)) (flat_map f l).
Proof.
  intros x H. apply in_flat_map in H. destruct H as [a [Ha Hx]]. apply in_flat_map.
  exists a. split; [|exact Hx]. apply filter_In in Ha. tauto.
Qed.

Lemma check_with_tbs m t :
  check (with_tbs m t) =
  flat_map (check_wall m) (m_walls m) ++ flat_map (check_win m) (m_windows m) ++ flat_map check_tb t.
Proof. reflexivity. Qed.

Theorem purge_no_new_warning m : incl (check (purge m)) (check m).
Proof.
  rewrite purge_check, check_with_tbs. unfold check.
  intros x H. rewrite !in_app_iff in *. destruct H as [H|[H|H]]; auto.
  right. right. revert H. apply incl_flat_map_filter.
Qed.

Theorem purge_closed m : closed_basic m -> closed_basic (purge m).
Proof.
  intros H. apply check_closed. apply check_closed in H.
  pose proof (purge_no_new_warning m) as Hi. rewrite H in Hi.
  destruct (check (purge m)) as [|x l]; [reflexivity|]. exfalso. apply (Hi x). left. reflexivity.
Qed.
