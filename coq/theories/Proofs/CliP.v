(* Proofs about Model/Cli.v *)
From Coq Require Import NArith Bool List.
From CTE Require Import Model.Cli.
Import ListNotations.

Theorem cli_exact w j : w_has_arg w = true -> w_noise w = [] -> w_lib w = LOk j ->
  hulc2model_cli w = mkRun 0 [j] None.
Proof. intros A N0 L. unfold hulc2model_cli. rewrite A, L, N0. reflexivity. Qed.

Theorem cli_failure w : w_noise w = [] -> w_lib w <> LPanic -> (w_has_arg w = false \/ w_lib w = LErr) ->
  r_out (hulc2model_cli w) = [] /\ r_exit (hulc2model_cli w) <> 0%N.
Proof.
  intros N0 NP H. unfold hulc2model_cli. destruct (w_has_arg w); cbn.
  - destruct H as [H|H]; [discriminate|]. rewrite H, N0. split; [reflexivity | discriminate].
  - split; [reflexivity | discriminate].
Qed.

(* exactly one document on stdout iff the library prints nothing itself *)
Theorem cli_one_doc_iff_silent w j : w_has_arg w = true -> w_lib w = LOk j ->
  (r_out (hulc2model_cli w) = [j] <-> w_noise w = []).
Proof.
  intros A L. unfold hulc2model_cli. rewrite A, L. cbn. split.
  - destruct (w_noise w) as [|x [|y r]]; cbn; [reflexivity | discriminate | discriminate].
  - intros ->. reflexivity.
Qed.

Theorem thor_file w j : w_lib w = LOk j -> r_file (thor_o w) = Some j /\ r_exit (thor_o w) = 0%N.
Proof. intros L. unfold thor_o. rewrite L. split; reflexivity. Qed.

(* both tools hand out the same model *)
Theorem thor_same_model w j : w_has_arg w = true -> w_noise w = [] -> w_lib w = LOk j ->
  r_file (thor_o w) = Some j /\ r_out (hulc2model_cli w) = [j].
Proof.
  intros A N0 L. split; [apply (thor_file w j L)|]. rewrite (cli_exact w j A N0 L). reflexivity.
Qed.

(* the oracle accepts exactly what the model of a silent library produces *)
Theorem agree_cli_model lib : lib <> LPanic ->
  let r := hulc2model_cli (mkWorld lib [] true) in
  agree_C01 (Cli lib (r_exit r) (docs_of (r_out r) (model_of lib)) (match lib with LOk j => j | _ => 0%N end)) = 0%N.
Proof.
  intros NP. destruct lib as [j| |]; cbn; [|reflexivity|contradiction].
  rewrite !N.eqb_refl. cbn. reflexivity.
Qed.

(* ... and rejects a run in which the library printed anything *)
Theorem agree_cli_noise j x noise :
  let r := hulc2model_cli (mkWorld (LOk j) (x :: noise) true) in
  agree_C01 (Cli (LOk j) (r_exit r) (docs_of (r_out r) (Some j)) j) = 2%N.
Proof.
  cbn. rewrite N.eqb_refl. destruct noise; cbn; reflexivity.
Qed.

Lemma library_silent_ok : library_silent = true.
Proof. vm_compute. reflexivity. Qed.
Lemma cli_prints_only_model_ok : cli_prints_only_model = true.
Proof. vm_compute. reflexivity. Qed.
