(* Proofs about Model/Bdl.v: the layout of a printed document vanishes in clean_lines, and the
   blocks of a printed document are recovered by the splitter, header and attribute parsers. *)
From Coq Require Import NArith ZArith Bool List Lia.
From CTE Require Import Model.Bdl Model.BdlDoc.
Import ListNotations.
Local Open Scope N_scope.

(* ---------- white space and trimming ---------- *)
Notation all_ws := all_wsb.
Definition no_nl (s : str) : bool := forallb (fun c => negb (c =? nl)) s.
(* non-empty, first and last character not white space *)
Notation trimmedb := edges_ok.

Lemma drop_ws_app_ws w s : all_ws w = true -> drop_ws (w ++ s) = drop_ws s.
Proof.
  induction w as [|x w IH]; cbn; [reflexivity|]. intros H. apply andb_true_iff in H. destruct H as [Hx Hw].
  rewrite Hx. apply IH, Hw.
Qed.

Lemma drop_ws_all w : all_ws w = true -> drop_ws w = [].
Proof. intros H. rewrite <- (app_nil_r w), drop_ws_app_ws by exact H. reflexivity. Qed.

Lemma drop_ws_head x r : is_ws x = false -> drop_ws (x :: r) = x :: r.
Proof. intros H. cbn. rewrite H. reflexivity. Qed.

Lemma all_ws_rev w : all_ws w = true -> all_ws (rev w) = true.
Proof.
  unfold all_wsb. rewrite !forallb_forall. intros H x Hx. apply H, in_rev, Hx.
Qed.

Lemma rev_last_cons (c : str) : c <> [] -> rev c = last c 0 :: rev (removelast c).
Proof.
  intros H. rewrite (app_removelast_last 0 H) at 1. rewrite rev_app_distr. reflexivity.
Qed.

Lemma trimmedb_spec c : trimmedb c = true ->
  exists x r, c = x :: r /\ is_ws x = false /\ is_ws (last c 0) = false.
Proof.
  destruct c as [|x r]; [discriminate|]. unfold edges_ok. intros H. apply andb_true_iff in H. destruct H as [H1 H2].
  exists x, r. repeat split; apply negb_true_iff; assumption.
Qed.

Lemma trim_wrap w1 c w2 : all_ws w1 = true -> all_ws w2 = true -> trimmedb c = true -> trim (w1 ++ c ++ w2) = c.
Proof.
  intros H1 H2 Hc. destruct (trimmedb_spec c Hc) as [x [r [E [Hx Hl]]]].
  unfold trim. rewrite drop_ws_app_ws by exact H1.
  assert (D1 : drop_ws (c ++ w2) = c ++ w2) by (rewrite E; cbn [app]; apply drop_ws_head, Hx).
  rewrite D1, rev_app_distr, drop_ws_app_ws by (apply all_ws_rev, H2).
  assert (Hne : c <> []) by (rewrite E; discriminate).
  rewrite (rev_last_cons c Hne), drop_ws_head by exact Hl.
  rewrite <- (rev_last_cons c Hne). apply rev_involutive.
Qed.

Lemma trim_wrap_l w c : all_ws w = true -> trimmedb c = true -> trim (w ++ c) = c.
Proof. intros Hw Hc. rewrite <- (trim_wrap w c [] Hw eq_refl Hc) at 2. rewrite app_nil_r. reflexivity. Qed.
Lemma trim_wrap_r c w : all_ws w = true -> trimmedb c = true -> trim (c ++ w) = c.
Proof. intros Hw Hc. exact (trim_wrap [] c w eq_refl Hw Hc). Qed.

Lemma trim_id c : trimmedb c = true -> trim c = c.
Proof. intros H. rewrite <- (trim_wrap [] c [] eq_refl eq_refl H) at 2. cbn [app]. rewrite app_nil_r. reflexivity. Qed.

Lemma trim_all_ws w : all_ws w = true -> trim w = [].
Proof. intros H. unfold trim. rewrite (drop_ws_all w H). reflexivity. Qed.

(* a line whose first non-blank character is x keeps x in front after trimming *)
Lemma trim_head w x r : all_ws w = true -> is_ws x = false -> exists t, trim (w ++ x :: r) = x :: t.
Proof.
  intros Hw Hx. unfold trim. rewrite drop_ws_app_ws by exact Hw. rewrite drop_ws_head by exact Hx.
  assert (G : forall l, exists t, rev (drop_ws (rev l ++ [x])) = x :: t).
  { intros l. induction (rev l) as [|y q IH]; cbn [app drop_ws].
    - rewrite Hx. exists []. reflexivity.
    - destruct (is_ws y).
      + exact IH.
      + exists (rev q ++ [y]). cbn [rev]. rewrite rev_app_distr. reflexivity. }
  cbn [rev]. exact (G r).
Qed.

(* ---------- splitting at line feeds ---------- *)
Lemma split_on_no d s : forallb (fun c => negb (c =? d)) s = true -> split_on d s = [s].
Proof.
  induction s as [|c r IH]; cbn; [reflexivity|]. intros H. apply andb_true_iff in H. destruct H as [Hc Hr].
  apply negb_true_iff in Hc. rewrite Hc, (IH Hr). reflexivity.
Qed.

Lemma split_on_app d a b : forallb (fun c => negb (c =? d)) a = true ->
  split_on d (a ++ d :: b) = a :: split_on d b.
Proof.
  induction a as [|c r IH]; cbn [app split_on].
  - intros _. rewrite N.eqb_refl. reflexivity.
  - intros H. cbn in H. apply andb_true_iff in H. destruct H as [Hc Hr]. apply negb_true_iff in Hc.
    rewrite Hc, (IH Hr). reflexivity.
Qed.

Lemma split_on_join (ls : list str) : ls <> [] -> forallb no_nl ls = true -> split_on nl (join [nl] ls) = ls.
Proof.
  induction ls as [|a r IH]; [contradiction|]. intros _ H. cbn in H. apply andb_true_iff in H. destruct H as [Ha Hr].
  destruct r as [|b r'].
  - cbn [join]. apply split_on_no, Ha.
  - change (join [nl] (a :: b :: r')) with (a ++ nl :: join [nl] (b :: r')).
    rewrite split_on_app by exact Ha. f_equal. apply IH; [discriminate | exact Hr].
Qed.

(* ---------- layout: indentation, trailing blanks, CR, blank and comment lines vanish ---------- *)
Inductive pline :=
| PContent (pre c post : str)            (* a line of the document between white space (CR included) *)
| PBlank (w : str)                       (* white space only *)
| PDropped (pre : str) (x : N) (body : str).   (* first non-blank character opens a comment / LIDER header line *)

Definition render_line (p : pline) : str :=
  match p with
  | PContent pre c post => pre ++ c ++ post
  | PBlank w => w
  | PDropped pre x body => pre ++ x :: body
  end.
Definition dropped_char (x : N) : bool := existsb (fun p => prefixb p [x]) drop_prefixes && negb (is_ws x).
Definition wf_pline (p : pline) : bool :=
  match p with
  | PContent pre c post => all_ws pre && all_ws post && no_nl pre && no_nl c && no_nl post && trimmedb c && keep_line c
  | PBlank w => all_ws w && no_nl w
  | PDropped pre x body => all_ws pre && no_nl pre && no_nl body && negb (x =? nl) && dropped_char x
  end.
Definition contents (pls : list pline) : list str :=
  flat_map (fun p => match p with PContent _ c _ => [c] | _ => [] end) pls.
Definition render (pls : list pline) : str := join [nl] (map render_line pls).
Definition not_removed (c : N) : bool := negb (existsb (N.eqb c) removed_chars).

Lemma filter_id {A} (f : A -> bool) l : forallb f l = true -> filter f l = l.
Proof.
  induction l as [|a l IH]; cbn; [reflexivity|]. intros H. apply andb_true_iff in H. destruct H as [Ha Hl].
  rewrite Ha, (IH Hl). reflexivity.
Qed.

Lemma no_nl_app a b : no_nl (a ++ b) = no_nl a && no_nl b.
Proof. unfold no_nl. apply forallb_app. Qed.

Lemma render_line_no_nl p : wf_pline p = true -> no_nl (render_line p) = true.
Proof.
  destruct p as [pre c post|w|pre x body]; cbn [wf_pline render_line]; intros H;
    repeat (apply andb_true_iff in H; destruct H as [H ?]).
  - rewrite !no_nl_app. repeat (apply andb_true_iff; split); assumption.
  - assumption.
  - rewrite no_nl_app. cbn [no_nl forallb]. fold (no_nl body). repeat (apply andb_true_iff; split); assumption.
Qed.

Lemma prefixb_ext p x t : prefixb p [x] = true -> prefixb p (x :: t) = true.
Proof.
  destruct p as [|a p]; [reflexivity|]. cbn. intros H. apply andb_true_iff in H. destruct H as [H1 H2].
  rewrite H1. destruct p; [reflexivity | discriminate].
Qed.

Lemma keep_dropped x t : dropped_char x = true -> keep_line (x :: t) = false.
Proof.
  unfold dropped_char, keep_line. intros H. apply andb_true_iff in H. destruct H as [H _].
  apply existsb_exists in H. destruct H as [p [Hin Hp]].
  assert (E : existsb (fun p0 => prefixb p0 (x :: t)) drop_prefixes = true).
  { apply existsb_exists. exists p. split; [exact Hin | apply prefixb_ext, Hp]. }
  rewrite E. reflexivity.
Qed.

Lemma line_effect p : wf_pline p = true ->
  filter keep_line [trim (render_line p)] = match p with PContent _ c _ => [c] | _ => [] end.
Proof.
  destruct p as [pre c post|w|pre x body]; cbn [wf_pline render_line]; intros H;
    repeat (apply andb_true_iff in H; destruct H as [H ?]).
  - rewrite trim_wrap by assumption. cbn [filter].
    match goal with K : keep_line c = true |- _ => rewrite K end. reflexivity.
  - rewrite trim_all_ws by assumption. reflexivity.
  - match goal with D : dropped_char x = true |- _ =>
      pose proof D as D'; unfold dropped_char in D'; apply andb_true_iff in D'; destruct D' as [_ Hx]; apply negb_true_iff in Hx;
      destruct (trim_head pre x body H Hx) as [t Ht]; rewrite Ht; cbn [filter]; rewrite (keep_dropped x t D) end.
    reflexivity.
Qed.

Lemma filter_cons_app {A} (f : A -> bool) a l : filter f (a :: l) = filter f [a] ++ filter f l.
Proof. cbn. destruct (f a); reflexivity. Qed.

Theorem content_lines_render pls : pls <> [] -> forallb wf_pline pls = true ->
  forallb not_removed (render pls) = true -> content_lines (render pls) = contents pls.
Proof.
  intros Hne Hwf Hrm. unfold content_lines.
  replace (filter (fun c => negb (existsb (N.eqb c) removed_chars)) (render pls)) with (render pls)
    by (symmetry; apply filter_id, Hrm).
  unfold render. rewrite split_on_join.
  - clear Hne Hrm. induction pls as [|p r IH]; [reflexivity|]. cbn in Hwf. apply andb_true_iff in Hwf. destruct Hwf as [Hp Hr].
    cbn [map contents flat_map]. rewrite filter_cons_app, (line_effect p Hp), (IH Hr). reflexivity.
  - destruct pls; [contradiction | discriminate].
  - rewrite forallb_forall. intros l Hl. apply in_map_iff in Hl. destruct Hl as [p [<- Hp]].
    apply render_line_no_nl. rewrite forallb_forall in Hwf. apply Hwf, Hp.
Qed.

(* ---------- generic facts on the string primitives ---------- *)
Lemma has_false_forallb c s : has c s = false -> forallb (fun x => negb (x =? c)) s = true.
Proof.
  unfold has. induction s as [|x r IH]; cbn; [reflexivity|]. intros H. apply orb_false_iff in H. destruct H as [H1 H2].
  rewrite N.eqb_sym, H1. cbn. apply IH, H2.
Qed.

Lemma ws_has_not c s : is_ws c = false -> all_ws s = true -> has c s = false.
Proof.
  intros Hc. unfold has, all_wsb. induction s as [|x r IH]; cbn; [reflexivity|]. intros H. apply andb_true_iff in H. destruct H as [Hx Hr].
  rewrite (IH Hr), orb_false_r. apply N.eqb_neq. intros ->. congruence.
Qed.

Lemma has_app c a b : has c (a ++ b) = has c a || has c b.
Proof. unfold has. apply existsb_app. Qed.

Lemma split_first_app d a b : has d a = false -> split_first d (a ++ d :: b) = (a, Some b).
Proof.
  unfold has. induction a as [|x r IH]; cbn [app split_first].
  - intros _. rewrite N.eqb_refl. reflexivity.
  - intros H. cbn in H. apply orb_false_iff in H. destruct H as [H1 H2]. rewrite N.eqb_sym, H1, (IH H2). reflexivity.
Qed.

Lemma split_first_none d a : has d a = false -> split_first d a = (a, None).
Proof.
  unfold has. induction a as [|x r IH]; cbn; [reflexivity|]. intros H. apply orb_false_iff in H. destruct H as [H1 H2].
  rewrite N.eqb_sym, H1, (IH H2). reflexivity.
Qed.

Lemma str_eqb_eq a b : str_eqb a b = true -> a = b.
Proof.
  revert b; induction a as [|x a IH]; intros [|y b]; cbn; try discriminate; [reflexivity|].
  intros H. apply andb_true_iff in H. destruct H as [H1 H2]. apply N.eqb_eq in H1. rewrite H1, (IH b H2). reflexivity.
Qed.

Lemma str_eqb_has_diff c a b : has c a = true -> has c b = false -> str_eqb a b = false.
Proof.
  intros Ha Hb. destruct (str_eqb a b) eqn:E; [|reflexivity]. apply str_eqb_eq in E. subst. congruence.
Qed.

(* trim_matches(d) leaves a text alone whose ends are not d *)
Lemma drop_ch_head d x r : (x =? d) = false -> drop_ch d (x :: r) = x :: r.
Proof. intros H. cbn. rewrite H. reflexivity. Qed.

Lemma trim_ch_id d s : (match s with [] => true | x :: _ => negb (x =? d) && negb (last s 0 =? d) end) = true ->
  trim_ch d s = s.
Proof.
  destruct s as [|x r]; [reflexivity|]. intros H. apply andb_true_iff in H. destruct H as [H1 H2].
  apply negb_true_iff in H1, H2. unfold trim_ch. rewrite drop_ch_head by exact H1.
  rewrite (rev_last_cons (x :: r)) by discriminate. rewrite drop_ch_head by exact H2.
  rewrite <- (rev_last_cons (x :: r)) by discriminate. apply rev_involutive.
Qed.

Lemma drop_ch_app_one d s : drop_ch d (rev (s ++ [d])) = drop_ch d (rev s).
Proof. rewrite rev_app_distr. cbn. rewrite N.eqb_refl. reflexivity. Qed.

Lemma trim_ch_wrap d s : (match s with [] => true | x :: _ => negb (x =? d) && negb (last s 0 =? d) end) = true ->
  trim_ch d (d :: s ++ [d]) = s.
Proof.
  intros H. unfold trim_ch. cbn [drop_ch]. rewrite N.eqb_refl.
  destruct s as [|x r].
  - cbn. rewrite N.eqb_refl. reflexivity.
  - apply andb_true_iff in H. destruct H as [H1 H2]. apply negb_true_iff in H1, H2.
    cbn [app]. rewrite drop_ch_head by exact H1. change (x :: r ++ [d]) with ((x :: r) ++ [d]).
    rewrite drop_ch_app_one. rewrite (rev_last_cons (x :: r)) by discriminate. rewrite drop_ch_head by exact H2.
    rewrite <- (rev_last_cons (x :: r)) by discriminate. apply rev_involutive.
Qed.

(* ---------- attributes ---------- *)
Lemma last_app_one {A} (l : list A) x d : last (l ++ [x]) d = x.
Proof. induction l as [|a l IH]; [reflexivity|]. cbn [app]. destruct (l ++ [x]) eqn:E; [destruct l; discriminate|]. cbn. exact IH. Qed.

Lemma ends_with_last c s : ends_with c s = true -> s <> [] /\ last s 0 = c.
Proof.
  unfold ends_with. induction s as [|x s' _] using rev_ind; [cbn; discriminate|].
  rewrite rev_app_distr. cbn. intros H. apply N.eqb_eq in H. split; [destruct s'; discriminate | rewrite last_app_one; exact H].
Qed.

Lemma paren_edges f : starts_with 40 f = true -> ends_with 41 f = true -> edges_ok f = true /\ quote_free_edges f = true.
Proof.
  intros Hs He. destruct (ends_with_last 41 f He) as [Hne Hl]. destruct f as [|x r]; [contradiction|].
  cbn in Hs. apply N.eqb_eq in Hs. subst x. unfold edges_ok, quote_free_edges. rewrite Hl. split; reflexivity.
Qed.

Lemma edges_quoted s : edges_ok (quote :: s ++ [quote]) = true.
Proof. unfold edges_ok. change (quote :: s ++ [quote]) with ((quote :: s) ++ [quote]). rewrite last_app_one. reflexivity. Qed.

Lemma cont_lines mid : forall lst v acc more k,
  forallb (fun l => negb (ends_with 41 l)) mid = true -> ends_with 41 lst = true ->
  parse_attrs (mid ++ lst :: more) acc (Some (k, v)) = parse_attrs more (attr_insert k (v ++ List.concat mid ++ lst) acc) None.
Proof.
  induction mid as [|l mid IH]; intros lst v acc more k Hm Hl; cbn [app parse_attrs List.concat].
  - rewrite Hl. reflexivity.
  - cbn in Hm. apply andb_true_iff in Hm. destruct Hm as [H1 H2]. apply negb_true_iff in H1. rewrite H1.
    specialize (IH lst (v ++ l) acc more k H2 Hl). rewrite <- !app_assoc in IH. rewrite <- !app_assoc. exact IH.
Qed.

Lemma wf_attr_parts a : wf_attr a = true ->
  edges_ok (at_key a) = true /\ has eqc (at_key a) = false /\ all_ws (at_sp1 a) = true /\ all_ws (at_sp2 a) = true /\
  wf_val (at_val a) = true.
Proof.
  unfold wf_attr. intros H. repeat (apply andb_true_iff in H; destruct H as [H ?]).
  repeat split; try assumption. apply negb_true_iff. assumption.
Qed.

Lemma attr_first_line a vt more acc :
  wf_attr a = true -> edges_ok vt = true ->
  parse_attrs ((at_key a ++ at_sp1 a ++ eqc :: at_sp2 a ++ vt) :: more) acc None =
  if starts_with 40 vt && negb (ends_with 41 vt)
  then parse_attrs more acc (Some (at_key a, vt))
  else parse_attrs more (attr_insert (at_key a) (trim_ch quote vt) acc) None.
Proof.
  intros Hwf Hvt. destruct (wf_attr_parts a Hwf) as [Hk [Hke [H1 [H2 _]]]].
  set (line := at_key a ++ at_sp1 a ++ eqc :: at_sp2 a ++ vt).
  assert (Hhas : has eqc line = true).
  { unfold line. rewrite !has_app. cbn [has existsb]. rewrite N.eqb_refl. cbn. rewrite !orb_true_r. reflexivity. }
  cbn [parse_attrs].
  rewrite (str_eqb_has_diff eqc line dotdot Hhas eq_refl), (str_eqb_has_diff eqc line [quote] Hhas eq_refl). cbn [orb].
  unfold line. rewrite app_assoc.
  change 61 with eqc.
  rewrite split_first_app by (rewrite has_app, Hke, (ws_has_not eqc _ eq_refl H1); reflexivity).
  rewrite (trim_wrap_r (at_key a) (at_sp1 a) H1 Hk), (trim_wrap_l (at_sp2 a) vt H2 Hvt). reflexivity.
Qed.

Lemma attr_parse a more acc : wf_attr a = true ->
  parse_attrs (attr_lines a ++ more) acc None =
  parse_attrs more (attr_insert (at_key a) (value_result (at_val a)) acc) None.
Proof.
  intros Hwf. destruct (wf_attr_parts a Hwf) as [_ [_ [_ [_ Hv]]]]. unfold attr_lines.
  destruct (at_val a) as [t|t|s|f rest] eqn:Ev; cbn [value_text value_result app].
  - cbn in Hv. repeat (apply andb_true_iff in Hv; destruct Hv as [Hv ?]).
    rewrite (attr_first_line a t more acc Hwf Hv).
    match goal with K : negb (starts_with 40 t) = true |- _ => apply negb_true_iff in K; rewrite K end. cbn [andb].
    rewrite trim_ch_id by assumption. reflexivity.
  - cbn in Hv. repeat (apply andb_true_iff in Hv; destruct Hv as [Hv ?]).
    rewrite (attr_first_line a t more acc Hwf Hv).
    match goal with K : negb (starts_with 40 t) = true |- _ => apply negb_true_iff in K; rewrite K end. cbn [andb].
    rewrite trim_ch_id by assumption. reflexivity.
  - cbn in Hv. rewrite (attr_first_line a (quote :: s ++ [quote]) more acc Hwf (edges_quoted s)).
    cbn [starts_with]. change (quote =? 40) with false. cbn [andb].
    rewrite trim_ch_wrap by exact Hv. reflexivity.
  - destruct rest as [|l0 rest0].
    + cbn [app]. cbn in Hv. apply andb_true_iff in Hv. destruct Hv as [Hs He]. destruct (paren_edges f Hs He) as [Hed Hq].
      rewrite (attr_first_line a f more acc Hwf Hed). rewrite Hs, He. cbn [negb andb List.concat].
      rewrite trim_ch_id by exact Hq. rewrite app_nil_r. reflexivity.
    + remember (l0 :: rest0) as rest eqn:Er.
      assert (Hv' : starts_with 40 f && negb (ends_with 41 f) && edges_ok f &&
                    forallb (fun l => negb (ends_with 41 l)) (removelast rest) && ends_with 41 (last rest []) = true)
        by (rewrite Er; rewrite Er in Hv; exact Hv).
      repeat (apply andb_true_iff in Hv'; destruct Hv' as [Hv' ?]).
      match goal with K : edges_ok f = true |- _ => rewrite (attr_first_line a f (rest ++ more) acc Hwf K) end.
      match goal with K : negb (ends_with 41 f) = true |- _ => rewrite Hv', K end. cbn [andb].
      assert (Hne : rest <> []) by (rewrite Er; discriminate).
      rewrite (app_removelast_last [] Hne) at 1. rewrite <- app_assoc. cbn [app].
      rewrite cont_lines by assumption.
      rewrite (app_removelast_last [] Hne) at 3. rewrite concat_app. cbn [List.concat]. rewrite app_nil_r. reflexivity.
Qed.

Lemma attrs_parse attrs : forall more acc, forallb wf_attr attrs = true ->
  parse_attrs (flat_map attr_lines attrs ++ more) acc None =
  parse_attrs more (fold_left (fun m a => attr_insert (at_key a) (value_result (at_val a)) m) attrs acc) None.
Proof.
  induction attrs as [|a r IH]; intros more acc H; cbn [flat_map fold_left app]; [reflexivity|].
  cbn in H. apply andb_true_iff in H. destruct H as [Ha Hr].
  rewrite <- app_assoc, (attr_parse a _ acc Ha). apply IH, Hr.
Qed.

(* ---------- one block ---------- *)
Lemma forallb_flat_map {A B} (f : B -> bool) (g : A -> list B) l :
  forallb (fun a => forallb f (g a)) l = true -> forallb f (flat_map g l) = true.
Proof.
  induction l as [|a l IH]; cbn; [reflexivity|]. intros H. apply andb_true_iff in H. destruct H as [H1 H2].
  rewrite forallb_app, H1, (IH H2). reflexivity.
Qed.

Lemma wf_line_parts l : wf_line l = true -> has nl l = false /\ edges_ok l = true /\ ddfree l = true /\ keep_line l = true.
Proof.
  unfold wf_line. intros H. repeat (apply andb_true_iff in H; destruct H as [H ?]). apply negb_true_iff in H.
  repeat split; assumption.
Qed.

Lemma attr_lines_wf attrs : forallb wf_attr attrs = true -> forallb wf_line (flat_map attr_lines attrs) = true.
Proof.
  intros H. apply forallb_flat_map. rewrite forallb_forall in *. intros a Ha. specialize (H a Ha).
  unfold wf_attr in H. apply andb_true_iff in H. destruct H as [_ H]. exact H.
Qed.

Lemma no_nl_of_has l : has nl l = false -> no_nl l = true.
Proof. apply has_false_forallb. Qed.

Lemma join_suffix (ls : list str) : ls <> [] -> exists p, join [nl] ls = p ++ last ls [].
Proof.
  induction ls as [|a r IH]; [contradiction|]. intros _. destruct r as [|b q].
  - exists []. reflexivity.
  - destruct (IH ltac:(discriminate)) as [p Hp]. exists (a ++ nl :: p).
    change (join [nl] (a :: b :: q)) with (a ++ nl :: join [nl] (b :: q)). rewrite Hp.
    change (last (a :: b :: q) []) with (last (b :: q) (@nil N)). rewrite <- app_assoc. reflexivity.
Qed.

Lemma last_cons_ne {A} (x : A) l d : l <> [] -> last (x :: l) d = last l d.
Proof. destruct l; [contradiction | reflexivity]. Qed.

Lemma last_app_ne (p l : str) d : l <> [] -> last (p ++ l) d = last l d.
Proof.
  intros Hl. induction p as [|c p IH]; [reflexivity|]. cbn [app].
  rewrite last_cons_ne; [exact IH | destruct p; [exact Hl | discriminate]].
Qed.

Lemma join_head (a : str) r x a' : a = x :: a' -> exists t, join [nl] (a :: r) = x :: t.
Proof.
  intros ->. destruct r as [|b q]; [exists a'; reflexivity|].
  exists (a' ++ nl :: join [nl] (b :: q)). reflexivity.
Qed.

Lemma edges_ok_join (ls : list str) : ls <> [] -> forallb edges_ok ls = true -> edges_ok (join [nl] ls) = true.
Proof.
  intros Hne H. destruct ls as [|a r]; [contradiction|].
  assert (Ha : edges_ok a = true) by (cbn in H; apply andb_true_iff in H; tauto).
  assert (Hl : edges_ok (last (a :: r) []) = true).
  { rewrite forallb_forall in H. apply H. clear. generalize a. induction r as [|b q IH]; intros a0; [left; reflexivity|].
    right. exact (IH b). }
  destruct (trimmedb_spec a Ha) as [x [a' [Ea [Hx _]]]].
  destruct (join_head a r x a' Ea) as [t Ht].
  destruct (join_suffix (a :: r) Hne) as [p Hp].
  destruct (trimmedb_spec _ Hl) as [y [l' [El [_ Hy]]]].
  unfold edges_ok. rewrite Ht. rewrite Hx. cbn [negb andb]. rewrite <- Ht, Hp.
  rewrite last_app_ne by (rewrite El; discriminate). rewrite Hy. reflexivity.
Qed.

Lemma drop_last_empty_id (ls : list str) : forallb (fun l => match l with [] => false | _ => true end) ls = true ->
  drop_last_empty ls = ls.
Proof.
  induction ls as [|a r IH]; [reflexivity|]. cbn [forallb]. intros H. apply andb_true_iff in H. destruct H as [Ha Hr].
  destruct a as [|x a']; [discriminate|]. cbn [drop_last_empty]. rewrite (IH Hr). reflexivity.
Qed.

Lemma map_trim_id (ls : list str) : forallb edges_ok ls = true -> map trim ls = ls.
Proof.
  induction ls as [|a r IH]; [reflexivity|]. cbn. intros H. apply andb_true_iff in H. destruct H as [Ha Hr].
  rewrite (trim_id a Ha), (IH Hr). reflexivity.
Qed.

Lemma forallb_impl {A} (f g : A -> bool) l : (forall x, f x = true -> g x = true) -> forallb f l = true -> forallb g l = true.
Proof. intros Hi. rewrite !forallb_forall. intros H x Hx. apply Hi, H, Hx. Qed.

(* the attribute lines of a block, as parse_attributes sees them *)
Lemma data_lines (A : list str) : forallb wf_line A = true ->
  map trim (lines_of (trim (join [nl] A))) = A.
Proof.
  intros H. destruct A as [|l A'].
  - reflexivity.
  - assert (He : forallb edges_ok (l :: A') = true)
      by (revert H; apply forallb_impl; intros x Hx; apply (wf_line_parts x Hx)).
    assert (Hn : forallb no_nl (l :: A') = true)
      by (revert H; apply forallb_impl; intros x Hx; apply no_nl_of_has, (wf_line_parts x Hx)).
    rewrite (trim_id _ (edges_ok_join (l :: A') ltac:(discriminate) He)).
    unfold lines_of. rewrite split_on_join by (try discriminate; exact Hn).
    rewrite drop_last_empty_id, (map_trim_id _ He); [reflexivity|].
    revert He. apply forallb_impl. intros x Hx. destruct x; [discriminate | reflexivity].
Qed.

Lemma wf_block_parts b : wf_block b = true ->
  edges_ok (ab_name b) = true /\ quote_free_edges (ab_name b) = true /\ has eqc (ab_name b) = false /\
  all_ws (ab_sp1 b) = true /\ all_ws (ab_sp2 b) = true /\ edges_ok (ab_kw b) = true /\ quote_free_edges (ab_kw b) = true /\
  (exists t, parse_type (ab_kw b) = Some t) /\ wf_line (header_line b) = true /\ forallb wf_attr (ab_attrs b) = true.
Proof.
  unfold wf_block. intros H. repeat (apply andb_true_iff in H; destruct H as [H ?]).
  repeat split; try assumption.
  - apply negb_true_iff. assumption.
  - destruct (parse_type (ab_kw b)) as [t|]; [exists t; reflexivity | discriminate].
Qed.

Lemma has_cons c x s : has c (x :: s) = (c =? x) || has c s.
Proof. reflexivity. Qed.

Lemma header_split b : wf_block b = true ->
  split_first eqc (header_line b) = (quote :: ab_name b ++ quote :: ab_sp1 b, Some (ab_sp2 b ++ ab_kw b)).
Proof.
  intros Hwf. destruct (wf_block_parts b Hwf) as [_ [_ [Hne [H1 _]]]].
  unfold header_line.
  change (quote :: ab_name b ++ quote :: ab_sp1 b ++ eqc :: ab_sp2 b ++ ab_kw b)
    with ((quote :: ab_name b) ++ (quote :: ab_sp1 b) ++ eqc :: ab_sp2 b ++ ab_kw b).
  rewrite app_assoc. rewrite split_first_app.
  - reflexivity.
  - rewrite has_app, !has_cons, (ws_has_not eqc _ eq_refl H1), Hne. reflexivity.
Qed.

Theorem parse_block_body b : wf_block b = true ->
  exists blk, raw_block b = Some blk /\ parse_block (join [nl] (body_lines b)) = Ok blk.
Proof.
  intros Hwf. destruct (wf_block_parts b Hwf) as [Hn [Hnq [Hne [H1 [H2 [Hk [Hkq [[t Ht] [Hh Hat]]]]]]]]].
  destruct (wf_line_parts _ Hh) as [Hhnl [Hhe [_ _]]].
  exists (mkBlock t (ab_name b) None (attrs_result (ab_attrs b))). unfold raw_block. rewrite Ht. split; [reflexivity|].
  set (A := flat_map attr_lines (ab_attrs b)).
  assert (HA : forallb wf_line A = true) by (apply attr_lines_wf, Hat).
  (* both shapes of the block text lead to the same header and data *)
  assert (Hsplit : (let '(h, d) := match split_first nl (join [nl] (body_lines b)) with
                                   | (h, Some d) => (h, Some d)
                                   | (h, None) => if existsb (N.eqb 61) (trim h) then (h, Some []) else (h, None)
                                   end in (h, option_map (fun d => map trim (lines_of (trim d))) d))
                   = (header_line b, Some A)).
  { unfold body_lines. fold A. destruct A as [|l A'] eqn:EA.
    - cbn [join]. rewrite (split_first_none nl _ Hhnl). rewrite (trim_id _ Hhe).
      assert (Heq : existsb (N.eqb 61) (header_line b) = true).
      { pose proof (header_split b Hwf) as Hs. destruct (existsb (N.eqb 61) (header_line b)) eqn:E; [reflexivity|].
        change (existsb (N.eqb 61) (header_line b)) with (has eqc (header_line b)) in E.
        rewrite (split_first_none eqc _ E) in Hs. discriminate. }
      rewrite Heq. reflexivity.
    - change (join [nl] (header_line b :: l :: A')) with (header_line b ++ nl :: join [nl] (l :: A')).
      rewrite (split_first_app nl _ _ Hhnl). cbn [option_map]. rewrite (data_lines (l :: A') HA). reflexivity. }
  unfold parse_block.
  destruct (match split_first nl (join [nl] (body_lines b)) with
            | (h, Some d) => (h, Some d)
            | (h, None) => if existsb (N.eqb 61) (trim h) then (h, Some []) else (h, None)
            end) as [h d] eqn:E.
  cbn in Hsplit. injection Hsplit as Hh' Hd'. subst h. destruct d as [d|]; [|discriminate]. cbn in Hd'. injection Hd' as Hd'.
  rewrite (trim_id _ Hhe). change 61 with eqc. rewrite (header_split b Hwf).
  unfold parse_attributes. rewrite Hd'. unfold A.
  rewrite <- (app_nil_r (flat_map attr_lines (ab_attrs b))), (attrs_parse (ab_attrs b) [] [] Hat). cbn [parse_attrs].
  rewrite (trim_wrap_l (ab_sp2 b) (ab_kw b) H2 Hk), (trim_ch_id quote (ab_kw b) Hkq), Ht.
  replace (quote :: ab_name b ++ quote :: ab_sp1 b) with ((quote :: ab_name b ++ [quote]) ++ ab_sp1 b)
    by (cbn [app]; rewrite <- app_assoc; reflexivity).
  rewrite (trim_wrap_r _ (ab_sp1 b) H1 (edges_quoted (ab_name b))), (trim_ch_wrap quote (ab_name b) Hnq), (trim_id _ Hn).
  reflexivity.
Qed.

(* ---------- the ".." splitter ---------- *)
Lemma ddfree_app_nl a b : ddfree (a ++ nl :: b) = ddfree a && ddfree b.
Proof.
  induction a as [|c a IH]; [destruct b; reflexivity|]. cbn [app]. cbn [ddfree]. rewrite IH.
  destruct a as [|c2 a']; cbn [app].
  - replace ((c =? 46) && (nl =? 46)) with false by (rewrite andb_false_r; reflexivity). cbn. reflexivity.
  - rewrite andb_assoc. reflexivity.
Qed.

Lemma ddfree_join (ls : list str) : forallb ddfree ls = true -> ddfree (join [nl] ls) = true.
Proof.
  induction ls as [|a r IH]; [reflexivity|]. cbn [forallb]. intros H. apply andb_true_iff in H. destruct H as [Ha Hr].
  destruct r as [|b q]; [exact Ha|].
  change (join [nl] (a :: b :: q)) with (a ++ nl :: join [nl] (b :: q)). rewrite ddfree_app_nl, Ha, (IH Hr). reflexivity.
Qed.

Lemma split_dd_cons2 c c2 r :
  split_dd (c :: c2 :: r) = if (c =? 46) && (c2 =? 46) then [] :: split_dd r else cons_head c (split_dd (c2 :: r)).
Proof. reflexivity. Qed.

Lemma split_dd_sep u : forall rest, ddfree u = true -> (u = [] \/ last u 0 <> 46) ->
  split_dd (u ++ 46 :: 46 :: rest) = u :: split_dd rest.
Proof.
  induction u as [|c u IH]; intros rest Hd Hl.
  - reflexivity.
  - destruct Hl as [Hl|Hl]; [discriminate|].
    destruct u as [|c2 u'].
    + cbn [app split_dd]. cbn [last] in Hl. apply N.eqb_neq in Hl. rewrite Hl. cbn [andb cons_head]. reflexivity.
    + cbn [ddfree] in Hd. apply andb_true_iff in Hd. destruct Hd as [Hc Hd]. apply negb_true_iff in Hc.
      change ((c :: c2 :: u') ++ 46 :: 46 :: rest) with (c :: c2 :: (u' ++ 46 :: 46 :: rest)).
      rewrite split_dd_cons2, Hc.
      change (c2 :: u' ++ 46 :: 46 :: rest) with ((c2 :: u') ++ 46 :: 46 :: rest).
      rewrite IH; [reflexivity | exact Hd | right; exact Hl].
Qed.

Lemma join_app (sep : str) (l1 l2 : list str) : l1 <> [] -> l2 <> [] ->
  join sep (l1 ++ l2) = join sep l1 ++ sep ++ join sep l2.
Proof.
  intros H1 H2. induction l1 as [|a r IH]; [contradiction|]. destruct r as [|b q].
  - cbn [app join]. destruct l2; [contradiction | reflexivity].
  - change ((a :: b :: q) ++ l2) with (a :: (b :: q) ++ l2).
    assert (E : (b :: q) ++ l2 = b :: (q ++ l2)) by reflexivity.
    change (join sep (a :: (b :: q) ++ l2)) with (a ++ sep ++ join sep ((b :: q) ++ l2)).
    rewrite IH by discriminate. change (join sep (a :: b :: q)) with (a ++ sep ++ join sep (b :: q)).
    rewrite <- !app_assoc. reflexivity.
Qed.

Definition body_text (b : ablock) : str := join [nl] (body_lines b).

Lemma body_lines_wf b : wf_block b = true -> forallb wf_line (body_lines b) = true.
Proof.
  intros Hwf. destruct (wf_block_parts b Hwf) as [_ [_ [_ [_ [_ [_ [_ [_ [Hh Hat]]]]]]]]].
  unfold body_lines. cbn [forallb]. rewrite Hh, (attr_lines_wf _ Hat). reflexivity.
Qed.

Lemma body_text_facts b : wf_block b = true ->
  edges_ok (body_text b) = true /\ ddfree (body_text b) = true /\ starts_with quote (body_text b) = true.
Proof.
  intros Hwf. pose proof (body_lines_wf b Hwf) as Hl. unfold body_text. repeat split.
  - apply edges_ok_join; [discriminate|]. revert Hl. apply forallb_impl. intros x Hx. apply (wf_line_parts x Hx).
  - apply ddfree_join. revert Hl. apply forallb_impl. intros x Hx. apply (wf_line_parts x Hx).
  - unfold body_lines, header_line. destruct (flat_map attr_lines (ab_attrs b)); reflexivity.
Qed.

Definition nonempty (s : str) : bool := match s with [] => false | _ => true end.

Lemma block_texts_doc d : forall pre, (pre = [] \/ pre = [nl]) -> wf_doc d = true ->
  block_texts (pre ++ join [nl] (doc_lines d)) = map body_text d.
Proof.
  induction d as [|b r IH]; intros pre Hpre Hwf.
  - destruct Hpre as [-> | ->]; reflexivity.
  - cbn [wf_doc forallb] in Hwf. apply andb_true_iff in Hwf. destruct Hwf as [Hb Hr].
    destruct (body_text_facts b Hb) as [He [Hd Hq]].
    set (pre' := match r with [] => [] | _ => [nl] end : str).
    assert (Hpre' : pre' = [] \/ pre' = [nl]) by (unfold pre'; destruct r; [left | right]; reflexivity).
    assert (Htext : pre ++ join [nl] (doc_lines (b :: r)) =
                    (pre ++ body_text b ++ [nl]) ++ 46 :: 46 :: pre' ++ join [nl] (doc_lines r)).
    { cbn [doc_lines flat_map]. fold (doc_lines r). unfold block_lines at 1.
      destruct r as [|b2 r2].
      - cbn [doc_lines flat_map]. rewrite app_nil_r. rewrite join_app by (try discriminate; unfold body_lines; discriminate).
        unfold pre', body_text. cbn [join app]. rewrite <- !app_assoc. reflexivity.
      - assert (Hne : doc_lines (b2 :: r2) <> []) by (cbn [doc_lines flat_map]; unfold block_lines, body_lines; discriminate).
        rewrite <- app_assoc. rewrite join_app by (try exact Hne; unfold body_lines; discriminate).
        change ([dotdot] ++ doc_lines (b2 :: r2)) with (dotdot :: doc_lines (b2 :: r2)).
        destruct (doc_lines (b2 :: r2)) as [|l0 ls0] eqn:El; [contradiction|].
        change (join [nl] (dotdot :: l0 :: ls0)) with (dotdot ++ nl :: join [nl] (l0 :: ls0)).
        unfold pre', body_text, dotdot. cbn [app]. rewrite <- !app_assoc. reflexivity. }
    rewrite Htext. unfold block_texts.
    rewrite split_dd_sep.
    + cbn [map filter].
      assert (Ht : trim (pre ++ body_text b ++ [nl]) = body_text b).
      { apply trim_wrap; [destruct Hpre as [-> | ->]; reflexivity | reflexivity | exact He]. }
      rewrite Ht. destruct (body_text b) as [|x t] eqn:Eb; [discriminate|]. cbn [filter].
      f_equal. exact (IH pre' Hpre' Hr).
    + destruct Hpre as [-> | ->].
      * cbn [app]. rewrite ddfree_app_nl, Hd. reflexivity.
      * change ([nl] ++ body_text b ++ [nl]) with ([] ++ nl :: (body_text b ++ nl :: [])).
        rewrite !ddfree_app_nl, Hd. reflexivity.
    + right. rewrite app_assoc, last_app_one. discriminate.
Qed.

(* ---------- the block loop and the whole parser ---------- *)
Lemma is_ignored_quote s : starts_with quote s = true -> is_ignored s = false.
Proof.
  destruct s as [|x t]; [discriminate|]. cbn [starts_with]. intros H. apply N.eqb_eq in H. subst x.
  vm_compute. reflexivity.
Qed.

Lemma blocks_loop_doc d : forall st, wf_doc d = true ->
  exists l, expected_from st d = Some l /\ blocks_loop (map body_text d) st = Ok l.
Proof.
  induction d as [|b r IH]; intros st Hwf.
  - exists []. split; reflexivity.
  - cbn [wf_doc forallb] in Hwf. apply andb_true_iff in Hwf. destruct Hwf as [Hb Hr].
    destruct (parse_block_body b Hb) as [blk [Hraw Hparse]].
    destruct (body_text_facts b Hb) as [_ [_ Hq]].
    cbn [map blocks_loop expected_from]. rewrite (is_ignored_quote _ Hq). fold (body_text b) in Hparse. rewrite Hparse, Hraw.
    destruct (parent_step st blk) as [par st'].
    destruct (IH st' Hr) as [l [He Hl]]. rewrite He, Hl. eexists. split; reflexivity.
Qed.

Theorem bdl_roundtrip d pls :
  wf_doc d = true -> pls <> [] -> forallb wf_pline pls = true -> forallb not_removed (render pls) = true ->
  contents pls = doc_lines d ->
  first_marker lider_markers (join [nl] (doc_lines d)) = None ->
  exists l, expected_from init_ps d = Some l /\ build_blocks (render pls) = Ok l.
Proof.
  intros Hwf Hne Hpl Hrm Hc Hm.
  destruct (blocks_loop_doc d init_ps Hwf) as [l [He Hl]]. exists l. split; [exact He|].
  unfold build_blocks, sanitize, clean_lines. rewrite (content_lines_render pls Hne Hpl Hrm), Hc, Hm.
  rewrite <- (app_nil_l (join [nl] (doc_lines d))), (block_texts_doc d [] (or_introl eq_refl) Hwf). exact Hl.
Qed.

(* what comes back: one block per written block, with its name, its keyword's type and its attributes *)
Lemma expected_from_fields d : forall st l, expected_from st d = Some l ->
  map b_name l = map ab_name d /\
  map b_attrs l = map (fun b => attrs_result (ab_attrs b)) d /\
  map (fun x => Some (b_type x)) l = map (fun b => parse_type (ab_kw b)) d.
Proof.
  induction d as [|b r IH]; intros st l H; cbn [expected_from] in H.
  - injection H as <-. repeat split; reflexivity.
  - unfold raw_block in H. destruct (parse_type (ab_kw b)) as [t|] eqn:Et; [|discriminate].
    destruct (parent_step st _) as [par st'] eqn:Ep.
    destruct (expected_from st' r) as [l'|] eqn:Er; [|discriminate]. injection H as <-.
    destruct (IH st' l' Er) as [H1 [H2 H3]]. cbn [map b_name b_attrs b_type]. rewrite H1, H2, H3, Et. repeat split; reflexivity.
Qed.

(* the typing of a written value: numeric tokens become numbers with exactly that token *)
Lemma typed_number v : is_number v = true -> typed v = VNum v.
Proof. unfold typed. intros ->. reflexivity. Qed.
Lemma typed_string v : is_number v = false -> typed v = VStr (trim v).
Proof. unfold typed. intros ->. reflexivity. Qed.

(* ---------- damaged files (C19): edits that touch only the layout are invisible ---------- *)
Theorem layout_edit_invisible pls pls' :
  pls <> [] -> pls' <> [] -> forallb wf_pline pls = true -> forallb wf_pline pls' = true ->
  forallb not_removed (render pls) = true -> forallb not_removed (render pls') = true ->
  contents pls = contents pls' -> build_blocks (render pls) = build_blocks (render pls').
Proof.
  intros N1 N2 W1 W2 R1 R2 Hc. unfold build_blocks, sanitize, clean_lines.
  rewrite (content_lines_render pls N1 W1 R1), (content_lines_render pls' N2 W2 R2), Hc. reflexivity.
Qed.

(* deleting or duplicating a blank / comment line, or re-indenting a line, are such edits *)
Lemma contents_app a b : contents (a ++ b) = contents a ++ contents b.
Proof. unfold contents. apply flat_map_app. Qed.

Corollary delete_noise_line_invisible a p b :
  (match p with PContent _ _ _ => False | _ => True end) ->
  a ++ b <> [] -> forallb wf_pline (a ++ p :: b) = true ->
  forallb not_removed (render (a ++ p :: b)) = true -> forallb not_removed (render (a ++ b)) = true ->
  build_blocks (render (a ++ p :: b)) = build_blocks (render (a ++ b)).
Proof.
  intros Hp Hne Hwf R1 R2. apply layout_edit_invisible; try assumption.
  - destruct a; discriminate.
  - rewrite forallb_app in *. cbn [forallb] in Hwf. apply andb_true_iff in Hwf. destruct Hwf as [Ha Hb].
    apply andb_true_iff in Hb. destruct Hb as [_ Hb]. rewrite Ha, Hb. reflexivity.
  - rewrite !contents_app. change (p :: b) with ([p] ++ b). rewrite contents_app.
    destruct p; [contradiction | reflexivity | reflexivity].
Qed.

Corollary duplicate_noise_line_invisible a p b :
  (match p with PContent _ _ _ => False | _ => True end) ->
  forallb wf_pline (a ++ p :: b) = true ->
  forallb not_removed (render (a ++ p :: b)) = true -> forallb not_removed (render (a ++ p :: p :: b)) = true ->
  build_blocks (render (a ++ p :: p :: b)) = build_blocks (render (a ++ p :: b)).
Proof.
  intros Hp Hwf R1 R2. apply layout_edit_invisible; try assumption; try (destruct a; discriminate).
  - rewrite forallb_app in *. cbn [forallb] in *. apply andb_true_iff in Hwf. destruct Hwf as [Ha Hb].
    apply andb_true_iff in Hb. destruct Hb as [Hp' Hb]. rewrite Ha, Hp', Hb. reflexivity.
  - rewrite !contents_app. change (p :: p :: b) with ([p] ++ [p] ++ b). change (p :: b) with ([p] ++ b). rewrite !contents_app.
    destruct p; [contradiction | reflexivity | reflexivity].
Qed.
