(* Proofs about Model/BdlTypedDb.v: the list readers recover every item of a written list, whatever its length
   and spacing; the layer reader and the assembly of the wall constructions. *)
From Coq Require Import NArith ZArith QArith Bool List Lia.
From CTE Require Import Model.Bdl Model.BdlDoc Proofs.BdlP.
From CTE Require Import Model.BdlTyped Model.BdlTypedDb Proofs.BdlTypedP.
Import ListNotations.
Local Open Scope N_scope.

(* ---------- characters ---------- *)
Lemma ws_not d w : is_ws d = false -> all_ws w = true -> forallb (fun c => negb (c =? d)) w = true.
Proof.
  intros Hd Hw. unfold all_wsb in Hw. rewrite forallb_forall in *. intros c Hc. specialize (Hw c Hc).
  apply negb_true_iff. destruct (c =? d) eqn:E; [|reflexivity]. apply N.eqb_eq in E. subst. congruence.
Qed.
Lemma no_char_app d a b : forallb (fun c => negb (c =? d)) a = true -> forallb (fun c => negb (c =? d)) b = true ->
  forallb (fun c => negb (c =? d)) (a ++ b) = true.
Proof. intros Ha Hb. rewrite forallb_app, Ha, Hb. reflexivity. Qed.
Lemma has_char_no d s : has_char d s = false -> forallb (fun c => negb (c =? d)) s = true.
Proof.
  unfold has_char. induction s as [|c r IH]; cbn; [reflexivity|]. intros H. apply orb_false_iff in H. destruct H as [H1 H2].
  rewrite N.eqb_sym, H1. exact (IH H2).
Qed.

(* ---------- trim_matches(' ', '(', ')') ---------- *)
Definition drop_pc := fix drop (s : str) : str :=
  match s with c :: r => if (N.eqb c 32 || N.eqb c 40 || N.eqb c 41)%bool then drop r else s | [] => [] end.
Lemma trim_parens_eq s : trim_parens s = rev (drop_pc (rev (drop_pc s))).
Proof. reflexivity. Qed.
Lemma drop_pc_app w s : forallb is_pc w = true -> drop_pc (w ++ s) = drop_pc s.
Proof.
  induction w as [|x w IH]; [reflexivity|]. cbn [forallb app]. intros H. apply andb_true_iff in H. destruct H as [Hx Hw].
  unfold is_pc in Hx. cbn [drop_pc]. rewrite Hx. apply IH, Hw.
Qed.
Lemma drop_pc_head x r : is_pc x = false -> drop_pc (x :: r) = x :: r.
Proof. unfold is_pc. intros H. cbn [drop_pc]. rewrite H. reflexivity. Qed.
Lemma forallb_rev {A} (f : A -> bool) l : forallb f l = true -> forallb f (rev l) = true.
Proof. rewrite !forallb_forall. intros H x Hx. apply H, in_rev, Hx. Qed.

Lemma trim_parens_wrap w1 c w2 x r : forallb is_pc w1 = true -> forallb is_pc w2 = true ->
  c = x :: r -> is_pc x = false -> is_pc (last c 0) = false -> trim_parens (w1 ++ c ++ w2) = c.
Proof.
  intros H1 H2 E Hx Hl. rewrite trim_parens_eq, drop_pc_app by exact H1.
  assert (D1 : drop_pc (c ++ w2) = c ++ w2) by (rewrite E; cbn [app]; apply drop_pc_head, Hx).
  rewrite D1, rev_app_distr, drop_pc_app by (apply forallb_rev, H2).
  assert (Hne : c <> []) by (rewrite E; discriminate).
  rewrite (rev_last_cons c Hne), drop_pc_head by exact Hl.
  rewrite <- (rev_last_cons c Hne). apply rev_involutive.
Qed.

(* ---------- items separated by commas ---------- *)
Lemma last_app_ne {A} (a b : list A) d : b <> [] -> last (a ++ b) d = last b d.
Proof.
  intros Hb. induction a as [|x a IH]; [reflexivity|]. cbn [app]. destruct (a ++ b) eqn:E.
  - destruct a; cbn in E; [subst; contradiction | discriminate].
  - cbn [last]. exact IH.
Qed.
Lemma join_last sep (items : list str) : items <> [] -> last items [] <> [] ->
  last (join sep items) 0 = last (last items []) 0.
Proof.
  induction items as [|a r IH]; [contradiction|]. intros _ Hl. destruct r as [|b r'].
  - reflexivity.
  - change (join sep (a :: b :: r')) with (a ++ sep ++ join sep (b :: r')).
    change (last (a :: b :: r') []) with (last (b :: r') []) in *.
    assert (Hj : join sep (b :: r') <> []).
    { clear IH. revert b Hl. induction r' as [|c r'' IH2]; intros b Hl.
      - exact Hl.
      - change (join sep (b :: c :: r'')) with (b ++ sep ++ join sep (c :: r'')).
        intros E. apply app_eq_nil in E. destruct E as [_ E]. apply app_eq_nil in E. destruct E as [_ E].
        apply (IH2 c); [exact Hl | exact E]. }
    rewrite app_assoc, last_app_ne by exact Hj. apply IH; [discriminate | exact Hl].
Qed.

Lemma split_join_items g1 g2 (items : list str) : all_ws g1 = true -> all_ws g2 = true ->
  items <> [] -> forallb (fun t => edges_ok t && negb (has_char 44 t)) items = true ->
  forall w, all_ws w = true -> map trim (split_on 44 (w ++ join (g1 ++ 44 :: g2) items)) = items.
Proof.
  intros Hg1 Hg2. induction items as [|a r IH]; [contradiction|]. intros _ H w Hw.
  cbn [forallb] in H. apply andb_true_iff in H. destruct H as [Ha Hr]. apply andb_true_iff in Ha. destruct Ha as [Ha1 Ha2].
  apply negb_true_iff in Ha2.
  assert (Hc : is_ws 44 = false) by reflexivity.
  destruct r as [|b r'].
  - cbn [join]. rewrite split_on_no by (apply no_char_app; [apply ws_not; assumption | apply has_char_no, Ha2]).
    cbn [map]. rewrite trim_wrap_l by assumption. reflexivity.
  - change (join (g1 ++ 44 :: g2) (a :: b :: r')) with (a ++ (g1 ++ 44 :: g2) ++ join (g1 ++ 44 :: g2) (b :: r')).
    replace (w ++ a ++ (g1 ++ 44 :: g2) ++ join (g1 ++ 44 :: g2) (b :: r'))
      with ((w ++ a ++ g1) ++ 44 :: (g2 ++ join (g1 ++ 44 :: g2) (b :: r')))
      by (rewrite <- !app_assoc; cbn [app]; reflexivity).
    rewrite split_on_app.
    + cbn [map]. rewrite trim_wrap by assumption. f_equal. apply IH; [discriminate | exact Hr | exact Hg2].
    + repeat apply no_char_app; try (apply ws_not; assumption). apply has_char_no, Ha2.
Qed.

(* ---------- lists of numbers ---------- *)
Lemma num_items_edges ts : forallb num_item_ok ts = true ->
  forallb (fun t => edges_ok t && negb (has_char 44 t)) ts = true /\ forallb is_number ts = true.
Proof.
  induction ts as [|t r IH]; [split; reflexivity|]. cbn [forallb]. intros H. apply andb_true_iff in H. destruct H as [Ht Hr].
  destruct (IH Hr) as [I1 I2]. unfold num_item_ok in Ht.
  apply andb_true_iff in Ht. destruct Ht as [Ht _]. apply andb_true_iff in Ht. destruct Ht as [Ht H3].
  apply andb_true_iff in Ht. destruct Ht as [H1 H2]. rewrite H1, H2, H3, I1, I2. split; reflexivity.
Qed.

Theorem number_list_recovered lead trail g1 g2 ts :
  forallb (N.eqb 32) lead = true -> forallb (N.eqb 32) trail = true -> all_ws g1 = true -> all_ws g2 = true ->
  ts <> [] -> forallb num_item_ok ts = true ->
  f32vec (list_text lead trail g1 g2 ts) = Some ts.
Proof.
  intros Hl Ht Hg1 Hg2 Hne Hok. destruct (num_items_edges ts Hok) as [He Hn].
  set (body := join (g1 ++ 44 :: g2) ts).
  assert (Hpc : forall l, forallb (N.eqb 32) l = true -> forallb is_pc l = true).
  { intros l. rewrite !forallb_forall. intros H c Hc. specialize (H c Hc). apply N.eqb_eq in H. subst. reflexivity. }
  (* the body starts with the first token and ends with the last *)
  destruct ts as [|t0 r0] eqn:Ets; [contradiction|].
  assert (H0 : num_item_ok t0 = true) by (cbn [forallb] in Hok; apply andb_true_iff in Hok; tauto).
  assert (Hlast : num_item_ok (last (t0 :: r0) []) = true).
  { rewrite forallb_forall in Hok. apply Hok. apply (@exists_last _ (t0 :: r0)) in Hne. destruct Hne as [q [z E]].
    rewrite E, last_last. apply in_or_app. right. left. reflexivity. }
  unfold num_item_ok in H0, Hlast.
  destruct t0 as [|x0 t0']; [rewrite !andb_false_r in H0; discriminate|].
  apply andb_true_iff in H0. destruct H0 as [_ H0]. apply andb_true_iff in H0. destruct H0 as [Hx0 _]. apply negb_true_iff in Hx0.
  destruct (last ((x0 :: t0') :: r0) []) as [|xl tl] eqn:El; [rewrite !andb_false_r in Hlast; discriminate|].
  apply andb_true_iff in Hlast. destruct Hlast as [_ Hlast]. apply andb_true_iff in Hlast. destruct Hlast as [_ Hxl]. apply negb_true_iff in Hxl.
  assert (Hb : exists rb, body = x0 :: rb).
  { unfold body. destruct r0; [exists t0'; reflexivity|]. eexists. cbn [join app]. reflexivity. }
  destruct Hb as [rb Eb].
  assert (Hbl : last body 0 = last (xl :: tl) 0).
  { unfold body. rewrite join_last; [rewrite El; reflexivity | discriminate | rewrite El; discriminate]. }
  unfold f32vec, list_text. fold body.
  replace (40 :: lead ++ body ++ trail ++ [41]) with ((40 :: lead) ++ body ++ (trail ++ [41])) by reflexivity.
  rewrite (trim_parens_wrap (40 :: lead) body (trail ++ [41]) x0 rb).
  - change body with ([] ++ body). unfold body.
    rewrite (split_join_items g1 g2 ((x0 :: t0') :: r0) Hg1 Hg2 Hne He [] eq_refl). rewrite Hn. reflexivity.
  - cbn [forallb]. rewrite (Hpc lead Hl). reflexivity.
  - rewrite forallb_app, (Hpc trail Ht). reflexivity.
  - exact Eb.
  - exact Hx0.
  - rewrite Hbl. exact Hxl.
Qed.

(* ---------- lists of quoted names ---------- *)
Definition keep_name (v : str) : bool := negb (str_eqb v [44]) && negb (is_empty v).
Lemma namesvec_eq s : namesvec s = filter keep_name (map trim (split_on 34 (trim_parens s))).
Proof. reflexivity. Qed.

Lemma names_split g1 g2 ns : all_ws g1 = true -> all_ws g2 = true -> ns <> [] -> forallb name_item_ok ns = true ->
  filter keep_name (map trim (split_on 34 (join (g1 ++ 44 :: g2) (map quoted ns)))) = ns.
Proof.
  intros Hg1 Hg2. induction ns as [|n r IH]; [contradiction|]. intros _ H.
  cbn [forallb] in H. apply andb_true_iff in H. destruct H as [Hn Hr]. unfold name_item_ok in Hn.
  apply andb_true_iff in Hn. destruct Hn as [Hn H3]. apply andb_true_iff in Hn. destruct Hn as [H1 H2].
  apply negb_true_iff in H2. apply negb_true_iff in H3.
  assert (Hq : is_ws 34 = false) by reflexivity.
  assert (Hkeep : keep_name n = true).
  { unfold keep_name. rewrite H3. destruct n; [discriminate|]. reflexivity. }
  destruct r as [|m r'].
  - cbn [map join]. unfold quoted. cbn [split_on]. rewrite N.eqb_refl.
    rewrite split_on_app by (apply has_char_no, H2). cbn [split_on map].
    rewrite (trim_id n H1). change (trim []) with (@nil N). cbn [filter]. rewrite Hkeep. reflexivity.
  - cbn [map]. change (join (g1 ++ 44 :: g2) (quoted n :: quoted m :: map quoted r'))
      with (quoted n ++ (g1 ++ 44 :: g2) ++ join (g1 ++ 44 :: g2) (map quoted (m :: r'))).
    specialize (IH ltac:(discriminate) Hr).
    (* the rest begins with a quote *)
    assert (Hrest : exists t, join (g1 ++ 44 :: g2) (map quoted (m :: r')) = 34 :: t).
    { cbn [map]. destruct r'; cbn [map join]; unfold quoted; eexists; cbn [app]; reflexivity. }
    destruct Hrest as [t Et]. rewrite Et in *.
    cbn [split_on] in IH. rewrite N.eqb_refl in IH. cbn [map filter] in IH. change (trim []) with (@nil N) in IH. cbn in IH.
    unfold quoted. cbn [app split_on]. rewrite N.eqb_refl.
    replace ((n ++ [34]) ++ (g1 ++ 44 :: g2) ++ 34 :: t) with (n ++ 34 :: ((g1 ++ 44 :: g2) ++ 34 :: t))
      by (exact (app_assoc n [34] ((g1 ++ 44 :: g2) ++ 34 :: t))).
    rewrite split_on_app by (apply has_char_no, H2).
    rewrite split_on_app.
    + cbn [map]. rewrite (trim_id n H1). change (trim []) with (@nil N).
      replace (trim (g1 ++ 44 :: g2)) with [44] by (symmetry; apply (trim_wrap g1 [44] g2 Hg1 Hg2 eq_refl)).
      cbn [filter]. rewrite Hkeep. change (keep_name []) with false. change (keep_name [44]) with false. cbn iota.
      f_equal. exact IH.
    + apply no_char_app; [apply ws_not; assumption|]. cbn [forallb]. rewrite (ws_not 34 g2 Hq Hg2). reflexivity.
Qed.

Theorem names_list_recovered lead trail g1 g2 ns :
  forallb (N.eqb 32) lead = true -> forallb (N.eqb 32) trail = true -> all_ws g1 = true -> all_ws g2 = true ->
  forallb name_item_ok ns = true ->
  namesvec (list_text lead trail g1 g2 (map quoted ns)) = ns.
Proof.
  intros Hl Ht Hg1 Hg2 Hok.
  assert (Hpc : forall l, forallb (N.eqb 32) l = true -> forallb is_pc l = true).
  { intros l. rewrite !forallb_forall. intros H c Hc. specialize (H c Hc). apply N.eqb_eq in H. subst. reflexivity. }
  rewrite namesvec_eq. unfold list_text.
  destruct ns as [|n r] eqn:Ens.
  - (* "(  )": nothing between the parentheses *)
    cbn [map join app].
    replace (40 :: lead ++ trail ++ [41]) with ((40 :: lead ++ trail ++ [41]) ++ []) by apply app_nil_r.
    rewrite trim_parens_eq, drop_pc_app.
    + reflexivity.
    + cbn [forallb]. rewrite !forallb_app, (Hpc lead Hl), (Hpc trail Ht). reflexivity.
  - rewrite <- Ens in *. set (body := join (g1 ++ 44 :: g2) (map quoted ns)).
    assert (Hb : exists rb, body = 34 :: rb).
    { unfold body. rewrite Ens. cbn [map]. destruct r; cbn [map join]; unfold quoted; eexists; cbn [app]; reflexivity. }
    destruct Hb as [rb Eb].
    assert (Hbl : last body 0 = 34).
    { unfold body. rewrite join_last.
      - rewrite Ens. change (map quoted (n :: r)) with (quoted n :: map quoted r).
        assert (G : forall (l : list str) a, exists z, last (map quoted (a :: l)) [] = quoted z).
        { induction l as [|b l IHl]; intros a; [exists a; reflexivity|]. destruct (IHl b) as [z Ez]. exists z. exact Ez. }
        destruct (G r n) as [z Ez]. change (quoted n :: map quoted r) with (map quoted (n :: r)). rewrite Ez.
        unfold quoted. rewrite app_comm_cons, last_last. reflexivity.
      - rewrite Ens. discriminate.
      - rewrite Ens. assert (G : forall (l : list str) a, exists z, last (map quoted (a :: l)) [] = quoted z).
        { induction l as [|b l IHl]; intros a; [exists a; reflexivity|]. destruct (IHl b) as [z Ez]. exists z. exact Ez. }
        destruct (G r n) as [z Ez]. rewrite Ez. discriminate. }
    replace (40 :: lead ++ body ++ trail ++ [41]) with ((40 :: lead) ++ body ++ (trail ++ [41])) by reflexivity.
    rewrite (trim_parens_wrap (40 :: lead) body (trail ++ [41]) 34 rb).
    + unfold body. apply names_split; try assumption. rewrite Ens. discriminate.
    + cbn [forallb]. rewrite (Hpc lead Hl). reflexivity.
    + rewrite forallb_app, (Hpc trail Ht). reflexivity.
    + exact Eb.
    + reflexivity.
    + rewrite Hbl. reflexivity.
Qed.

(* ---------- LAYERS: the materials and thicknesses written come back, air gaps take the thickness in their name ---------- *)
From Coq Require Import String.
Local Open Scope string_scope.
Theorem layers_recovered b lead trail g1 g2 lead' trail' g1' g2' ns ts :
  forallb (N.eqb 32) lead = true -> forallb (N.eqb 32) trail = true -> all_ws g1 = true -> all_ws g2 = true ->
  forallb (N.eqb 32) lead' = true -> forallb (N.eqb 32) trail' = true -> all_ws g1' = true -> all_ws g2' = true ->
  forallb name_item_ok ns = true -> ts <> [] -> forallb num_item_ok ts = true -> List.length ns = List.length ts ->
  get_text "MATERIAL" (b_attrs b) = Some (list_text lead trail g1 g2 (map quoted ns)) ->
  get_text "THICKNESS" (b_attrs b) = Some (list_text lead' trail' g1' g2' ts) ->
  exists w, wallcons_of b = Ok w /\ twc_name w = b_name b /\ twc_material w = ns /\
            twc_thickness w = zip_with fixed_thickness ns ts.
Proof.
  intros A1 A2 A3 A4 B1 B2 B3 B4 Hns Hne Hts Hlen Hm Ht.
  unfold wallcons_of. rewrite Hm, Ht.
  rewrite (names_list_recovered lead trail g1 g2 ns A1 A2 A3 A4 Hns).
  rewrite (number_list_recovered lead' trail' g1' g2' ts B1 B2 B3 B4 Hne Hts).
  rewrite Hlen, Nat.eqb_refl. cbn [negb]. eexists. repeat split.
Qed.

(* an air gap keeps the thickness in its name, every other layer the written one *)
Theorem airgap_thickness name t :
  (prefixb airgap_prefix name = false -> fixed_thickness name t = NTok t) /\
  (prefixb airgap_prefix name = true -> suffixb (s2l " 2 cm") name = true -> suffixb (s2l " 1 cm") name = false ->
   fixed_thickness name t = NConst (2 # 100)).
Proof.
  unfold fixed_thickness. split.
  - intros H. rewrite H. reflexivity.
  - intros H1 H2 H3. rewrite H1, H3, H2. reflexivity.
Qed.

(* ---------- DB.wallcons ---------- *)
(* a wall that names a construction gets the layers that construction refers to, with the construction's
   absorptance; a wall that names layers directly gets them with absorptance 0.6 *)
Theorem wallcons_by_construction ls cs n c l :
  last_by twc_name n ls = None -> str_eqb n (s2l "Ninguno") = false ->
  last_by tcn_name n cs = Some c -> last_by twc_name (tcn_layers c) ls = Some l ->
  wallcons_lookup ls cs n = Some (mkTWC n (twc_group l) (twc_material l) (twc_thickness l), tcn_absorptance c).
Proof.
  intros H1 H2 H3 H4. unfold wallcons_lookup, layers_named. rewrite H1, H2, H3, H4. reflexivity.
Qed.
Theorem wallcons_by_layers ls cs n l :
  last_by twc_name n ls = Some l -> wallcons_lookup ls cs n = Some (l, NConst (6 # 10)).
Proof. intros H. unfold wallcons_lookup, layers_named. rewrite H. reflexivity. Qed.
(* the entry found by name is the last one written under that name *)
Lemma last_by_app {A} (name : A -> str) n (l1 l2 : list A) x :
  last_by name n l2 = Some x -> last_by name n (l1 ++ l2) = Some x.
Proof. intros H. induction l1 as [|a l1 IH]; [exact H|]. cbn [app last_by]. rewrite IH. reflexivity. Qed.
Theorem last_definition_wins {A} (name : A -> str) (l1 l2 : list A) x :
  forallb (fun y => negb (str_eqb (name y) (name x))) l2 = true ->
  last_by name (name x) (l1 ++ x :: l2) = Some x.
Proof.
  intros H. apply last_by_app. cbn [last_by].
  assert (G : last_by name (name x) l2 = None).
  { induction l2 as [|y l2 IH]; [reflexivity|]. cbn [forallb] in H. apply andb_true_iff in H. destruct H as [Hy Hr].
    cbn [last_by]. rewrite (IH Hr). apply negb_true_iff in Hy. rewrite Hy. reflexivity. }
  rewrite G, str_eqb_refl. reflexivity.
Qed.

(* ---------- schedules, gaps and thermal bridges carry the written values ---------- *)
(* DAY-SCHEDULE-PD: the kind and the 24 (or 1) hourly values written come back in order *)
Theorem day_schedule_recovered b kt k lead trail g1 g2 ts :
  get_text "TYPE" (b_attrs b) = Some kt -> skind_of kt = Some k ->
  forallb (N.eqb 32) lead = true -> forallb (N.eqb 32) trail = true -> all_wsb g1 = true -> all_wsb g2 = true ->
  forallb num_item_ok ts = true -> (List.length ts = 24%nat \/ List.length ts = 1%nat) ->
  get_text "VALUES" (b_attrs b) = Some (list_text lead trail g1 g2 ts) ->
  day_of b = Ok (TDay (squeeze2 (b_name b)) k ts).
Proof.
  intros Ht Hk A1 A2 A3 A4 Hts Hlen Hv.
  assert (Hne : ts <> []) by (destruct ts; [destruct Hlen; discriminate | discriminate]).
  unfold day_of, kind_of. rewrite Ht, Hk, Hv.
  rewrite (number_list_recovered lead trail g1 g2 ts A1 A2 A3 A4 Hne Hts).
  unfold len_1_or. destruct Hlen as [H|H]; rewrite H; reflexivity.
Qed.

(* WEEK-SCHEDULE-PD: the seven (or one) daily schedules named come back in order *)
Theorem week_schedule_recovered b kt k lead trail g1 g2 ns :
  get_text "TYPE" (b_attrs b) = Some kt -> skind_of kt = Some k ->
  forallb (N.eqb 32) lead = true -> forallb (N.eqb 32) trail = true -> all_wsb g1 = true -> all_wsb g2 = true ->
  forallb name_item_ok ns = true -> (List.length ns = 7%nat \/ List.length ns = 1%nat) ->
  get_text "DAY-SCHEDULES" (b_attrs b) = Some (list_text lead trail g1 g2 (map quoted ns)) ->
  week_of b = Ok (TWeek (squeeze2 (b_name b)) k ns).
Proof.
  intros Ht Hk A1 A2 A3 A4 Hns Hlen Hv.
  unfold week_of, kind_of. rewrite Ht, Hk, Hv.
  rewrite (names_list_recovered lead trail g1 g2 ns A1 A2 A3 A4 Hns).
  unfold len_1_or. destruct Hlen as [H|H]; rewrite H; reflexivity.
Qed.
(* a week of any other length is rejected *)
Theorem week_schedule_length b kt k lead trail g1 g2 ns :
  get_text "TYPE" (b_attrs b) = Some kt -> skind_of kt = Some k ->
  forallb (N.eqb 32) lead = true -> forallb (N.eqb 32) trail = true -> all_wsb g1 = true -> all_wsb g2 = true ->
  forallb name_item_ok ns = true -> List.length ns <> 7%nat -> List.length ns <> 1%nat ->
  get_text "DAY-SCHEDULES" (b_attrs b) = Some (list_text lead trail g1 g2 (map quoted ns)) ->
  week_of b = Err 10.
Proof.
  intros Ht Hk A1 A2 A3 A4 Hns H7 H1 Hv.
  unfold week_of, kind_of. rewrite Ht, Hk, Hv.
  rewrite (names_list_recovered lead trail g1 g2 ns A1 A2 A3 A4 Hns).
  unfold len_1_or. apply Nat.eqb_neq in H7. apply Nat.eqb_neq in H1. rewrite H7, H1. reflexivity.
Qed.

(* GAP: every written value reaches its field; the documented defaults apply to the three optional ones *)
Theorem gap_recovered b g gg f fg p i :
  get_text "GLASS-TYPE" (b_attrs b) = Some g -> get_text "GROUP-GLASS" (b_attrs b) = Some gg ->
  get_text "NAME-FRAME" (b_attrs b) = Some f -> get_text "GROUP-FRAME" (b_attrs b) = Some fg ->
  get_num "PORCENTAGE" (b_attrs b) = Some p -> get_num "INF-COEF" (b_attrs b) = Some i ->
  exists w, wincons_of b = Ok w /\ twn_name w = b_name b /\ twn_glass w = g /\ twn_glassgroup w = gg /\ twn_frame w = f /\
            twn_framegroup w = fg /\ twn_percentage w = p /\ twn_infcoeff w = i /\
            twn_group w = match get_text "GROUP" (b_attrs b) with Some x => x | None => s2l "Ventanas" end /\
            twn_deltau w = num_or (get_num "porcentajeIncrementoU" (b_attrs b)) 0 /\
            twn_gglshwi w = get_num "TransmisividadJulio" (b_attrs b).
Proof.
  intros H1 H2 H3 H4 H5 H6. unfold wincons_of. rewrite H1, H2, H3, H4, H5, H6. eexists. repeat split.
Qed.

(* THERMAL-BRIDGE defined by the user (DEFINICION = 2) or in an old LIDER file (no DEFINICION): length, psi,
   f_Rsi and, for the kinds that have one, the geometry of the junction are the written ones; no catalogue data *)
Theorem bridge_user_defined b psi frsi :
  str_eqb (b_name b) (s2l "LONGITUDES_CALCULADAS") = false ->
  get_num "TTL" (b_attrs b) = Some psi -> get_num "FRSI" (b_attrs b) = Some frsi ->
  (get_num "DEFINICION" (b_attrs b) = None \/ exists d, get_num "DEFINICION" (b_attrs b) = Some d /\ trunc_tok d = 2%Z) ->
  forall ty mn mx pa, get_text "TYPE" (b_attrs b) = Some ty ->
  str_eqb ty (s2l "WINDOW-FRAME") = false -> str_eqb ty (s2l "PILLAR") = false -> is_empty ty = false ->
  get_num "ANGLE-MIN" (b_attrs b) = Some mn -> get_num "ANGLE-MAX" (b_attrs b) = Some mx -> get_text "PARTITION" (b_attrs b) = Some pa ->
  tb_of b = Ok (mkTBr (b_name b) (get_num "LONG-TOTAL" (b_attrs b)) ty (NTok psi) (NTok frsi) (Some (mn, mx, pa)) None).
Proof.
  intros Hn Hp Hf Hd ty mn mx pa Hty N1 N2 N3 Hmn Hmx Hpa.
  unfold tb_of. rewrite Hn, Hp, Hf, Hty, N1, N2, N3, Hmn, Hmx, Hpa. cbn [orb].
  destruct Hd as [Hd | [d [Hd Hk]]]; rewrite Hd; [reflexivity|]. rewrite Hk. reflexivity.
Qed.
(* the measured-lengths block carries no psi of its own *)
Theorem bridge_lengths_block b :
  str_eqb (b_name b) (s2l "LONGITUDES_CALCULADAS") = true -> get_text "TYPE" (b_attrs b) = None ->
  get_num "DEFINICION" (b_attrs b) = None ->
  tb_of b = Ok (mkTBr (b_name b) (get_num "LONG-TOTAL" (b_attrs b)) [] (NConst 0) (NConst 0) None None).
Proof. intros Hn Ht Hd. unfold tb_of. rewrite Hn, Ht, Hd. reflexivity. Qed.
