From Coq Require Import ZArith NArith QArith Bool List Lia.
From CTE Require Import Base.Num Model.BModel Model.Checks.
Import ListNotations.
Local Open Scope nat_scope.

Lemma mem_In x l : mem x l = true <-> In x l.
Proof.
  unfold mem. rewrite existsb_exists. split.
  - intros [y [Hy He]]. apply N.eqb_eq in He. subst. exact Hy.
  - intros H. exists x. split; [exact H | apply N.eqb_refl].
Qed.

Lemma mem_false_In x l : mem x l = false <-> ~ In x l.
Proof. rewrite <- mem_In. destruct (mem x l); split; congruence. Qed.

Lemma qltb_lt a b : qltb a b = true <-> (a < b)%Q.
Proof.
  unfold qltb. rewrite negb_true_iff. split.
  - intros H. apply Qnot_le_lt. intros Hle. apply Qle_bool_iff in Hle. congruence.
  - intros H. destruct (Qle_bool b a) eqn:E; [|reflexivity].
    apply Qle_bool_iff in E. exfalso. exact (Qlt_not_le _ _ H E).
Qed.

(* Declarative specification: which (element, link) pairs are broken *)
Inductive broken (m : model) : uuid -> wkind -> Prop :=
| B_WallSpace w : In w (m_walls m) -> ~ In (w_space w) (space_ids m) -> broken m (w_id w) WallSpace
| B_WallCons w : In w (m_walls m) -> ~ In (w_cons w) (wallcons_ids m) -> broken m (w_id w) WallCons
| B_WallNext w n : In w (m_walls m) -> w_next w = Some n -> ~ In n (space_ids m) ->
                   broken m (w_id w) WallNext
| B_WinWall w : In w (m_windows m) -> ~ In (win_wall w) (wall_ids m) -> broken m (win_id w) WinWall
| B_WinCons w : In w (m_windows m) -> ~ In (win_cons w) (wincons_ids m) -> broken m (win_id w) WinCons
| B_Bridge t : In t (m_tbs m) -> (tb_l t < 0)%Q -> broken m (tb_id t) BridgeNeg.

Lemma in_check_wall m w x k :
  In (x, k) (check_wall m w) <->
  x = w_id w /\ ((k = WallSpace /\ ~ In (w_space w) (space_ids m)) \/
                 (k = WallCons /\ ~ In (w_cons w) (wallcons_ids m)) \/
                 (k = WallNext /\ exists n, w_next w = Some n /\ ~ In n (space_ids m))).
Proof.
  unfold check_wall. rewrite !in_app_iff.
  destruct (mem (w_space w) (space_ids m)) eqn:E1;
  destruct (mem (w_cons w) (wallcons_ids m)) eqn:E2;
  destruct (w_next w) as [n|] eqn:E3;
  try destruct (mem n (space_ids m)) eqn:E4;
  repeat match goal with
  | H : mem _ _ = true |- _ => apply mem_In in H
  | H : mem _ _ = false |- _ => apply mem_false_In in H
  end; simpl; split; intros H;
  repeat match goal with
  | H : _ \/ _ |- _ => destruct H
  | H : _ /\ _ |- _ => destruct H
  | H : exists _, _ |- _ => destruct H
  | H : False |- _ => destruct H
  | H : (_, _) = (_, _) |- _ => inversion H; subst; clear H
  | H : Some _ = Some _ |- _ => inversion H; subst; clear H
  | H : None = Some _ |- _ => discriminate H
  end; subst; try contradiction; try discriminate;
  try (split; [reflexivity|]); eauto 8.
Qed.

Lemma in_check_win m w x k :
  In (x, k) (check_win m w) <->
  x = win_id w /\ ((k = WinWall /\ ~ In (win_wall w) (wall_ids m)) \/
                   (k = WinCons /\ ~ In (win_cons w) (wincons_ids m))).
Proof.
  unfold check_win. rewrite !in_app_iff.
  destruct (mem (win_wall w) (wall_ids m)) eqn:E1;
  destruct (mem (win_cons w) (wincons_ids m)) eqn:E2;
  repeat match goal with
  | H : mem _ _ = true |- _ => apply mem_In in H
  | H : mem _ _ = false |- _ => apply mem_false_In in H
  end; simpl; split; intros H;
  repeat match goal with
  | H : _ \/ _ |- _ => destruct H
  | H : _ /\ _ |- _ => destruct H
  | H : False |- _ => destruct H
  | H : (_, _) = (_, _) |- _ => inversion H; subst; clear H
  end; subst; try contradiction; try discriminate;
  try (split; [reflexivity|]); eauto 8.
Qed.

Lemma in_check_tb t x k :
  In (x, k) (check_tb t) <-> x = tb_id t /\ k = BridgeNeg /\ (tb_l t < 0)%Q.
Proof.
  unfold check_tb. destruct (qltb (tb_l t) 0%Q) eqn:E.
  - apply qltb_lt in E. simpl. split.
    + intros [H|[]]. inversion H. auto.
    + intros (-> & -> & _). left. reflexivity.
  - simpl. split; [tauto|]. intros (_ & _ & H). apply qltb_lt in H. congruence.
Qed.

Theorem check_exact m x k : In (x, k) (check m) <-> broken m x k.
Proof.
  unfold check. rewrite !in_app_iff, !in_flat_map. split.
  - intros [[w [Hw H]] | [[w [Hw H]] | [t [Ht H]]]].
    + apply in_check_wall in H. destruct H as [-> [[-> H]|[[-> H]|[-> [n [Hn H]]]]]].
      * now apply B_WallSpace.
      * now apply B_WallCons.
      * now apply B_WallNext with n.
    + apply in_check_win in H. destruct H as [-> [[-> H]|[-> H]]].
      * now apply B_WinWall.
      * now apply B_WinCons.
    + apply in_check_tb in H. destruct H as (-> & -> & H). now apply B_Bridge.
  - intros H. destruct H.
    + left. exists w. split; [assumption|]. apply in_check_wall. auto.
    + left. exists w. split; [assumption|]. apply in_check_wall. auto 6.
    + left. exists w. split; [assumption|]. apply in_check_wall. eauto 8.
    + right; left. exists w. split; [assumption|]. apply in_check_win. auto.
    + right; left. exists w. split; [assumption|]. apply in_check_win. auto.
    + right; right. exists t. split; [assumption|]. apply in_check_tb. auto.
Qed.

(* closed model: nothing is broken *)
Definition closed_basic (m : model) : Prop :=
  (forall w, In w (m_walls m) -> In (w_space w) (space_ids m) /\ In (w_cons w) (wallcons_ids m) /\
                                 (forall n, w_next w = Some n -> In n (space_ids m))) /\
  (forall w, In w (m_windows m) -> In (win_wall w) (wall_ids m) /\ In (win_cons w) (wincons_ids m)) /\
  (forall t, In t (m_tbs m) -> ~ (tb_l t < 0)%Q).

Lemma nil_iff_no_member {A} (l : list A) : l = [] <-> forall x, ~ In x l.
Proof.
  split; [intros -> x []|]. destruct l as [|a l]; [reflexivity|].
  intros H. exfalso. apply (H a). left. reflexivity.
Qed.

Lemma In_dec_uuid (x : uuid) l : In x l \/ ~ In x l.
Proof. destruct (mem x l) eqn:E; [left; now apply mem_In | right; now apply mem_false_In]. Qed.

Theorem check_closed m : check m = [] <-> closed_basic m.
Proof.
  rewrite nil_iff_no_member. split.
  - intros H. split; [|split].
    + intros w Hi. split; [|split].
      * destruct (In_dec_uuid (w_space w) (space_ids m)) as [|Hn]; [assumption|].
        exfalso. apply (H (w_id w, WallSpace)). apply check_exact. now apply B_WallSpace.
      * destruct (In_dec_uuid (w_cons w) (wallcons_ids m)) as [|Hn]; [assumption|].
        exfalso. apply (H (w_id w, WallCons)). apply check_exact. now apply B_WallCons.
      * intros n Hn. destruct (In_dec_uuid n (space_ids m)) as [|Hnn]; [assumption|].
        exfalso. apply (H (w_id w, WallNext)). apply check_exact. now apply B_WallNext with n.
    + intros w Hi. split.
      * destruct (In_dec_uuid (win_wall w) (wall_ids m)) as [|Hn]; [assumption|].
        exfalso. apply (H (win_id w, WinWall)). apply check_exact. now apply B_WinWall.
      * destruct (In_dec_uuid (win_cons w) (wincons_ids m)) as [|Hn]; [assumption|].
        exfalso. apply (H (win_id w, WinCons)). apply check_exact. now apply B_WinCons.
    + intros t Hi Hl. apply (H (tb_id t, BridgeNeg)). apply check_exact. now apply B_Bridge.
  - intros (Hw & Hwin & Ht) [x k] Hin. apply check_exact in Hin. destruct Hin as
      [w Hi Hn|w Hi Hn|w n Hi Hs Hn|w Hi Hn|w Hi Hn|t Hi Hl].
    + destruct (Hw w Hi) as (H1 & _ & _). exact (Hn H1).
    + destruct (Hw w Hi) as (_ & H1 & _). exact (Hn H1).
    + destruct (Hw w Hi) as (_ & _ & H1). exact (Hn (H1 n Hs)).
    + destruct (Hwin w Hi) as (H1 & _). exact (Hn H1).
    + destruct (Hwin w Hi) as (_ & H1). exact (Hn H1).
    + exact (Ht t Hi Hl).
Qed.

(* One warning per broken link: multiplicity. *)
Definition wall_broken_b (m : model) (k : wkind) (w : wall) : bool :=
  match k with
  | WallSpace => negb (mem (w_space w) (space_ids m))
  | WallCons => negb (mem (w_cons w) (wallcons_ids m))
  | WallNext => match w_next w with Some n => negb (mem n (space_ids m)) | None => false end
  | _ => false
  end.
Definition win_broken_b (m : model) (k : wkind) (w : window) : bool :=
  match k with
  | WinWall => negb (mem (win_wall w) (wall_ids m))
  | WinCons => negb (mem (win_cons w) (wincons_ids m))
  | _ => false
  end.
Definition tb_broken_b (k : wkind) (t : tbridge) : bool :=
  match k with BridgeNeg => qltb (tb_l t) 0%Q | _ => false end.

Definition expected_count (m : model) (x : uuid) (k : wkind) : nat := (
  length (filter (fun w => N.eqb x (w_id w) && wall_broken_b m k w) (m_walls m)) +
  length (filter (fun w => N.eqb x (win_id w) && win_broken_b m k w) (m_windows m)) +
  length (filter (fun t => N.eqb x (tb_id t) && tb_broken_b k t) (m_tbs m)))%nat.

Lemma countw_app x a b : countw x (a ++ b) = (countw x a + countw x b)%nat.
Proof. unfold countw. rewrite filter_app, app_length. reflexivity. Qed.

Lemma countw_flat_map {A} x (f : A -> list warning) (g : A -> bool) l :
  (forall a, countw x (f a) = if g a then 1 else 0) ->
  countw x (flat_map f l) = length (filter g l).
Proof.
  intros H. induction l as [|a l IH]; [reflexivity|].
  cbn [flat_map filter]. rewrite countw_app, IH, H. destruct (g a); reflexivity.
Qed.

Lemma wkind_eqb_refl k : wkind_eqb k k = true.
Proof. destruct k; reflexivity. Qed.

Lemma countw_check_wall m x k w :
  countw (x, k) (check_wall m w) = if N.eqb x (w_id w) && wall_broken_b m k w then 1 else 0.
Proof.
  unfold check_wall, countw, warning_eqb, wall_broken_b.
  destruct (N.eqb x (w_id w)) eqn:E;
  destruct (mem (w_space w) (space_ids m)); destruct (mem (w_cons w) (wallcons_ids m));
  destruct (w_next w) as [n|]; try destruct (mem n (space_ids m));
  destruct k; cbn; rewrite ?E; reflexivity.
Qed.

Lemma countw_check_win m x k w :
  countw (x, k) (check_win m w) = if N.eqb x (win_id w) && win_broken_b m k w then 1 else 0.
Proof.
  unfold check_win, countw, warning_eqb, win_broken_b.
  destruct (N.eqb x (win_id w)) eqn:E;
  destruct (mem (win_wall w) (wall_ids m)); destruct (mem (win_cons w) (wincons_ids m));
  destruct k; cbn; rewrite ?E; reflexivity.
Qed.

Lemma countw_check_tb x k t :
  countw (x, k) (check_tb t) = if N.eqb x (tb_id t) && tb_broken_b k t then 1 else 0.
Proof.
  unfold check_tb, countw, warning_eqb, tb_broken_b.
  destruct (N.eqb x (tb_id t)) eqn:E; destruct (qltb (tb_l t) 0%Q);
  destruct k; cbn; rewrite ?E; reflexivity.
Qed.

Theorem check_count m x k : countw (x, k) (check m) = expected_count m x k.
Proof.
  unfold check, expected_count. rewrite !countw_app.
  rewrite (countw_flat_map (x,k) (check_wall m) (fun w => N.eqb x (w_id w) && wall_broken_b m k w))
    by (intro; apply countw_check_wall).
  rewrite (countw_flat_map (x,k) (check_win m) (fun w => N.eqb x (win_id w) && win_broken_b m k w))
    by (intro; apply countw_check_win).
  rewrite (countw_flat_map (x,k) check_tb (fun t => N.eqb x (tb_id t) && tb_broken_b k t))
    by (intro; apply countw_check_tb).
  lia.
Qed.

(* the correspondence predicate is sound: same_multiset = true means equal counts everywhere *)
Lemma warning_eqb_eq a b : warning_eqb a b = true <-> a = b.
Proof.
  destruct a as [x k], b as [y j]. unfold warning_eqb. cbn. rewrite andb_true_iff, N.eqb_eq.
  split.
  - intros [-> H]. f_equal. destruct k, j; cbn in H; congruence.
  - intros H. inversion H. subst. split; [reflexivity | apply wkind_eqb_refl].
Qed.

Lemma countw_notin x l : ~ In x l -> countw x l = 0.
Proof.
  unfold countw. induction l as [|a l IH]; [reflexivity|]. intros H. cbn.
  destruct (warning_eqb x a) eqn:E.
  - apply warning_eqb_eq in E. subst. exfalso. apply H. left. reflexivity.
  - apply IH. intros Hin. apply H. right. exact Hin.
Qed.

Lemma warning_eq_dec (p q : warning) : {p = q} + {p <> q}.
Proof.
  destruct (warning_eqb p q) eqn:E.
  - left. now apply warning_eqb_eq.
  - right. intros H. apply warning_eqb_eq in H. congruence.
Qed.

Theorem same_multiset_sound a b :
  same_multiset a b = true -> forall x, countw x a = countw x b.
Proof.
  unfold same_multiset. rewrite forallb_forall. intros H x.
  destruct (in_dec warning_eq_dec x (a ++ b)) as [Hin|Hn].
  - apply Nat.eqb_eq, H, Hin.
  - rewrite !countw_notin; [reflexivity | |]; intros Hi; apply Hn, in_app_iff; auto.
Qed.
