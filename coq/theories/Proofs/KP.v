(* Proofs about the K model (Model/K.v) *)
From Coq Require Import ZArith NArith QArith Qabs Bool List Lia Lqa Permutation Morphisms Setoid.
From CTE Require Import Base.Num Model.BModel Model.Props Model.K Proofs.NumP.
Import ListNotations.
Local Open Scope Q_scope.

(* ---- override precedence and the default ---- *)
Lemma ustar_override x u : ustar (Some x) u = x. Proof. reflexivity. Qed.
Lemma ustar_computed y : ustar None (Some y) = y. Proof. reflexivity. Qed.
Lemma ustar_default : ustar None None = 57 # 10. Proof. reflexivity. Qed.

(* ---- K is the declared quotient ---- *)
Definition total_a (p : eprops) : Q := items_a (opaque_items p) + items_a (window_items p).
Definition total_au (p : eprops) : Q :=
  items_au (opaque_items p) + items_au (window_items p) + tb_psil_sum (tbs_nonneg p).

Theorem K_formula p : (1 # 100) <= total_a p -> kd_K (K_model p) * total_a p == total_au p.
Proof.
  intros H. unfold K_model. cbn [kd_K]. fold (total_a p) (total_au p).
  destruct (qltb (total_a p) (1 # 100)) eqn:E.
  - apply qltb_lt' in E. lra.
  - field. lra.
Qed.

Theorem K_small_area p : total_a p < (1 # 100) -> kd_K (K_model p) = 0.
Proof.
  intros H. unfold K_model. cbn [kd_K]. fold (total_a p).
  apply qltb_lt' in H. rewrite H. reflexivity.
Qed.

(* ---- the categories partition the opaque envelope set ---- *)
Lemma kcat_cases c : c = KWalls \/ c = KRoofs \/ c = KFloors \/ c = KGround.
Proof. destruct c; auto. Qed.

Lemma cat_partition (f : (uuid * wallp) -> Q) l :
  qsum (map f l) ==
  qsum (map f (filter (fun w => kcat_eqb (wall_cat (snd w)) KWalls) l)) +
  qsum (map f (filter (fun w => kcat_eqb (wall_cat (snd w)) KRoofs) l)) +
  qsum (map f (filter (fun w => kcat_eqb (wall_cat (snd w)) KFloors) l)) +
  qsum (map f (filter (fun w => kcat_eqb (wall_cat (snd w)) KGround) l)).
Proof.
  induction l as [|a l IH]; cbn [map filter]; [cbn; lra|]. rewrite qsum_cons, IH.
  destruct (wall_cat (snd a)); cbn [kcat_eqb map]; rewrite ?qsum_cons; lra.
Qed.

Theorem K_opaque_breakdown_a p :
  items_a (opaque_items p) ==
  items_a (cat_items KWalls p) + items_a (cat_items KRoofs p) + items_a (cat_items KFloors p) +
  items_a (cat_items KGround p).
Proof.
  unfold items_a, opaque_items, cat_items. rewrite !map_map. apply cat_partition.
Qed.

Theorem K_opaque_breakdown_au p :
  items_au (opaque_items p) ==
  items_au (cat_items KWalls p) + items_au (cat_items KRoofs p) + items_au (cat_items KFloors p) +
  items_au (cat_items KGround p).
Proof.
  unfold items_au, opaque_items, cat_items. rewrite !map_map. apply cat_partition.
Qed.

(* bridges: the nine kinds partition the bridges of non-negative length *)
Lemma tb_partition (f : tbp -> Q) l :
  qsum (map f (filter (fun t => negb (qltb (tp_l t) 0)) l)) ==
  qsum (map (fun k => qsum (map f (filter (fun t => tbkind_eqb (tp_kind t) k && negb (qltb (tp_l t) 0)) l)))
            all_tbkinds).
Proof.
  induction l as [|a l IH]; [cbn; lra|].
  cbn [filter]. destruct (negb (qltb (tp_l a) 0)) eqn:E.
  - cbn [map]. rewrite qsum_cons, IH. unfold all_tbkinds. cbn [map]. rewrite !qsum_cons.
    destruct (tp_kind a); cbn [tbkind_eqb tbkind_idx N.eqb Pos.eqb andb map]; rewrite ?qsum_cons, ?qsum_nil; lra.
  - rewrite IH. apply qsum_map_ext. intros k _. rewrite andb_false_r. reflexivity.
Qed.

Theorem K_bridge_breakdown p :
  tb_l_sum (tbs_nonneg p) == qsum (map fst (kd_tbs (K_model p))) /\
  tb_psil_sum (tbs_nonneg p) == qsum (map snd (kd_tbs (K_model p))).
Proof.
  unfold K_model. cbn [kd_tbs]. rewrite !map_map. cbn [fst snd].
  unfold tb_l_sum, tb_psil_sum, tbs_nonneg, tbs_of. split; apply tb_partition.
Qed.

(* the totals of the summary are the sums of the breakdown *)
Theorem K_breakdown_sums p :
  let k := K_model p in
  kd_a k == ke_a (kd_walls k) + ke_a (kd_roofs k) + ke_a (kd_floors k) + ke_a (kd_ground k) + ke_a (kd_windows k) /\
  kd_au k == ke_au (kd_walls k) + ke_au (kd_roofs k) + ke_au (kd_floors k) + ke_au (kd_ground k) +
             ke_au (kd_windows k) + qsum (map snd (kd_tbs k)) /\
  kd_opaques_a k == ke_a (kd_walls k) + ke_a (kd_roofs k) + ke_a (kd_floors k) + ke_a (kd_ground k) /\
  kd_windows_a k = ke_a (kd_windows k) /\ kd_windows_au k = ke_au (kd_windows k) /\
  kd_tbs_l k == qsum (map fst (kd_tbs k)) /\ kd_tbs_psil k == qsum (map snd (kd_tbs k)).
Proof.
  pose proof (K_opaque_breakdown_a p) as Ha. pose proof (K_opaque_breakdown_au p) as Hau.
  destruct (K_bridge_breakdown p) as [Hl Hp].
  cbv zeta. unfold K_model in *. cbn [kd_a kd_au kd_opaques_a kd_windows_a kd_windows_au kd_tbs_l kd_tbs_psil
    kd_walls kd_roofs kd_floors kd_ground kd_windows kd_tbs kel_of ke_a ke_au] in *.
  repeat split; try reflexivity; try assumption.
  - rewrite Ha. reflexivity.
  - rewrite Hau, Hp. reflexivity.
Qed.

(* ---- each category mean lies between its minimum and maximum ---- *)
Lemma fold_qmax_ge r : forall x, x <= fold_left qmax r x.
Proof.
  induction r as [|y r IH]; intros x; cbn [fold_left]; [lra|].
  pose proof (IH (qmax x y)). pose proof (qmax_ub_l x y). lra.
Qed.
Lemma fold_qmax_ub r : forall x y, In y r -> y <= fold_left qmax r x.
Proof.
  induction r as [|z r IH]; intros x y H; [destruct H|]. cbn [fold_left]. destruct H as [->|H].
  - pose proof (fold_qmax_ge r (qmax x y)). pose proof (qmax_ub_r x y). lra.
  - apply IH. exact H.
Qed.
Lemma fold_qmin_le r : forall x, fold_left qmin r x <= x.
Proof.
  induction r as [|y r IH]; intros x; cbn [fold_left]; [lra|].
  pose proof (IH (qmin x y)). pose proof (qmin_lb_l x y). lra.
Qed.
Lemma fold_qmin_lb r : forall x y, In y r -> fold_left qmin r x <= y.
Proof.
  induction r as [|z r IH]; intros x y H; [destruct H|]. cbn [fold_left]. destruct H as [->|H].
  - pose proof (fold_qmin_le r (qmin x y)). pose proof (qmin_lb_r x y). lra.
  - apply IH. exact H.
Qed.
Lemma qmax_list_ub l m y : qmax_list l = Some m -> In y l -> y <= m.
Proof.
  destruct l as [|x r]; [discriminate|]. cbn. intros E. inversion E; subst. intros [->|H].
  - apply fold_qmax_ge.
  - apply fold_qmax_ub. exact H.
Qed.
Lemma qmin_list_lb l m y : qmin_list l = Some m -> In y l -> m <= y.
Proof.
  destruct l as [|x r]; [discriminate|]. cbn. intros E. inversion E; subst. intros [->|H].
  - apply fold_qmin_le.
  - apply fold_qmin_lb. exact H.
Qed.

Theorem mean_between (l : list item) umin umax umean :
  (forall i, In i l -> 0 <= fst i) ->
  ke_umin (kel_of l) = Some umin -> ke_umax (kel_of l) = Some umax -> ke_umean (kel_of l) = Some umean ->
  umin <= umean <= umax.
Proof.
  intros Hpos Hmin Hmax Hmean. unfold kel_of in *. cbn [ke_umin ke_umax ke_umean] in *.
  destruct (qltb (1 # 1000) (items_a l)) eqn:Ea; [|discriminate]. apply qltb_lt' in Ea.
  inversion Hmean; subst umean; clear Hmean.
  assert (Hlo : umin * items_a l <= items_au l).
  { unfold items_a, items_au. rewrite <- qsum_map_scal. apply qsum_map_le. intros i Hi.
    assert (umin <= snd i) by (apply (qmin_list_lb _ _ _ Hmin), in_map, Hi).
    pose proof (Hpos i Hi). nra. }
  assert (Hhi : items_au l <= umax * items_a l).
  { unfold items_a, items_au. rewrite <- qsum_map_scal. apply qsum_map_le. intros i Hi.
    assert (snd i <= umax) by (apply (qmax_list_ub _ _ _ Hmax), in_map, Hi).
    pose proof (Hpos i Hi). nra. }
  split.
  - apply Qle_shift_div_l; lra.
  - apply Qle_shift_div_r; lra.
Qed.

(* ---- elements outside the envelope set contribute nothing ---- *)
Definition with_walls (p : eprops) ws := mkEProps (ep_global p) ws (ep_windows p) (ep_tbs p) (ep_wincons p) (ep_spaces p).
Definition with_tbs (p : eprops) ts := mkEProps (ep_global p) (ep_walls p) (ep_windows p) ts (ep_wincons p) (ep_spaces p).

Lemma filter_app_mid {A} (f : A -> bool) l1 x l2 : f x = false -> filter f (l1 ++ x :: l2) = filter f (l1 ++ l2).
Proof. intros H. rewrite !filter_app. cbn [filter]. rewrite H. reflexivity. Qed.

Theorem K_excludes p ws1 w ws2 :
  ep_walls p = ws1 ++ w :: ws2 -> env_wall w = false ->
  K_model (with_walls p (ws1 ++ ws2)) = K_model p.
Proof.
  intros Hw He.
  assert (Henv : envset (with_walls p (ws1 ++ ws2)) = envset p).
  { unfold envset, with_walls. cbn [ep_walls]. rewrite Hw. symmetry. apply filter_app_mid. exact He. }
  unfold K_model, opaque_items, cat_items, window_items, wins_of, tbs_nonneg, tbs_of.
  rewrite Henv. reflexivity.
Qed.

Theorem K_negative_bridge_ignored p ts1 t ts2 :
  ep_tbs p = ts1 ++ t :: ts2 -> tp_l (snd t) < 0 ->
  K_model (with_tbs p (ts1 ++ ts2)) = K_model p.
Proof.
  intros Ht Hneg. apply qltb_lt' in Hneg.
  assert (H1 : tbs_nonneg (with_tbs p (ts1 ++ ts2)) = tbs_nonneg p).
  { unfold tbs_nonneg, with_tbs. cbn [ep_tbs]. rewrite Ht, !map_app. cbn [map]. symmetry.
    apply filter_app_mid. rewrite Hneg. reflexivity. }
  assert (H2 : forall k, tbs_of k (with_tbs p (ts1 ++ ts2)) = tbs_of k p).
  { intros k. unfold tbs_of, with_tbs. cbn [ep_tbs]. rewrite Ht, !map_app. cbn [map]. symmetry.
    apply filter_app_mid. rewrite Hneg, andb_false_r. reflexivity. }
  unfold K_model. rewrite H1. unfold all_tbkinds. cbn [map]. rewrite !H2. reflexivity.
Qed.

(* ---- K does not depend on the order of elements ---- *)
Lemma perm_filter {A} (f : A -> bool) l l' : Permutation l l' -> Permutation (filter f l) (filter f l').
Proof.
  induction 1 as [|x l l' _ IH|x y l|l l' l'' _ IH1 _ IH2]; cbn [filter].
  - constructor.
  - destruct (f x); [constructor|]; exact IH.
  - destruct (f x), (f y); try apply Permutation_refl; constructor.
  - eapply Permutation_trans; eassumption.
Qed.

Lemma perm_flat_map_in {A B} (f g : A -> list B) l :
  (forall x, In x l -> Permutation (f x) (g x)) -> Permutation (flat_map f l) (flat_map g l).
Proof.
  induction l as [|a l IH]; intros H; cbn [flat_map]; [constructor|].
  apply Permutation_app; [apply H; left; reflexivity | apply IH; intros x Hx; apply H; right; exact Hx].
Qed.

Definition K_scalars (k : kdata) : list Q :=
  [kd_K k; kd_a k; kd_au k; kd_opaques_a k; kd_opaques_au k; kd_windows_a k; kd_windows_au k; kd_tbs_l k; kd_tbs_psil k].

Fixpoint qlist_eq (a b : list Q) : Prop :=
  match a, b with
  | [], [] => True
  | x :: a', y :: b' => x == y /\ qlist_eq a' b'
  | _, _ => False
  end.

Theorem K_permutation p p' :
  ep_global p = ep_global p' -> ep_wincons p = ep_wincons p' ->
  Permutation (ep_walls p) (ep_walls p') -> Permutation (ep_windows p) (ep_windows p') ->
  Permutation (ep_tbs p) (ep_tbs p') ->
  qlist_eq (K_scalars (K_model p)) (K_scalars (K_model p')).
Proof.
  intros _ _ Hw Hn Ht.
  assert (Henv : Permutation (envset p) (envset p')) by (apply perm_filter; exact Hw).
  assert (Hoi : Permutation (opaque_items p) (opaque_items p')) by (apply Permutation_map; exact Henv).
  assert (Hwi : Permutation (window_items p) (window_items p')).
  { unfold window_items. eapply Permutation_trans.
    - apply perm_flat_map_in with (g := fun w => map (win_item (wp_mult (snd w))) (wins_of p' (fst w))).
      intros x _. apply Permutation_map. unfold wins_of. apply perm_filter. exact Hn.
    - apply Permutation_flat_map. exact Henv. }
  assert (Htb : Permutation (tbs_nonneg p) (tbs_nonneg p')).
  { unfold tbs_nonneg. apply perm_filter, Permutation_map. exact Ht. }
  assert (E1 : items_a (opaque_items p) == items_a (opaque_items p')) by (apply qsum_perm, Permutation_map, Hoi).
  assert (E2 : items_au (opaque_items p) == items_au (opaque_items p')) by (apply qsum_perm, Permutation_map, Hoi).
  assert (E3 : items_a (window_items p) == items_a (window_items p')) by (apply qsum_perm, Permutation_map, Hwi).
  assert (E4 : items_au (window_items p) == items_au (window_items p')) by (apply qsum_perm, Permutation_map, Hwi).
  assert (E5 : tb_l_sum (tbs_nonneg p) == tb_l_sum (tbs_nonneg p')) by (apply qsum_perm, Permutation_map, Htb).
  assert (E6 : tb_psil_sum (tbs_nonneg p) == tb_psil_sum (tbs_nonneg p')) by (apply qsum_perm, Permutation_map, Htb).
  unfold K_scalars, K_model. cbn [kd_K kd_a kd_au kd_opaques_a kd_opaques_au kd_windows_a kd_windows_au kd_tbs_l kd_tbs_psil qlist_eq].
  set (a := items_a (opaque_items p)) in *. set (a' := items_a (opaque_items p')) in *.
  set (au := items_au (opaque_items p)) in *. set (au' := items_au (opaque_items p')) in *.
  set (w := items_a (window_items p)) in *. set (w' := items_a (window_items p')) in *.
  set (wu := items_au (window_items p)) in *. set (wu' := items_au (window_items p')) in *.
  set (t := tb_l_sum (tbs_nonneg p)) in *. set (t' := tb_l_sum (tbs_nonneg p')) in *.
  set (tp := tb_psil_sum (tbs_nonneg p)) in *. set (tp' := tb_psil_sum (tbs_nonneg p')) in *.
  clearbody a a' au au' w w' wu wu' t t' tp tp'.
  assert (Eb : qltb (a + w) (1 # 100) = qltb (a' + w') (1 # 100)) by (rewrite E1, E3; reflexivity).
  rewrite Eb. repeat split; try assumption; try (rewrite ?E1, ?E2, ?E3, ?E4, ?E6; reflexivity).
  destruct (qltb (a' + w') (1 # 100)); [reflexivity|]. rewrite E1, E2, E3, E4, E6. reflexivity.
Qed.

(* ---- renaming: K only compares ids for equality ---- *)
Definition rename_props (f : uuid -> uuid) (p : eprops) : eprops :=
  mkEProps (ep_global p)
    (map (fun w => (f (fst w), snd w)) (ep_walls p))
    (map (fun w => (f (fst w), let x := snd w in
       mkWinP (np_cons x) (f (np_wall x)) (np_orient x) (np_tilt x) (np_area x) (np_mult x) (np_bounds x)
              (np_tenv x) (np_u x) (np_uov x) (np_fsh x) (np_fshov x))) (ep_windows p))
    (map (fun t => (f (fst t), snd t)) (ep_tbs p)) (ep_wincons p) (ep_spaces p).

Lemma filter_map_comm {A B} (g : A -> B) (p : B -> bool) (q : A -> bool) l :
  (forall x, p (g x) = q x) -> filter p (map g l) = map g (filter q l).
Proof.
  intros H. induction l as [|a l IH]; [reflexivity|]. cbn [map filter]. rewrite H.
  destruct (q a); cbn [map]; rewrite IH; reflexivity.
Qed.

Theorem K_rename f p :
  (forall a b, f a = f b -> a = b) -> K_model (rename_props f p) = K_model p.
Proof.
  intros Hinj.
  assert (Heqb : forall a b, N.eqb (f a) (f b) = N.eqb a b).
  { intros a b. destruct (N.eqb_spec a b) as [->|Hn]; [apply N.eqb_refl|].
    apply N.eqb_neq. intros H. apply Hn, Hinj, H. }
  assert (Henv : envset (rename_props f p) = map (fun w => (f (fst w), snd w)) (envset p)).
  { unfold envset, rename_props. cbn [ep_walls]. apply filter_map_comm. intros x. reflexivity. }
  assert (Hwi : window_items (rename_props f p) = window_items p).
  { unfold window_items. rewrite Henv, flat_map_concat_map, map_map, <- flat_map_concat_map.
    apply flat_map_ext. intros w. cbn [fst snd]. unfold wins_of, rename_props. cbn [ep_windows].
    erewrite filter_map_comm; [rewrite map_map; reflexivity|]. intros x. cbn [snd np_wall]. apply Heqb. }
  assert (Hoi : opaque_items (rename_props f p) = opaque_items p).
  { unfold opaque_items. rewrite Henv, map_map. reflexivity. }
  assert (Hci : forall c, cat_items c (rename_props f p) = cat_items c p).
  { intros c. unfold cat_items. rewrite Henv.
    erewrite filter_map_comm; [rewrite map_map; reflexivity|]. intros x. reflexivity. }
  assert (Htb : map snd (ep_tbs (rename_props f p)) = map snd (ep_tbs p)).
  { unfold rename_props. cbn [ep_tbs]. rewrite map_map. reflexivity. }
  unfold K_model, tbs_nonneg, tbs_of. rewrite Hwi, Hoi, !Hci, Htb. reflexivity.
Qed.
