(* Proofs about Model/BdlTyped.v: what the typed readers look up is what was written *)
From Coq Require Import NArith ZArith QArith Bool List Lia.
From CTE Require Import Model.Bdl Model.BdlDoc Proofs.BdlP.
From CTE Require Import Model.BdlTyped.
Import ListNotations.
Local Open Scope N_scope.

Lemma str_eqb_refl a : str_eqb a a = true.
Proof. induction a as [|x a IH]; [reflexivity|]. cbn. rewrite N.eqb_refl, IH. reflexivity. Qed.
Lemma str_eqb_sym a b : str_eqb a b = str_eqb b a.
Proof.
  revert b; induction a as [|x a IH]; intros [|y b]; try reflexivity. cbn. rewrite N.eqb_sym, (IH b). reflexivity.
Qed.
Lemma str_eqb_trans_false a b c : str_eqb a b = true -> str_eqb a c = false -> str_eqb b c = false.
Proof. intros H1 H2. apply str_eqb_eq in H1. subst. exact H2. Qed.

Lemma lookup_insert_same k v m : lookup_attr k (map_insert k v m) = Some v.
Proof.
  unfold lookup_attr. induction m as [|[k0 v0] r IH]; cbn [map_insert find fst snd].
  - rewrite str_eqb_refl. reflexivity.
  - destruct (str_eqb k k0) eqn:E.
    + cbn [find fst snd]. rewrite str_eqb_refl. reflexivity.
    + destruct (str_ltb k k0).
      * cbn [find fst snd]. rewrite str_eqb_refl. reflexivity.
      * cbn [find fst snd]. rewrite str_eqb_sym, E. exact IH.
Qed.

Lemma lookup_insert_other k k' v m : str_eqb k k' = false -> lookup_attr k' (map_insert k v m) = lookup_attr k' m.
Proof.
  intros Hk. unfold lookup_attr. induction m as [|[k0 v0] r IH]; cbn [map_insert find fst snd].
  - rewrite Hk. reflexivity.
  - destruct (str_eqb k k0) eqn:E.
    + cbn [find fst snd]. rewrite Hk, (str_eqb_trans_false k k0 k' E Hk). reflexivity.
    + destruct (str_ltb k k0).
      * cbn [find fst snd]. rewrite Hk. reflexivity.
      * cbn [find fst snd]. destruct (str_eqb k0 k'); [reflexivity | exact IH].
Qed.

(* the last attribute written with key k (attributes are inserted in file order; a repeated key overwrites) *)
Fixpoint last_written (k : str) (l : list aattr) : option bval :=
  match l with
  | [] => None
  | a :: r => match last_written k r with
              | Some v => Some v
              | None => if str_eqb (at_key a) k then Some (typed (value_result (at_val a))) else None
              end
  end.

Theorem lookup_written k l : forall acc,
  lookup_attr k (fold_left (fun m a => attr_insert (at_key a) (value_result (at_val a)) m) l acc) =
  match last_written k l with Some v => Some v | None => lookup_attr k acc end.
Proof.
  induction l as [|a r IH]; intros acc; cbn [fold_left last_written]; [reflexivity|].
  rewrite IH. destruct (last_written k r) as [v|]; [reflexivity|].
  unfold attr_insert. destruct (str_eqb (at_key a) k) eqn:E.
  - apply str_eqb_eq in E. subst k. apply lookup_insert_same.
  - apply lookup_insert_other, E.
Qed.

Corollary lookup_attrs_result k l : lookup_attr k (attrs_result l) = last_written k l.
Proof. unfold attrs_result. rewrite lookup_written. destruct (last_written k l); reflexivity. Qed.

(* so a numeric attribute written once reaches the typed reader as that very token, a string as that string *)
Corollary get_num_written (key : String.string) l tok :
  last_written (s2l key) l = Some (VNum tok) -> get_num key (attrs_result l) = Some tok.
Proof. intros H. unfold get_num. rewrite lookup_attrs_result, H. reflexivity. Qed.
Corollary get_text_written (key : String.string) l s :
  last_written (s2l key) l = Some (VStr s) -> get_text key (attrs_result l) = Some s.
Proof. intros H. unfold get_text. rewrite lookup_attrs_result, H. reflexivity. Qed.
Corollary get_absent (key : String.string) l :
  last_written (s2l key) l = None -> get_num key (attrs_result l) = None /\ get_text key (attrs_result l) = None.
Proof. intros H. unfold get_num, get_text. rewrite lookup_attrs_result, H. split; reflexivity. Qed.

From Coq Require Import String.
Local Open Scope string_scope.
(* MATERIAL: the documented legacy defaults *)
Theorem material_defaults b c d : get_text "TYPE" (b_attrs b) = Some (s2l "PROPERTIES") ->
  get_num "CONDUCTIVITY" (b_attrs b) = Some c -> get_num "DENSITY" (b_attrs b) = Some d ->
  get_text "GROUP" (b_attrs b) = None -> get_num "SPECIFIC-HEAT" (b_attrs b) = None ->
  exists m, material_of b = Ok m /\ tm_group m = s2l "Materiales" /\
            tm_props m = Some (get_num "THICKNESS" (b_attrs b), c, d, NConst 800%Q, get_num "VAPOUR-DIFFUSIVITY-FACTOR" (b_attrs b)).
Proof.
  intros Ht Hc Hd Hg Hs. unfold material_of. rewrite Ht, Hc, Hd, Hg, Hs.
  replace (str_eqb (s2l "PROPERTIES") (s2l "PROPERTIES")) with true by (symmetry; apply str_eqb_refl).
  eexists. repeat split; reflexivity.
Qed.

(* FLOOR: Z defaults to 0, the multiplier to 1 *)
Theorem floor_defaults b h p : get_num "X" (b_attrs b) = None -> get_num "Y" (b_attrs b) = None ->
  get_num "SPACE-HEIGHT" (b_attrs b) = Some h -> get_text "PREVIOUS" (b_attrs b) = Some p ->
  get_num "Z" (b_attrs b) = None -> get_num "MULTIPLIER" (b_attrs b) = None ->
  floor_of b = Ok (mkTFl (b_name b) (NConst 0%Q) h (NConst 1%Q) p).
Proof. intros Hx Hy Hh Hp Hz Hm. unfold floor_of. rewrite Hx, Hy, Hh, Hp, Hz, Hm. reflexivity. Qed.

(* walls: a written TILT wins; without it the tilt follows the block kind and the LOCATION *)
From CTE Require Import Model.BdlTypedEnv.
Theorem wall_written_tilt_wins b w tk : wall_of b = Ok w -> get_num "TILT" (b_attrs b) = Some tk -> twl_tilt w = NTok tk.
Proof.
  unfold wall_of. intros H Ht.
  destruct (b_parent b); [|discriminate]. destruct (get_text "CONSTRUCTION" (b_attrs b)); [|discriminate].
  destruct (match get_text "LOCATION" (b_attrs b) with
            | Some l => if (str_eqb l (s2l "TOP") || str_eqb l (s2l "BOTTOM"))%bool then Ok (Some l)
                        else if prefixb space_prefix l then Ok (Some (skipn 6 l)) else Err 6%N
            | None => Ok None end) as [loc|]; [|discriminate].
  destruct (if N.eqb (b_type b) CTEGen.BdlTypes.BT_InteriorWall
            then match get_text "INT-WALL-TYPE" (b_attrs b) with
                 | Some k => if str_eqb k (s2l "STANDARD") then Ok TB_INTERIOR else if str_eqb k (s2l "ADIABATIC") then Ok TB_ADIABATIC else Err 6%N
                 | None => Err 5%N end
            else if N.eqb (b_type b) CTEGen.BdlTypes.BT_UndergroundWall then Ok TB_GROUND
            else if (N.eqb (b_type b) CTEGen.BdlTypes.BT_ExteriorWall || N.eqb (b_type b) CTEGen.BdlTypes.BT_Roof)%bool then Ok TB_EXTERIOR else Err 6%N) as [bd|]; [|discriminate].
  rewrite Ht in H. injection H as <-. reflexivity.
Qed.
