(* Proofs about Model/Kyg.v: a printed element line of KyGananciasSolares.txt is read back *)
From Coq Require Import NArith ZArith Bool List Lia.
From CTE Require Import Model.Bdl Model.BdlDoc Proofs.BdlP.
From CTE Require Import Model.Kyg.
Import ListNotations.
Local Open Scope N_scope.

(* a field as written between separators: no ';', no line feed, nothing to trim *)
Definition fld_ok (f : str) : bool := negb (has semi f) && str_eqb (trim f) f.

Lemma split_on_join_gen d (ls : list str) : ls <> [] -> forallb (fun s => negb (has d s)) ls = true ->
  split_on d (join [d] ls) = ls.
Proof.
  induction ls as [|a r IH]; [contradiction|]. intros _ H. cbn in H. apply andb_true_iff in H. destruct H as [Ha Hr].
  apply negb_true_iff in Ha.
  destruct r as [|b r'].
  - cbn [join]. apply split_on_no, has_false_forallb, Ha.
  - change (join [d] (a :: b :: r')) with (a ++ d :: join [d] (b :: r')).
    rewrite split_on_app by (apply has_false_forallb, Ha). f_equal. apply IH; [discriminate | exact Hr].
Qed.

Lemma fields_sep (ls : list str) : ls <> [] -> forallb fld_ok ls = true -> fields (sep ls) = ls.
Proof.
  intros Hne H. unfold fields, sep. rewrite split_on_join_gen; [|exact Hne|].
  - clear Hne. induction ls as [|a r IH]; [reflexivity|]. cbn in H. apply andb_true_iff in H. destruct H as [Ha Hr].
    unfold fld_ok in Ha. apply andb_true_iff in Ha. destruct Ha as [_ Ht]. apply str_eqb_eq in Ht.
    cbn [map]. rewrite Ht, (IH Hr). reflexivity.
  - revert H. apply forallb_impl. intros x Hx. unfold fld_ok in Hx. apply andb_true_iff in Hx. tauto.
Qed.

Lemma prefixb_app p r : prefixb p (p ++ r) = true.
Proof. induction p as [|a p IH]; [destruct r; reflexivity|]. cbn. rewrite N.eqb_refl, IH. reflexivity. Qed.

Lemma sep_cons a (l : list str) : l <> [] -> sep (a :: l) = a ++ semi :: sep l.
Proof. destruct l; [contradiction | reflexivity]. Qed.

Definition wf_kwall (w : kwall) : bool :=
  forallb fld_ok ([kw_name w; kw_a w; kw_u w; kw_btrx w] ++ match kw_new w with Some (t, o, c) => [t; o; c] | None => [] end) &&
  all_num [kw_a w; kw_u w; kw_btrx w].

Theorem wall_roundtrip w : wf_kwall w = true -> parse_kline (print_wall w) = LWall w.
Proof.
  unfold wf_kwall. intros H. apply andb_true_iff in H. destruct H as [Hf Hn].
  destruct w as [n a u b ext]. cbn [kw_name kw_a kw_u kw_btrx kw_new] in *.
  unfold print_wall. cbn [kw_name kw_a kw_u kw_btrx kw_new].
  set (rest := [n; a; u; b] ++ match ext with Some (t, o, c) => [t; o; c] | None => [] end) in *.
  assert (Hl : sep (s_muro :: rest) = s_muro ++ semi :: sep rest) by (apply sep_cons; unfold rest; discriminate).
  assert (Hfields : fields (sep (s_muro :: rest)) = s_muro :: rest).
  { apply fields_sep; [discriminate|]. cbn [forallb]. rewrite Hf. reflexivity. }
  unfold parse_kline. change ([s_muro; n; a; u; b] ++ match ext with Some (t, o, c) => [t; o; c] | None => [] end) with (s_muro :: rest).
  rewrite Hfields, Hl.
  replace (prefixb s_muro (s_muro ++ semi :: sep rest)) with true by (symmetry; apply prefixb_app).
  change (s_muro ++ semi :: sep rest) with (77 :: ([117; 114; 111] ++ semi :: sep rest)).
  cbv beta iota. change (77 =? 35) with false. cbn [orb]. cbv iota.
  change (str_eqb s_muro s_ventana) with false. change (str_eqb s_muro s_muro) with true. cbv iota.
  unfold rest. cbn [app]. rewrite Hn. cbn [negb].
  destruct ext as [[[t o] c]|]; reflexivity.
Qed.

Definition wf_kwin (w : kwin) : bool :=
  forallb fld_ok ([kn_name w; kn_a w; kn_u w; kn_orient w; kn_ff w] ++
                  match kn_new w with Some (g, u1, u2, i, c) => [g; u1; u2; i; c] | None => [] end) &&
  all_num [kn_a w; kn_u w; kn_ff w] &&
  match kn_new w with Some (g, u1, u2, i, c) => all_num [g; u1; u2; i] | None => true end.

(* the orientation comes back with O (oeste) written as W *)
Theorem win_roundtrip w : wf_kwin w = true ->
  parse_kline (print_win w) = LWin (mkKN (kn_name w) (kn_a w) (kn_u w) (replace_O_W (kn_orient w)) (kn_ff w) (kn_new w)).
Proof.
  unfold wf_kwin. intros H. apply andb_true_iff in H. destruct H as [H Hn2]. apply andb_true_iff in H. destruct H as [Hf Hn].
  destruct w as [n a u o ff ext]. cbn [kn_name kn_a kn_u kn_orient kn_ff kn_new] in *.
  unfold print_win. cbn [kn_name kn_a kn_u kn_orient kn_ff kn_new].
  set (rest := [n; a; u; o; ff] ++ match ext with Some (g, u1, u2, i, c) => [g; u1; u2; i; c] | None => [] end) in *.
  assert (Hl : sep (s_ventana :: rest) = s_ventana ++ semi :: sep rest) by (apply sep_cons; unfold rest; discriminate).
  assert (Hfields : fields (sep (s_ventana :: rest)) = s_ventana :: rest).
  { apply fields_sep; [discriminate|]. cbn [forallb]. rewrite Hf. reflexivity. }
  unfold parse_kline.
  change ([s_ventana; n; a; u; o; ff] ++ match ext with Some (g, u1, u2, i, c) => [g; u1; u2; i; c] | None => [] end) with (s_ventana :: rest).
  rewrite Hfields, Hl.
  replace (prefixb s_ventana (s_ventana ++ semi :: sep rest)) with true by (symmetry; apply prefixb_app).
  change (s_ventana ++ semi :: sep rest) with (86 :: (tl s_ventana ++ semi :: sep rest)).
  cbv beta iota. change (86 =? 35) with false. rewrite orb_true_r. cbn [orb]. cbv iota.
  change (str_eqb s_ventana s_ventana) with true. cbv iota.
  unfold rest. cbn [app]. rewrite Hn. cbn [negb].
  destruct ext as [[[[[g u1] u2] i] c]|]; [rewrite Hn2|]; reflexivity.
Qed.

Definition wf_ktb (t : ktb) : bool :=
  forallb fld_ok [kt_l t; kt_psi t; kt_name t; kt_sisdim t] && all_num [kt_l t; kt_psi t].

Theorem tb_roundtrip t : wf_ktb t = true -> parse_kline (print_tb t) = LTb t.
Proof.
  unfold wf_ktb. intros H. apply andb_true_iff in H. destruct H as [Hf Hn].
  destruct t as [lg psi n sd]. cbn [kt_l kt_psi kt_name kt_sisdim] in *.
  unfold print_tb. cbn [kt_l kt_psi kt_name kt_sisdim].
  assert (Hp : fld_ok s_pptt = true) by (vm_compute; reflexivity).
  assert (G : forall rest, rest = [lg; psi; n] ++ match sd with [] => [] | sd0 => [sd0] end ->
              parse_kline (sep (s_pptt :: rest)) = LTb (mkKT lg psi n sd)).
  { intros rest Er.
    assert (Hrest : forallb fld_ok rest = true).
    { rewrite forallb_forall in *. intros x Hx. apply Hf. rewrite Er in Hx. destruct sd; cbn [app In] in Hx |- *; tauto. }
    assert (Hl : sep (s_pptt :: rest) = s_pptt ++ semi :: sep rest) by (apply sep_cons; rewrite Er; discriminate).
    assert (Hfields : fields (sep (s_pptt :: rest)) = s_pptt :: rest).
    { apply fields_sep; [discriminate|]. cbn [forallb]. rewrite Hp, Hrest. reflexivity. }
    unfold parse_kline. rewrite Hfields, Hl.
    replace (prefixb s_pptt (s_pptt ++ semi :: sep rest)) with true by (symmetry; apply prefixb_app).
    change (s_pptt ++ semi :: sep rest) with (80 :: (tl s_pptt ++ semi :: sep rest)).
    cbv beta iota. change (80 =? 35) with false. rewrite !orb_true_r. cbv iota.
    change (str_eqb s_pptt s_ventana) with false. change (str_eqb s_pptt s_muro) with false. change (str_eqb s_pptt s_pptt) with true. cbv iota.
    rewrite Er. cbn [app]. rewrite Hn. cbn [negb]. destruct sd; reflexivity. }
  destruct sd; apply (G _ eq_refl).
Qed.

(* leading and trailing blanks of a line, CR included, and comment / blank lines do not matter *)
Theorem kline_layout w1 w2 l : all_wsb w1 = true -> all_wsb w2 = true -> edges_ok l = true ->
  parse_kline (trim (w1 ++ l ++ w2)) = parse_kline l.
Proof. intros H1 H2 Hl. rewrite (trim_wrap w1 l w2 H1 H2 Hl). reflexivity. Qed.
Theorem kline_comment r : parse_kline (35 :: r) = LSkip.
Proof. reflexivity. Qed.
