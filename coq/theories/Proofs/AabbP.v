(* Proofs about the exact slab test (Model/Aabb.v): it decides "the ray meets the box at t >= 0",
   hence it is monotone under enlargement of the box and under joins. *)
From Coq Require Import ZArith QArith Qabs Bool List Lia Lqa.
From CTE Require Import Base.Num Model.Aabb Proofs.NumP Proofs.KP.
Import ListNotations.
Local Open Scope Q_scope.

Definition hits (b : aabbq) (r : rayq) : Prop := exists t, 0 <= t /\ inside b (ray_at r t).

(* one axis *)
Definition axis_in (o d lo hi t : Q) : Prop := lo <= o + t * d <= hi.

Lemma div_mul_le a d t : 0 < d -> (a / d <= t <-> a <= t * d).
Proof.
  intros Hd. split; intros H.
  - assert (E : a == (a / d) * d) by (field; lra). rewrite E. nra.
  - apply Qle_shift_div_r; lra.
Qed.
Lemma div_mul_ge a d t : 0 < d -> (t <= a / d <-> t * d <= a).
Proof.
  intros Hd. split; intros H.
  - assert (E : a == (a / d) * d) by (field; lra). rewrite E. nra.
  - apply Qle_shift_div_l; lra.
Qed.

Lemma div_neg a d : d < 0 -> a / d == (- a) / (- d).
Proof. intros H. field. lra. Qed.

Lemma axis_ival_spec o d lo hi : lo <= hi ->
  match axis_ival o d lo hi with
  | None => forall t, ~ axis_in o d lo hi t
  | Some None => forall t, axis_in o d lo hi t
  | Some (Some (a, b)) => forall t, axis_in o d lo hi t <-> a <= t <= b
  end.
Proof.
  intros Hlh. unfold axis_ival, axis_in. destruct (qeqb d 0) eqn:Ed.
  - apply qeqb_eq in Ed. destruct (qleb lo o && qleb o hi) eqn:Eo.
    + apply andb_true_iff in Eo. destruct Eo as [A B]. apply qleb_le in A, B.
      intros t. rewrite Ed. split; nra.
    + intros t [A B]. rewrite Ed in A, B.
      apply andb_false_iff in Eo. destruct Eo as [E|E]; apply qleb_gt in E; nra.
  - apply qeqb_neq in Ed. intros t.
    destruct (Qlt_le_dec 0 d) as [Hpos|Hneg].
    + assert (H12 : (lo - o) / d <= (hi - o) / d) by (apply div_mul_le; [exact Hpos|]; assert (E : (hi - o) / d * d == hi - o) by (field; lra); lra).
      assert (Emin : qmin ((lo - o) / d) ((hi - o) / d) == (lo - o) / d).
      { unfold qmin. destruct (qleb ((lo - o) / d) ((hi - o) / d)) eqn:E; [reflexivity|]. apply qleb_gt in E. lra. }
      assert (Emax : qmax ((lo - o) / d) ((hi - o) / d) == (hi - o) / d).
      { unfold qmax. destruct (qleb ((lo - o) / d) ((hi - o) / d)) eqn:E; [reflexivity|]. apply qleb_gt in E. lra. }
      rewrite Emin, Emax, (div_mul_le (lo - o) d t Hpos), (div_mul_ge (hi - o) d t Hpos). split; intros [A B]; split; lra.
    + assert (Hd : d < 0). { destruct (Qeq_dec d 0) as [E|E]; [contradiction|]. lra. }
      assert (Hnd : 0 < - d) by lra.
      assert (E1 : (lo - o) / d == (o - lo) / (- d)) by (field; lra).
      assert (E2 : (hi - o) / d == (o - hi) / (- d)) by (field; lra).
      assert (H21 : (o - hi) / (- d) <= (o - lo) / (- d)).
      { apply div_mul_le; [exact Hnd|]. assert (E : (o - lo) / (- d) * (- d) == o - lo) by (field; lra). lra. }
      assert (Emin : qmin ((lo - o) / d) ((hi - o) / d) == (o - hi) / (- d)).
      { unfold qmin. destruct (qleb ((lo - o) / d) ((hi - o) / d)) eqn:E; [apply qleb_le in E; lra | lra]. }
      assert (Emax : qmax ((lo - o) / d) ((hi - o) / d) == (o - lo) / (- d)).
      { unfold qmax. destruct (qleb ((lo - o) / d) ((hi - o) / d)) eqn:E; [apply qleb_le in E; lra | lra]. }
      rewrite Emin, Emax, (div_mul_le (o - hi) (- d) t Hnd), (div_mul_ge (o - lo) (- d) t Hnd). split; intros [A B]; split; lra.
Qed.

Lemma fold_qmax_least r : forall x t, x <= t -> (forall y, In y r -> y <= t) -> fold_left qmax r x <= t.
Proof.
  induction r as [|y r IH]; intros x t Hx H; [exact Hx|]. cbn [fold_left]. apply IH.
  - unfold qmax. destruct (qleb x y); [apply H; left; reflexivity | exact Hx].
  - intros z Hz. apply H. right. exact Hz.
Qed.

(* a finite family of closed intervals meets [0, oo) iff max(0, lows) <= every high *)
Lemma ivals_meet (l : list (Q * Q)) :
  forallb (fun i => qleb (fold_left qmax (map fst l) 0) (snd i)) l = true <->
  exists t, 0 <= t /\ forall i, In i l -> fst i <= t <= snd i.
Proof.
  split.
  - intros H. rewrite forallb_forall in H. exists (fold_left qmax (map fst l) 0). split; [apply fold_qmax_ge|].
    intros i Hi. split; [apply fold_qmax_ub, in_map, Hi | apply qleb_le, H, Hi].
  - intros [t [Ht H]]. apply forallb_forall. intros i Hi. apply qleb_le.
    assert (fold_left qmax (map fst l) 0 <= t).
    { apply fold_qmax_least; [exact Ht|]. intros y Hy. apply in_map_iff in Hy. destruct Hy as [j [<- Hj]]. apply H, Hj. }
    destruct (H i Hi). lra.
Qed.

Theorem bhitq_spec b r : proper b -> (bhitq b r = true <-> hits b r).
Proof.
  intros [Px [Py Pz]]. unfold bhitq, ivals, hits, inside, ray_at. cbn [vx vy vz vadd vscale].
  pose proof (axis_ival_spec (vx (ro r)) (vx (rd r)) _ _ Px) as Sx.
  pose proof (axis_ival_spec (vy (ro r)) (vy (rd r)) _ _ Py) as Sy.
  pose proof (axis_ival_spec (vz (ro r)) (vz (rd r)) _ _ Pz) as Sz.
  unfold axis_in in *.
  destruct (axis_ival (vx (ro r)) (vx (rd r)) (vx (blo b)) (vx (bhi b))) as [ax|];
  [|split; [discriminate | intros [t [_ [H _]]]; exfalso; apply (Sx t); exact H]].
  destruct (axis_ival (vy (ro r)) (vy (rd r)) (vy (blo b)) (vy (bhi b))) as [ay|];
  [|split; [discriminate | intros [t [_ [_ [H _]]]]; exfalso; apply (Sy t); exact H]].
  destruct (axis_ival (vz (ro r)) (vz (rd r)) (vz (blo b)) (vz (bhi b))) as [az|];
  [|split; [discriminate | intros [t [_ [_ [_ H]]]]; exfalso; apply (Sz t); exact H]].
  rewrite ivals_meet. split.
  - intros [t [Ht H]]. exists t. split; [exact Ht|].
    repeat split.
    all: try (destruct ax as [[a1 b1]|]; [apply Sx, (H (a1, b1)); apply in_or_app; left; left; reflexivity | apply Sx]).
    all: try (destruct ay as [[a1 b1]|]; [apply Sy, (H (a1, b1)); apply in_or_app; right; apply in_or_app; left; left; reflexivity | apply Sy]).
    all: try (destruct az as [[a1 b1]|]; [apply Sz, (H (a1, b1)); apply in_or_app; right; apply in_or_app; right; left; reflexivity | apply Sz]).
  - intros [t [Ht [Hx [Hy Hz]]]]. exists t. split; [exact Ht|]. intros i Hi.
    apply in_app_or in Hi. destruct Hi as [Hi|Hi]; [|apply in_app_or in Hi; destruct Hi as [Hi|Hi]].
    + destruct ax as [[a1 b1]|]; [|destruct Hi]. destruct Hi as [<-|[]]. apply Sx. exact Hx.
    + destruct ay as [[a1 b1]|]; [|destruct Hi]. destruct Hi as [<-|[]]. apply Sy. exact Hy.
    + destruct az as [[a1 b1]|]; [|destruct Hi]. destruct Hi as [<-|[]]. apply Sz. exact Hz.
Qed.

(* ---------- monotonicity ---------- *)
Lemma box_leb_spec a b : box_leb a b = true -> forall p, inside a p -> inside b p.
Proof.
  unfold box_leb. rewrite !andb_true_iff, !qleb_le. intros [[[[[A B] C] D] E] F] p [[X1 X2] [[Y1 Y2] [Z1 Z2]]].
  unfold inside. repeat split; lra.
Qed.

Lemma box_leb_proper a b : box_leb a b = true -> proper a -> proper b.
Proof.
  unfold box_leb, proper. rewrite !andb_true_iff, !qleb_le. intros [[[[[A B] C] D] E] F] [X [Y Z]]. repeat split; lra.
Qed.

(* the slab test is monotone under enlargement of the box *)
Theorem box_le_bhit a b r : proper a -> box_leb a b = true -> bhitq a r = true -> bhitq b r = true.
Proof.
  intros Pa Hle H. apply (bhitq_spec b r (box_leb_proper a b Hle Pa)).
  apply (bhitq_spec a r Pa) in H. destruct H as [t [Ht Hin]]. exists t. split; [exact Ht|].
  apply (box_leb_spec a b Hle). exact Hin.
Qed.

Lemma box_join_le_l a b : box_leb a (box_join a b) = true.
Proof.
  unfold box_leb, box_join. cbn [blo bhi vx vy vz]. rewrite !andb_true_iff, !qleb_le.
  repeat split; try apply qmin_lb_l; try apply qmax_ub_l.
Qed.
Lemma box_join_le_r a b : box_leb b (box_join a b) = true.
Proof.
  unfold box_leb, box_join. cbn [blo bhi vx vy vz]. rewrite !andb_true_iff, !qleb_le.
  repeat split; try apply qmin_lb_r; try apply qmax_ub_r.
Qed.

(* H2 of the BVH theorems: a join never loses a ray *)
Theorem bhit_join_monotone a b r : proper a ->
  bhitq a r = true -> bhitq (box_join a b) r = true /\ bhitq (box_join b a) r = true.
Proof.
  intros Pa H. split.
  - apply (box_le_bhit a _ r Pa (box_join_le_l a b) H).
  - apply (box_le_bhit a _ r Pa (box_join_le_r b a) H).
Qed.
