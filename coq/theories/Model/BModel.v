(* The bemodel::Model data model, reduced to what computations read:
   ids are the 128-bit value of the UUID, numbers are exact rationals,
   names/descriptions are dropped (no computation reads them). *)
From Coq Require Import ZArith NArith QArith Bool List.
Import ListNotations.

Definition uuid := N.

Inductive boundary := EXTERIOR | INTERIOR | GROUND | ADIABATIC.
Inductive tiltc := BOTTOM | TOP | SIDE.
Inductive orient := O_N | O_NE | O_E | O_SE | O_S | O_SW | O_W | O_NW | O_HZ.
Inductive spacetype := CONDITIONED | UNCONDITIONED | UNINHABITED.
Inductive tbkind := TB_ROOF | TB_BALCONY | TB_CORNER | TB_INTERMEDIATEFLOOR | TB_INTERNALWALL
                  | TB_GROUNDFLOOR | TB_PILLAR | TB_WINDOW | TB_GENERIC.

Definition boundary_eqb (a b : boundary) : bool :=
  match a, b with
  | EXTERIOR, EXTERIOR | INTERIOR, INTERIOR | GROUND, GROUND | ADIABATIC, ADIABATIC => true
  | _, _ => false end.
Definition tiltc_eqb (a b : tiltc) : bool :=
  match a, b with BOTTOM, BOTTOM | TOP, TOP | SIDE, SIDE => true | _, _ => false end.
Definition spacetype_eqb (a b : spacetype) : bool :=
  match a, b with
  | CONDITIONED, CONDITIONED | UNCONDITIONED, UNCONDITIONED | UNINHABITED, UNINHABITED => true
  | _, _ => false end.
Definition orient_idx (o : orient) : N :=
  match o with O_N => 0 | O_NE => 1 | O_E => 2 | O_SE => 3 | O_S => 4 | O_SW => 5
             | O_W => 6 | O_NW => 7 | O_HZ => 8 end%N.
Definition orient_eqb (a b : orient) : bool := N.eqb (orient_idx a) (orient_idx b).
Definition tbkind_idx (k : tbkind) : N :=
  match k with TB_ROOF => 0 | TB_BALCONY => 1 | TB_CORNER => 2 | TB_INTERMEDIATEFLOOR => 3
             | TB_INTERNALWALL => 4 | TB_GROUNDFLOOR => 5 | TB_PILLAR => 6 | TB_WINDOW => 7
             | TB_GENERIC => 8 end%N.
Definition tbkind_eqb (a b : tbkind) : bool := N.eqb (tbkind_idx a) (tbkind_idx b).

Record space := mkSpace {
  s_id : uuid; s_mult : Q; s_kind : spacetype; s_inside : bool; s_height : Q; s_z : Q;
  s_loads : option uuid; s_thermostat : option uuid; s_nv : option Q; s_illum : option Q }.

Record wallgeom := mkWallGeom {
  g_tilt : Q; g_azimuth : Q; g_pos : option (Q * Q * Q); g_poly : list (Q * Q) }.

Record wall := mkWall {
  w_id : uuid; w_bounds : boundary; w_cons : uuid; w_space : uuid; w_next : option uuid;
  w_geom : wallgeom }.

Record wingeom := mkWinGeom {
  wg_pos : option (Q * Q); wg_height : Q; wg_width : Q; wg_setback : Q }.

Record window := mkWindow { win_id : uuid; win_cons : uuid; win_wall : uuid; win_geom : wingeom }.

Record tbridge := mkTb { tb_id : uuid; tb_kind : tbkind; tb_l : Q; tb_psi : Q }.

Record shade := mkShade { sh_id : uuid; sh_geom : wallgeom }.

Record layer := mkLayer { l_mat : uuid; l_e : Q }.
Record wallcons := mkWallCons { wc_id : uuid; wc_layers : list layer; wc_absorptance : Q }.
Record wincons := mkWinCons {
  wnc_id : uuid; wnc_glass : uuid; wnc_frame : uuid; wnc_ff : Q; wnc_du : Q;
  wnc_gglshwi : option Q; wnc_c100 : Q }.
Inductive matprops :=
| Detailed (conductivity density specific_heat : Q) (vapour_diff : option Q)
| Resistance (resistance : Q) (vapour_diff : option Q).
Record material := mkMaterial { m_id : uuid; m_props : matprops }.
Record glass := mkGlass { gl_id : uuid; gl_u : Q; gl_g : Q }.
Record frame := mkFrame { fr_id : uuid; fr_u : Q; fr_abs : Q }.
Record consdb := mkConsDb {
  c_wallcons : list wallcons; c_wincons : list wincons; c_materials : list material;
  c_glasses : list glass; c_frames : list frame }.

(* yearly and weekly schedules: (id of the finer schedule, repetitions) *)
Record sched := mkSched { sc_id : uuid; sc_values : list (uuid * N) }.
Record schedday := mkSchedDay { sd_id : uuid; sd_values : list Q }.
Record scheddb := mkSchedDb { sch_year : list sched; sch_week : list sched; sch_day : list schedday }.

Record loads := mkLoads {
  ld_id : uuid; ld_area_pp : Q; ld_people_sch : option uuid; ld_people_sens : Q;
  ld_people_lat : Q; ld_equip : Q; ld_equip_sch : option uuid; ld_light : Q;
  ld_light_sch : option uuid }.
Record thermostat := mkThermostat { th_id : uuid; th_max : option uuid; th_min : option uuid }.

Record meta := mkMeta {
  mt_new : bool; mt_dwelling : bool; mt_num_dwellings : Z; mt_climate : N;
  mt_gvent : option Q; mt_n50test : option Q; mt_d_perim : Q; mt_rn_perim : Q }.

Record wall_override := mkWallOv { wo_id : uuid; wo_u : option Q }.
Record win_override := mkWinOv { wno_id : uuid; wno_u : option Q; wno_fshobst : option Q }.

Record model := mkModel {
  m_meta : meta;
  m_spaces : list space; m_walls : list wall; m_windows : list window;
  m_tbs : list tbridge; m_shades : list shade; m_cons : consdb; m_sched : scheddb;
  m_loads : list loads; m_thermostats : list thermostat;
  m_ov_walls : list wall_override; m_ov_wins : list win_override }.

Definition mem (x : uuid) (l : list uuid) : bool := existsb (N.eqb x) l.

Definition get_space (m : model) (id : uuid) : option space :=
  find (fun s => N.eqb (s_id s) id) (m_spaces m).
Definition get_wall (m : model) (id : uuid) : option wall :=
  find (fun w => N.eqb (w_id w) id) (m_walls m).
Definition get_wallcons (c : consdb) (id : uuid) : option wallcons :=
  find (fun w => N.eqb (wc_id w) id) (c_wallcons c).
Definition get_wincons (c : consdb) (id : uuid) : option wincons :=
  find (fun w => N.eqb (wnc_id w) id) (c_wincons c).
Definition get_material (c : consdb) (id : uuid) : option material :=
  find (fun w => N.eqb (m_id w) id) (c_materials c).
Definition get_glass (c : consdb) (id : uuid) : option glass :=
  find (fun w => N.eqb (gl_id w) id) (c_glasses c).
Definition get_frame (c : consdb) (id : uuid) : option frame :=
  find (fun w => N.eqb (fr_id w) id) (c_frames c).
