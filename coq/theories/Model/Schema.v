(* JSON values, serde schemas as data, and the schema-driven serialiser / deserialiser:
   ser omits the fields whose skip predicate holds, de restores absent fields from their defaults. *)
From Coq Require Import ZArith NArith QArith Bool List String Ascii.
From CTE Require Import Base.Num.
Import ListNotations.
Local Open Scope string_scope.

Inductive jv :=
| JNull | JBool (b : bool) | JNum (q : Q) | JStr (s : string) | JArr (l : list jv) | JObj (l : list (string * jv)).

Fixpoint jv_eqb (a b : jv) {struct a} : bool :=
  match a, b with
  | JNull, JNull => true
  | JBool x, JBool y => Bool.eqb x y
  | JNum x, JNum y => qeqb x y
  | JStr x, JStr y => String.eqb x y
  | JArr x, JArr y =>
      (fix go (l1 l2 : list jv) : bool :=
         match l1, l2 with
         | [], [] => true
         | u :: l1', v :: l2' => jv_eqb u v && go l1' l2'
         | _, _ => false end) x y
  | JObj x, JObj y =>
      (fix go (l1 l2 : list (string * jv)) : bool :=
         match l1, l2 with
         | [], [] => true
         | (k1, u) :: l1', (k2, v) :: l2' => String.eqb k1 k2 && jv_eqb u v && go l1' l2'
         | _, _ => false end) x y
  | _, _ => false
  end.

Definition jlookup (k : string) (o : list (string * jv)) : option jv :=
  match find (fun p => String.eqb (fst p) k) o with Some p => Some (snd p) | None => None end.

(* ---- schema ---- *)
Inductive atom := AStr | ANum | ABool | AId | AEnum (name : string).
Inductive fty := FAtom (a : atom) | FOpt (t : fty) | FVec (t : fty) | FMap (t : fty) | FTuple (l : list fty) | FStruct (name : string).
Inductive dval := VEmptyStr | VStr | VNum (q : Q) | VBool (b : bool) | VNone | VEmptyVec | VStd | VOther.
Inductive dv := DvNone | DvStd | DvVal (v : dval).
Inductive sk :=
| SkNever | SkEmptyStr | SkEmptyVec | SkEmptyMap | SkNone | SkDefault | SkIsNum (q : Q) | SkIsTrue | SkIsFalse
| SkStructEmpty (name : string) | SkUnknown (name : string).
Record fdesc := mkFd { fd_name : string; fd_ty : fty; fd_dflt : dv; fd_skip : sk; fd_flatten : bool }.
(* a struct (one variant) or an untagged enum with data (several variants, tried in order) *)
Record sdesc := mkSd {
  sd_name : string; sd_container_default : bool; sd_derives_default : bool;
  sd_manual : list (string * dval); sd_is_empty : list string; sd_variants : list (list fdesc) }.

Fixpoint all_some {A} (l : list (option A)) : option (list A) :=
  match l with
  | [] => Some []
  | Some x :: r => match all_some r with Some r' => Some (x :: r') | None => None end
  | None :: _ => None
  end.
Definition omap {A B} (f : A -> B) (o : option A) : option B := match o with Some x => Some (f x) | None => None end.

Section WithSchema.
Variable S : list sdesc.
Variable E : list (string * list string * option string).

Definition find_sd (n : string) : option sdesc := find (fun s => String.eqb (sd_name s) n) S.
Definition enum_default (n : string) : option string :=
  match find (fun e => String.eqb (fst (fst e)) n) E with Some (_, _, d) => d | None => None end.
Definition nil_uuid : string := "00000000-0000-0000-0000-000000000000".

(* T::default() in full form *)
Fixpoint std_default (fuel : nat) (t : fty) : option jv :=
  match fuel with O => None | Datatypes.S f =>
  match t with
  | FAtom AStr => Some (JStr "")
  | FAtom ANum => Some (JNum 0)
  | FAtom ABool => Some (JBool false)
  | FAtom AId => Some (JStr nil_uuid)
  | FAtom (AEnum n) => omap JStr (enum_default n)
  | FOpt _ => Some JNull
  | FVec _ => Some (JArr [])
  | FMap _ => Some (JObj [])
  | FTuple l => omap JArr (all_some (map (std_default f) l))
  | FStruct n =>
      match find_sd n with
      | Some sd =>
          if sd_derives_default sd then
            match sd_variants sd with
            | [fs] => omap JObj (all_some (map (fun x => omap (fun v => (fd_name x, v)) (std_default f (fd_ty x))) fs))
            | _ => None
            end
          else None     (* manual Default impl: its value is not needed by any skipped field here *)
      | None => None
      end
  end end.

Definition dval_jv (fuel : nat) (t : fty) (d : dval) : option jv :=
  match d with
  | VEmptyStr => Some (JStr "") | VStr => None | VNum q => Some (JNum q) | VBool b => Some (JBool b)
  | VNone => Some JNull | VEmptyVec => Some (JArr []) | VStd => std_default fuel t | VOther => None
  end.

(* the value a field takes when it is absent from the JSON object *)
Definition field_default (fuel : nat) (sd : sdesc) (f : fdesc) : option jv :=
  match fd_dflt f with
  | DvStd => std_default fuel (fd_ty f)
  | DvVal d => dval_jv fuel (fd_ty f) d
  | DvNone =>
      if sd_container_default sd then
        (if sd_derives_default sd then std_default fuel (fd_ty f)
         else match find (fun p => String.eqb (fst p) (fd_name f)) (sd_manual sd) with
              | Some (_, d) => dval_jv fuel (fd_ty f) d | None => None end)
      else match fd_ty f with FOpt _ => Some JNull | _ => None end
  end.

(* the one value a skip predicate omits (None: never omits / unknown predicate) *)
Definition skipped_value (fuel : nat) (f : fdesc) : option jv :=
  match fd_skip f with
  | SkNever => None
  | SkEmptyStr => Some (JStr "")
  | SkEmptyVec => Some (JArr [])
  | SkEmptyMap => Some (JObj [])
  | SkNone => Some JNull
  | SkDefault => std_default fuel (fd_ty f)
  | SkIsNum q => Some (JNum q)
  | SkIsTrue => Some (JBool true)
  | SkIsFalse => Some (JBool false)
  | SkStructEmpty n =>
      (* X::is_empty: every tested collection empty; it must test every field of X *)
      match find_sd n, fd_ty f with
      | Some sd, FStruct n' =>
          match sd_variants sd with
          | [fs] => if String.eqb n n' && forallb (fun x => existsb (String.eqb (fd_name x)) (sd_is_empty sd)) fs
                    then std_default fuel (fd_ty f) else None
          | _ => None end
      | _, _ => None
      end
  | SkUnknown _ => None
  end.
Definition skip_known (f : fdesc) : bool := match fd_skip f with SkUnknown _ => false | _ => true end.

(* coherence of a field: whatever the predicate omits is what absence restores *)
Definition field_coherent (fuel : nat) (sd : sdesc) (f : fdesc) : bool :=
  skip_known f && negb (fd_flatten f) &&
  match fd_skip f with
  | SkNever => true
  | _ => match skipped_value fuel f, field_default fuel sd f with
         | Some a, Some b => jv_eqb a b
         | _, _ => false end
  end.

Fixpoint nodup_str (l : list string) : bool :=
  match l with [] => true | x :: r => negb (existsb (String.eqb x) r) && nodup_str r end.
Definition required (f : fdesc) : bool :=
  match fd_dflt f, fd_ty f with DvNone, FOpt _ => false | DvNone, _ => true | _, _ => false end.
(* untagged variants are told apart by a required field that the other variant lacks *)
Definition variants_distinct (vs : list (list fdesc)) : bool :=
  forallb (fun v => forallb (fun w =>
      (Nat.eqb (List.length v) (List.length w) && forallb (fun p => String.eqb (fd_name (fst p)) (fd_name (snd p))) (combine v w)) ||
      existsb (fun f => required f && negb (existsb (fun g => String.eqb (fd_name g) (fd_name f)) w)) v) vs) vs.

Definition schema_coherent (fuel : nat) : bool :=
  forallb (fun sd =>
    forallb (fun fs => forallb (field_coherent fuel sd) fs && nodup_str (map fd_name fs)) (sd_variants sd) &&
    variants_distinct (sd_variants sd)) S.
Definition incoherent_fields (fuel : nat) : list (string * string) :=
  flat_map (fun sd => flat_map (fun fs => map (fun f => (sd_name sd, fd_name f)) (filter (fun f => negb (field_coherent fuel sd f)) fs)) (sd_variants sd)) S.

(* ---- one object level: omit skipped fields / restore absent ones ---- *)
Definition is_skipped (fuel : nat) (f : fdesc) (v : jv) : bool :=
  match skipped_value fuel f with Some c => jv_eqb v c | None => false end.
Definition same_names (fs : list fdesc) (o : list (string * jv)) : bool :=
  Nat.eqb (List.length fs) (List.length o) && forallb (fun p => String.eqb (fd_name (fst p)) (fst (snd p))) (combine fs o).

(* ---- serialiser / deserialiser on full-form values ---- *)
Fixpoint ser (fuel : nat) (t : fty) (v : jv) : option jv :=
  match fuel with O => None | Datatypes.S fu =>
  match t, v with
  | FAtom _, _ => Some v
  | FOpt _, JNull => Some JNull
  | FOpt t', _ => ser fu t' v
  | FVec t', JArr l => omap JArr (all_some (map (ser fu t') l))
  | FMap t', JObj o => omap JObj (all_some (map (fun kx => omap (fun a => (fst kx, a)) (ser fu t' (snd kx))) o))
  | FTuple ts, JArr l =>
      if Nat.eqb (List.length ts) (List.length l) then omap JArr (all_some (map (fun tx => ser fu (fst tx) (snd tx)) (combine ts l))) else None
  | FStruct n, JObj o =>
      match find_sd n with
      | None => None
      | Some sd =>
          match find (fun fs => same_names fs o) (sd_variants sd) with
          | None => None
          | Some fs =>
              omap (fun l => JObj (flat_map (fun x => match x with Some kv => [kv] | None => [] end) l))
                   (all_some (map (fun fx => let f := fst fx in let k := fst (snd fx) in let x := snd (snd fx) in
                                             if is_skipped fu f x then Some None
                                             else omap (fun a => Some (k, a)) (ser fu (fd_ty f) x)) (combine fs o)))
          end
      end
  | _, _ => None
  end end.

Fixpoint de (fuel : nat) (t : fty) (j : jv) : option jv :=
  match fuel with O => None | Datatypes.S fu =>
  match t, j with
  | FAtom _, _ => Some j
  | FOpt _, JNull => Some JNull
  | FOpt t', _ => de fu t' j
  | FVec t', JArr l => omap JArr (all_some (map (de fu t') l))
  | FMap t', JObj o => omap JObj (all_some (map (fun kx => omap (fun a => (fst kx, a)) (de fu t' (snd kx))) o))
  | FTuple ts, JArr l =>
      if Nat.eqb (List.length ts) (List.length l) then omap JArr (all_some (map (fun tx => de fu (fst tx) (snd tx)) (combine ts l))) else None
  | FStruct n, JObj o =>
      match find_sd n with
      | None => None
      | Some sd =>
          (* untagged: the first variant all of whose required fields are present and which knows every key *)
          match find (fun fs => forallb (fun f => negb (required f) || match jlookup (fd_name f) o with Some _ => true | None => false end) fs &&
                                forallb (fun kv => existsb (fun f => String.eqb (fd_name f) (fst kv)) fs) o) (sd_variants sd) with
          | None => None
          | Some fs =>
              omap JObj (all_some (map (fun f =>
                  match jlookup (fd_name f) o with
                  | Some x => omap (fun a => (fd_name f, a)) (de fu (fd_ty f) x)
                  | None => omap (fun a => (fd_name f, a)) (field_default fu sd f)
                  end) fs))
          end
      end
  | _, _ => None
  end end.
End WithSchema.

(* ---- objects compared as maps (serde_json::Value sorts its keys) ---- *)
Fixpoint jv_sim (fuel : nat) (a b : jv) : bool :=
  match fuel with O => false | Datatypes.S fu =>
  match a, b with
  | JNull, JNull => true
  | JBool x, JBool y => Bool.eqb x y
  | JNum x, JNum y => qeqb x y
  | JStr x, JStr y => String.eqb x y
  | JArr x, JArr y => Nat.eqb (List.length x) (List.length y) && forallb (fun p => jv_sim fu (fst p) (snd p)) (combine x y)
  | JObj x, JObj y =>
      Nat.eqb (List.length x) (List.length y) &&
      forallb (fun kv => match jlookup (fst kv) y with Some v => jv_sim fu (snd kv) v | None => false end) x
  | _, _ => false
  end end.

(* path of the first difference between two values (diagnostics for replay files) *)
Fixpoint jv_diff (fuel : nat) (a b : jv) : list string :=
  match fuel with O => ["fuel"] | Datatypes.S fu =>
  match a, b with
  | JArr x, JArr y =>
      if negb (Nat.eqb (List.length x) (List.length y)) then ["array length"]
      else match find (fun p => match jv_diff fu (fst (snd p)) (snd (snd p)) with [] => false | _ => true end)
                      (combine (seq 0 (List.length x)) (combine x y)) with
           | Some (i, (u, v)) => "[]"%string :: jv_diff fu u v
           | None => [] end
  | JObj x, JObj y =>
      match find (fun kv => match jlookup (fst kv) y with Some v => (match jv_diff fu (snd kv) v with [] => false | _ => true end) | None => true end) x with
      | Some (k, u) => match jlookup k y with Some v => k :: jv_diff fu u v | None => [k; "missing on the right"] end
      | None => match find (fun kv => match jlookup (fst kv) x with Some _ => false | None => true end) y with
                | Some (k, _) => [k; "missing on the left"] | None => [] end
      end
  | _, _ => if jv_sim 2 a b then [] else ["value differs"]
  end end.
