(* C05: a process as a state machine over its shared state.  An operation (convert project p /
   compute the indicators of model m) reads the shared state and may write it; the observations
   the harness collects are (operation key, digest of the output) pairs from many histories,
   processes and thread schedules. *)
From Coq Require Import NArith Bool List String.
From CTEGen Require Import Globals.
Import ListNotations.

Section Machine.
  Variables (state op out : Type).
  Variable step : state -> op -> state * out.

  (* a schedule is the order in which the operations of all threads took the shared state *)
  Fixpoint run (s : state) (h : list op) : state * list out :=
    match h with
    | [] => (s, [])
    | o :: r => let (s1, x) := step s o in let (s2, xs) := run s1 r in (s2, x :: xs)
    end.

  Definition alone (s0 : state) (o : op) : out := snd (step s0 o).
  Definition read_only : Prop := forall s o, fst (step s o) = s.
End Machine.
Arguments run {state op out}.
Arguments alone {state op out}.
Arguments read_only {state op out}.

(* ---------- what the correspondence evaluates ---------- *)
Record obs := mkObs { ob_key : N; ob_out : N }.

(* the observations form a function: the same operation always produced the same output *)
Definition functionalb (l : list obs) : bool :=
  forallb (fun a => forallb (fun b => negb (N.eqb (ob_key a) (ob_key b)) || N.eqb (ob_out a) (ob_out b)) l) l.

Fixpoint first_clash (l : list obs) : option (N * N * N) :=
  match l with
  | [] => None
  | a :: r => match find (fun b => N.eqb (ob_key a) (ob_key b) && negb (N.eqb (ob_out a) (ob_out b))) r with
              | Some b => Some (ob_key a, ob_out a, ob_out b)
              | None => first_clash r
              end
  end.

(* element ids before and after an unrelated definition was added: (element key, id) *)
Definition ids_kept (before after : list obs) : bool :=
  forallb (fun a => existsb (fun b => N.eqb (ob_key a) (ob_key b) && N.eqb (ob_out a) (ob_out b)) after) before.

Inductive c05case :=
| Hist (l : list obs)                       (* one operation pool run through several histories / processes / threads *)
| Ids (before after : list obs)             (* ids of the elements of a project, and after adding an unrelated block *)
| Ref (converted reference : N).            (* shipped project converted now vs the shipped reference model *)

Definition agree_C05 (c : c05case) : N :=
  match c with
  | Hist l => if functionalb l then 0 else 1
  | Ids b a => if ids_kept b a then 0 else 2
  | Ref x y => if N.eqb x y then 0 else 3
  end%N.

(* ---------- the tie to the code's shared state: coq/gen/Globals.v ---------- *)
Local Open Scope string_scope.
(* the process-wide state of the libraries is exactly these tables ... *)
Definition known_statics : list string := ["JULYRADDATA"; "MONTHLYRADDATA"; "CLIMATEMETADATA"; "LIDERCATSTRZ"].
Definition static_name (s : string * string * string * string) : string := snd (fst (fst s)).
Definition static_kind (s : string * string * string * string) : string := snd (fst s).
Definition statics_known : bool :=
  forallb (fun s => existsb (String.eqb (static_name s)) known_statics) repo_statics.
(* ... none is a static mut, and no lock on them is ever taken mutably or written through *)
Definition statics_not_mut : bool := forallb (fun s => negb (String.eqb (static_kind s) "mut")) repo_statics.
Definition no_static_writes : bool := match repo_static_writes with [] => true | _ => false end.
Definition shared_state_read_only : bool := statics_known && statics_not_mut && no_static_writes.
