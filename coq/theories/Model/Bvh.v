(* Bounding-volume hierarchy, generic in the element type, the box type, the hit tests and the
   split function: tree, traversal with AABB culling (explicit stack, pre-order, first hit wins),
   construction with an arbitrary split. *)
From Coq Require Import List Arith Bool Permutation.
Import ListNotations.

Section BVH.
Variables (T aabb ray : Type).
Variable box : T -> aabb.
Variable hit : T -> ray -> bool.
Variable bhit : aabb -> ray -> bool.
Variable join : aabb -> aabb -> aabb.
Variable empty_box : aabb.

Inductive tree := Leaf (b : aabb) (es : list T) | Node (b : aabb) (l r : tree).

Definition tbox (t : tree) : aabb := match t with Leaf b _ => b | Node b _ _ => b end.
Fixpoint elems (t : tree) : list T :=
  match t with Leaf _ es => es | Node _ l r => elems l ++ elems r end.
Fixpoint size (t : tree) : nat := match t with Leaf _ _ => 1 | Node _ l r => 1 + size l + size r end.
Fixpoint ssize (st : list tree) : nat := match st with [] => 0 | t :: st' => size t + ssize st' end.

(* PreorderIter + BVH::intersects: pop a node; if the ray misses its box skip it; a leaf is searched
   for the first element hit; an inner node pushes right then left (left is visited first) *)
Fixpoint trav (fuel : nat) (st : list tree) (r : ray) : option T :=
  match fuel with
  | 0 => None
  | S f =>
      match st with
      | [] => None
      | t :: st' =>
          if bhit (tbox t) r then
            match t with
            | Leaf _ es => match find (fun e => hit e r) es with Some e => Some e | None => trav f st' r end
            | Node _ l rr => trav f (l :: rr :: st') r
            end
          else trav f st' r
      end
  end.

Definition blocked_tree (t : tree) (r : ray) : bool :=
  match trav (size t) [t] r with Some _ => true | None => false end.
Definition blocked_list (es : list T) (r : ray) : bool := existsb (fun e => hit e r) es.

(* what makes a tree usable: every box covers (for ray queries) the elements below it *)
Definition covers (b : aabb) (es : list T) : Prop :=
  forall e r, In e es -> bhit (box e) r = true -> bhit b r = true.
Fixpoint wf (t : tree) : Prop :=
  match t with
  | Leaf b es => covers b es
  | Node b l r => covers b (elems l ++ elems r) /\ wf l /\ wf r
  end.

(* construction: leaves of at most maxn elements, split by an arbitrary function *)
Variable part : list T -> list T * list T.
Definition boxes (es : list T) : aabb := fold_left (fun b e => join b (box e)) es empty_box.

Fixpoint build (fuel maxn : nat) (es : list T) : option tree :=
  match fuel with
  | 0 => None
  | S f =>
      if length es <=? maxn then Some (Leaf (boxes es) es)
      else let (l, r) := part es in
           match build f maxn l, build f maxn r with
           | Some a, Some b => Some (Node (join (tbox a) (tbox b)) a b)
           | _, _ => None
           end
  end.

(* a split makes progress when both sides are strictly shorter and nothing is lost *)
Definition progressive (maxn : nat) : Prop :=
  forall es l r, maxn < length es -> part es = (l, r) ->
    length l < length es /\ length r < length es /\ Permutation (l ++ r) es.
End BVH.

Arguments Leaf {T aabb}.
Arguments Node {T aabb}.

(* the split of the code after the repair: by a predicate (mean centroid), halving when one side is
   empty. Progress holds for EVERY predicate, so it does not depend on how f32 rounds the mean. *)
Definition halves {T} (es : list T) : list T * list T :=
  (firstn (length es / 2) es, skipn (length es / 2) es).
Definition part_fb {T} (p : list T -> T -> bool) (es : list T) : list T * list T :=
  let (l, r) := partition (p es) es in
  match l, r with
  | [], _ | _, [] => halves (l ++ r)
  | _, _ => (l, r)
  end.
