(* Model of bemodel::purge_unused: the ten filters in the code's order. *)
From Coq Require Import ZArith NArith QArith Qabs Bool List.
From CTE Require Import Base.Num Model.BModel.
Import ListNotations.

Definition opt_list {A} (o : option A) : list A := match o with Some x => [x] | None => [] end.

(* f32::EPSILON *)
Definition f32_eps : Q := 1 # 8388608.

Definition used_spaces (ws : list wall) : list uuid :=
  flat_map (fun w => w_space w :: opt_list (w_next w)) ws.
Definition used_wallcons (ws : list wall) : list uuid := map w_cons ws.
Definition used_wincons (ws : list window) : list uuid := map win_cons ws.
Definition used_materials (wcs : list wallcons) : list uuid :=
  flat_map (fun c => map l_mat (wc_layers c)) wcs.
Definition used_glasses (wcs : list wincons) : list uuid := map wnc_glass wcs.
Definition used_frames (wcs : list wincons) : list uuid := map wnc_frame wcs.
Definition used_loads (ss : list space) : list uuid := flat_map (fun s => opt_list (s_loads s)) ss.
Definition used_thermostats (ss : list space) : list uuid :=
  flat_map (fun s => opt_list (s_thermostat s)) ss.
Definition used_years (ls : list loads) (ts : list thermostat) : list uuid :=
  flat_map (fun l => opt_list (ld_people_sch l) ++ opt_list (ld_equip_sch l) ++ opt_list (ld_light_sch l)) ls ++
  flat_map (fun t => opt_list (th_max t) ++ opt_list (th_min t)) ts.
Definition used_sub (ss : list sched) : list uuid := flat_map (fun s => map fst (sc_values s)) ss.

Definition keep {A} (idf : A -> uuid) (used : list uuid) (l : list A) : list A :=
  filter (fun x => mem (idf x) used) l.

Definition tb_kept (t : tbridge) : bool := qltb f32_eps (Qabs (tb_l t)).

Definition purge (m : model) : model :=
  let spaces := keep s_id (used_spaces (m_walls m)) (m_spaces m) in
  let tbs := filter tb_kept (m_tbs m) in
  let c := m_cons m in
  let wallconss := keep wc_id (used_wallcons (m_walls m)) (c_wallcons c) in
  let winconss := keep wnc_id (used_wincons (m_windows m)) (c_wincons c) in
  let mats := keep m_id (used_materials wallconss) (c_materials c) in
  let gls := keep gl_id (used_glasses winconss) (c_glasses c) in
  let frs := keep fr_id (used_frames winconss) (c_frames c) in
  let lds := keep ld_id (used_loads spaces) (m_loads m) in
  let ths := keep th_id (used_thermostats spaces) (m_thermostats m) in
  let ys := keep sc_id (used_years lds ths) (sch_year (m_sched m)) in
  let wks := keep sc_id (used_sub ys) (sch_week (m_sched m)) in
  let ds := keep sd_id (used_sub wks) (sch_day (m_sched m)) in
  mkModel (m_meta m) spaces (m_walls m) (m_windows m) tbs (m_shades m)
    (mkConsDb wallconss winconss mats gls frs) (mkSchedDb ys wks ds) lds ths
    (m_ov_walls m) (m_ov_wins m).

(* correspondence: ids of every collection of the purged model, in order *)
Record idsnap := mkSnap {
  sn_spaces : list uuid; sn_tbs : list uuid; sn_wallcons : list uuid; sn_wincons : list uuid;
  sn_materials : list uuid; sn_glasses : list uuid; sn_frames : list uuid; sn_loads : list uuid;
  sn_thermostats : list uuid; sn_year : list uuid; sn_week : list uuid; sn_day : list uuid;
  sn_walls : list uuid; sn_windows : list uuid; sn_shades : list uuid }.

Definition snap (m : model) : idsnap :=
  mkSnap (map s_id (m_spaces m)) (map tb_id (m_tbs m)) (map wc_id (c_wallcons (m_cons m)))
    (map wnc_id (c_wincons (m_cons m))) (map m_id (c_materials (m_cons m)))
    (map gl_id (c_glasses (m_cons m))) (map fr_id (c_frames (m_cons m))) (map ld_id (m_loads m))
    (map th_id (m_thermostats m)) (map sc_id (sch_year (m_sched m))) (map sc_id (sch_week (m_sched m)))
    (map sd_id (sch_day (m_sched m))) (map w_id (m_walls m)) (map win_id (m_windows m))
    (map sh_id (m_shades m)).

Fixpoint ids_eqb (a b : list uuid) : bool :=
  match a, b with
  | [], [] => true
  | x :: a', y :: b' => N.eqb x y && ids_eqb a' b'
  | _, _ => false
  end.

Definition snap_eqb (a b : idsnap) : bool :=
  ids_eqb (sn_spaces a) (sn_spaces b) && ids_eqb (sn_tbs a) (sn_tbs b) &&
  ids_eqb (sn_wallcons a) (sn_wallcons b) && ids_eqb (sn_wincons a) (sn_wincons b) &&
  ids_eqb (sn_materials a) (sn_materials b) && ids_eqb (sn_glasses a) (sn_glasses b) &&
  ids_eqb (sn_frames a) (sn_frames b) && ids_eqb (sn_loads a) (sn_loads b) &&
  ids_eqb (sn_thermostats a) (sn_thermostats b) && ids_eqb (sn_year a) (sn_year b) &&
  ids_eqb (sn_week a) (sn_week b) && ids_eqb (sn_day a) (sn_day b) &&
  ids_eqb (sn_walls a) (sn_walls b) && ids_eqb (sn_windows a) (sn_windows b) &&
  ids_eqb (sn_shades a) (sn_shades b).

Record c16_case := mkC16 {
  c16_model : model;
  c16_impl : idsnap;             (* ids per collection after purge_unused, in order *)
  c16_items_same : bool;         (* every kept item is field-for-field the original (JSON value) *)
  c16_twice_same : bool;         (* purging twice = purging once (JSON text) *)
  c16_check_same : bool;         (* check() before = after (as multisets of id/message) *)
  c16_indicators_same : bool     (* a_ref, volumes, K, n50, q_soljul before = after *)
}.

Definition agree_C16 (c : c16_case) : N :=
  first_fail [ (1%N, snap_eqb (c16_impl c) (snap (purge (c16_model c))));
               (2%N, c16_items_same c);
               (3%N, c16_twice_same c);
               (4%N, c16_check_same c);
               (5%N, c16_indicators_same c) ].
