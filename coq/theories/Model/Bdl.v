(* C18 / C19: the block-level BDL parser of hulc (hulc/src/bdl/blocks.rs, common.rs) over lists of
   code points: clean_lines, sanitize_lider_data, the ".." splitter, BdlBlock::from_str,
   parse_attributes, AttrMap::insert typing, build_blocks' parent tracking.
   Keywords, dropped lines, markers and block kinds come from coq/gen/BdlTypes.v. *)
From Coq Require Import NArith ZArith Bool List String Ascii.
From CTEGen Require Import BdlTypes.
Import ListNotations.
Local Open Scope N_scope.

Notation str := (list N) (only parsing).

(* ---------- Coq string literals (UTF-8 bytes) -> code points ---------- *)
Fixpoint bytes_of (s : string) : list N :=
  match s with EmptyString => [] | String a r => N_of_ascii a :: bytes_of r end.
Fixpoint decode (l : list N) : str :=
  match l with
  | [] => []
  | b :: r =>
      if b <? 128 then b :: decode r
      else if b <? 224 then
        match r with
        | b2 :: r2 => ((b - 192) * 64 + (b2 - 128)) :: decode r2
        | [] => [b]
        end
      else if b <? 240 then
        match r with
        | b2 :: b3 :: r3 => ((b - 224) * 4096 + (b2 - 128) * 64 + (b3 - 128)) :: decode r3
        | _ => [b]
        end
      else
        match r with
        | b2 :: b3 :: b4 :: r4 => ((b - 240) * 262144 + (b2 - 128) * 4096 + (b3 - 128) * 64 + (b4 - 128)) :: decode r4
        | _ => [b]
        end
  end.
Definition s2l (s : string) : str := decode (bytes_of s).

(* ---------- character and string primitives (Rust str semantics) ---------- *)
(* char::is_whitespace: the Unicode White_Space property *)
Definition is_ws (c : N) : bool :=
  ((9 <=? c) && (c <=? 13)) || (c =? 32) || (c =? 133) || (c =? 160) || (c =? 5760) ||
  ((8192 <=? c) && (c <=? 8202)) || (c =? 8232) || (c =? 8233) || (c =? 8239) || (c =? 8287) || (c =? 12288).
Fixpoint drop_ws (s : str) : str :=
  match s with c :: r => if is_ws c then drop_ws r else s | [] => [] end.
Definition trim (s : str) : str := rev (drop_ws (rev (drop_ws s))).
Fixpoint drop_ch (d : N) (s : str) : str :=
  match s with c :: r => if c =? d then drop_ch d r else s | [] => [] end.
(* str::trim_matches(d) *)
Definition trim_ch (d : N) (s : str) : str := rev (drop_ch d (rev (drop_ch d s))).

Definition cons_head (c : N) (l : list str) : list str :=
  match l with h :: t => (c :: h) :: t | [] => [[c]] end.
(* str::split(d) *)
Fixpoint split_on (d : N) (s : str) : list str :=
  match s with
  | [] => [[]]
  | c :: r => if c =? d then [] :: split_on d r else cons_head c (split_on d r)
  end.
(* str::splitn(2, d) *)
Fixpoint split_first (d : N) (s : str) : str * option str :=
  match s with
  | [] => ([], None)
  | c :: r => if c =? d then ([], Some r) else let (a, b) := split_first d r in (c :: a, b)
  end.
(* str::split("..") *)
Fixpoint split_dd (s : str) : list str :=
  match s with
  | [] => [[]]
  | c :: r =>
      match r with
      | c2 :: r2 => if (c =? 46) && (c2 =? 46) then [] :: split_dd r2 else cons_head c (split_dd r)
      | [] => [[c]]
      end
  end.
Fixpoint join (sep : str) (l : list str) : str :=
  match l with [] => [] | [x] => x | x :: r => x ++ sep ++ join sep r end.
Fixpoint prefixb (p s : str) : bool :=
  match p, s with
  | [], _ => true
  | a :: p', b :: s' => (a =? b) && prefixb p' s'
  | _ :: _, [] => false
  end.
Fixpoint str_eqb (a b : str) : bool :=
  match a, b with
  | [], [] => true
  | x :: a', y :: b' => (x =? y) && str_eqb a' b'
  | _, _ => false
  end.
Definition suffixb (p s : str) : bool := prefixb (rev p) (rev s).
Definition ends_with (c : N) (s : str) : bool := match rev s with x :: _ => x =? c | [] => false end.
Definition starts_with (c : N) (s : str) : bool := match s with x :: _ => x =? c | [] => false end.
(* str::find(p) followed by split_at *)
Fixpoint find_split (p s : str) : option (str * str) :=
  if prefixb p s then Some ([], s)
  else match s with
       | [] => None
       | c :: r => match find_split p r with Some (a, b) => Some (c :: a, b) | None => None end
       end.
(* String's Ord: lexicographic by code point *)
Fixpoint str_ltb (a b : str) : bool :=
  match a, b with
  | [], [] => false
  | [], _ :: _ => true
  | _ :: _, [] => false
  | x :: a', y :: b' => if x <? y then true else if y <? x then false else str_ltb a' b'
  end.

(* ---------- clean_lines / sanitize_lider_data ---------- *)
Definition removed_chars : list N := List.concat (map s2l bdl_removed_chars).
Definition drop_prefixes : list str := map s2l bdl_drop_prefixes.
Definition drop_lines : list str := map s2l bdl_drop_lines.
Definition keep_line (l : str) : bool :=
  match l with [] => false | _ => true end &&
  negb (existsb (fun p => prefixb p l) drop_prefixes) &&
  negb (existsb (str_eqb l) drop_lines).
Definition nl : N := 10.
Definition content_lines (s : str) : list str :=
  filter keep_line (map trim (split_on nl (filter (fun c => negb (existsb (N.eqb c) removed_chars)) s))).
Definition clean_lines (s : str) : str := join [nl] (content_lines s).

Definition lider_markers : list str := map s2l bdl_lider_markers.
Definition partelider_head : str := s2l """PARTELIDER"" = PARTELIDER".
Fixpoint first_marker (ms : list str) (s : str) : option (str * str) :=
  match ms with
  | [] => None
  | m :: r => match find_split m s with Some x => Some x | None => first_marker r s end
  end.
Definition sanitize (s : str) : str :=
  let c := clean_lines s in
  match first_marker lider_markers c with
  | Some (lider, bdl) => partelider_head ++ [nl] ++ lider ++ [nl; 46; 46; nl] ++ bdl
  | None => c
  end.

(* ---------- numbers: the grammar of f32::from_str ---------- *)
Definition is_digit (c : N) : bool := (48 <=? c) && (c <=? 57).
Fixpoint take_digits (s : str) : str * str :=
  match s with
  | c :: r => if is_digit c then let (d, t) := take_digits r in (c :: d, t) else ([], s)
  | [] => ([], [])
  end.
Definition lower (c : N) : N := if (65 <=? c) && (c <=? 90) then c + 32 else c.
Definition strip_sign (s : str) : bool * str :=
  match s with
  | 45 :: r => (true, r)
  | 43 :: r => (false, r)
  | _ => (false, s)
  end.
Inductive fval := FNum (neg : bool) (mant : N) (e10 : Z) | FInf (neg : bool) | FNan.
Fixpoint digits_val (d : str) (acc : N) : N :=
  match d with c :: r => digits_val r (acc * 10 + (c - 48)) | [] => acc end.
Definition parse_exp (s : str) : option Z :=
  match s with
  | [] => Some 0%Z
  | c :: r =>
      if (c =? 101) || (c =? 69) then
        let (neg, r1) := strip_sign r in
        let (d, t) := take_digits r1 in
        match d, t with
        | _ :: _, [] => Some (if neg then (- Z.of_N (digits_val d 0))%Z else Z.of_N (digits_val d 0))
        | _, _ => None
        end
      else None
  end.
Definition parse_float (s : str) : option fval :=
  let (neg, r) := strip_sign s in
  let lw := map lower r in
  if str_eqb lw (s2l "inf") || str_eqb lw (s2l "infinity") then Some (FInf neg)
  else if str_eqb lw (s2l "nan") then Some FNan
  else
    let (d1, t1) := take_digits r in
    let '(d2, t2, dot) := match t1 with
                          | 46 :: t => let (d, t') := take_digits t in (d, t', true)
                          | _ => ([], t1, false)
                          end in
    match d1, d2 with
    | [], [] => None
    | _, _ =>
        match parse_exp t2 with
        | Some e => Some (FNum neg (digits_val (d1 ++ d2) 0) (e - Z.of_nat (List.length d2)))
        | None => None
        end
    end.
Definition is_number (s : str) : bool := match parse_float s with Some _ => true | None => false end.

(* ---------- attributes ---------- *)
Inductive bval := VNum (tok : str) | VStr (s : str).
Definition attrmap := list (str * bval).
Definition typed (v : str) : bval := if is_number v then VNum v else VStr (trim v).
(* BTreeMap::insert *)
Fixpoint map_insert (k : str) (v : bval) (m : attrmap) : attrmap :=
  match m with
  | [] => [(k, v)]
  | (k', v') :: r =>
      if str_eqb k k' then (k, v) :: r
      else if str_ltb k k' then (k, v) :: m
      else (k', v') :: map_insert k v r
  end.
Definition attr_insert (k v : str) (m : attrmap) : attrmap := map_insert k (typed v) m.

Inductive res (A : Type) := Ok (a : A) | Err (code : N).
Arguments Ok {A}. Arguments Err {A}.

Definition dotdot : str := [46; 46].
Definition quote : N := 34.
(* lines are already trimmed; pend = key and value so far of an open multi-line "( ..." value *)
Fixpoint parse_attrs (ls : list str) (acc : attrmap) (pend : option (str * str)) : res attrmap :=
  match ls with
  | [] => match pend with Some (k, v) => Ok (attr_insert k v acc) | None => Ok acc end
  | l :: r =>
      match pend with
      | Some (k, v) =>
          let v' := v ++ l in
          if ends_with 41 l then parse_attrs r (attr_insert k v' acc) None else parse_attrs r acc (Some (k, v'))
      | None =>
          if str_eqb l dotdot || str_eqb l [quote] then parse_attrs r acc None
          else match split_first 61 l with
               | (k, Some v) =>
                   let key := trim k in
                   let value := trim v in
                   if starts_with 40 value && negb (ends_with 41 value)
                   then parse_attrs r acc (Some (key, value))
                   else parse_attrs r (attr_insert key (trim_ch quote value) acc) None
               | (_, None) => Err 3
               end
      end
  end.
(* str::lines: the pieces between line feeds, without a final empty piece *)
Fixpoint drop_last_empty (l : list str) : list str :=
  match l with
  | [] => []
  | [[]] => []
  | x :: r => x :: drop_last_empty r
  end.
Definition lines_of (s : str) : list str := drop_last_empty (split_on nl s).
Definition parse_attributes (data : str) : res attrmap :=
  parse_attrs (map trim (lines_of data)) [] None.

(* ---------- blocks ---------- *)
Record block := mkBlock { b_type : N; b_name : str; b_parent : option str; b_attrs : attrmap }.
Definition keywords : list (str * N) := map (fun p => (s2l (fst p), snd p)) bt_keywords.
Fixpoint lookup_kw (k : str) (l : list (str * N)) : option N :=
  match l with [] => None | (a, t) :: r => if str_eqb a k then Some t else lookup_kw k r end.
Definition parse_type (s : str) : option N := lookup_kw s keywords.
Definition report_suffix : str := s2l "-REPORT".

(* BdlBlock::from_str on a trimmed, non-empty block text *)
Definition parse_block (s : str) : res block :=
  let '(h, d) := match split_first nl s with
                 | (h, Some d) => (h, Some d)
                 | (h, None) => if existsb (N.eqb 61) (trim h) then (h, Some []) else (h, None)
                 end in
  match d with
  | None =>
      (* a bare keyword: LOADS-REPORT, SYSTEMS-REPORT ... *)
      let t := trim h in
      match parse_type t with Some ty => Ok (mkBlock ty t None []) | None => Err 1 end
  | Some d =>
      let headline := trim h in
      let data := trim d in
      let nt := match split_first 61 headline with
                | (a, Some b) => Some (trim_ch quote (trim a), trim_ch quote (trim b))
                | (a, None) => let p := trim_ch quote (trim a) in
                               if suffixb report_suffix p then Some (p, p) else None
                end in
      match nt with
      | None => Err 2
      | Some (name, ty) =>
          match parse_attributes data with
          | Err e => Err e
          | Ok attrs =>
              match parse_type ty with
              | Some t => Ok (mkBlock t (trim name) None attrs)
              | None => Err 1
              end
          end
      end
  end.

Definition ignored_blocks : list str := map s2l bdl_ignored_blocks.
Definition is_ignored (b : str) : bool := existsb (fun p => prefixb p b) ignored_blocks.
Definition memN (x : N) (l : list N) : bool := existsb (N.eqb x) l.

Record pstate := mkPs { ps_floor : str; ps_space : str; ps_wall : str }.
Definition init_ps : pstate := mkPs (s2l "Default") [] [].
(* the parent of a block given the current floor / space / wall, and the state after it *)
Definition parent_step (st : pstate) (b : block) : option str * pstate :=
  let t := b_type b in
  if t =? BT_Floor then (None, mkPs (b_name b) (ps_space st) (ps_wall st))
  else if t =? BT_Space then (Some (ps_floor st), mkPs (ps_floor st) (b_name b) (ps_wall st))
  else if memN t bdl_wall_kinds then (Some (ps_space st), mkPs (ps_floor st) (ps_space st) (b_name b))
  else if memN t bdl_wall_child_kinds then (Some (ps_wall st), st)
  else (None, st).
Fixpoint blocks_loop (bs : list str) (st : pstate) : res (list block) :=
  match bs with
  | [] => Ok []
  | b :: r =>
      if is_ignored b then blocks_loop r st
      else match parse_block b with
           | Err e => Err e
           | Ok blk =>
               let (par, st') := parent_step st blk in
               match blocks_loop r st' with
               | Err e => Err e
               | Ok l => Ok (mkBlock (b_type blk) (b_name blk) par (b_attrs blk) :: l)
               end
           end
  end.
Definition block_texts (clean : str) : list str :=
  filter (fun b => match b with [] => false | _ => true end) (map trim (split_dd clean)).
Definition build_blocks (input : str) : res (list block) :=
  blocks_loop (block_texts (sanitize input)) init_ps.
