(* Model of QSolJulData::from(&EnergyProps, &totradjul): the DB-HE solar-control indicator.
   H_sol;jul comes from the regenerated embedded tables (gen/Tables.v). *)
From Coq Require Import ZArith NArith QArith Qabs Bool List.
From CTE Require Import Base.Num Model.BModel Model.Props Model.Geometry.
From CTEGen Require Import Tables.
Import ListNotations.
Local Open Scope Q_scope.

(* total_radiation_in_july_by_orientation: dir[6] + dif[6] of the zone's entry for the orientation
   (the code collects into a HashMap: a later duplicate entry would win) *)
Definition july_total_in (tbl : list (N * orient * list Q * list Q)) (zone : N) (o : orient) : option Q :=
  match find (fun e => match e with (z, o', _, _) => N.eqb z zone && orient_eqb o' o end) (rev tbl) with
  | Some (_, _, dir, dif) =>
      match nth_error dir 6, nth_error dif 6 with
      | Some a, Some b => Some (a + b)
      | _, _ => None
      end
  | None => None
  end.
Definition july_total := july_total_in monthly.

Definition g_default : Q := 77 # 100.
Definition ff_default : Q := 1 # 5.

Definition sol_win (w : uuid * winp) : bool := np_tenv (snd w) && is_ext_or_gnd (np_bounds (snd w)).
Definition solset (p : eprops) : list (uuid * winp) := filter sol_win (ep_windows p).

Record solitem := mkSolItem { si_orient : orient; si_area : Q; si_rad : Q; si_g : Q; si_ff : Q; si_fsh : Q }.
Definition si_gain (i : solitem) : Q := si_fsh i * si_g i * (1 - si_ff i) * si_area i * si_rad i.

Definition sol_item (zone : N) (p : eprops) (w : uuid * winp) : option solitem :=
  match july_total zone (np_orient (snd w)) with
  | None => None        (* the code unwraps: a missing table entry is a crash *)
  | Some rad =>
      let gf := match lookup (np_cons (snd w)) (ep_wincons p) with
                | Some c => (cp_gglshwi c, cp_ff c) | None => (g_default, ff_default) end in
      Some (mkSolItem (np_orient (snd w)) (np_area (snd w) * np_mult (snd w)) rad (fst gf) (snd gf)
                      (opt_default 1 (opt_or (np_fshov (snd w)) (np_fsh (snd w)))))
  end.

Fixpoint all_some {A} (l : list (option A)) : option (list A) :=
  match l with
  | [] => Some []
  | Some x :: r => match all_some r with Some r' => Some (x :: r') | None => None end
  | None :: _ => None
  end.

Definition sol_items (zone : N) (p : eprops) : option (list solitem) :=
  all_some (map (sol_item zone p) (solset p)).

(* x / a, and 0 when the area is 0 (every reported figure is a finite number) *)
Definition qdiv0 (x a : Q) : Q := if qeqb a 0 then 0 else x / a.
Definition wsum (f : solitem -> Q) (l : list solitem) : Q := qsum (map (fun i => f i * si_area i) l).
Definition area_sum (l : list solitem) : Q := qsum (map si_area l).

Record qdetail := mkQDetail { qd_gains : Q; qd_a : Q; qd_irr : Q; qd_ff : Q; qd_g : Q; qd_fsh : Q }.
Record qsoldata := mkQSol {
  qs_q : Q; qs_Q : Q; qs_awp : Q; qs_irr : Q; qs_fsh : Q; qs_g : Q; qs_ff : Q;
  qs_detail : list (orient * qdetail) }.

Definition all_orients : list orient := [O_N; O_NE; O_E; O_SE; O_S; O_SW; O_W; O_NW; O_HZ].
Definition of_orient (o : orient) (l : list solitem) : list solitem :=
  filter (fun i => orient_eqb (si_orient i) o) l.
Definition detail_of (l : list solitem) : qdetail :=
  let a := area_sum l in
  mkQDetail (qsum (map si_gain l)) a (match l with i :: _ => si_rad i | [] => 0 end)
            (qdiv0 (wsum si_ff l) a) (qdiv0 (wsum si_g l) a) (qdiv0 (wsum si_fsh l) a).

Definition QSol_of_items (aref : Q) (l : list solitem) : qsoldata :=
  let Qs := qsum (map si_gain l) in let a := area_sum l in
  mkQSol (qdiv0 Qs aref) Qs a (qdiv0 (wsum si_rad l) a) (qdiv0 (wsum si_fsh l) a) (qdiv0 (wsum si_g l) a)
         (qdiv0 (wsum si_ff l) a)
         (flat_map (fun o => match of_orient o l with [] => [] | l' => [(o, detail_of l')] end) all_orients).

Definition QSol_model (zone : N) (p : eprops) : option qsoldata :=
  match sol_items zone p with
  | Some l => Some (QSol_of_items (gp_aref (ep_global p)) l)
  | None => None
  end.

Definition stol (impl model : Q) : bool := close_rel (1 # 10000) (1 # 10000) impl model.
Definition qdetail_close (i m : qdetail) : bool :=
  stol (qd_gains i) (qd_gains m) && stol (qd_a i) (qd_a m) && stol (qd_irr i) (qd_irr m) &&
  stol (qd_ff i) (qd_ff m) && stol (qd_g i) (qd_g m) && stol (qd_fsh i) (qd_fsh m).
Fixpoint details_close (a b : list (orient * qdetail)) : bool :=
  match a, b with
  | [], [] => true
  | (o1, d1) :: a', (o2, d2) :: b' => orient_eqb o1 o2 && qdetail_close d1 d2 && details_close a' b'
  | _, _ => false
  end.

Record c10_case := mkC10 {
  c10_zone : N; c10_props : eprops;
  c10_impl : option qsoldata;   (* None: the implementation crashed *)
  c10_win_geo : list (uuid * Q * Q);   (* the model's own windows (unique ids): tilt and azimuth of their wall *)
  c10_finite : bool;            (* every reported number is finite *)
  c10_roundtrip : bool          (* the indicators serialise to JSON that loads back *) }.

(* the orientation class the solar gains are looked up with is the class of the wall's own tilt and azimuth *)
Definition class_of (tilt az : Q) : orient :=
  match tilt_class tilt with SIDE => orient_class az | _ => O_HZ end.
Definition win_class_ok (p : eprops) (e : uuid * Q * Q) : bool :=
  match e with (id, tilt, az) =>
    match find (fun w => N.eqb (fst w) id) (ep_windows p) with
    | Some w => orient_eqb (np_orient (snd w)) (class_of tilt az)
    | None => true
    end
  end.

Definition agree_C10 (c : c10_case) : N :=
  match QSol_model (c10_zone c) (c10_props c), c10_impl c with
  | None, None => 0%N
  | None, Some _ => 20%N
  | Some _, None => 21%N
  | Some m, Some i =>
    first_fail [
      (9%N, c10_finite c);
      (10%N, c10_roundtrip c);
      (6%N, forallb (win_class_ok (c10_props c)) (c10_win_geo c));
      (1%N, stol (qs_Q i) (qs_Q m));
      (2%N, stol (qs_q i) (qs_q m));
      (3%N, stol (qs_awp i) (qs_awp m));
      (4%N, stol (qs_irr i) (qs_irr m) && stol (qs_fsh i) (qs_fsh m) && stol (qs_g i) (qs_g m) &&
            stol (qs_ff i) (qs_ff m));
      (5%N, details_close (qs_detail i) (qs_detail m)) ]
  end.
