(* C18 correspondence for NewBDL_O.tbl: the model's parse against hulc::tbl::parse *)
From Coq Require Import NArith ZArith QArith Qabs Bool List String.
From CTE Require Import Base.Num Model.Bdl Model.BdlCase.
From CTE Require Import Model.Tbl.
Import ListNotations.

Record ielem := mkIE { ie_name : string; ie_vals : list ival; ie_type : Z; ie_surf : Z; ie_space : Z }.
Record ispace := mkIS { is_name : string; is_id : Z; is_mult : Z; is_area : ival; is_qint : ival }.
Inductive itres := TOk (es : list ielem) (ss : list ispace) | TErr | TPanic.
Record tblcase := mkTC { tc_lines : list string; tc_impl : itres }.

Definition tokc (tok : str) (i : ival) : bool :=
  match parse_float tok with Some f => num_close f i | None => false end.
Fixpoint toksc (a : list str) (b : list ival) : bool :=
  match a, b with [], [] => true | x :: ra, y :: rb => tokc x y && toksc ra rb | _, _ => false end.
Fixpoint last_elem (n : str) (l : list telem) : option telem :=
  match l with [] => None | x :: r => match last_elem n r with Some y => Some y | None => if str_eqb (te_name x) n then Some x else None end end.
Fixpoint last_space (n : str) (l : list tspace) : option tspace :=
  match l with [] => None | x :: r => match last_space n r with Some y => Some y | None => if str_eqb (ts_name x) n then Some x else None end end.
Fixpoint nodup_n (l : list str) : nat :=
  match l with [] => O | x :: r => if existsb (str_eqb x) r then nodup_n r else S (nodup_n r) end.
Definition type_z (t : str) : Z :=
  match parse_i32 t with Some z => z | None => 99 end.

Definition agree_C18T (c : tblcase) : N :=
  match parse_tbl (text_of (tc_lines c)), tc_impl c with
  | _, TPanic => 4
  | Err _, TErr => 0
  | Ok _, TErr => 2
  | Err _, TOk _ _ => 3
  | Ok (es, ss), TOk ies iss =>
      if negb (Nat.eqb (nodup_n (map te_name es)) (List.length ies)) then 30
      else if negb (forallb (fun i => match last_elem (s2l (ie_name i)) es with
                                      | Some e => toksc (te_vals e) (ie_vals i) && Z.eqb (type_z (te_type e)) (ie_type i) &&
                                                  Z.eqb (te_surf e) (ie_surf i) && Z.eqb (te_space e) (ie_space i)
                                      | None => false end) ies) then 31
      else if negb (Nat.eqb (nodup_n (map ts_name ss)) (List.length iss)) then 32
      else if negb (forallb (fun i => match last_space (s2l (is_name i)) ss with
                                      | Some s => Z.eqb (ts_id s) (is_id i) && Z.eqb (ts_mult s) (is_mult i) &&
                                                  tokc (ts_area s) (is_area i) && tokc (ts_qint s) (is_qint i)
                                      | None => false end) iss) then 33
      else 0
  end%N.
