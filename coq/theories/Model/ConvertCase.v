(* C02 cases: a name-level document with the implementation's outcome, or a converted model whose
   referential closure is decided by Total.closed *)
From Coq Require Import ZArith NArith QArith List Bool.
From CTE Require Import Base.Num Model.BModel Model.Convert Model.Total.
Import ListNotations.

Inductive c02x_case := C02Doc (c : c02_case) | C02Model (m : model).
Definition agree_C02x (c : c02x_case) : N :=
  match c with
  | C02Doc d => agree_C02 d
  | C02Model m => if closed m then 0%N else 5%N
  end.
