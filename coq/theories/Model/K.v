(* Model of KData::from(&EnergyProps): K as the area-weighted mean transmittance of the
   thermal envelope, with its breakdown. Declarative: sums over the envelope set. *)
From Coq Require Import ZArith NArith QArith Qabs Bool List.
From CTE Require Import Base.Num Model.BModel Model.Props.
Import ListNotations.
Local Open Scope Q_scope.

Definition u_default : Q := 57 # 10.
Definition ustar (ov u : option Q) : Q := opt_default u_default (opt_or ov u).

(* the envelope set: thermal-envelope walls in contact with outside air or ground *)
Definition env_wall (w : uuid * wallp) : bool :=
  wp_tenv (snd w) && is_ext_or_gnd (wp_bounds (snd w)).
Definition envset (p : eprops) : list (uuid * wallp) := filter env_wall (ep_walls p).

Inductive kcat := KWalls | KRoofs | KFloors | KGround.
Definition kcat_eqb (a b : kcat) : bool :=
  match a, b with KWalls, KWalls | KRoofs, KRoofs | KFloors, KFloors | KGround, KGround => true
  | _, _ => false end.
Definition wall_cat (w : wallp) : kcat :=
  match wp_bounds w, wp_tilt w with
  | GROUND, _ => KGround
  | _, TOP => KRoofs
  | _, BOTTOM => KFloors
  | _, SIDE => KWalls
  end.

(* an item is (area, U) *)
Definition item := (Q * Q)%type.
Definition wall_item (w : uuid * wallp) : item :=
  (wp_mult (snd w) * wp_anet (snd w), ustar (wp_uov (snd w)) (wp_u (snd w))).
Definition win_item (mult : Q) (w : uuid * winp) : item :=
  (mult * np_area (snd w), ustar (np_uov (snd w)) (np_u (snd w))).

Definition opaque_items (p : eprops) : list item := map wall_item (envset p).
Definition cat_items (c : kcat) (p : eprops) : list item :=
  map wall_item (filter (fun w => kcat_eqb (wall_cat (snd w)) c) (envset p)).
Definition window_items (p : eprops) : list item :=
  flat_map (fun w => map (win_item (wp_mult (snd w))) (wins_of p (fst w))) (envset p).

Definition items_a (l : list item) : Q := qsum (map fst l).
Definition items_au (l : list item) : Q := qsum (map (fun i => fst i * snd i) l).

Record kel := mkKel { ke_a : Q; ke_au : Q; ke_umax : option Q; ke_umin : option Q; ke_umean : option Q }.
Definition kel_of (l : list item) : kel :=
  let a := items_a l in let au := items_au l in
  mkKel a au (qmax_list (map snd l)) (qmin_list (map snd l))
        (if qltb (1 # 1000) a then Some (au / a) else None).

(* thermal bridges of non-negative length, by kind *)
Definition tbs_of (k : tbkind) (p : eprops) : list tbp :=
  filter (fun t => tbkind_eqb (tp_kind t) k && negb (qltb (tp_l t) 0)) (map snd (ep_tbs p)).
Definition tbs_nonneg (p : eprops) : list tbp :=
  filter (fun t => negb (qltb (tp_l t) 0)) (map snd (ep_tbs p)).
Definition tb_l_sum (l : list tbp) : Q := qsum (map tp_l l).
Definition tb_psil_sum (l : list tbp) : Q := qsum (map (fun t => tp_psi t * tp_l t) l).

Definition all_tbkinds : list tbkind :=
  [TB_ROOF; TB_BALCONY; TB_CORNER; TB_INTERMEDIATEFLOOR; TB_INTERNALWALL; TB_GROUNDFLOOR; TB_PILLAR;
   TB_WINDOW; TB_GENERIC].

Record kdata := mkKData {
  kd_K : Q;
  kd_a : Q; kd_au : Q; kd_opaques_a : Q; kd_opaques_au : Q; kd_windows_a : Q; kd_windows_au : Q;
  kd_tbs_l : Q; kd_tbs_psil : Q;
  kd_walls : kel; kd_roofs : kel; kd_floors : kel; kd_ground : kel; kd_windows : kel;
  kd_tbs : list (Q * Q) (* (l, psi*l) for the nine kinds in the order of all_tbkinds *) }.

Definition K_model (p : eprops) : kdata :=
  let oa := items_a (opaque_items p) in let oau := items_au (opaque_items p) in
  let wa := items_a (window_items p) in let wau := items_au (window_items p) in
  let tl := tb_l_sum (tbs_nonneg p) in let tpl := tb_psil_sum (tbs_nonneg p) in
  let a := oa + wa in let au := oau + wau + tpl in
  mkKData (if qltb a (1 # 100) then 0 else au / a)
    a au oa oau wa wau tl tpl
    (kel_of (cat_items KWalls p)) (kel_of (cat_items KRoofs p)) (kel_of (cat_items KFloors p))
    (kel_of (cat_items KGround p)) (kel_of (window_items p))
    (map (fun k => (tb_l_sum (tbs_of k p), tb_psil_sum (tbs_of k p))) all_tbkinds).

(* ---- correspondence ---- *)
Definition ktol (impl model : Q) : bool := close_rel (1 # 10000) (1 # 10000) impl model.
Definition kel_close (i m : kel) : bool :=
  ktol (ke_a i) (ke_a m) && ktol (ke_au i) (ke_au m) &&
  opt_close ktol (ke_umax i) (ke_umax m) && opt_close ktol (ke_umin i) (ke_umin m) &&
  (* the mean is only compared away from the 0.001 m2 guard *)
  (if qltb (Qabs (ke_a m - (1 # 1000))) (1 # 100000) then true
   else opt_close ktol (ke_umean i) (ke_umean m)).
Fixpoint pairs_close (a b : list (Q * Q)) : bool :=
  match a, b with
  | [], [] => true
  | (x1, y1) :: a', (x2, y2) :: b' => ktol x1 x2 && ktol y1 y2 && pairs_close a' b'
  | _, _ => false
  end.

(* c08_model_tbs: the thermal bridges of the model itself (id, kind, length, psi) in file order: the
   reported props must hand them on unchanged (one entry per id, the last one of an id wins) *)
Record c08_case := mkC08 { c08_props : eprops; c08_impl : kdata; c08_finite : bool; c08_model_tbs : list (uuid * tbp) }.
Fixpoint last_tb (i : uuid) (l : list (uuid * tbp)) : option tbp :=
  match l with
  | [] => None
  | (j, t) :: r => match last_tb i r with Some x => Some x | None => if N.eqb i j then Some t else None end
  end.
Fixpoint distinct_ids (l : list uuid) : nat :=
  match l with [] => O | x :: r => if existsb (N.eqb x) r then distinct_ids r else S (distinct_ids r) end.
Definition tbs_passed_on (c : c08_case) : bool :=
  let ps := ep_tbs (c08_props c) in
  Nat.eqb (length ps) (distinct_ids (map fst (c08_model_tbs c))) &&
  forallb (fun e => match last_tb (fst e) (c08_model_tbs c) with
                    | Some t => tbkind_eqb (tp_kind (snd e)) (tp_kind t) && qeqb (tp_l (snd e)) (tp_l t) && qeqb (tp_psi (snd e)) (tp_psi t)
                    | None => false end) ps.

Definition agree_C08 (c : c08_case) : N :=
  let m := K_model (c08_props c) in let i := c08_impl c in
  first_fail [
    (10%N, tbs_passed_on c);
    (9%N, c08_finite c);
    (1%N, if qltb (Qabs (kd_a m - (1 # 100))) (1 # 100000) then true else ktol (kd_K i) (kd_K m));
    (2%N, ktol (kd_a i) (kd_a m) && ktol (kd_au i) (kd_au m));
    (3%N, ktol (kd_opaques_a i) (kd_opaques_a m) && ktol (kd_opaques_au i) (kd_opaques_au m));
    (4%N, ktol (kd_windows_a i) (kd_windows_a m) && ktol (kd_windows_au i) (kd_windows_au m));
    (5%N, ktol (kd_tbs_l i) (kd_tbs_l m) && ktol (kd_tbs_psil i) (kd_tbs_psil m));
    (6%N, kel_close (kd_walls i) (kd_walls m) && kel_close (kd_roofs i) (kd_roofs m) &&
          kel_close (kd_floors i) (kd_floors m) && kel_close (kd_ground i) (kd_ground m));
    (7%N, kel_close (kd_windows i) (kd_windows m));
    (8%N, pairs_close (kd_tbs i) (kd_tbs m)) ].
