(* Certificates tying climate::solar to Model/Solar.v: each statement is about one sample point with
   rational (f32) inputs and the value the implementation returned, and is closed by interval
   arithmetic (kernel-checked at Qed). Inverse trigonometric results are checked through the forward
   functions (sin of the reported altitude, cos of the reported incidence angle, ...). *)
From Coq Require Import ZArith QArith Reals List.
From Interval Require Import Tactic.
From CTE Require Import Model.Solar.
Import ListNotations.
Local Open Scope R_scope.

Definition q (x : Q) : R := Q2R x.

(* hour angle from solar time (degrees), wrapped into [-180, 180]: rational *)
Local Open Scope Q_scope.
Definition hourangle_q (tsol : Q) : Q :=
  let w := ((25 # 2) - tsol) * 180 / 12 in
  if Qle_bool w 180 then (if Qle_bool (-180) w then w else w + 360) else w - 360.
Local Open Scope R_scope.

Definition decl_ok (n impl tol : Q) : Prop := Rabs (decl (q n) - q impl) <= q tol.
(* altitude_sol_from_data (degrees; 0 when below 0.0001) *)
Definition alt_ok (d w l impl tol : Q) : Prop := Rabs (sind (q impl) - sin_alt (q d) (q w) (q l)) <= q tol.
Definition alt_zero_ok (d w l tol : Q) : Prop := sin_alt (q d) (q w) (q l) <= q tol.
(* azimuth_sol_from_data: from south, east positive *)
Definition azi_ok (d w l alt impl tol : Q) : Prop :=
  Rabs (sind (q impl) * cosd (q alt) - sun_E (q d) (q w)) <= q tol /\
  Rabs (cosd (q impl) * cosd (q alt) + sun_N (q d) (q w) (q l)) <= q tol.
(* angle_sol_surf (degrees) *)
Definition inc_ok (d w l b g impl tol : Q) : Prop := Rabs (cosd (q impl) - cos_inc (q d) (q w) (q l) (q b) (q g)) <= q tol.

(* Perez brightness coefficients by clearness class 0..7 *)
Definition coefs (k : nat) : R * R * R * R * R * R :=
  match k with
  | 0%nat => (-0.008, 0.588, -0.062, -0.060, 0.072, -0.022)
  | 1%nat => (0.130, 0.683, -0.151, -0.019, 0.066, -0.029)
  | 2%nat => (0.330, 0.487, -0.221, 0.055, -0.064, -0.026)
  | 3%nat => (0.568, 0.187, -0.295, 0.109, -0.152, -0.014)
  | 4%nat => (0.873, -0.392, -0.362, 0.226, -0.462, 0.001)
  | 5%nat => (1.132, -1.237, -0.412, 0.288, -0.823, 0.056)
  | 6%nat => (1.060, -1.600, -0.359, 0.264, -1.127, 0.131)
  | _ => (0.678, -0.327, -0.250, 0.156, -1.377, 0.251)
  end.
Definition class_lo (k : nat) : R :=
  match k with 0%nat => 0 | 1%nat => 1.065 | 2%nat => 1.230 | 3%nat => 1.500 | 4%nat => 1.950 | 5%nat => 2.280 | 6%nat => 4.500 | _ => 6.200 end.
Definition class_hi (k : nat) : R :=
  match k with 0%nat => 1.065 | 1%nat => 1.230 | 2%nat => 1.500 | 3%nat => 1.950 | 4%nat => 2.280 | 5%nat => 4.500 | 6%nat => 6.200 | _ => 1000 end.

Record radflags := mkFlags { fl_k : nat; fl_am_hi : bool; fl_f1pos : bool; fl_apos : bool; fl_bhi : bool; fl_dif_small : bool }.

(* radiation_for_surface with every branch already chosen (flags); sa = sin of the altitude,
   ct = cos of the incidence angle, alt = altitude in degrees *)
Section Rad.
Variables (n beta gdir gdif rho : R) (fl : radflags) (sa ct alt : R).
Definition r_gb : R := gdir / sa.
Definition r_a : R := if fl_apos fl then ct else 0.
Definition r_b : R := if fl_bhi fl then sa else cosd 85.
Definition r_zen : R := (90 - alt) * PI / 180.
Definition r_kk : R := 1.014 * ((alt * PI / 180) * (alt * PI / 180) * (alt * PI / 180)).
Definition r_eps : R := ((gdif + r_gb) / gdif + r_kk) / (1 + r_kk).
Definition r_m : R := if fl_am_hi fl then 1 / sa else 1 / (sa + 0.15 * exp (-1.253 * ln (alt + 3.885))).
Definition r_delta : R := r_m * gdif / i_ext n.
Definition r_f1raw : R := match coefs (fl_k fl) with (f11, f12, f13, _, _, _) => f11 + f12 * r_delta + f13 * r_zen end.
Definition r_f1 : R := if fl_f1pos fl then r_f1raw else 0.
Definition r_f2 : R := match coefs (fl_k fl) with (_, _, _, f21, f22, f23) => f21 + f22 * r_delta + f23 * r_zen end.
Definition r_dir : R := (if fl_apos fl then r_gb * ct else 0) + gdif * r_f1 * r_a / r_b.
Definition r_dif : R :=
  gdif * ((1 - r_f1) * (1 + cosd beta) / 2 + r_f1 * r_a / r_b + r_f2 * sind beta) - gdif * r_f1 * r_a / r_b
  + (gdif + r_gb * sa) * rho * (1 - cosd beta) / 2.
(* the flags are the branches the formulas take at this point *)
Definition r_guards : Prop :=
  (if fl_apos fl then 0 < ct else ct < 0) /\
  (if fl_bhi fl then cosd 85 < sa else sa < cosd 85) /\
  (if fl_am_hi fl then 10 < alt else alt < 10) /\
  (if fl_dif_small fl then gdif < 0.01 else (0.01 < gdif /\ class_lo (fl_k fl) < r_eps /\ (match fl_k fl with 7%nat => True | _ => r_eps < class_hi (fl_k fl) end))) /\
  (if fl_f1pos fl then 0 < r_f1raw else r_f1raw < 0) /\ 0.01 < alt.
End Rad.

(* the altitude (through atan of sa / sqrt (1 - sa^2)) can only be enclosed as tightly as sin alt allows:
   to 1e-5 degrees below 30 degrees, where the air mass is steep and needs it, to 2e-3 degrees above *)
Definition alt_eps (altv eps : Q) : Q := if Qle_bool altv 30 then eps * 100 else eps * 20000.

Definition rad_ok (n tsol lat beta gamma gdir gdif rho : Q) (fl : radflags)
                  (dv sav ctv altv hint_eps : Q) (impl_dir impl_dif tol : Q) : Prop :=
  forall d sa ct alt : R,
    d = decl (q n) ->
    sa = sin_alt d (q (hourangle_q tsol)) (q lat) ->
    ct = cos_inc d (q (hourangle_q tsol)) (q lat) (q beta) (q gamma) ->
    alt = atan (sa / sqrt (1 - sa * sa)) * 180 / PI ->
    (q dv - q hint_eps <= d <= q dv + q hint_eps) /\
    (q sav - q hint_eps <= sa <= q sav + q hint_eps) /\
    (q ctv - q hint_eps <= ct <= q ctv + q hint_eps) /\
    (q altv - q (alt_eps altv hint_eps) <= alt <= q altv + q (alt_eps altv hint_eps)) /\
    r_guards (q n) (q gdir) (q gdif) fl sa ct alt /\
    Rabs (r_dir (q n) (q gdir) (q gdif) fl sa ct alt - q impl_dir) <= q tol /\
    Rabs (r_dif (q n) (q beta) (q gdir) (q gdif) (q rho) fl sa ct alt - q impl_dif) <= q tol.

Ltac unf := cbv [decl_ok alt_ok alt_zero_ok azi_ok inc_ok q Q2R Qnum Qden decl sin_alt sun_U sun_E sun_N cos_inc sind cosd rad].
Ltac simple_tac := unf; repeat split; interval with (i_prec 40).

Ltac rad_tac :=
  intros d sa ct alt Hd Hsa Hct Halt;
  match goal with H : context [hourangle_q ?t] |- _ => let v := eval vm_compute in (hourangle_q t) in change (hourangle_q t) with v in * end;
  match goal with |- context [alt_eps ?a ?e] => let v := eval vm_compute in (alt_eps a e) in change (alt_eps a e) with v end;
  cbv [q Q2R Qnum Qden] in *;
  match goal with |- (?lo <= d <= ?hi) /\ _ =>
    assert (Bd : lo <= d <= hi) by (rewrite Hd; cbv [decl sind cosd rad]; interval with (i_prec 50)) end;
  clear Hd; split; [ assumption | ];
  match goal with |- (?lo <= sa <= ?hi) /\ _ =>
    assert (Bsa : lo <= sa <= hi) by (rewrite Hsa; cbv [sin_alt sun_U sind cosd rad]; interval with (i_prec 50)) end;
  split; [ assumption | ];
  match goal with |- (?lo <= ct <= ?hi) /\ _ =>
    assert (Bct : lo <= ct <= hi) by (rewrite Hct; cbv [cos_inc sind cosd rad]; interval with (i_prec 50)) end;
  clear Hsa Hct; split; [ assumption | ];
  match goal with |- (?lo <= alt <= ?hi) /\ _ =>
    assert (Balt : lo <= alt <= hi) by (rewrite Halt; interval with (i_taylor sa, i_prec 60)) end;
  clear Halt; split; [ assumption | ];
  cbv [r_guards r_dir r_dif r_gb r_a r_b r_zen r_kk r_eps r_m r_delta r_f1raw r_f1 r_f2 coefs class_lo class_hi i_ext
       fl_k fl_am_hi fl_f1pos fl_apos fl_bhi fl_dif_small sind cosd rad];
  repeat split; interval with (i_prec 50).

(* one certificate: prints C20CERT k OK / FAIL; an accepted one has passed the kernel at Qed *)
Ltac cert k P tac := first [ assert P by tac; idtac "C20CERT" k "OK" | idtac "C20CERT" k "FAIL" ].
