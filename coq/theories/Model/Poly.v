(* Exact geometry of posed planar polygons: pose (translation, Rz(azimuth), Rx(tilt)) with rational
   cosines/sines, even-odd point-in-polygon as coded, ray / polygon hit, reveal surfaces. *)
From Coq Require Import ZArith NArith QArith Qabs Qround Bool List.
From CTE Require Import Base.Num Model.Aabb.
Import ListNotations.
Local Open Scope Q_scope.

Definition pt2 := (Q * Q)%type.

(* a pose: position and (cos, sin) of azimuth and tilt *)
Record pose := mkPose { p_pos : vec3; p_ca : Q; p_sa : Q; p_ct : Q; p_st : Q }.
Definition unit_pose (p : pose) : Prop :=
  p_ca p * p_ca p + p_sa p * p_sa p == 1 /\ p_ct p * p_ct p + p_st p * p_st p == 1.

Definition rot_x (c s : Q) (v : vec3) : vec3 := mkV (vx v) (vy v * c - vz v * s) (vy v * s + vz v * c).
Definition rot_z (c s : Q) (v : vec3) : vec3 := mkV (vx v * c - vy v * s) (vx v * s + vy v * c) (vz v).

(* WallGeom::to_global_coords_matrix = translation * Rz(azimuth) * Rx(tilt) *)
Definition rot_global (p : pose) (v : vec3) : vec3 := rot_z (p_ca p) (p_sa p) (rot_x (p_ct p) (p_st p) v).
Definition to_global (p : pose) (v : vec3) : vec3 := vadd (p_pos p) (rot_global p v).
Definition rot_local (p : pose) (v : vec3) : vec3 := rot_x (p_ct p) (- p_st p) (rot_z (p_ca p) (- p_sa p) v).
Definition to_local (p : pose) (v : vec3) : vec3 := rot_local p (vsub v (p_pos p)).

Definition corner3 (q : pt2) : vec3 := mkV (fst q) (snd q) 0.
Definition corners (p : pose) (poly : list pt2) : list vec3 := map (fun q => to_global p (corner3 q)) poly.
(* outward normal of the posed surface: image of +z *)
Definition normal (p : pose) : vec3 := rot_global p (mkV 0 0 1).

(* ---- point in polygon: the even-odd loop of ray.rs ---- *)
Definition pip_toggle (x y : Q) (vj vi : pt2) : bool :=
  let y0 := qleb y (snd vj) in let y1 := qleb y (snd vi) in
  negb (Bool.eqb y0 y1) &&
  Bool.eqb (qleb ((fst vi - x) * (snd vj - snd vi)) ((snd vi - y) * (fst vj - fst vi))) y1.
Fixpoint pip_loop (x y : Q) (vj : pt2) (l : list pt2) (acc : bool) : bool :=
  match l with
  | [] => acc
  | vi :: r => pip_loop x y vi r (if pip_toggle x y vj vi then negb acc else acc)
  end.
Definition point_in_poly (q : pt2) (poly : list pt2) : bool :=
  match poly with
  | [] => false
  | v :: _ => pip_loop (fst q) (snd q) (last poly v) poly false
  end.

(* ---- ray against a posed polygon ---- *)
Record hitinfo := mkHit { h_den : Q; h_t : Q; h_pt : pt2; h_o : vec3 }.
(* values are kept in lowest terms while evaluating (Qred x == x) *)
Definition vred (v : vec3) : vec3 := mkV (Qred (vx v)) (Qred (vy v)) (Qred (vz v)).
Definition ray_plane (p : pose) (r : rayq) : option hitinfo :=
  let o := vred (to_local p (ro r)) in let d := vred (rot_local p (rd r)) in
  if qeqb (vz d) 0 then None
  else let t := Qred (- vz o / vz d) in Some (mkHit (vz d) t (Qred (vx o + t * vx d), Qred (vy o + t * vy d)) o).
Definition ray_hits_poly (p : pose) (poly : list pt2) (r : rayq) : bool :=
  match ray_plane p r with
  | None => false
  | Some h => qleb 0 (h_t h) && point_in_poly (h_pt h) poly
  end.

(* squared distance from a point to a segment, exact *)
Definition seg_dist2 (q a b : pt2) : Q :=
  let dx := fst b - fst a in let dy := snd b - snd a in
  let l2 := dx * dx + dy * dy in
  let u := if qeqb l2 0 then 0 else Qred (((fst q - fst a) * dx + (snd q - snd a) * dy) / l2) in
  let u := qmax 0 (qmin 1 u) in
  let ex := Qred (fst q - (fst a + u * dx)) in let ey := Qred (snd q - (snd a + u * dy)) in ex * ex + ey * ey.
Fixpoint outline_far (q : pt2) (vj : pt2) (l : list pt2) (m2 : Q) : bool :=
  match l with [] => true | vi :: r => qltb m2 (seg_dist2 q vj vi) && outline_far q vi r m2 end.
(* the crossing point is farther than sqrt(m2) from every edge *)
(* a point more than m outside the bounding rectangle of the outline is farther than m from every edge *)
Definition outside_bbox (q : pt2) (poly : list pt2) (m : Q) : bool :=
  forallb (fun v => qltb (fst v + m) (fst q)) poly || forallb (fun v => qltb (fst q + m) (fst v)) poly ||
  forallb (fun v => qltb (snd v + m) (snd q)) poly || forallb (fun v => qltb (snd q + m) (snd v)) poly.
(* the crossing point is farther than m from every edge *)
Definition far_from_outline (q : pt2) (poly : list pt2) (m : Q) : bool :=
  match poly with
  | [] => true
  | v :: _ => if outside_bbox q poly m then true else outline_far q (last poly v) poly (Qred (m * m))
  end.

Definition up20 (q : Q) : Q := Qmake (Qceiling (q * 1048576)) 1048576.
(* Some answer when exact geometry decides the case with margins, None when the case lies within the
   excluded margins (grazing the plane, starting on it, crossing within 1 mm of the outline) *)
Definition decided_hit (p : pose) (poly : list pt2) (r : rayq) : option bool :=
  match ray_plane p r with
  | None => None
  | Some h =>
      (* the crossing point is computed in f32 from the local origin o and direction d (unit) as o + t d with
         t = - o_z / d_z: an error of a few ulps in o_z (about |o| 2^-23, the rounding of the pose angles
         included) and in d_z moves the point by about (|o| + t) 2^-23 / |d_z|, which is large when the ray
         grazes the plane.  The excluded band around the outline is 1 mm plus 16 times that; a ray that starts
         that close to the plane is excluded too (the sign of t is not reliable). *)
      let o := h_o h in
      let reach := Qred (Qabs (vx o) + Qabs (vy o) + Qabs (vz o) + Qabs (h_t h)) in
      let noise := Qred ((16 # 8388608) * reach) in
      if qltb (Qabs (h_den h)) (2 # 100000) then None
      else if qltb (Qabs (h_t h)) (1 # 10000) then None
      else if qltb (Qabs (vz o)) noise then None
      else if qltb (h_t h) 0 then Some false
      else
        (* rounded up to a multiple of 2^-20 m (comparisons against short fractions are much cheaper) *)
        let m := up20 ((1 # 1000) + noise / Qabs (h_den h)) in
        if far_from_outline (h_pt h) poly m then Some (point_in_poly (h_pt h) poly) else None
  end.

(* ---- bounding box of points ---- *)
Definition point_in_boxb (b : aabbq) (v : vec3) : bool :=
  qleb (vx (blo b)) (vx v) && qleb (vx v) (vx (bhi b)) && qleb (vy (blo b)) (vy v) && qleb (vy v) (vy (bhi b)) &&
  qleb (vz (blo b)) (vz v) && qleb (vz v) (vz (bhi b)).
Definition aabb_of_points (first : vec3) (l : list vec3) : aabbq :=
  fold_left (fun b v => mkBox (mkV (qmin (vx (blo b)) (vx v)) (qmin (vy (blo b)) (vy v)) (qmin (vz (blo b)) (vz v)))
                              (mkV (qmax (vx (bhi b)) (vx v)) (qmax (vy (bhi b)) (vy v)) (qmax (vz (bhi b)) (vz v))))
            l (mkBox first first).

(* ---- reveal surfaces of a set-back window ----
   window rectangle (x, y, w, h) in wall coordinates, set back by s (> 0) behind the wall plane z = 0:
   the four reveals span z in [-s, 0] along the four edges *)
Definition quad := list vec3.
Definition reveal_top (x y w h s : Q) : quad := [mkV x (y + h) 0; mkV x (y + h) (- s); mkV (x + w) (y + h) (- s); mkV (x + w) (y + h) 0].
Definition reveal_sill (x y w h s : Q) : quad := [mkV x y 0; mkV (x + w) y 0; mkV (x + w) y (- s); mkV x y (- s)].
Definition reveal_left (x y w h s : Q) : quad := [mkV x (y + h) 0; mkV x y 0; mkV x y (- s); mkV x (y + h) (- s)].
Definition reveal_right (x y w h s : Q) : quad := [mkV (x + w) (y + h) 0; mkV (x + w) (y + h) (- s); mkV (x + w) y (- s); mkV (x + w) y 0].
Definition reveals_local (x y w h s : Q) : list quad :=
  [reveal_top x y w h s; reveal_left x y w h s; reveal_right x y w h s; reveal_sill x y w h s].
Definition reveals_global (p : pose) (x y w h s : Q) : list quad :=
  map (map (to_global p)) (reveals_local x y w h s).

Definition vclose (e : Q) (a b : vec3) : bool :=
  qleb (Qabs (vx a - vx b)) e && qleb (Qabs (vy a - vy b)) e && qleb (Qabs (vz a - vz b)) e.
(* same set of corners, up to e per coordinate *)
Definition quad_close (e : Q) (a b : quad) : bool :=
  Nat.eqb (length a) (length b) &&
  forallb (fun v => existsb (vclose e v) b) a && forallb (fun v => existsb (vclose e v) a) b.
Fixpoint quads_close (e : Q) (a b : list quad) : bool :=
  match a, b with
  | [], [] => true
  | x :: a', y :: b' => quad_close e x y && quads_close e a' b'
  | _, _ => false
  end.
