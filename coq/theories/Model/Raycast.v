(* C13 correspondences: BVH over boxes (tree dumped from the implementation, validated), posed
   polygons against rays, reveal surfaces; and the code's own construction of the reveals. *)
From Coq Require Import ZArith NArith QArith Qabs Bool List.
From CTE Require Import Base.Num Model.Aabb Model.Poly Model.Bvh.
Import ListNotations.
Local Open Scope Q_scope.

(* ---------- BVH of boxes ---------- *)
Definition elt := (N * aabbq)%type.          (* (index in the input list, box) *)
Definition ebox (e : elt) : aabbq := snd e.
Definition ehit (e : elt) (r : rayq) : bool := bhitq (snd e) r.
Definition btree := tree elt aabbq.

(* translation validation of a dumped tree: every box is a proper box and contains what is below it *)
Fixpoint wf_treeb (t : btree) : bool :=
  match t with
  | Leaf b es => properb b && forallb (fun e => properb (ebox e) && box_leb (ebox e) b) es
  | Node b l r => properb b && box_leb (tbox elt aabbq l) b && box_leb (tbox elt aabbq r) b && wf_treeb l && wf_treeb r
  end.

Definition box_eqb (a b : aabbq) : bool := box_leb a b && box_leb b a.
(* the leaves hold exactly the input elements: every index once, with the box of that index *)
Definition elems_ok (t : btree) (boxes : list aabbq) : bool :=
  let es := elems elt aabbq t in
  Nat.eqb (length es) (length boxes) &&
  forallb (fun i => Nat.eqb (length (filter (fun e => N.eqb (fst e) (N.of_nat i)) es)) 1) (seq 0 (length boxes)) &&
  forallb (fun e => match nth_error boxes (N.to_nat (fst e)) with Some b => box_eqb b (snd e) | None => false end) es.

Definition input_elts (boxes : list aabbq) : list elt :=
  map (fun ib => (N.of_nat (fst ib), snd ib)) (combine (seq 0 (length boxes)) boxes).

(* answer of exact geometry with margins: Some b when every box decides robustly *)
Definition robust_eps : Q := 1 # 10000.
Definition decided_blocked (boxes : list aabbq) (r : rayq) : option bool :=
  if existsb (fun b => properb (box_grow (- robust_eps) b) && bhitq (box_grow (- robust_eps) b) r) boxes then Some true
  else if forallb (fun b => negb (bhitq (box_grow robust_eps b) r)) boxes then Some false
  else None.

Record bvh_case := mkBvhCase {
  bv_boxes : list aabbq;
  bv_tree : option btree;                 (* tree built by BVH::build, dumped *)
  bv_rays : list (rayq * bool * bool)     (* ray, answer of the BVH, answer of testing every box *) }.

Record poly_case := mkPolyCase {
  pc_pose : pose; pc_poly : list pt2;
  pc_aabb : aabbq;                        (* WallGeom::aabb *)
  pc_rays : list (rayq * bool)            (* ray, WallGeom::intersects(..).is_some() *) }.

Record reveal_case := mkRevealCase {
  rc_pose : pose; rc_x : Q; rc_y : Q; rc_w : Q; rc_h : Q; rc_s : Q;
  rc_quads : list quad                    (* global corners of the reveal occluders of the window, in the code's order *) }.

Inductive c13_case := C13Bvh (c : bvh_case) | C13Poly (c : poly_case) | C13Reveal (c : reveal_case).

Definition opt_agrees (d : option bool) (impl : bool) : bool :=
  match d with Some b => Bool.eqb b impl | None => true end.

Definition agree_C13 (c : c13_case) : N :=
  match c with
  | C13Bvh c =>
      match bv_tree c with
      | None => 1%N                                        (* no tree was built *)
      | Some t =>
        first_fail [
          (2%N, forallb properb (bv_boxes c));
          (3%N, wf_treeb t);
          (4%N, elems_ok t (bv_boxes c));
          (5%N, forallb (fun x => match x with (_, a, b) => Bool.eqb a b end) (bv_rays c));
          (6%N, forallb (fun x => match x with (r, a, _) => opt_agrees (decided_blocked (bv_boxes c) r) a end) (bv_rays c)) ]
      end
  | C13Poly c =>
      first_fail [
        (7%N, forallb (point_in_boxb (box_grow (1 # 10000) (pc_aabb c))) (corners (pc_pose c) (pc_poly c)));
        (8%N, forallb (fun x => opt_agrees (decided_hit (pc_pose c) (pc_poly c) (fst x)) (snd x)) (pc_rays c)) ]
  | C13Reveal c =>
      if quads_close (1 # 1000) (rc_quads c) (reveals_global (rc_pose c) (rc_x c) (rc_y c) (rc_w c) (rc_h c) (rc_s c))
      then 0%N else 9%N
  end.

(* how many rays exact geometry decided (for the evidence) *)
Definition decided_count (c : c13_case) : N :=
  match c with
  | C13Bvh c => N.of_nat (length (filter (fun x => match decided_blocked (bv_boxes c) (fst (fst x)) with Some _ => true | None => false end) (bv_rays c)))
  | C13Poly c => N.of_nat (length (filter (fun x => match decided_hit (pc_pose c) (pc_poly c) (fst x) with Some _ => true | None => false end) (pc_rays c)))
  | C13Reveal _ => 1%N
  end.

(* ---------- the code's construction of the four reveals (Window::shades_for_setback) ----------
   each is a WallGeom posed at a window corner with tilt / azimuth offset by a quarter turn *)
Definition pose_at (p : pose) (v : vec3) (ca sa ct st : Q) : pose := mkPose (to_global p v) ca sa ct st.
Definition code_overhang (p : pose) (x y w h s : Q) : quad :=
  map (fun q => to_global (pose_at p (mkV x (y + h) 0) (p_ca p) (p_sa p) (- p_st p) (p_ct p)) (corner3 q))
      [(0, 0); (0, - s); (w, - s); (w, 0)].
Definition code_sill (p : pose) (x y w h s : Q) : quad :=
  map (fun q => to_global (pose_at p (mkV x y 0) (p_ca p) (p_sa p) (p_st p) (- p_ct p)) (corner3 q))
      [(0, 0); (w, 0); (w, s); (0, s)].
(* fins as repaired: vertical plane through the window edge, outline turned by (tilt - 90 degrees) *)
Definition fin_pt (p : pose) (u v : Q) : pt2 := (u * p_st p + v * p_ct p, - u * p_ct p + v * p_st p).
Definition code_left_fin (p : pose) (x y w h s : Q) : quad :=
  map (fun q => to_global (pose_at p (mkV x (y + h) 0) (- p_sa p) (p_ca p) 0 1) (corner3 (fin_pt p (fst q) (snd q))))
      [(0, 0); (0, - h); (s, - h); (s, 0)].
Definition rfin_pt (p : pose) (u v : Q) : pt2 := (u * p_st p - v * p_ct p, u * p_ct p + v * p_st p).
Definition code_right_fin (p : pose) (x y w h s : Q) : quad :=
  map (fun q => to_global (pose_at p (mkV (x + w) (y + h) 0) (p_sa p) (- p_ca p) 0 1) (corner3 (rfin_pt p (fst q) (snd q))))
      [(0, 0); (- s, 0); (- s, - h); (0, - h)].
(* fins as the code built them before the repair: wall tilt kept, azimuth +- 90 *)
Definition old_left_fin (p : pose) (x y w h s : Q) : quad :=
  map (fun q => to_global (pose_at p (mkV x (y + h) 0) (- p_sa p) (p_ca p) (p_ct p) (p_st p)) (corner3 q))
      [(0, 0); (0, - h); (s, - h); (s, 0)].
