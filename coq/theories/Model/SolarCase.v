(* C20 vm_compute cases: day numbers; the certificates live in the case files (Model/SolarCert.v) *)
From Coq Require Import ZArith NArith QArith List.
From CTE Require Import Base.Num Model.BModel Model.Props Model.Schedules.
Import ListNotations.

(* climate::nday_from_md: days of the past months plus the day *)
Definition nday (m d : Z) : Z := (cum_days m + d)%Z.

Inductive c20_case :=
| C20Nday (m d : Z) (impl : option Z)   (* None: the implementation crashed *)
| C20Cert.                              (* decided by the certificate that follows the case *)

Definition agree_C20 (c : c20_case) : N :=
  match c with
  | C20Nday m d (Some v) => if Z.eqb v (nday m d) then 0%N else 1%N
  | C20Nday _ _ None => 2%N
  | C20Cert => 0%N
  end.
