(* Model of N50Data::from(&EnergyProps): the DB-HE air-permeability formula. *)
From Coq Require Import ZArith NArith QArith Qabs Bool List.
From CTE Require Import Base.Num Model.BModel Model.Props.
Import ListNotations.
Local Open Scope Q_scope.

Definition n50_coef : Q := 629 # 1000.
Definition c100_default : Q := 100.

(* walls of the envelope in contact with outside air *)
Definition air_wall (w : uuid * wallp) : bool := wp_tenv (snd w) && is_ext (wp_bounds (snd w)).
Definition airset (p : eprops) : list (uuid * wallp) := filter air_wall (ep_walls p).

Definition win_c100 (p : eprops) (w : winp) : Q :=
  match lookup (np_cons w) (ep_wincons p) with Some c => cp_c100 c | None => c100_default end.

Definition n50_walls_a (p : eprops) : Q :=
  qsum (map (fun w => wp_anet (snd w) * wp_mult (snd w)) (airset p)).
Definition n50_windows_a (p : eprops) : Q :=
  qsum (map (fun w => qsum (map (fun x => np_area (snd x)) (wins_of p (fst w))) * wp_mult (snd w)) (airset p)).
Definition n50_windows_ca (p : eprops) : Q :=
  qsum (map (fun w => qsum (map (fun x => np_area (snd x) * win_c100 p (snd x)) (wins_of p (fst w))) * wp_mult (snd w))
            (airset p)).

Record n50data := mkN50 {
  nd_n50 : Q; nd_n50_ref : Q; nd_walls_a : Q; nd_walls_c_ref : Q; nd_walls_c_a_ref : Q;
  nd_walls_c : Q; nd_walls_c_a : Q; nd_windows_a : Q; nd_windows_c : Q; nd_windows_c_a : Q; nd_vol : Q }.

Definition N50_model (p : eprops) : n50data :=
  let g := ep_global p in
  let vol := gp_vol_net g in
  let wa := n50_walls_a p in let ha := n50_windows_a p in let hca := n50_windows_ca p in
  let hc := if qltb (1 # 1000) ha then hca / ha else 0 in
  let cref := gp_co100 g in let caref := wa * cref in
  let nref := if qltb (1 # 1000) vol then n50_coef * (caref + hca) / vol else 0 in
  match gp_n50test g with
  | Some t =>
      if qltb (1 # 1000) wa then
        let c := ((t * vol) / n50_coef - hca) / wa in
        mkN50 t nref wa cref caref c (wa * c) ha hc hca vol
      else mkN50 t nref wa cref caref cref caref ha hc hca vol
  | None => mkN50 nref nref wa cref caref cref caref ha hc hca vol
  end.

Definition ntol (impl model : Q) : bool := close_rel (1 # 10000) (1 # 10000) impl model.
(* back-calculated wall permeability: a difference of two large numbers divided by A_o, so the
   f32 noise of the implementation is relative to the minuend, not to the result *)
Definition ntol_c (scale : Q) (impl model : Q) : bool :=
  close_rel (1 # 10000) ((1 # 10000) + (1 # 10000) * scale) impl model.

(* c09_meta_test: the blower-door result of the model itself (meta.n50_test_ach): the reported props must hand it on *)
(* c09_model_wincons: the window constructions of the model itself (unique ids) with their permeability c_100: C_h of a
   window is its construction's, 100 only when the model has no such construction *)
Record c09_case := mkC09 { c09_props : eprops; c09_impl : n50data; c09_finite : bool; c09_meta_test : option Q;
  c09_model_wincons : list (uuid * Q) }.
Definition wincons_passed_on (p : eprops) (e : uuid * Q) : bool :=
  match find (fun w => N.eqb (fst w) (fst e)) (ep_wincons p) with
  | Some w => Qeq_bool (cp_c100 (snd w)) (snd e)
  | None => false
  end.
Definition optq_eqb (a b : option Q) : bool :=
  match a, b with None, None => true | Some x, Some y => Qeq_bool x y | _, _ => false end.

Definition near (x t : Q) : bool := qltb (Qabs (x - t)) (1 # 100000).

Definition agree_C09 (c : c09_case) : N :=
  let p := c09_props c in let m := N50_model p in let i := c09_impl c in
  let scale := match gp_n50test (ep_global p) with
               | Some t => if qltb (1 # 1000) (nd_walls_a m)
                           then (Qabs (t * nd_vol m / n50_coef) + Qabs (nd_windows_c_a m)) / nd_walls_a m else 0
               | None => 0 end in
  if near (nd_vol m) (1 # 1000) || near (nd_walls_a m) (1 # 1000) || near (nd_windows_a m) (1 # 1000) then 0%N
  else first_fail [
    (8%N, optq_eqb (gp_n50test (ep_global p)) (c09_meta_test c));
    (10%N, forallb (wincons_passed_on p) (c09_model_wincons c));
    (9%N, c09_finite c);
    (1%N, ntol (nd_n50_ref i) (nd_n50_ref m));
    (2%N, ntol (nd_n50 i) (nd_n50 m));
    (3%N, ntol (nd_walls_a i) (nd_walls_a m) && ntol (nd_windows_a i) (nd_windows_a m));
    (4%N, ntol (nd_windows_c_a i) (nd_windows_c_a m) && ntol (nd_windows_c i) (nd_windows_c m));
    (5%N, ntol (nd_walls_c_ref i) (nd_walls_c_ref m) && ntol (nd_walls_c_a_ref i) (nd_walls_c_a_ref m));
    (6%N, ntol_c scale (nd_walls_c i) (nd_walls_c m) &&
          ntol_c (scale * nd_walls_a m) (nd_walls_c_a i) (nd_walls_c_a m));
    (7%N, ntol (nd_vol i) (nd_vol m)) ].
