(* C18 correspondence: the model's build_blocks against hulc::bdl::build_blocks on the same text *)
From Coq Require Import NArith ZArith QArith Qabs Bool List String.
From CTE Require Import Base.Num Model.Bdl.
Import ListNotations.

Inductive ival := IStr (s : string) | INum (q : Q) | IInf (neg : bool) | INan.
Record iblock := mkIB { ib_type : N; ib_name : string; ib_parent : option string; ib_attrs : list (string * ival) }.
Inductive ires := IOk (l : list iblock) | IErr | IPanic.
(* the text is given line by line (split at every LF) to keep the literals short *)
Record c18case := mkC18 { c_lines : list string; c_impl : ires }.
Definition text_of (ls : list string) : str := join [nl] (map s2l ls).

(* exact decimal value of a numeric token *)
Definition pow10 (e : Z) : Q :=
  match e with
  | Z0 => 1
  | Zpos p => inject_Z (Z.pow_pos 10 p)
  | Zneg p => 1 # (Pos.pow 10 p)
  end.
Definition exact_of (neg : bool) (m : N) (e : Z) : Q :=
  let v := inject_Z (Z.of_N m) * pow10 e in if neg then - v else v.
Definition f32_max : Q := inject_Z (Z.pow_pos 2 128 - Z.pow_pos 2 104).
(* a correctly rounded f32 is within 2^-24 relative (2^-150 absolute near zero) of the exact value *)
Definition num_close (f : fval) (i : ival) : bool :=
  match f, i with
  | FNan, INan => true
  | FInf n, IInf n' => Bool.eqb n n'
  | FNum neg m e, INum q =>
      if (Z.ltb 60 (Z.abs e)) || (N.ltb (N.pow 10 60) m) then true
      else let x := exact_of neg m e in
           qleb (Qabs (q - x)) (Qabs x * (1 # (Pos.pow 2 24)) + (1 # (Pos.pow 2 150)))
  | FNum neg m e, IInf n =>
      if (Z.ltb 60 (Z.abs e)) || (N.ltb (N.pow 10 60) m) then true
      else Bool.eqb neg n && qleb f32_max (Qabs (exact_of neg m e))
  | _, _ => false
  end.

Definition opt_str_eqb (a : option str) (b : option string) : bool :=
  match a, b with
  | None, None => true
  | Some x, Some y => str_eqb x (s2l y)
  | _, _ => false
  end.

Fixpoint attrs_code (a : attrmap) (b : list (string * ival)) : N :=
  match a, b with
  | [], [] => 0
  | (k, v) :: ra, (k', v') :: rb =>
      if negb (str_eqb k (s2l k')) then 14
      else match v, v' with
           | VStr s, IStr s' => if str_eqb s (s2l s') then attrs_code ra rb else 15
           | VNum tok, IStr _ => 16
           | VStr _, _ => 16
           | VNum tok, i => match parse_float tok with
                            | Some f => if num_close f i then attrs_code ra rb else 17
                            | None => 16
                            end
           end
  | _, _ => 14
  end%N.

Fixpoint blocks_code (a : list block) (b : list iblock) : N :=
  match a, b with
  | [], [] => 0
  | x :: ra, y :: rb =>
      if negb (N.eqb (b_type x) (ib_type y)) then 11
      else if negb (str_eqb (b_name x) (s2l (ib_name y))) then 12
      else if negb (opt_str_eqb (b_parent x) (ib_parent y)) then 13
      else match attrs_code (b_attrs x) (ib_attrs y) with
           | 0 => blocks_code ra rb
           | c => c
           end
  | _, _ => 10
  end%N.

Definition agree_C18 (c : c18case) : N :=
  match build_blocks (text_of (c_lines c)), c_impl c with
  | _, IPanic => 4
  | Ok bs, IOk ibs => blocks_code bs ibs
  | Err _, IErr => 0
  | Ok _, IErr => 2
  | Err _, IOk _ => 3
  end%N.
