(* Opaque U-values after EN ISO 6946 (air contact), EN ISO 13789 (partitions towards unconditioned
   spaces) and EN ISO 13370 (ground contact): rational selection logic and rational formulas here;
   the two transcendental ground formulas are requests certified over R (Model/UValueR.v). *)
From Coq Require Import ZArith NArith QArith Qabs Bool List.
From CTE Require Import Base.Num Model.BModel Model.Props Model.Geometry.
Import ListNotations.
Local Open Scope Q_scope.

Definition RSI_UP : Q := 10 # 100.       (* ascending heat flow *)
Definition RSI_HORIZ : Q := 13 # 100.
Definition RSI_DOWN : Q := 17 # 100.
Definition RSE : Q := 4 # 100.
Definition LAMBDA_GND : Q := 2.
Definition LAMBDA_INS : Q := 35 # 1000.
Definition W_WALL : Q := 3 # 10.          (* wall thickness w of EN ISO 13370 *)
Definition VENT_COEF : Q := 33 # 100.     (* 0.33 Wh/m3K *)
Definition spec_constants : list Q := [RSI_UP; RSI_HORIZ; RSI_DOWN; RSE; LAMBDA_GND; LAMBDA_INS; W_WALL; VENT_COEF; 457 # 1000].

(* ---- EN ISO 6946: resistance of the layers ---- *)
Definition layer_r (db : consdb) (l : layer) : option Q :=
  match get_material db (l_mat l) with
  | None => None
  | Some mt => match m_props mt with
               | Detailed k _ _ _ => if qltb 0 k then Some (l_e l / k) else None
               | Resistance r _ => Some r
               end
  end.
Fixpoint layers_r (db : consdb) (ls : list layer) : option Q :=
  match ls with
  | [] => Some 0
  | l :: r => match layer_r db l, layers_r db r with Some a, Some b => Some (a + b) | _, _ => None end
  end.
Definition resistance (db : consdb) (c : wallcons) : option Q := layers_r db (wc_layers c).

Definition rsi (t : tiltc) : Q := match t with BOTTOM => RSI_DOWN | TOP => RSI_UP | SIDE => RSI_HORIZ end.
(* element facing outside air (also reported for adiabatic ones) *)
Definition u_air (r : Q) (t : tiltc) : Q := 1 / (r + rsi t + RSE).

(* ---- EN ISO 13789: partition between a conditioned and an unconditioned space ---- *)
(* surface resistances on both sides by heat-flow direction *)
Definition rf_dir (this_cond next_cond : bool) (t : tiltc) : Q :=
  match this_cond, next_cond, t with
  | true, false, BOTTOM | false, true, TOP => RSI_DOWN
  | true, false, TOP | false, true, BOTTOM => RSI_UP
  | _, _, _ => RSI_HORIZ
  end.
Definition u_partition (a_i r_f ua q : Q) : Q :=
  let h := ua + VENT_COEF * q in
  if qeqb h 0 then 0 (* A_i / 0: no heat flows *) else 1 / (r_f + a_i / h).

(* ---- what the model returns for a wall ---- *)
Inductive ures :=
| UNone                               (* no U-value (construction, material or space missing) *)
| URat (u : Q)                        (* rational value, before rounding to two decimals *)
| USlab (blim cdim dd dt d1 : Q)      (* EN ISO 13370 slab on ground / basement floor *)
| UBWall (z uw dt hnet : Q)           (* EN ISO 13370 basement wall *)
| UUndef.                             (* the code divides by zero here *)

Definition is_cond (s : space) : bool := spacetype_eqb (s_kind s) CONDITIONED.
Definition space_walls (m : model) (id : uuid) : list wall :=
  filter (fun w => N.eqb (w_space w) id || match w_next w with Some n => N.eqb n id | None => false end) (m_walls m).

(* reported U of a wall id (props), used where the code recurses into other walls *)
Definition reported_u (p : eprops) (id : uuid) : option Q :=
  match lookup id (ep_walls p) with Some w => wp_u w | None => None end.
Definition reported_win_u (p : eprops) (cons : uuid) : option Q :=
  match lookup cons (ep_wincons p) with Some c => cp_u c | None => None end.

(* sum of A*U over the surfaces of a space in contact with outside air or ground *)
Definition ua_ext_gnd (m : model) (p : eprops) (id : uuid) : Q :=
  qsum (map (fun w =>
    match reported_u p (w_id w) with
    | None => 0
    | Some u =>
        wall_area_net m w * u +
        qsum (map (fun x => match reported_win_u p (win_cons x) with Some uw => win_area x * uw | None => 0 end)
                  (filter (fun x => N.eqb (win_wall x) (w_id w)) (m_windows m)))
    end)
    (filter (fun w => is_ext_or_gnd (w_bounds w)) (space_walls m id))).

(* slab equivalent thickness d_t: area-weighted over the ground floors of the space *)
Definition slab_dt (m : model) (id : uuid) : option (option Q) :=
  let slabs := filter (fun w => tiltc_eqb (wall_tilt w) BOTTOM && boundary_eqb (w_bounds w) GROUND) (space_walls m id) in
  match slabs with
  | [] => None
  | _ =>
      let a_tot := qsum (map wall_area slabs) in
      let e_tot := qsum (map (fun w =>
          let r := match get_wallcons (m_cons m) (w_cons w) with
                   | Some c => match resistance (m_cons m) c with Some r => r | None => 0 end
                   | None => 0 end in
          wall_area w * (W_WALL + LAMBDA_GND * (RSI_DOWN + r + RSE))) slabs) in
      Some (if qeqb a_tot 0 then None else Some (e_tot / a_tot))
  end.

Definition u_model (m : model) (p : eprops) (chardim : list (uuid * option Q)) (vent : option Q) (w : wall) : ures :=
  match get_wallcons (m_cons m) (w_cons w) with
  | None => UNone
  | Some c =>
    let r := resistance (m_cons m) c in
    let t := wall_tilt w in
    match w_bounds w with
    | EXTERIOR | ADIABATIC => match r with Some r => URat (u_air r t) | None => UNone end
    | GROUND =>
        match r with
        | None => UNone
        | Some r =>
          let uw := round2 (u_air r t) in
          match get_space m (w_space w) with
          | None => UNone
          | Some sp =>
            match slab_dt m (s_id sp) with
            | None => UNone
            | Some None => UUndef
            | Some (Some dt) =>
              let z := qmax (- s_z sp) 0 in
              match t with
              | TOP => URat (u_air r t)
              | BOTTOM =>
                  (* B' is kept at 0.01 m at least (fix 5th of the slab formula: a slab of almost no area) *)
                  let cdim := qmax (match lookup (s_id sp) chardim with Some (Some c) => c | _ => 0 end) (1 # 100) in
                  if qeqb cdim 0 then UUndef
                  else USlab (dt + (1 # 2) * z) cdim (mt_d_perim (m_meta m)) dt (mt_rn_perim (m_meta m) * (LAMBDA_GND - LAMBDA_INS))
              | SIDE =>
                  if qltb (Qabs z) (1 # 100) then URat (u_air r t)
                  else if qeqb uw 0 then UUndef
                  else UBWall z uw dt (space_height_net m sp)
              end
            end
          end
        end
    | INTERIOR =>
        match get_space m (w_space w) with
        | None => UNone
        | Some sp =>
          match w_next w with
          | None => match r with Some r => URat (1 / (r + 2 * rsi t)) | None => UNone end
          | Some nid =>
            match get_space m nid with
            | None => UNone
            | Some nsp =>
              let tc := is_cond sp in let nc := is_cond nsp in
              match r with
              | None => UNone
              | Some r =>
                let r_f := r + 2 * rf_dir tc nc t in
                if Bool.eqb tc nc then URat (1 / r_f)
                else
                  let un := if tc then nsp else sp in
                  let a_i := wall_area w in
                  let ua := ua_ext_gnd m p (s_id un) in
                  let vol := space_area m (s_id un) * space_height_net m un in
                  match (match s_nv un with Some n => Some n | None => vent end) with
                  | None => UUndef
                  | Some nv => URat (u_partition a_i r_f ua (vol * nv))
                  end
              end
            end
          end
        end
    end
  end.

(* ---- correspondence (rational kinds); the R-valued kinds are certified in the case files ---- *)
Definition utol : Q := (1 # 200) + (1 # 10000).
(* partitions: the code feeds areas rounded to 0.01 m2, U-values of the neighbouring surfaces rounded to 0.01
   and a net height rounded to 0.001 m into the formula; the model uses the reported (rounded) U-values but
   exact areas, which moves the value by up to about 1e-3 before the final rounding *)
Definition utol_partition : Q := (1 # 200) + (1 # 1000).

Record c06_case := mkC06 {
  c06_model : model; c06_props : eprops;
  c06_chardim : list (uuid * option Q);     (* Space::slab_char_dim per space *)
  c06_vent : option Q;                      (* Model::global_ventilation_rate (None: not finite) *)
  c06_u : list (uuid * option Q)            (* Wall::u_value per wall, in list order; None also when not finite *) }.

Fixpoint walls_u (ws : list wall) (us : list (uuid * option Q)) : list (wall * option Q) :=
  match ws, us with
  | w :: ws', (_, u) :: us' => (w, u) :: walls_u ws' us'
  | _, _ => []
  end.

Definition rat_agree (c : c06_case) (wu : wall * option Q) : bool :=
  match u_model (c06_model c) (c06_props c) (c06_chardim c) (c06_vent c) (fst wu), snd wu with
  | UNone, None => true
  | UNone, Some _ => false
  | URat u, Some i => qleb (Qabs (i - u)) (match w_bounds (fst wu) with INTERIOR => utol_partition | _ => utol end)
  | URat _, None => false
  | USlab _ _ _ _ _, None | UBWall _ _ _ _, None => false
  | _, _ => true      (* transcendental kinds: certified separately; undefined: not compared *)
  end.

(* the ventilation rate the U-value calculation uses is the building-wide flow over the net volume of the
   habitable spaces inside the envelope, multipliers included (Geometry.vent_model); with unique space ids *)
Definition vent_agrees (c : c06_case) : bool :=
  if negb (Nat.eqb (length (space_keys (c06_model c))) (length (m_spaces (c06_model c)))) then true
  else match c06_vent c, vent_model (c06_model c) with
       | Some a, Some b => close_rel (1 # 1000) (1 # 10000) a b
       | None, _ | _, None => true
       end.

Definition agree_C06 (c : c06_case) : N :=
  if negb (vent_agrees c) then 3%N
  else if negb (Nat.eqb (length (m_walls (c06_model c))) (length (c06_u c))) then 2%N
  else if forallb (rat_agree c) (walls_u (m_walls (c06_model c)) (c06_u c)) then 0%N else 1%N.

(* the requests to certify over R: (wall index, kind parameters, implementation value) *)
Inductive ureq :=
| RSlab (blim cdim dd dt d1 impl : Q)
| RBWall (z uw dt hnet impl : Q).
Definition requests (c : c06_case) : list ureq :=
  flat_map (fun wu =>
    match u_model (c06_model c) (c06_props c) (c06_chardim c) (c06_vent c) (fst wu), snd wu with
    | USlab b cd dd dt d1, Some i => [RSlab (Qred b) (Qred cd) (Qred dd) (Qred dt) (Qred d1) i]
    | UBWall z uw dt hn, Some i => [RBWall (Qred z) (Qred uw) (Qred dt) (Qred hn) i]
    | _, _ => []
    end) (walls_u (m_walls (c06_model c)) (c06_u c)).

(* which branch each wall took (for the evidence) *)
Definition branch_of (c : c06_case) (w : wall) : N :=
  match u_model (c06_model c) (c06_props c) (c06_chardim c) (c06_vent c) w with
  | UNone => 0 | URat _ => (match w_bounds w with EXTERIOR => 1 | ADIABATIC => 2 | GROUND => 3 | INTERIOR => 4 end)
  | USlab _ _ _ _ _ => 5 | UBWall _ _ _ _ => 6 | UUndef => 7 end%N.
