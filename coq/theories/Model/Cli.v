(* C01: the two command-line tools as functions from what the library does to what the process
   shows: exit status, the chunks written to standard output, the file written with -o. *)
From Coq Require Import NArith Bool List String.
From CTEGen Require Import StdoutSites.
Import ListNotations.

(* what the library conversion of the directory yields: a model (digest of its JSON), an error, a crash *)
Inductive libres := LOk (j : N) | LErr | LPanic.

Record world := mkWorld {
  w_lib : libres;
  w_noise : list N;     (* chunks the library itself prints to stdout while parsing / converting *)
  w_has_arg : bool      (* a directory argument was given *)
}.
Record prun := mkRun { r_exit : N; r_out : list N; r_file : option N }.

(* hulc2model [--use-extra] DIR: diagnostics go to stderr; collect_hulc_data(..)? ; println!(json) *)
Definition hulc2model_cli (w : world) : prun :=
  if negb (w_has_arg w) then mkRun 1 [] None
  else match w_lib w with
       | LOk j => mkRun 0 (w_noise w ++ [j]) None
       | LErr => mkRun 1 (w_noise w) None
       | LPanic => mkRun 101 (w_noise w) None
       end.

(* thor FILE -o OUT -r RES: the model goes to OUT, the indicators to RES, nothing to stdout *)
Definition thor_o (w : world) : prun :=
  match w_lib w with
  | LOk j => mkRun 0 (w_noise w) (Some j)
  | LErr => mkRun 65 (w_noise w) None
  | LPanic => mkRun 101 (w_noise w) None
  end.

(* what an observer of stdout sees: 0 = no JSON document, 1 = exactly one JSON document and nothing
   else, 2 = anything else *)
Definition docs_of (out : list N) (j : option N) : N :=
  match out, j with
  | [], _ => 0
  | [x], Some y => if N.eqb x y then 1 else 2
  | _, Some _ => 2
  | _, None => 0        (* noise is text, never a JSON document *)
  end%N.
Definition model_of (l : libres) : option N := match l with LOk j => Some j | _ => None end.

(* ---------- what the correspondence evaluates ---------- *)
Inductive c01case :=
| Cli (lib : libres) (exit docs model : N)       (* one run of hulc2model *)
| NoArg (exit docs : N)                          (* hulc2model without arguments *)
| Thor (lib : libres) (exit : N) (file : option N).

Definition exit_class (e : N) : bool := N.eqb e 0.

Definition agree_C01 (c : c01case) : N :=
  match c with
  | Cli lib e d m =>
      let r := hulc2model_cli (mkWorld lib [] true) in
      match lib with
      | LOk j =>
          if negb (exit_class e) then 1
          else if negb (N.eqb d (docs_of (r_out r) (Some j))) then 2
          else if negb (N.eqb m j) then 3 else 0
      | LErr => if exit_class e then 4 else if negb (N.eqb d 0) then 5 else 0
      | LPanic => 0
      end
  | NoArg e d => if exit_class e then 4 else if negb (N.eqb d 0) then 5 else 0
  | Thor lib e f =>
      let r := thor_o (mkWorld lib [] true) in
      match lib with
      | LOk j => if negb (exit_class e) then 6
                 else match f with Some x => if N.eqb x j then 0 else 7 | None => 7 end
      | _ => 0
      end
  end%N.

(* ---------- the tie to the code's print statements: coq/gen/StdoutSites.v ---------- *)
Local Open Scope string_scope.
Definition site_file (s : string * string * string * string) : string := fst (fst (fst s)).
Definition site_fn (s : string * string * string * string) : string := snd (fst (fst s)).
Definition site_args (s : string * string * string * string) : string := snd s.
(* library code that may print: only the progress line of the met-file batch reader, which the
   conversion tools never call (it serves metconvert) *)
Definition lib_allowed : list (string * string) := [("climate/src/met.rs", "read_metdata")].
Definition library_silent : bool :=
  forallb (fun s => existsb (fun a => String.eqb (site_file s) (fst a) && String.eqb (site_fn s) (snd a)) lib_allowed) repo_stdout_lib.
(* the export tool's only stdout statement is the model JSON *)
Definition cli_sites : list (string * string * string * string) :=
  filter (fun s => String.eqb (site_file s) "hulc2model/src/bin/cli/mod.rs") repo_stdout_bins.
Definition cli_prints_only_model : bool :=
  match cli_sites with
  | [s] => String.eqb (site_fn s) "cli_main" && String.eqb (site_args s) """{}"", json"
  | _ => false
  end.
