(* C18 correspondence for KyGananciasSolares.txt: the model's parse against hulc::kyg::parse *)
From Coq Require Import NArith ZArith QArith Qabs Bool List String.
From CTE Require Import Base.Num Model.Bdl Model.BdlCase.
From CTE Require Import Model.Kyg.
Import ListNotations.

Record iwall := mkIW { iw_name : string; iw_a : ival; iw_u : ival; iw_btrx : ival; iw_new : option (string * string * string) }.
Record iwin := mkIN { in_name : string; in_a : ival; in_u : ival; in_ff : ival; in_orient : string; in_az : ival; in_fsh : ival;
                      in_new : option (ival * ival * ival * ival * string) }.
Record itb := mkIT { it_name : string; it_l : ival; it_psi : ival; it_sisdim : string }.
Record ikyg := mkIK { ik_walls : list iwall; ik_wins : list iwin; ik_tbs : list itb; ik_k : ival; ik_factors : list ival }.
Inductive ikres := KOk (k : ikyg) | KErr | KPanic.
Record kygcase := mkKC { kc_lines : list string; kc_impl : ikres }.

Definition tok_close (tok : str) (i : ival) : bool :=
  match parse_float (decimal_point tok) with Some f => num_close f i | None => false end.
Definition exact_tok (tok : str) : option Q :=
  match parse_float (decimal_point tok) with
  | Some (FNum neg m e) => if Z.ltb 60 (Z.abs e) then None else Some (exact_of neg m e)
  | _ => None
  end.
(* i = num / den computed in f32 from correctly rounded operands: within 2^-21 relative *)
Definition ratio_close (num den : str) (i : ival) : bool :=
  match exact_tok num, exact_tok den, i with
  | Some n, Some d, INum q => qleb (Qabs (q * d - n)) (Qabs n * (1 # 2097152) + (1 # (Pos.pow 2 100)))
  | Some n, Some d, _ => Qeq_bool d 0     (* x / 0 is not finite *)
  | _, _, _ => true
  end.

Fixpoint last_by {A} (key : A -> str) (n : str) (l : list A) : option A :=
  match l with
  | [] => None
  | x :: r => match last_by key n r with Some y => Some y | None => if str_eqb (key x) n then Some x else None end
  end.
Fixpoint nodup_names (l : list str) : list str :=
  match l with [] => [] | x :: r => if existsb (str_eqb x) r then nodup_names r else x :: nodup_names r end.
Definition opt3_eqb (a : option (str * str * str)) (b : option (string * string * string)) : bool :=
  match a, b with
  | None, None => true
  | Some (x, y, z), Some (x', y', z') => str_eqb x (s2l x') && str_eqb y (s2l y') && str_eqb z (s2l z')
  | _, _ => false
  end.

Definition wall_ok (m : kyg) (w : iwall) : bool :=
  match last_by kw_name (s2l (iw_name w)) (ky_walls m) with
  | Some k => tok_close (kw_a k) (iw_a w) && tok_close (kw_u k) (iw_u w) && tok_close (kw_btrx k) (iw_btrx w) && opt3_eqb (kw_new k) (iw_new w)
  | None => false
  end.
Definition win_ok (m : kyg) (w : iwin) : bool :=
  match last_by kn_name (s2l (in_name w)) (ky_wins m) with
  | Some k =>
      tok_close (kn_a k) (in_a w) && tok_close (kn_u k) (in_u w) && ratio_close (kn_ff k) (s2l "100") (in_ff w) &&
      str_eqb (kn_orient k) (s2l (in_orient w)) &&
      match kn_new k, in_new w with
      | None, None => true
      | Some (g, u1, u2, i, c), Some (g', u1', u2', i', c') =>
          tok_close g g' && tok_close u1 u1' && tok_close u2 u2' && tok_close i i' && str_eqb c (s2l c')
      | _, _ => false
      end &&
      match last_by kg_name (s2l (in_name w)) (ky_gains m) with
      | Some g => tok_close (kg_az g) (in_az w) && ratio_close (kg_h3 g) (kg_htot g) (in_fsh w)
      | None => match in_az w, in_fsh w with INum a, INum f => Qeq_bool a 0 && Qeq_bool f 0 | _, _ => false end
      end
  | None => false
  end.
Definition tb_ok (m : kyg) (t : itb) : bool :=
  match last_by kt_name (s2l (it_name t)) (ky_tbs m) with
  | Some k => tok_close (kt_l k) (it_l t) && tok_close (kt_psi k) (it_psi t) && str_eqb (kt_sisdim k) (s2l (it_sisdim t))
  | None => false
  end.
Fixpoint toks_close (a : list str) (b : list ival) : bool :=
  match a, b with
  | [], [] => true
  | x :: ra, y :: rb => tok_close x y && toks_close ra rb
  | _, _ => false
  end.

Definition agree_C18K (c : kygcase) : N :=
  match parse_kyg (text_of (kc_lines c)), kc_impl c with
  | _, KPanic => 4
  | Err _, KErr => 0
  | Ok _, KErr => 2
  | Err _, KOk _ => 3
  | Ok m, KOk i =>
      if negb (Nat.eqb (List.length (nodup_names (map kw_name (ky_walls m)))) (List.length (ik_walls i))) then 20
      else if negb (forallb (wall_ok m) (ik_walls i)) then 21
      else if negb (Nat.eqb (List.length (nodup_names (map kn_name (ky_wins m)))) (List.length (ik_wins i))) then 22
      else if negb (forallb (win_ok m) (ik_wins i)) then 23
      else if negb (Nat.eqb (List.length (nodup_names (map kt_name (ky_tbs m)))) (List.length (ik_tbs i))) then 24
      else if negb (forallb (tb_ok m) (ik_tbs i)) then 25
      else if negb (match ky_k m with Some k => tok_close k (ik_k i) | None => match ik_k i with INum q => Qeq_bool q 0 | _ => false end end) then 26
      else if negb (toks_close (ky_factors m) (ik_factors i)) then 27
      else 0
  end%N.

