(* C04 correspondence: the regenerated schema predicts the JSON of the implementation, and loading
   restores the full form. *)
From Coq Require Import ZArith NArith QArith List String Bool.
From CTE Require Import Base.Num Model.Schema.
From CTEGen Require Import Schema_repo.
Import ListNotations.
Local Open Scope string_scope.

Definition FUEL : nat := 12.
Definition ser_repo := ser repo_schema repo_enums FUEL (FStruct "Model").
Definition de_repo := de repo_schema repo_enums FUEL (FStruct "Model").

Record c04_case := mkC04 {
  c4_full : jv;          (* every field of the model, written out by the harness *)
  c4_impl : jv;          (* serde_json value of Model::as_json *)
  c4_back : jv;          (* full form of Model::from_json(as_json(model)) *)
  c4_text_idem : bool    (* as_json(from_json(as_json m)) = as_json m, as text *) }.

Definition agree_C04 (c : c04_case) : N :=
  first_fail [
    (1%N, match ser_repo (c4_full c) with Some j => jv_sim 40 j (c4_impl c) | None => false end);
    (2%N, match de_repo (c4_impl c) with Some v => jv_sim 40 v (c4_full c) | None => false end);
    (3%N, jv_sim 40 (c4_back c) (c4_full c));
    (4%N, c4_text_idem c);
    (5%N, match de_repo (c4_impl c) with
          | Some v => match ser_repo v with Some j => jv_sim 40 j (c4_impl c) | None => false end
          | None => false end) ].
