(* C18: typed readers of SPACE and of the walls (hulc/src/bdl/envelope/{space,walls}.rs) and what bdl::Data::new
   adds to a space from its floor. *)
From Coq Require Import NArith ZArith QArith Bool List String.
From CTE Require Import Model.Bdl.
From CTE Require Import Model.BdlTyped.
From CTEGen Require Import BdlTypes.
Import ListNotations.
Local Open Scope N_scope.
Local Open Scope string_scope.

Inductive tbounds := TB_EXTERIOR | TB_INTERIOR | TB_GROUND | TB_ADIABATIC.
Record twall := mkTWl { twl_name : str; twl_space : str; twl_cons : str; twl_location : option str; twl_bounds : tbounds;
  twl_tilt : tnum; twl_x : tnum; twl_y : tnum; twl_z : tnum; twl_polygon : option str; twl_azimuth : tnum; twl_nextto : option str }.

Definition space_prefix : str := s2l "SPACE-".
Definition wall_of (b : block) : res twall :=
  let a := b_attrs b in
  match b_parent b, get_text "CONSTRUCTION" a with
  | Some sp, Some cns =>
      let loc := match get_text "LOCATION" a with
                 | None => Ok None
                 | Some l => if str_eqb l (s2l "TOP") || str_eqb l (s2l "BOTTOM") then Ok (Some l)
                             else if prefixb space_prefix l then Ok (Some (skipn 6 l))
                             else Err 6
                 end in
      match loc with
      | Err e => Err e
      | Ok location =>
          let t := b_type b in
          let bounds := if N.eqb t BT_InteriorWall then
                          match get_text "INT-WALL-TYPE" a with
                          | Some k => if str_eqb k (s2l "STANDARD") then Ok TB_INTERIOR
                                      else if str_eqb k (s2l "ADIABATIC") then Ok TB_ADIABATIC else Err 6
                          | None => Err 5
                          end
                        else if N.eqb t BT_UndergroundWall then Ok TB_GROUND
                        else if N.eqb t BT_ExteriorWall || N.eqb t BT_Roof then Ok TB_EXTERIOR
                        else Err 6 in
          match bounds with
          | Err e => Err e
          | Ok bd =>
              let is_loc (x : string) := match location with Some l => str_eqb l (s2l x) | None => false end in
              let tilt := match get_num "TILT" a with
                          | Some tk => NTok tk
                          | None => if N.eqb t BT_Roof || is_loc "TOP" then NConst 0
                                    else if is_loc "BOTTOM" then NConst 180 else NConst 90
                          end in
              let az := if is_loc "BOTTOM" then NConst 180 else num_or (get_num "AZIMUTH" a) 0 in
              let nextto := match bd with TB_INTERIOR => get_text "NEXT-TO" a | _ => None end in
              Ok (mkTWl (b_name b) sp cns location bd tilt (num_or (get_num "X" a) 0) (num_or (get_num "Y" a) 0)
                        (num_or (get_num "Z" a) 0) (get_text "POLYGON" a) az nextto)
          end
      end
  | _, _ => Err 5
  end.

Record tspace := mkTSp { tsp_name : str; tsp_floor : str; tsp_type : str; tsp_polygon : str;
  tsp_x : tnum; tsp_y : tnum; tsp_z : tnum; tsp_azimuth : tnum; tsp_inside : bool;
  tsp_power : str; tsp_veei_obj : str; tsp_veei_ref : str; tsp_spacetype : str; tsp_spaceconds : str; tsp_systemconds : str;
  tsp_multiplier : str; tsp_multiplied : str }.
Definition space_of (b : block) : res tspace :=
  let a := b_attrs b in
  match get_text "SHAPE" a, get_text "TYPE" a, get_text "POLYGON" a with
  | Some shape, Some ty, Some poly =>
      if negb (str_eqb shape (s2l "POLYGON")) then Err 6
      else match b_parent b, get_num "POWER" a, get_num "VEEI-OBJ" a, get_num "VEEI-REF" a, get_text "SPACE-TYPE" a,
                 get_num "MULTIPLIER" a, get_num "MULTIPLIED" a with
           | Some fl, Some pw, Some vo, Some vr, Some st, Some mu, Some md =>
               let inside := match get_text "perteneceALaEnvolventeTermica" a with
                             | Some v => str_eqb v (s2l "SI")
                             | None => str_eqb ty (s2l "CONDITIONED")
                             end in
               Ok (mkTSp (b_name b) fl ty poly (num_or (get_num "X" a) 0) (num_or (get_num "Y" a) 0) (num_or (get_num "Z" a) 0)
                         (num_or (get_num "AZIMUTH" a) 0) inside pw vo vr st
                         (match get_text "SPACE-CONDITIONS" a with Some c => c | None => st end)
                         (match get_text "SYSTEM-CONDITIONS" a with Some c => c | None => st end) mu md)
           | _, _, _, _, _, _, _ => Err 5
           end
  | _, _, _ => Err 5
  end.
