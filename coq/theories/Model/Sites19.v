(* C19: the partial operations (unwrap, expect, panic!, assert!, unreachable!, indexing) of the
   project-file parsers and of the conversion, grouped by (file, function) with their number at the
   last review.  Every group was reviewed against the exhaustive enumeration of single-edit
   corruptions of all shipped files (2.37 million damaged files, commit 3e6cfcc of /repo; the two FLOOR asserts and the byte-offset slice of wallcons.rs were removed afterwards): no instance
   of any group is reached with a failing value.  A partial operation added to or removed from the
   anchored files changes a count or adds a group: the obligation sites19_accounted then breaks and
   the check looks for a damaged file that reaches it. *)
From Coq Require Import String List Bool NArith.
From CTEGen Require Import PartialOps.
Import ListNotations.
Local Open Scope string_scope.

Inductive status19 :=
| ValueChecked     (* the operand is tested just before (len / is_some / starts_with), or is a literal index into a fixed split *)
| NotReached.      (* no single-edit corruption of a shipped file makes it fail *)

Definition c19_groups : list ((string * string) * N * status19) := [
  (("bemodel/src/convert/from_ctehexml.rs", "schedules_from_bdl"), 5%N, ValueChecked);
  (("bemodel/src/convert/from_ctehexml.rs", "shades_from_bdl"), 5%N, ValueChecked);
  (("bemodel/src/convert/from_ctehexml.rs", "windows_and_shades_from_bdl"), 1%N, NotReached);
  (("hulc/src/bdl/envelope/geom.rs", "area"), 1%N, ValueChecked);
  (("hulc/src/bdl/envelope/geom.rs", "mirror_y"), 2%N, ValueChecked);
  (("hulc/src/bdl/envelope/geom.rs", "perimeter"), 1%N, ValueChecked);
  (("hulc/src/bdl/envelope/walls.rs", "try_from"), 1%N, NotReached);
  (("hulc/src/bdl/mod.rs", "new"), 3%N, NotReached);
  (("hulc/src/ctehexml/systems/gt_types_impl.rs", "build_heat_source"), 3%N, NotReached);
  (("hulc/src/ctehexml/systems/vyp_sys.rs", "build_doas"), 14%N, NotReached);
  (("hulc/src/ctehexml/systems/vyp_sys.rs", "build_generation_equipment"), 1%N, NotReached);
  (("hulc/src/ctehexml/systems/vyp_sys.rs", "build_system"), 2%N, NotReached);
  (("hulc/src/ctehexml/systems/vyp_sys.rs", "parse_ele_prod"), 3%N, NotReached);
  (("hulc/src/ctehexml/systems/vyp_sys.rs", "parse_thermal_prod"), 3%N, NotReached);
  (("hulc/src/kyg.rs", "parse"), 29%N, NotReached);
  (("hulc/src/tbl.rs", "from_str"), 16%N, NotReached);
  (("hulc/src/tbl.rs", "parse"), 2%N, NotReached)
].

Definition op_group (s : string * string * string * string) : string * string := (fst (fst (fst s)), snd (fst (fst s))).
Definition group_eqb (a b : string * string) : bool := String.eqb (fst a) (fst b) && String.eqb (snd a) (snd b).
Definition count_group (g : string * string) (ops : list (string * string * string * string)) : N :=
  N.of_nat (List.length (filter (fun s => group_eqb (op_group s) g) ops)).
(* every site of the regenerated inventory belongs to a reviewed group, and every group has exactly
   the number of sites it had when it was reviewed *)
Definition sites19_accounted : bool :=
  forallb (fun s => existsb (fun g => group_eqb (op_group s) (fst (fst g))) c19_groups) c19_partial_ops &&
  forallb (fun g => N.eqb (count_group (fst (fst g)) c19_partial_ops) (snd (fst g))) c19_groups.
Definition sites19_unaccounted : list (string * string) :=
  map op_group (filter (fun s => negb (existsb (fun g => group_eqb (op_group s) (fst (fst g)) &&
                                                        N.eqb (count_group (fst (fst g)) c19_partial_ops) (snd (fst g))) c19_groups)) c19_partial_ops).
