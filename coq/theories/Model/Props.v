(* The part of bemodel::energy::EnergyProps that the indicators read, as data.
   The harness prints the implementation's reported `props` into these records; the K / n50 /
   q_sol;jul models take them as input, and each field is tied to the Model by its own model
   (Tenv.v, UValue.v, WinCons.v, Geometry.v). Maps are lists of (id, value) in key order. *)
From Coq Require Import ZArith NArith QArith Bool List.
From CTE Require Import Base.Num Model.BModel.
Import ListNotations.

Record wallp := mkWallP {
  wp_space : uuid; wp_next : option uuid; wp_bounds : boundary; wp_cons : uuid;
  wp_orient : orient; wp_tilt : tiltc; wp_agross : Q; wp_anet : Q; wp_mult : Q;
  wp_tenv : bool; wp_u : option Q; wp_uov : option Q }.

Record winp := mkWinP {
  np_cons : uuid; np_wall : uuid; np_orient : orient; np_tilt : tiltc; np_area : Q; np_mult : Q;
  np_bounds : boundary; np_tenv : bool; np_u : option Q; np_uov : option Q;
  np_fsh : option Q; np_fshov : option Q }.

Record tbp := mkTbP { tp_kind : tbkind; tp_l : Q; tp_psi : Q }.

Record winconsp := mkWinConsP {
  cp_gglwi : Q; cp_gglshwi : Q; cp_u : option Q; cp_c100 : Q; cp_ff : Q }.

Record spacep := mkSpaceP {
  pp_kind : spacetype; pp_inside : bool; pp_area : Q; pp_mult : Q; pp_height : Q;
  pp_height_net : Q; pp_volume_net : Q }.

Record globalp := mkGlobalP {
  gp_aref : Q; gp_vol_gross : Q; gp_vol_net : Q; gp_vol_inh_net : Q; gp_compactness : Q;
  gp_n50test : option Q; gp_co100 : Q }.

Record eprops := mkEProps {
  ep_global : globalp;
  ep_walls : list (uuid * wallp); ep_windows : list (uuid * winp); ep_tbs : list (uuid * tbp);
  ep_wincons : list (uuid * winconsp); ep_spaces : list (uuid * spacep) }.

Definition is_ext_or_gnd (b : boundary) : bool :=
  match b with EXTERIOR | GROUND => true | _ => false end.
Definition is_ext (b : boundary) : bool := match b with EXTERIOR => true | _ => false end.

Definition lookup {A} (id : uuid) (l : list (uuid * A)) : option A :=
  match find (fun p => N.eqb (fst p) id) l with Some p => Some (snd p) | None => None end.

(* windows whose wall is the given id *)
Definition wins_of (p : eprops) (wall : uuid) : list (uuid * winp) :=
  filter (fun w => N.eqb (np_wall (snd w)) wall) (ep_windows p).

Definition opt_or {A} (a b : option A) : option A := match a with Some _ => a | None => b end.
Definition opt_default {A} (d : A) (a : option A) : A := match a with Some x => x | None => d end.

Definition qmax_list (l : list Q) : option Q :=
  match l with [] => None | x :: r => Some (fold_left qmax r x) end.
Definition qmin_list (l : list Q) : option Q :=
  match l with [] => None | x :: r => Some (fold_left qmin r x) end.
