(* Geometry and classification: shoelace areas, tilt / orientation classes, net areas, space
   area and net height, envelope membership, reference area, volumes, compactness, ventilation. *)
From Coq Require Import ZArith NArith QArith Qabs Qround Bool List.
From CTE Require Import Base.Num Model.BModel Model.Props.
Import ListNotations.
Local Open Scope Q_scope.

(* utils::normalize: value brought into [start, end) *)
Definition normalize (v s e : Q) : Q :=
  let w := e - s in let off := v - s in (off - inject_Z (Qfloor (off / w)) * w) + s.

Definition tilt_class_raw (t : Q) : tiltc :=
  if qleb t 60 then TOP else if qltb t 120 then SIDE else if qltb t 240 then BOTTOM
  else if qltb t 300 then SIDE else TOP.
(* bemodel Tilt::from(f32) *)
Definition tilt_class (t : Q) : tiltc := tilt_class_raw (normalize t 0 360).
(* hulc Wall::position (no normalisation) *)
Definition hulc_position (t : Q) : tiltc := tilt_class_raw t.

Definition orient_class_raw (a : Q) : orient :=
  if qltb a 18 then O_S else if qltb a 69 then O_SE else if qltb a 120 then O_E
  else if qltb a (315 # 2) then O_NE else if qltb a (405 # 2) then O_N else if qltb a 240 then O_NW
  else if qltb a 291 then O_W else if qltb a 342 then O_SW else O_S.
Definition orient_class (a : Q) : orient := orient_class_raw (normalize a 0 360).

Definition geom_orient (g : wallgeom) : orient :=
  match tilt_class (g_tilt g) with SIDE => orient_class (g_azimuth g) | _ => O_HZ end.

(* shoelace: |1/2 sum (x_i y_{i+1} - y_i x_{i+1})|, 0 for fewer than 2 points *)
Fixpoint shoelace_from (first : Q * Q) (l : list (Q * Q)) : Q :=
  match l with
  | [] => 0
  | [p] => fst p * snd first - snd p * fst first
  | p :: ((q :: _) as r) => (fst p * snd q - snd p * fst q) + shoelace_from first r
  end.
Definition shoelace2 (l : list (Q * Q)) : Q :=
  match l with [] => 0 | [_] => 0 | p :: _ => shoelace_from p l end.
Definition poly_area (l : list (Q * Q)) : Q := Qabs ((1 # 2) * shoelace2 l).

Definition wall_area (w : wall) : Q := poly_area (g_poly (w_geom w)).
Definition win_area (w : window) : Q := wg_width (win_geom w) * wg_height (win_geom w).

Definition wall_area_net_raw (m : model) (w : wall) : Q :=
  wall_area w - qsum (map win_area (filter (fun x => N.eqb (win_wall x) (w_id w)) (m_windows m))).
Definition wall_area_net (m : model) (w : wall) : Q := round2 (wall_area_net_raw m w).

Definition wall_tilt (w : wall) : tiltc := tilt_class (g_tilt (w_geom w)).

(* Space::area: floors (BOTTOM walls) of the space *)
Definition space_area (m : model) (id : uuid) : Q :=
  qsum (map wall_area (filter (fun w => N.eqb (w_space w) id && tiltc_eqb (wall_tilt w) BOTTOM) (m_walls m))).

Definition cons_thickness (c : wallcons) : Q := round3 (qsum (map l_e (wc_layers c))).

(* Space::height_net: height minus the thickness of the first wall that closes the space from above *)
Definition top_wall_of (m : model) (id : uuid) : option wall :=
  find (fun w => match wall_tilt w with
                 | TOP => N.eqb (w_space w) id
                 | BOTTOM => match w_next w with Some n => N.eqb n id | None => false end
                 | SIDE => false end) (m_walls m).
Definition space_height_net (m : model) (s : space) : Q :=
  s_height s - match top_wall_of m (s_id s) with
               | Some w => match get_wallcons (m_cons m) (w_cons w) with Some c => cons_thickness c | None => 0 end
               | None => 0 end.

(* ---- envelope membership ---- *)
Definition space_inside (m : model) (id : uuid) : bool :=
  match get_space m id with Some s => s_inside s | None => false end.
Definition tenv_rule (m : model) (w : wall) : bool :=
  let this := space_inside m (w_space w) in
  let next := match w_next w with Some n => space_inside m n | None => false end in
  match w_bounds w with
  | EXTERIOR | GROUND | ADIABATIC => this
  | INTERIOR => negb (Bool.eqb this next)
  end.
(* props are keyed by id: a wall id is in the envelope when some wall with that id is *)
Definition is_tenv_id (m : model) (id : uuid) : bool :=
  existsb (fun w => N.eqb (w_id w) id && tenv_rule m w) (m_walls m).

(* BTreeMap insertion: the last element with an id wins *)
Definition last_space (m : model) (id : uuid) : option space :=
  find (fun s => N.eqb (s_id s) id) (rev (m_spaces m)).
Definition last_wall (m : model) (id : uuid) : option wall :=
  find (fun w => N.eqb (w_id w) id) (rev (m_walls m)).
Definition last_window (m : model) (id : uuid) : option window :=
  find (fun w => N.eqb (win_id w) id) (rev (m_windows m)).

Fixpoint dedup (l : list uuid) : list uuid :=
  match l with [] => [] | x :: r => if mem x r then dedup r else x :: dedup r end.
Definition space_keys (m : model) : list uuid := dedup (map s_id (m_spaces m)).
Definition wall_keys (m : model) : list uuid := dedup (map w_id (m_walls m)).
Definition window_keys (m : model) : list uuid := dedup (map win_id (m_windows m)).

Definition space_mult (m : model) (id : uuid) : Q :=
  match last_space m id with Some s => s_mult s | None => 1 end.

(* what EnergyProps reports for a space / wall / window id *)
Definition space_props (m : model) (id : uuid) : option spacep :=
  match last_space m id with
  | Some s => let a := space_area m id in let hn := space_height_net m s in
              Some (mkSpaceP (s_kind s) (s_inside s) a (s_mult s) (s_height s) hn (a * hn))
  | None => None end.

Record wallg := mkWallG {
  wq_space : uuid; wq_next : option uuid; wq_bounds : boundary; wq_cons : uuid; wq_orient : orient;
  wq_tilt : tiltc; wq_agross : Q; wq_anet : Q; wq_mult : Q; wq_tenv : bool }.
Definition wall_geo_props (m : model) (id : uuid) : option wallg :=
  match last_wall m id with
  | Some w => Some (mkWallG (w_space w) (w_next w) (w_bounds w) (w_cons w) (geom_orient (w_geom w)) (wall_tilt w)
                            (wall_area w) (wall_area_net m w) (space_mult m (w_space w)) (is_tenv_id m id))
  | None => None end.

Record wing := mkWinG {
  nq_cons : uuid; nq_wall : uuid; nq_orient : orient; nq_tilt : tiltc; nq_area : Q; nq_mult : Q;
  nq_bounds : boundary; nq_tenv : bool }.
Definition win_geo_props (m : model) (id : uuid) : option wing :=
  match last_window m id with
  | Some w =>
      let wl := wall_geo_props m (win_wall w) in
      Some (mkWinG (win_cons w) (win_wall w)
              (match wl with Some x => wq_orient x | None => O_S end)
              (match wl with Some x => wq_tilt x | None => SIDE end)
              (win_area w)
              (match wl with Some x => wq_mult x | None => 1 end)
              (match wl with Some x => wq_bounds x | None => EXTERIOR end)
              (is_tenv_id m (win_wall w)))
  | None => None end.

(* ---- global figures ---- *)
Definition all_space_props (m : model) : list spacep :=
  flat_map (fun id => match space_props m id with Some p => [p] | None => [] end) (space_keys m).
Definition habitable (p : spacep) : bool := negb (spacetype_eqb (pp_kind p) UNINHABITED).

Definition a_ref_raw (m : model) : Q :=
  (qsum (map (fun p => if pp_inside p && habitable p then pp_area p * pp_mult p else 0) (all_space_props m))).
Definition vol_env_gross_raw (m : model) : Q :=
  (qsum (map (fun p => if pp_inside p then pp_area p * pp_height p * pp_mult p else 0) (all_space_props m))).
Definition vol_env_net_raw (m : model) : Q :=
  (qsum (map (fun p => if pp_inside p then pp_area p * pp_height_net p * pp_mult p else 0) (all_space_props m))).
(* net volume of the habitable spaces inside the envelope *)
Definition vol_env_inh_net_raw (m : model) : Q :=
  (qsum (map (fun p => if pp_inside p && habitable p then pp_area p * pp_height_net p * pp_mult p else 0)
                    (all_space_props m))).
Definition a_ref (m : model) : Q := round2 (a_ref_raw m).
Definition vol_env_gross (m : model) : Q := round2 (vol_env_gross_raw m).
Definition vol_env_net (m : model) : Q := round2 (vol_env_net_raw m).
Definition vol_env_inh_net (m : model) : Q := round2 (vol_env_inh_net_raw m).
Definition exposed_area (m : model) : Q :=
  qsum (map (fun id => match wall_geo_props m id with
                       | Some w => if wq_tenv w && is_ext_or_gnd (wq_bounds w) then wq_agross w * wq_mult w else 0
                       | None => 0 end) (wall_keys m)).
Definition compactness (m : model) : Q :=
  if qeqb (exposed_area m) 0 then 0 else vol_env_gross m / exposed_area m.

(* Model::global_ventilation_rate: all spaces in list order (duplicates included) *)
Definition vol_inh_net_model (m : model) : Q :=
  round2 (qsum (map (fun s => if s_inside s && negb (spacetype_eqb (s_kind s) UNINHABITED)
                              then space_area m (s_id s) * space_height_net m s * s_mult s else 0) (m_spaces m))).
(* 3.6 n / V; 0 without a flow or without a habitable volume inside the envelope to spread it over *)
Definition vent_of (g : option Q) (v : Q) : option Q :=
  match g with
  | None => Some 0
  | Some n => if qleb v 0 then Some 0 else Some ((36 # 10) * n / v)
  end.
Definition vent_props (m : model) : option Q := vent_of (mt_gvent (m_meta m)) (vol_env_inh_net m).
Definition vent_model (m : model) : option Q := vent_of (mt_gvent (m_meta m)) (vol_inh_net_model m).

Definition c_o_100 (m : model) : Q := if mt_new (m_meta m) then 16 else 29.

(* ---- correspondence ---- *)
Definition gtol2 (impl model : Q) : bool := close_rel (1 # 100000) ((1 # 200) + (1 # 10000)) impl model.
Definition gtol (impl model : Q) : bool := close_rel (1 # 10000) (1 # 10000) impl model.

Definition orient_eq (a b : orient) := orient_eqb a b.
Definition opt_id_eqb (a b : option uuid) : bool :=
  match a, b with Some x, Some y => N.eqb x y | None, None => true | _, _ => false end.

Definition wall_agree (m : model) (e : uuid * wallp) : bool :=
  match wall_geo_props m (fst e) with
  | None => false
  | Some g => let p := snd e in
      N.eqb (wp_space p) (wq_space g) && opt_id_eqb (wp_next p) (wq_next g) &&
      boundary_eqb (wp_bounds p) (wq_bounds g) && N.eqb (wp_cons p) (wq_cons g) &&
      orient_eqb (wp_orient p) (wq_orient g) && tiltc_eqb (wp_tilt p) (wq_tilt g) &&
      gtol (wp_agross p) (wq_agross g) &&
      gtol2 (wp_anet p) (match last_wall m (fst e) with Some w => wall_area_net_raw m w | None => 0 end) &&
      qeqb (wp_mult p) (wq_mult g) && Bool.eqb (wp_tenv p) (wq_tenv g)
  end.
Definition win_agree (m : model) (e : uuid * winp) : bool :=
  match win_geo_props m (fst e) with
  | None => false
  | Some g => let p := snd e in
      N.eqb (np_cons p) (nq_cons g) && N.eqb (np_wall p) (nq_wall g) &&
      orient_eqb (np_orient p) (nq_orient g) && tiltc_eqb (np_tilt p) (nq_tilt g) &&
      gtol (np_area p) (nq_area g) && qeqb (np_mult p) (nq_mult g) &&
      boundary_eqb (np_bounds p) (nq_bounds g) && Bool.eqb (np_tenv p) (nq_tenv g)
  end.
Definition space_agree (m : model) (e : uuid * spacep) : bool :=
  match space_props m (fst e) with
  | None => false
  | Some g => let p := snd e in
      spacetype_eqb (pp_kind p) (pp_kind g) && Bool.eqb (pp_inside p) (pp_inside g) &&
      gtol (pp_area p) (pp_area g) && qeqb (pp_mult p) (pp_mult g) && qeqb (pp_height p) (pp_height g) &&
      gtol2 (pp_height_net p) (pp_height_net g) &&
      close_rel (1 # 10000) ((1 # 10000) + (1 # 200) * pp_area g) (pp_volume_net p) (pp_volume_net g)
  end.

(* net volumes use the net height, whose construction thickness is rounded to 3 decimals: the
   volume may move by 0.0005 * (sum of area * multiplier) *)
Definition gtol2vol (m : model) (impl model : Q) : bool :=
  close_rel (1 # 100000) ((1 # 200) + (1 # 10000) +
     (6 # 10000) * qsum (map (fun p => Qabs (pp_area p * pp_mult p)) (all_space_props m))) impl model.

Record c11_case := mkC11 {
  c11_model : model; c11_props : eprops;
  c11_vent_props : option Q;     (* props.global.global_ventilation_rate (None: not finite) *)
  c11_vent_model : option Q;     (* Model::global_ventilation_rate() (None: not finite) *)
  c11_top : Q * Q * Q * Q;       (* area_ref, compactness, vol_env_net, vol_env_gross as repeated at top level *)
  c11_tilts : list (Q * tiltc * tiltc)   (* a tilt, its class by the project-file reader (hulc Wall::position) and by bemodel Tilt::from *) }.

(* areas are sums of f32 products rounded to 2 decimals: 1/200 + noise *)
Definition agree_C11 (c : c11_case) : N :=
  let m := c11_model c in let p := c11_props c in let g := ep_global p in
  first_fail [
    (1%N, forallb (wall_agree m) (ep_walls p) && Nat.eqb (length (ep_walls p)) (length (wall_keys m)));
    (2%N, forallb (win_agree m) (ep_windows p) && Nat.eqb (length (ep_windows p)) (length (window_keys m)));
    (3%N, forallb (space_agree m) (ep_spaces p) && Nat.eqb (length (ep_spaces p)) (length (space_keys m)));
    (4%N, gtol2 (gp_aref g) (a_ref_raw m));
    (5%N, gtol2 (gp_vol_gross g) (vol_env_gross_raw m) && gtol2vol m (gp_vol_net g) (vol_env_net_raw m));
    (6%N, gtol2vol m (gp_vol_inh_net g) (vol_env_inh_net_raw m));
    (7%N, close_rel (1 # 1000) (1 # 1000) (gp_compactness g) (compactness m));
    (8%N, opt_close (close_rel (1 # 1000) (1 # 10000)) (c11_vent_props c) (vent_props m));
    (9%N, opt_close (close_rel (1 # 1000) (1 # 10000)) (c11_vent_model c) (vent_model m));
    (* with unique space ids (theorem C11_vent_rates_agree) the reported rate is the one the U-value
       calculation uses *)
    (* both divide the same flow by the same volume rounded to 0.01 m3; the two sums are taken in different
       orders, so the rounded volumes may differ by one step: relative 0.01 / V on the rate *)
    (10%N, if Nat.eqb (length (space_keys m)) (length (m_spaces m))
           then let v := vol_inh_net_model m in
                let rel := if qltb (1 # 100) v then (1 # 100000) + (2 # 100) / v else 1 in
                opt_close (close_rel rel (1 # 1000000)) (c11_vent_props c) (c11_vent_model c) else true);
    (11%N, qeqb (gp_co100 g) (c_o_100 m));
    (12%N, match c11_top c with (a, cp, vn, vg) =>
             qeqb a (gp_aref g) && qeqb cp (gp_compactness g) && qeqb vn (gp_vol_net g) && qeqb vg (gp_vol_gross g) end);
    (13%N, forallb (fun e => match e with (t, ph, pm) => tiltc_eqb ph (hulc_position t) && tiltc_eqb pm (tilt_class t) end) (c11_tilts c)) ].
