(* the cases of C18: block-level BDL texts, KyGananciasSolares.txt files, NewBDL_O.tbl files, typed elements *)
From Coq Require Import NArith.
From CTE Require Import Model.BdlCase Model.KygCase Model.TblCase Model.TypedCase Model.BuildingCase.
Inductive c18any := CBdl (c : c18case) | CKyg (c : kygcase) | CTbl (c : tblcase) | CTyped (c : typedcase) | CBuilding (c : buildingcase).
Definition agree_C18any (c : c18any) : N :=
  match c with CBdl x => agree_C18 x | CKyg x => agree_C18K x | CTbl x => agree_C18T x | CTyped x => agree_C18Y x | CBuilding x => agree_C18B x end.
