(* The partial operations of the anchored code that the totality arguments know about, each with
   the reason why it cannot fail (or the model/theorem that covers it). A site of /repo that is not
   listed here breaks the obligation sites_covered (Properties/C14.v, C19.v). *)
From Coq Require Import String List Bool.
Import ListNotations.
Local Open Scope string_scope.

Inductive why :=
| Guarded        (* the same expression checks the condition first (is_some / len / range) *)
| TableComplete  (* lookup in an embedded table proved complete (C10_table_shape, C14_tables_complete) *)
| BvhInvariant   (* internal invariant of the two-phase BVH construction; exercised by C13's dumped trees *)
| LockHeld       (* lock().unwrap(): fails only after a panic while the lock was held; no such panic remains *)
| LoopBound      (* index below the length the loop runs to *)
| NonEmpty.      (* callers only pass non-empty polygons (collect_occluders filters them; reveals have 4 corners) *)

Definition site := (string * string * string * string)%type.
Definition site_eqb (a b : site) : bool :=
  match a, b with (f1, g1, k1, t1), (f2, g2, k2, t2) =>
    String.eqb f1 f2 && String.eqb g1 g2 && String.eqb k1 k2 && String.eqb t1 t2 end.

Definition c14_known : list (site * why) := [
  (("bemodel/src/energy/props.rs", "from", "unwrap", "loads.get(&s.loads.unwrap()"), Guarded);
  (("bemodel/src/energy/radiation.rs", "compute_fshobst", "unwrap", ".unwrap()"), TableComplete);
  (("bemodel/src/energy/radiation.rs", "compute_fshobst", "unwrap", "let julyraddata = JULYRADDATA.lock().unwrap()"), LockHeld);
  (("bemodel/src/energy/radiation.rs", "compute_fshobst", "index", "d.fshdir[i]"), LoopBound);
  (("bemodel/src/energy/radiation.rs", "compute_fshobst", "index", "d.dir[i]"), LoopBound);
  (("bemodel/src/energy/radiation.rs", "compute_fshobst", "index", "d.dif[i]"), LoopBound);
  (("bemodel/src/energy/raytracing/bvh.rs", "generate_node_list", "unwrap", "pending.pop().unwrap()"), Guarded);
  (("bemodel/src/energy/raytracing/bvh.rs", "generate_node_list", "unwrap", "let c_elems = c_maybe_elems.unwrap()"), BvhInvariant);
  (("bemodel/src/energy/raytracing/bvh.rs", "build_from_node_list", "unwrap", " side, maybe_parent_id, elems) = node_list.pop().unwrap()"), Guarded);
  (("bemodel/src/energy/raytracing/bvh.rs", "build_from_node_list", "unwrap", "let parent_id = maybe_parent_id.unwrap()"), BvhInvariant);
  (("bemodel/src/energy/raytracing/bvh.rs", "build_from_node_list", "unwrap", "let elements = elems.unwrap()"), BvhInvariant);
  (("bemodel/src/energy/raytracing/bvh.rs", "build_from_node_list", "unwrap", "let left = completed.remove(&id).unwrap()"), BvhInvariant);
  (("bemodel/src/energy/raytracing/bvh.rs", "build_from_node_list", "unwrap", "let right = completed.remove(&id).unwrap()"), BvhInvariant);
  (("bemodel/src/energy/raytracing/bvh.rs", "build_from_node_list", "unwrap", "let mut parent_node = pending.remove(&parent_id).unwrap()"), Guarded);
  (("bemodel/src/energy/raytracing/bvh.rs", "set_aabb_from_children", "unwrap", "let left_aabb = left.as_ref().unwrap()"), BvhInvariant);
  (("bemodel/src/energy/raytracing/bvh.rs", "set_aabb_from_children", "unwrap", "let right_aabb = right.as_ref().unwrap()"), BvhInvariant);
  (("bemodel/src/energy/raytracing/bvh.rs", "set_left", "panic", "BVHNode::Leaf { .. } =>panic!("), BvhInvariant);
  (("bemodel/src/energy/raytracing/bvh.rs", "set_right", "panic", "BVHNode::Leaf { .. } =>panic!("), BvhInvariant);
  (("bemodel/src/energy/raytracing/ray.rs", "intersects_with_data", "index", "polygon[0]"), NonEmpty);
  (("bemodel/src/energy/raytracing/ray.rs", "point_in_poly", "index", "poly[poly.len()-1]"), NonEmpty);
  (("bemodel/src/energy/indicators/qsoljul.rs", "from", "unwrap", "let radjul = *totradjul.get(&orientation).unwrap()"), TableComplete);
  (("bemodel/src/types/opaques.rs", "to_polygon_coords_matrix", "index", "self.polygon[0]"), Guarded);
  (("bemodel/src/types/opaques.rs", "to_polygon_coords_matrix", "index", "self.polygon[1]"), Guarded);
  (("bemodel/src/types/geometry.rs", "area", "index", "self[(i+1)%n]"), LoopBound);
  (("bemodel/src/types/geometry.rs", "perimeter", "index", "self[(i+1)%n]"), LoopBound);
  (("bemodel/src/types/geometry.rs", "normal", "index", "self[1]"), Guarded);
  (("bemodel/src/types/geometry.rs", "normal", "index", "self[0]"), Guarded);
  (("bemodel/src/types/geometry.rs", "normal", "index", "self[2]"), Guarded);
  (("bemodel/src/checks.rs", "check", "unwrap", "xt_to.is_some() && !spaceids.contains(&w.next_to.unwrap()"), Guarded);
  (("bemodel/src/checks.rs", "check", "unwrap", "w.next_to.unwrap()"), Guarded);
  (("bemodel/src/climatedata/mod.rs", "total_radiation_in_july_by_orientation", "unwrap", ".unwrap()"), LockHeld);
  (("bemodel/src/climatedata/mod.rs", "total_radiation_in_july_by_orientation", "index", "e.dir[6]"), TableComplete);
  (("bemodel/src/climatedata/mod.rs", "total_radiation_in_july_by_orientation", "index", "e.dif[6]"), TableComplete)
].

Definition covered (known : list (site * why)) (ops : list site) : bool :=
  forallb (fun s => existsb (fun k => site_eqb s (fst k)) known) ops.
Definition uncovered (known : list (site * why)) (ops : list site) : list site :=
  filter (fun s => negb (existsb (fun k => site_eqb s (fst k)) known)) ops.
