(* EN ISO 13370 ground formulas over R, and the tactic that certifies one implementation value
   against them with interval arithmetic (kernel-checked at Qed). *)
From Coq Require Import ZArith NArith QArith Qabs Reals List.
From Interval Require Import Tactic.
From CTE Require Import Base.Num Model.UValue.
Import ListNotations.
Local Open Scope R_scope.

(* perimeter insulation: psi = -lambda/pi (ln(1 + D/d_t) - ln(1 + D/(d_t + d'))) *)
Definition psi_ge (dd dt d1 : R) : R := - 2 / PI * (ln (1 + dd / dt) - ln (1 + dd / (dt + d1))).
(* slab, well insulated or not (B_limit = d_t + z/2 against B') *)
Definition ubf_poor (blim cdim : R) : R := (2 * 2 / (PI * cdim + blim)) * ln (1 + PI * cdim / blim).
Definition ubf_well (blim cdim : R) : R := 2 / (0.457 * cdim + blim).
Definition slab_u (poor : bool) (blim cdim dd dt d1 : R) : R :=
  (if poor then ubf_poor blim cdim else ubf_well blim cdim) + 2 * psi_ge dd dt d1 / cdim.
(* basement wall: U_bw over the buried depth z *)
Definition ubw (z dw dtm : R) : R := (2 * 2 / (PI * z)) * (1 + 0.5 * dtm / (dtm + z)) * ln (z / dw + 1).
Definition bwall_u (z dw dtm h hnet uw : R) : R := (z * ubw z dw dtm + h * uw) / hnet.

Definition slab_ok (poor : bool) (blim cdim dd dt d1 impl tol : Q) : Prop :=
  Rabs (slab_u poor (Q2R blim) (Q2R cdim) (Q2R dd) (Q2R dt) (Q2R d1) - Q2R impl) <= Q2R tol.
Definition bwall_ok (buried_only : bool) (z dw dtm h hnet uw impl tol : Q) : Prop :=
  Rabs ((if buried_only then ubw (Q2R z) (Q2R dw) (Q2R dtm)
         else bwall_u (Q2R z) (Q2R dw) (Q2R dtm) (Q2R h) (Q2R hnet) (Q2R uw)) - Q2R impl) <= Q2R tol.

(* fully decided requests: every branch condition is rational and already resolved *)
Inductive dreq :=
| DSlab (poor : bool) (blim cdim dd dt d1 impl tol : Q)
| DBWall (buried_only : bool) (z dw dtm h hnet uw impl tol : Q).

Local Open Scope Q_scope.
Definition f32_eps : Q := 1 # 8388608.
Definition decide_req (r : ureq) : dreq :=
  match r with
  | RSlab blim cdim dd dt d1 impl =>
      DSlab (qltb blim cdim) blim cdim dd dt d1 impl (Qred ((1 # 200) + (1 # 10000) + (1 # 1000) / cdim))
  | RBWall z uw dt hnet impl =>
      let dw := Qred (LAMBDA_GND / uw) in
      let dtm := qmin dw dt in
      let h := if qltb z hnet then Qred (hnet - z) else 0 in
      let buried_only := qltb (Qabs h) f32_eps in
      DBWall buried_only z dw dtm h hnet uw impl (if buried_only then (1 # 200) + (1 # 10000) else (1 # 100) + (1 # 10000))
  end.
Definition decided (c : c06_case) : list dreq := map decide_req (requests c).

Definition dreq_ok (d : dreq) : Prop :=
  match d with
  | DSlab poor b c dd dt d1 i tol => slab_ok poor b c dd dt d1 i tol
  | DBWall bo z dw dtm h hn uw i tol => bwall_ok bo z dw dtm h hn uw i tol
  end.

(* certify a list of decided requests; prints one line per case *)
Ltac cert_one d :=
  assert (dreq_ok d) by
    (cbv [dreq_ok slab_ok bwall_ok slab_u bwall_u ubw ubf_poor ubf_well psi_ge Q2R Qnum Qden]; interval).
Ltac cert_list k l :=
  lazymatch l with
  | nil => idtac "C06CERT" k "OK"
  | cons ?d ?t => first [ cert_one d; cert_list k t | idtac "C06CERT" k "FAIL" d ]
  end.
Ltac cert_case k c :=
  let l := eval vm_compute in (decided c) in
  let n := eval vm_compute in (N.of_nat (length l)) in
  let nb := eval vm_compute in (map (fun b => N.of_nat (length (filter (fun w => N.eqb (branch_of c w) b) (Model.BModel.m_walls (c06_model c)))))
                                     [0; 1; 2; 3; 4; 5; 6; 7]%N) in
  idtac "C06REQS" k n nb; cert_list k l.
