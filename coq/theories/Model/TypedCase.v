(* C18 correspondence for the typed elements: from the text, the model's blocks and the typed elements built
   from them, against what hulc::bdl::Data::new hands out (materials, glazings, frames, windows, shades) *)
From Coq Require Import NArith ZArith QArith Qabs Bool List String.
From CTE Require Import Base.Num Model.Bdl Model.BdlCase.
From CTE Require Import Model.BdlTyped.
From CTEGen Require Import BdlTypes.
Import ListNotations.

Record imaterial := mkIM { im_name : string; im_group : string;
  im_props : option (option ival * ival * ival * ival * option ival); im_resistance : option ival }.
Record iglass := mkIG { ig_name : string; ig_group : string; ig_conductivity : ival; ig_ggln : ival }.
Record iframe := mkIF { if_name : string; if_group : string; if_conductivity : ival; if_absorptivity : ival; if_width : ival }.
Record iwindow := mkIWn { iwn_name : string; iwn_wall : string; iwn_gap : string; iwn_vals : list ival }.   (* x y height width setback *)
Record ishade := mkISh { ish_name : string; ish_tran : ival; ish_refl : ival; ish_geometry : option (list ival); ish_vertices : option (list (list ival)) }.
Record idata := mkID { id_materials : list imaterial; id_glasses : list iglass; id_frames : list iframe;
                       id_windows : list iwindow; id_shades : list ishade }.
Inductive idres := DOk (d : idata) | DErr | DPanic.
Record typedcase := mkTyC { ty_lines : list string; ty_impl : idres }.

Definition tk (t : str) (i : ival) : bool := match parse_float t with Some f => num_close f i | None => false end.
Definition tn (n : tnum) (i : ival) : bool :=
  match n, i with NTok t, _ => tk t i | NConst q, INum x => Qeq_bool q x | _, _ => false end.
Definition otk (o : option str) (i : option ival) : bool :=
  match o, i with None, None => true | Some t, Some x => tk t x | _, _ => false end.
Fixpoint tks (a : list str) (b : list ival) : bool :=
  match a, b with [], [] => true | x :: ra, y :: rb => tk x y && tks ra rb | _, _ => false end.
Fixpoint tkss (a : list (list str)) (b : list (list ival)) : bool :=
  match a, b with [], [] => true | x :: ra, y :: rb => tks x y && tkss ra rb | _, _ => false end.
(* g_gln = 0.86 x SHADING-COEF in f32 *)
Definition ggln_close (tok : str) (i : ival) : bool :=
  match parse_float tok, i with
  | Some (FNum neg m e), INum q =>
      if Z.ltb 60 (Z.abs e) then true
      else let x := exact_of neg m e * (86 # 100) in qleb (Qabs (q - x)) (Qabs x * (1 # 2097152) + (1 # (Pos.pow 2 100)))
  | Some _, _ => true
  | None, _ => false
  end.

Fixpoint all_ok {A} (l : list (res A)) : option (list A) :=
  match l with
  | [] => Some []
  | Ok x :: r => match all_ok r with Some t => Some (x :: t) | None => None end
  | Err _ :: _ => None
  end.
Definition of_type (t : N) (bs : list block) : list block := filter (fun b => N.eqb (b_type b) t) bs.
(* maps keyed by name: the last element of a name wins *)
Fixpoint last_named {A} (name : A -> str) (n : str) (l : list A) : option A :=
  match l with [] => None | x :: r => match last_named name n r with Some y => Some y | None => if str_eqb (name x) n then Some x else None end end.
Fixpoint distinct_n (l : list str) : nat :=
  match l with [] => O | x :: r => if existsb (str_eqb x) r then distinct_n r else S (distinct_n r) end.

Definition material_ok (ms : list tmaterial) (i : imaterial) : bool :=
  match last_named tm_name (s2l (im_name i)) ms with
  | Some m =>
      str_eqb (tm_group m) (s2l (im_group i)) &&
      match tm_props m, im_props i with
      | None, None => true
      | Some (th, c, d, sh, v), Some (th', c', d', sh', v') => otk th th' && tk c c' && tk d d' && tn sh sh' && otk v v'
      | _, _ => false
      end && otk (tm_resistance m) (im_resistance i)
  | None => false
  end.
Definition glass_ok (gs : list tglass) (i : iglass) : bool :=
  match last_named tg_name (s2l (ig_name i)) gs with
  | Some g => str_eqb (tg_group g) (s2l (ig_group i)) && tk (tg_conductivity g) (ig_conductivity i) && ggln_close (tg_shading_coef g) (ig_ggln i)
  | None => false
  end.
Definition frame_ok (fs : list tframe) (i : iframe) : bool :=
  match last_named tf_name (s2l (if_name i)) fs with
  | Some f => str_eqb (tf_group f) (s2l (if_group i)) && tk (tf_conductivity f) (if_conductivity i) &&
              tk (tf_absorptivity f) (if_absorptivity i) && tk (tf_width f) (if_width i)
  | None => false
  end.
Fixpoint windows_ok (ws : list twindow) (is : list iwindow) : bool :=
  match ws, is with
  | [], [] => true
  | w :: rw, i :: ri =>
      str_eqb (tw_name w) (s2l (iwn_name i)) && str_eqb (tw_wall w) (s2l (iwn_wall i)) && str_eqb (tw_gap w) (s2l (iwn_gap i)) &&
      tks [tw_x w; tw_y w; tw_height w; tw_width w; tw_setback w] (iwn_vals i) && windows_ok rw ri
  | _, _ => false
  end.
Fixpoint shades_ok (ss : list tshade) (is : list ishade) : bool :=
  match ss, is with
  | [], [] => true
  | s :: rs, i :: ri =>
      str_eqb (tsh_name s) (s2l (ish_name i)) && tk (tsh_tran s) (ish_tran i) && tk (tsh_refl s) (ish_refl i) &&
      match tsh_geometry s, ish_geometry i with None, None => true | Some a, Some b => tks a b | _, _ => false end &&
      match tsh_vertices s, ish_vertices i with None, None => true | Some a, Some b => tkss a b | _, _ => false end &&
      shades_ok rs ri
  | _, _ => false
  end.

Definition agree_C18Y (c : typedcase) : N :=
  match build_blocks (text_of (ty_lines c)) with
  | Err _ => match ty_impl c with DErr => 0 | DPanic => 4 | DOk _ => 3 end
  | Ok bs =>
      match all_ok (map material_of (of_type BT_Material bs)), all_ok (map glass_of (of_type BT_GlassType bs)),
            all_ok (map frame_of (of_type BT_NameFrame bs)), all_ok (map window_of (of_type BT_Window bs)),
            all_ok (map shade_of (of_type BT_BuildingShade bs)) with
      | Some ms, Some gs, Some fs, Some ws, Some ss =>
          match ty_impl c with
          | DPanic => 4
          | DErr => 2
          | DOk d =>
              if negb (Nat.eqb (distinct_n (map tm_name ms)) (List.length (id_materials d)) && forallb (material_ok ms) (id_materials d)) then 40
              else if negb (Nat.eqb (distinct_n (map tg_name gs)) (List.length (id_glasses d)) && forallb (glass_ok gs) (id_glasses d)) then 41
              else if negb (Nat.eqb (distinct_n (map tf_name fs)) (List.length (id_frames d)) && forallb (frame_ok fs) (id_frames d)) then 42
              else if negb (windows_ok ws (id_windows d)) then 43
              else if negb (shades_ok ss (id_shades d)) then 44
              else 0
          end
      | _, _, _, _, _ => match ty_impl c with DErr => 0 | DPanic => 4 | DOk _ => 3 end
      end
  end%N.
