(* C03: where the converted model must put every element, from its source definition.
   Angles enter as (cos, sin) pairs; BDL angles (building deviation, space azimuth) turn clockwise
   seen from above, the model's azimuth (EN ISO 52016-1, from south) turns counter-clockwise. *)
From Coq Require Import ZArith QArith Qabs Bool List.
From CTE Require Import Base.Num Model.Aabb.
Import ListNotations.
Local Open Scope Q_scope.

Definition cs := (Q * Q)%type.                 (* (cos a, sin a) *)
Definition rotz (r : cs) (p : vec3) : vec3 :=  (* counter-clockwise by a *)
  mkV (fst r * vx p - snd r * vy p) (snd r * vx p + fst r * vy p) (vz p).
Definition cw (r : cs) : cs := (fst r, - snd r).   (* the same angle, clockwise *)
Definition compose (a b : cs) : cs := (fst a * fst b - snd a * snd b, snd a * fst b + fst a * snd b).
Definition unit_err (r : cs) : Q := Qabs (fst r * fst r + snd r * snd r - 1).

Record src_space := mkSS {
  ss_origin : vec3;            (* X, Y, Z of the space in building coordinates *)
  ss_az : cs;                  (* its own AZIMUTH (clockwise) *)
  ss_height : Q;
  ss_poly : list (Q * Q)       (* outline, counter-clockwise, space coordinates *)
}.
(* a point of the space, in building coordinates, then turned by the building's deviation *)
Definition to_building (s : src_space) (q : vec3) : vec3 := vadd (ss_origin s) (rotz (cw (ss_az s)) q).
Definition to_global (dev : cs) (s : src_space) (q : vec3) : vec3 := rotz (cw dev) (to_building s q).

Definition nth_pt (l : list (Q * Q)) (n : nat) : Q * Q := nth n l (0, 0).
Definition lift (p : Q * Q) (z : Q) : vec3 := mkV (fst p) (snd p) z.

(* wall on the edge that starts at vertex n (0-based), offset (ox, oy, oz) within the space *)
Definition edge_wall_corners (dev : cs) (s : src_space) (n : nat) (off : vec3) : list vec3 :=
  let p1 := nth_pt (ss_poly s) n in
  let p2 := nth_pt (ss_poly s) (Nat.modulo (S n) (length (ss_poly s))) in
  let g := fun p z => to_global dev s (vadd (lift p z) off) in
  [g p1 0; g p2 0; g p2 (ss_height s); g p1 (ss_height s)].
(* outward direction of that edge (not normalised): the edge vector turned by -90 degrees *)
Definition edge_outward (dev : cs) (s : src_space) (n : nat) : vec3 :=
  let p1 := nth_pt (ss_poly s) n in
  let p2 := nth_pt (ss_poly s) (Nat.modulo (S n) (length (ss_poly s))) in
  rotz (cw dev) (rotz (cw (ss_az s)) (mkV (snd p2 - snd p1) (- (fst p2 - fst p1)) 0)).
(* floor / ceiling taken from the outline, at height z above the space origin *)
Definition slab_corners (dev : cs) (s : src_space) (z : Q) (off : vec3) : list vec3 :=
  map (fun p => to_global dev s (vadd (lift p z) off)) (ss_poly s).

Fixpoint shoelace2 (first prev : Q * Q) (l : list (Q * Q)) : Q :=
  match l with
  | [] => fst prev * snd first - fst first * snd prev
  | p :: r => (fst prev * snd p - fst p * snd prev) + shoelace2 first p r
  end.
Definition poly_area (l : list (Q * Q)) : Q :=
  match l with [] => 0 | p :: r => Qabs (shoelace2 p p r) / 2 end.
Definition signed_area2 (l : list (Q * Q)) : Q :=
  match l with [] => 0 | p :: r => shoelace2 p p r end.

(* ---------- comparison with what the implementation produced ---------- *)
Definition close (tol : Q) (a b : vec3) : bool :=
  qleb (Qabs (vx a - vx b)) tol && qleb (Qabs (vy a - vy b)) tol && qleb (Qabs (vz a - vz b)) tol.
Fixpoint all_close (tol : Q) (a b : list vec3) : bool :=
  match a, b with
  | [], [] => true
  | x :: ra, y :: rb => close tol x y && all_close tol ra rb
  | _, _ => false
  end.
(* same points, any order / starting vertex / orientation *)
Definition same_points (tol : Q) (a b : list vec3) : bool :=
  Nat.eqb (length a) (length b) &&
  forallb (fun x => existsb (close tol x) b) a && forallb (fun y => existsb (close tol y) a) b.
Definition cross (a b : vec3) : vec3 :=
  mkV (vy a * vz b - vz a * vy b) (vz a * vx b - vx a * vz b) (vx a * vy b - vy a * vx b).
Definition norm1 (a : vec3) : Q := Qabs (vx a) + Qabs (vy a) + Qabs (vz a).
(* n (unit, from the implementation) points along d (not normalised): parallel and same sense *)
Definition same_direction (n d : vec3) : bool :=
  qltb 0 (vdot n d) && qleb (norm1 (cross n d)) ((1 # 100) * norm1 d).

Definition cm : Q := 1 # 100.

(* rectangular BUILDING-SHADE: X, Y, Z is its lower-left corner seen from outside, WIDTH runs along
   its local x axis, HEIGHT along its local y axis; AZIMUTH (clockwise from north) and TILT give the
   normal.  In the model's convention the azimuth is 180 - (AZIMUTH + deviation), counter-clockwise
   from south, and the local frame is Rz(azimuth) Rx(tilt) *)
Definition south_ccw (a : cs) : cs := (- fst a, snd a).       (* 180 degrees minus a clockwise angle *)
Definition rect_shade_corners (dev az tilt : cs) (origin : vec3) (w h : Q) : list vec3 :=
  let g := south_ccw (compose az dev) in
  let o := rotz (cw dev) origin in
  let pt := fun (x y : Q) => vadd o (rotz g (mkV x (y * fst tilt) (y * snd tilt))) in
  [pt 0 0; pt w 0; pt w h; pt 0 h].

(* a wall / roof given by its own polygon: X, Y, Z is the polygon's origin in space coordinates, AZIMUTH
   (clockwise from the space's north) and TILT give its plane; the polygon is in that plane's frame *)
Definition poly_wall_corners (dev : cs) (s : src_space) (az tilt : cs) (w : vec3) (poly : list (Q * Q)) : list vec3 :=
  map (fun p => to_global dev s (vadd w (rotz (south_ccw az) (mkV (fst p) (snd p * fst tilt) (snd p * snd tilt))))) poly.

Inductive c03case :=
| PolyWall (dev : cs) (s : src_space) (az tilt : cs) (w : vec3) (poly : list (Q * Q)) (impl : list vec3)
| RectShade (dev az tilt : cs) (origin : vec3) (w h : Q) (impl : list vec3)
| EdgeWall (dev : cs) (s : src_space) (n : nat) (off : vec3) (impl : list vec3) (impl_normal : vec3)
| Slab (dev : cs) (s : src_space) (z : Q) (off : vec3) (impl : list vec3)
| Points (dev : cs) (src impl : list vec3)        (* shade given by vertices: building coordinates -> global *)
| Numbers (tol : Q) (src impl : list Q)           (* window sizes / offsets / setback, areas *)
| Turned (e : cs) (before after : list vec3) (az_before az_after : list cs) (inv_before inv_after : list Q).
                                                  (* the same project with its deviation increased by e *)

Fixpoint nums_close (tol : Q) (a b : list Q) : bool :=
  match a, b with
  | [], [] => true
  | x :: ra, y :: rb => qleb (Qabs (x - y)) (tol * (1 + Qabs x)) && nums_close tol ra rb
  | _, _ => false
  end.
Fixpoint cs_close (a b : list cs) : bool :=
  match a, b with
  | [], [] => true
  | x :: ra, y :: rb => qleb (Qabs (fst x - fst y)) (1 # 1000) && qleb (Qabs (snd x - snd y)) (1 # 1000) && cs_close ra rb
  | _, _ => false
  end.

Definition trig_ok (r : cs) : bool := qleb (unit_err r) (1 # 1000000).

Definition agree_C03 (c : c03case) : N :=
  match c with
  | PolyWall dev s az tilt w poly impl =>
      if negb (trig_ok dev && trig_ok (ss_az s) && trig_ok az && trig_ok tilt) then 9
      else if all_close cm (poly_wall_corners dev s az tilt w poly) impl then 0 else 11
  | RectShade dev az tilt origin w h impl =>
      if negb (trig_ok dev && trig_ok az && trig_ok tilt) then 9
      else if all_close cm (rect_shade_corners dev az tilt origin w h) impl then 0 else 10
  | EdgeWall dev s n off impl nrm =>
      if negb (trig_ok dev && trig_ok (ss_az s)) then 9
      else if negb (all_close cm (edge_wall_corners dev s n off) impl) then 1
      else if negb (same_direction nrm (edge_outward dev s n)) then 2 else 0
  | Slab dev s z off impl =>
      if negb (trig_ok dev && trig_ok (ss_az s)) then 9
      else if same_points cm (slab_corners dev s z off) impl then 0 else 3
  | Points dev src impl =>
      if negb (trig_ok dev) then 9 else if all_close cm (map (rotz (cw dev)) src) impl then 0 else 4
  | Numbers tol src impl => if nums_close tol src impl then 0 else 5
  | Turned e before after azb aza ib ia =>
      if negb (trig_ok e) then 9
      else if negb (all_close cm (map (rotz (cw e)) before) after) then 6
      else if negb (cs_close (map (fun a => compose a (cw e)) azb) aza) then 7
      else if negb (nums_close (1 # 1000) ib ia) then 8 else 0
  end%N.
