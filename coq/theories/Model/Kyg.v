(* C18: the KyGananciasSolares.txt parser of hulc (hulc/src/kyg.rs) over lists of code points:
   line classification, field splitting at ';', decimal comma, the old and new column layouts. *)
From Coq Require Import NArith ZArith Bool List String.
From CTE Require Import Model.Bdl.
Import ListNotations.
Local Open Scope N_scope.

Definition semi : N := 59.
(* "1,25" is read as 1.25 *)
Definition decimal_point (s : str) : str := map (fun c => if c =? 44 then 46 else c) s.
Definition fields (l : str) : list str := map trim (split_on semi l).

Record kwall := mkKW { kw_name : str; kw_a : str; kw_u : str; kw_btrx : str; kw_new : option (str * str * str) }.
Record kwin := mkKN { kn_name : str; kn_a : str; kn_u : str; kn_orient : str; kn_ff : str;
                      kn_new : option (str * str * str * str * str) }.   (* ggln, unknown1, unknown2, infcoeff, cons *)
Record ktb := mkKT { kt_l : str; kt_psi : str; kt_name : str; kt_sisdim : str }.
Record kgain := mkKG { kg_name : str; kg_az : str; kg_htot : str; kg_h3 : str }.

Inductive kline :=
| LSkip
| LWall (w : kwall)
| LWin (w : kwin)
| LTb (t : ktb)
| LGain (g : kgain)
| LK (k : str)
| LFactor (v : str)
| LErr (code : N).

Definition num_ok (s : str) : bool := is_number (decimal_point s).
Definition all_num (l : list str) : bool := forallb num_ok l.
Definition replace_O_W (s : str) : str := map (fun c => if c =? 79 then 87 else c) s.

Definition s_muro := s2l "Muro".
Definition s_ventana := s2l "Ventana".
Definition s_pptt := s2l "PPTT".
Definition s_coefk := s2l "Coeficiente K".
Definition digits_0_8 := s2l "012345678".

(* one (already trimmed) line *)
Definition parse_kline (l : str) : kline :=
  match l with
  | [] => LSkip
  | c :: _ =>
      if c =? 35 then LSkip
      else if prefixb s_muro l || prefixb s_ventana l || prefixb s_pptt l then
        let vv := fields l in
        match vv with
        | tipo :: rest =>
            if str_eqb tipo s_ventana then
              match rest with
              | n :: a :: u :: o :: ff :: more =>
                  if negb (all_num [a; u; ff]) then LErr 2
                  else match more with
                       | g :: u1 :: u2 :: inf :: cn :: _ =>
                           if all_num [g; u1; u2; inf] then LWin (mkKN n a u (replace_O_W o) ff (Some (g, u1, u2, inf, cn))) else LErr 2
                       | _ => LWin (mkKN n a u (replace_O_W o) ff None)
                       end
              | _ => LErr 1
              end
            else if str_eqb tipo s_muro then
              match rest with
              | n :: a :: u :: b :: more =>
                  if negb (all_num [a; u; b]) then LErr 2
                  else match more with
                       | t :: o :: c :: _ => LWall (mkKW n a u b (Some (t, o, c)))
                       | _ => LWall (mkKW n a u b None)
                       end
              | _ => LErr 1
              end
            else if str_eqb tipo s_pptt then
              match rest with
              | lg :: psi :: n :: more =>
                  if negb (all_num [lg; psi]) then LErr 2
                  else LTb (mkKT lg psi n (match more with sd :: _ => sd | [] => [] end))
              | _ => LErr 1
              end
            else LSkip
        | [] => LSkip
        end
      else if c =? quote then
        match fields l with
        | n :: az :: a :: ht :: h1 :: h2 :: h3 :: gn :: _ =>
            (* these columns are read without the decimal-comma replacement *)
            if forallb is_number [az; a; ht; h1; h2; h3; gn] then LGain (mkKG (trim_ch quote n) az ht h3) else LErr 2
        | _ => LErr 1
        end
      else if prefixb s_coefk l then
        match split_on semi l with
        | _ :: k :: _ => if num_ok (trim k) then LK (trim k) else LErr 2
        | _ => LErr 3
        end
      else if existsb (N.eqb c) digits_0_8 then
        match split_on semi l with
        | _ :: v :: _ => if num_ok (trim v) then LFactor (trim v) else LErr 2
        | _ => LErr 3
        end
      else LSkip
  end.

Definition klines (text : str) : list kline := map (fun l => parse_kline (trim l)) (lines_of text).

(* what the parser hands out: the last line of a name wins (map insert), gains are joined to windows at the end *)
Record kyg := mkKyg { ky_walls : list kwall; ky_wins : list kwin; ky_tbs : list ktb; ky_gains : list kgain;
                      ky_k : option str; ky_factors : list str }.
Fixpoint first_err (l : list kline) : option N :=
  match l with [] => None | LErr e :: _ => Some e | _ :: r => first_err r end.
Definition collect (l : list kline) : kyg :=
  mkKyg (flat_map (fun x => match x with LWall w => [w] | _ => [] end) l)
        (flat_map (fun x => match x with LWin w => [w] | _ => [] end) l)
        (flat_map (fun x => match x with LTb t => [t] | _ => [] end) l)
        (flat_map (fun x => match x with LGain g => [g] | _ => [] end) l)
        (last (flat_map (fun x => match x with LK k => [Some k] | _ => [] end) l) None)
        (flat_map (fun x => match x with LFactor v => [v] | _ => [] end) l).
Definition parse_kyg (text : str) : res kyg :=
  let ls := klines text in
  match first_err ls with Some e => Err e | None => Ok (collect ls) end.

(* ---------- printers of the two layouts (spec side) ---------- *)
Definition sep (l : list str) : str := join [semi] l.
Definition print_wall (w : kwall) : str :=
  sep ([s_muro; kw_name w; kw_a w; kw_u w; kw_btrx w] ++ match kw_new w with Some (t, o, c) => [t; o; c] | None => [] end).
Definition print_win (w : kwin) : str :=
  sep ([s_ventana; kn_name w; kn_a w; kn_u w; kn_orient w; kn_ff w] ++
       match kn_new w with Some (g, u1, u2, i, c) => [g; u1; u2; i; c] | None => [] end).
Definition print_tb (t : ktb) : str :=
  sep ([s_pptt; kt_l t; kt_psi t; kt_name t] ++ match kt_sisdim t with [] => [] | sd => [sd] end).
