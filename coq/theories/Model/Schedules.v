(* Schedules: expansion of a yearly schedule into daily schedule ids, conversion of HULC end-date
   schedules, occupied hours and mean internal loads. *)
From Coq Require Import ZArith NArith QArith Qabs Bool List Arith.
From CTE Require Import Base.Num Model.BModel Model.Props.
Import ListNotations.

(* ---------- SchedulesDb::get_year_as_day_sch ---------- *)
Definition week_days (w : sched) : list uuid :=
  flat_map (fun v => repeat (fst v) (N.to_nat (snd v))) (sc_values w).

Definition get_week (db : scheddb) (id : uuid) : option sched :=
  find (fun s => N.eqb (sc_id s) id) (sch_week db).
Definition get_year (db : scheddb) (id : uuid) : option sched :=
  find (fun s => N.eqb (sc_id s) id) (sch_year db).
Definition week_days_of (db : scheddb) (id : uuid) : list uuid :=
  match get_week db id with Some w => week_days w | None => [] end.

(* l.into_iter().cycle().skip(skip).take(count) *)
Definition cyc_take (l : list uuid) (skip count : nat) : list uuid :=
  match l with
  | [] => []
  | _ => map (fun k => nth ((skip + k) mod length l) l 0%N) (seq 0 count)
  end.

Fixpoint expand_from (db : scheddb) (vals : list (uuid * N)) (cur : nat) : list uuid :=
  match vals with
  | [] => []
  | (wid, c) :: r =>
      cyc_take (week_days_of db wid) (cur mod 7) (N.to_nat c) ++ expand_from db r (cur + N.to_nat c)
  end.

Definition expand (db : scheddb) (id : uuid) : list uuid :=
  match get_year db id with Some y => expand_from db (sc_values y) 0 | None => [] end.

(* ---------- conversion of HULC schedules ---------- *)
(* the code's day_of_year (f32 arithmetic, exact on this range), over Z with floor division *)
Definition day_of_year (day month : Z) : Z :=
  (275 * month / 9 - 2 * ((month + 9) / 12) + day - 30)%Z.

Definition month_len (m : Z) : Z :=
  match m with
  | 1 => 31 | 2 => 28 | 3 => 31 | 4 => 30 | 5 => 31 | 6 => 30
  | 7 => 31 | 8 => 31 | 9 => 30 | 10 => 31 | 11 => 30 | 12 => 31 | _ => 0 end%Z.
Fixpoint cum_days_nat (m : nat) : Z :=
  match m with O => 0%Z | S k => (cum_days_nat k + month_len (Z.of_nat (S k)))%Z end.
(* days before the first day of month m *)
Definition cum_days (m : Z) : Z := cum_days_nat (Z.to_nat (m - 1)).

(* period lengths from end days-of-year: differences of 0 :: ends *)
Fixpoint periods_from (prev : Z) (ends : list Z) : list Z :=
  match ends with [] => [] | e :: r => (e - prev)%Z :: periods_from e r end.
Definition periods (ends : list Z) : list Z := periods_from 0 ends.

(* run-length encoding of the 7 daily names of a HULC weekly schedule (one name -> 7 repetitions) *)
Fixpoint rle_from (cur : uuid) (n : N) (l : list uuid) : list (uuid * N) :=
  match l with
  | [] => [(cur, n)]
  | x :: r => if N.eqb x cur then rle_from cur (n + 1) r else (cur, n) :: rle_from x 1 r
  end.
Definition week_runs (names : list uuid) : option (list (uuid * N)) :=
  match names with
  | [x] => Some [(x, 7%N)]
  | x :: r => if Nat.eqb (length names) 7 then Some (rle_from x 1 r) else None
  | [] => None
  end.
Definition day_values (vals : list Q) : option (list Q) :=
  match vals with
  | [x] => Some (repeat x 24)
  | _ => if Nat.eqb (length vals) 24 then Some vals else None
  end.

(* ---------- occupied hours and mean loads (EnergyProps) ---------- *)
Definition lookup_last {A} (id : uuid) (l : list (uuid * A)) : option A := lookup id (rev l).
Definition day_entry (db : scheddb) (id : uuid) : option schedday :=
  find (fun d => N.eqb (sd_id d) id) (rev (sch_day db)).

(* |v| > 100 * f32::EPSILON *)
Definition nonzero (v : Q) : bool := qltb (100 * (1 # 8388608)) (Qabs v).
Definition day_nonzero (db : scheddb) (id : uuid) (h : nat) : bool :=
  match day_entry db id with
  | Some d => match nth_error (sd_values d) h with Some v => nonzero v | None => false end
  | None => false
  end.

Definition hours24 : list nat := seq 0 24.
(* hours of one day in which at least one of the day schedules is non-zero *)
Definition hours_of_day (db : scheddb) (ids : list uuid) : nat :=
  length (filter (fun h => existsb (fun id => day_nonzero db id h) ids) hours24).

Definition load_entry (m : model) (id : uuid) : option loads :=
  find (fun l => N.eqb (ld_id l) id) (rev (m_loads m)).

Record spq := mkSpq { sq_kind : spacetype; sq_inside : bool; sq_area : Q; sq_mult : Q; sq_loads : option uuid }.
Definition occupied (s : spq) : bool :=
  negb (spacetype_eqb (sq_kind s) UNINHABITED) && sq_inside s &&
  match sq_loads s with Some _ => true | None => false end.

(* people schedules of the occupied spaces (spaces in key order) *)
Definition occ_people_schedules (m : model) (sps : list (uuid * spq)) : list uuid :=
  flat_map (fun s => if occupied (snd s) then
                       match sq_loads (snd s) with
                       | Some l => match load_entry m l with
                                   | Some ld => match ld_people_sch ld with Some y => [y] | None => [] end
                                   | None => [] end
                       | None => [] end
                     else []) sps.

Definition nth_day (l : list uuid) (d : nat) : list uuid :=
  match nth_error l d with Some x => [x] | None => [] end.

Definition hours_in_use (m : model) (sps : list (uuid * spq)) : N :=
  let ys := map (expand (m_sched m)) (occ_people_schedules m sps) in
  let year_len := match ys with y :: _ => length y | [] => O end in
  N.of_nat (fold_right Nat.add O
    (map (fun d => hours_of_day (m_sched m) (flat_map (fun y => nth_day y d) ys)) (seq 0 year_len))).

(* schedule average: mean over the expanded year of the daily means; daily schedules that are not
   defined contribute nothing, an empty expansion or an empty day averages to 0 *)
Definition day_average (db : scheddb) (id : uuid) : Q :=
  match day_entry db id with
  | Some d => match sd_values d with [] => 0 | vs => qsum vs / inject_Z (Z.of_nat (length vs)) end
  | None => 0
  end.
Definition year_average (db : scheddb) (id : uuid) : Q :=
  let ds := expand db id in
  match ds with
  | [] => 0
  | _ => qsum (map (day_average db) ds) / inject_Z (Z.of_nat (length ds))
  end.
Definition opt_avg (db : scheddb) (o : option uuid) : option Q :=
  match o with Some id => Some (year_average db id) | None => Some 0 end.
Definition loads_avg (m : model) (l : loads) : option Q :=
  match opt_avg (m_sched m) (ld_people_sch l), opt_avg (m_sched m) (ld_light_sch l), opt_avg (m_sched m) (ld_equip_sch l) with
  | Some p, Some li, Some e => Some (p * ld_people_sens l + li * ld_light l + e * ld_equip l)
  | _, _, _ => None
  end.
Fixpoint opt_sum (l : list (option Q)) : option Q :=
  match l with
  | [] => Some 0
  | Some x :: r => match opt_sum r with Some s => Some (Qred (x + s)) | None => None end
  | None :: _ => None
  end.

Definition space_load (m : model) (s : spq) : option Q :=
  match sq_loads s with
  | Some id => match load_entry m id with Some l => loads_avg m l | None => Some 0 end
  | None => Some 0
  end.
Definition occ_spaces (sps : list (uuid * spq)) : list spq := filter occupied (map snd sps).
Definition occ_area (sps : list (uuid * spq)) : Q := qsum (map (fun s => sq_area s * sq_mult s) (occ_spaces sps)).
Definition occ_load_sum (m : model) (sps : list (uuid * spq)) : option Q :=
  opt_sum (map (fun s => match space_load m s with Some l => Some (l * sq_area s * sq_mult s) | None => None end)
               (occ_spaces sps)).
Definition avg_load (m : model) (sps : list (uuid * spq)) : option Q :=
  match occ_load_sum m sps with
  | Some t => Some (if qltb (1 # 8388608) (occ_area sps) then t / occ_area sps else 0)
  | None => None
  end.

(* ---------- correspondence ---------- *)
Fixpoint idlists_eqb (a b : list (list uuid)) : bool :=
  match a, b with
  | [], [] => true
  | x :: a', y :: b' => (fix eq (p q : list uuid) := match p, q with
                          | [], [] => true | u :: p', v :: q' => N.eqb u v && eq p' q' | _, _ => false end) x y
                        && idlists_eqb a' b'
  | _, _ => false
  end.
Fixpoint vals_eqb (a b : list (uuid * N)) : bool :=
  match a, b with
  | [], [] => true
  | (i, c) :: a', (j, d) :: b' => N.eqb i j && N.eqb c d && vals_eqb a' b'
  | _, _ => false
  end.
Fixpoint zs_eqb (a b : list Z) : bool :=
  match a, b with [], [] => true | x :: a', y :: b' => Z.eqb x y && zs_eqb a' b' | _, _ => false end.
Fixpoint qs_eqb (a b : list Q) : bool :=
  match a, b with [], [] => true | x :: a', y :: b' => qeqb x y && qs_eqb a' b' | _, _ => false end.

Inductive c17_case :=
(* get_year_as_day_sch for every yearly id of a schedule database (plus one unknown id) *)
| C17Expand (db : scheddb) (ids : list uuid) (impl : list (list uuid))
(* a HULC yearly schedule given by end dates (day, month): the converted period lengths *)
| C17Dates (dates : list (Z * Z)) (impl : list Z)
(* a HULC weekly schedule (7 names or 1) and a daily one (24 values or 1): the converted values *)
| C17Week (names : list uuid) (impl : list (uuid * N))
| C17Day (vals : list Q) (impl : list Q)
(* occupied hours and mean load from a model and the implementation's reported space data *)
| C17Props (m : model) (sps : list (uuid * spq)) (hours : N) (avg : option Q) (lavg : list (uuid * option Q)).

Definition ltol (impl model : Q) : bool := close_rel (1 # 10000) (1 # 100000) impl model.

Definition agree_C17 (c : c17_case) : N :=
  match c with
  | C17Expand db ids impl => if idlists_eqb impl (map (expand db) ids) then 0%N else 1%N
  | C17Dates dates impl =>
      if zs_eqb impl (periods (map (fun dm => day_of_year (fst dm) (snd dm)) dates)) then 0%N else 2%N
  | C17Week names impl =>
      match week_runs names with Some v => if vals_eqb impl v then 0%N else 3%N | None => 3%N end
  | C17Day vals impl =>
      match day_values vals with Some v => if qs_eqb impl v then 0%N else 4%N | None => 4%N end
  | C17Props m sps hours avg lavg =>
      first_fail [
        (5%N, N.eqb hours (hours_in_use m sps));
        (6%N, opt_close ltol avg (avg_load m sps));
        (7%N, forallb (fun p => match load_entry m (fst p) with
                                | Some l => opt_close ltol (snd p) (loads_avg m l)
                                | None => false end) lavg) ]
  end.
