(* Model of bemodel::check: which warnings the checker emits, as (element id, kind). *)
From Coq Require Import ZArith NArith QArith Bool List.
From CTE Require Import Base.Num Model.BModel.
Import ListNotations.

Inductive wkind := WallSpace | WallCons | WallNext | WinWall | WinCons | BridgeNeg.
Definition wkind_idx (k : wkind) : N :=
  match k with WallSpace => 1 | WallCons => 2 | WallNext => 3 | WinWall => 4 | WinCons => 5
             | BridgeNeg => 6 end%N.
Definition wkind_eqb (a b : wkind) : bool := N.eqb (wkind_idx a) (wkind_idx b).

Definition warning := (uuid * wkind)%type.
Definition warning_eqb (a b : warning) : bool :=
  N.eqb (fst a) (fst b) && wkind_eqb (snd a) (snd b).

Definition space_ids (m : model) := map s_id (m_spaces m).
Definition wall_ids (m : model) := map w_id (m_walls m).
Definition wallcons_ids (m : model) := map wc_id (c_wallcons (m_cons m)).
Definition wincons_ids (m : model) := map wnc_id (c_wincons (m_cons m)).

Definition check_wall (m : model) (w : wall) : list warning :=
  (if mem (w_space w) (space_ids m) then [] else [(w_id w, WallSpace)]) ++
  (if mem (w_cons w) (wallcons_ids m) then [] else [(w_id w, WallCons)]) ++
  (match w_next w with
   | Some n => if mem n (space_ids m) then [] else [(w_id w, WallNext)]
   | None => []
   end).

Definition check_win (m : model) (w : window) : list warning :=
  (if mem (win_wall w) (wall_ids m) then [] else [(win_id w, WinWall)]) ++
  (if mem (win_cons w) (wincons_ids m) then [] else [(win_id w, WinCons)]).

Definition check_tb (t : tbridge) : list warning :=
  if qltb (tb_l t) 0 then [(tb_id t, BridgeNeg)] else [].

Definition check (m : model) : list warning :=
  flat_map (check_wall m) (m_walls m) ++
  flat_map (check_win m) (m_windows m) ++
  flat_map check_tb (m_tbs m).

(* correspondence: the implementation's warnings, as a multiset, are the model's *)
Definition countw (x : warning) (l : list warning) : nat :=
  length (filter (warning_eqb x) l).
Definition same_multiset (a b : list warning) : bool :=
  forallb (fun x => Nat.eqb (countw x a) (countw x b)) (a ++ b).

Record c15_case := mkC15 {
  c15_model : model;
  c15_impl : list warning;        (* warnings of bemodel::check *)
  c15_unknown : N;                (* warnings the harness could not classify *)
  c15_indic_same : bool;          (* energy_indicators().warnings == check() *)
  c15_pure : bool                 (* model bytes unchanged by check *)
}.

Definition agree_C15 (c : c15_case) : N :=
  first_fail [ (1%N, same_multiset (c15_impl c) (check (c15_model c)));
               (2%N, N.eqb (c15_unknown c) 0);
               (3%N, c15_indic_same c);
               (4%N, c15_pure c) ].
