(* C18: typed readers of the construction database (LAYERS, CONSTRUCTION, GAP: hulc/src/bdl/db/{wallcons,
   construction,windowcons}.rs and the assembly of DB.wallcons in bdl::Data::new), of thermal bridges
   (envelope/thermalbridge.rs), schedules (systems/schedules.rs) and polygons (envelope/geom.rs), with the list
   readers extract_namesvec / extract_f32vec / extract_u32vec of common.rs. *)
From Coq Require Import NArith ZArith QArith Bool List String.
From CTE Require Import Model.Bdl.
From CTE Require Import Model.BdlDoc Model.BdlTyped.
Import ListNotations.
Local Open Scope N_scope.
Local Open Scope string_scope.

(* ---------- list readers ---------- *)
Definition is_empty (s : str) : bool := match s with [] => true | _ => false end.
(* extract_namesvec: between the parentheses, split at double quotes, trimmed, the pieces that are a comma or
   empty dropped *)
Definition namesvec (s : str) : list str :=
  filter (fun v => negb (str_eqb v [44%N]) && negb (is_empty v)) (map trim (split_on 34 (trim_parens s))).
(* u32::from_str: an optional '+', at least one digit, nothing else, at most 2^32 - 1 *)
Fixpoint all_digits (s : str) : bool := match s with [] => true | c :: r => is_digit c && all_digits r end.
Definition parse_u32 (s : str) : option N :=
  let d := match s with 43%N :: r => r | _ => s end in
  if is_empty d || negb (all_digits d) then None
  else let n := digits_val d 0 in if (n <=? 4294967295)%N then Some n else None.
Fixpoint all_some {A} (l : list (option A)) : option (list A) :=
  match l with
  | [] => Some []
  | Some x :: r => match all_some r with Some t => Some (x :: t) | None => None end
  | None :: _ => None
  end.
Definition u32vec (s : str) : option (list N) := all_some (map (fun p => parse_u32 (trim p)) (split_on 44 (trim_parens s))).
(* point2_from_str *)
Definition point2 (s : str) : option (list str) :=
  match map trim_parens (split_on 44 s) with
  | [x; y] => if is_number x && is_number y then Some [x; y] else None
  | _ => None
  end.

(* ---------- POLYGON: V1, V2, ... until the first number that is missing ---------- *)
Fixpoint polygon_from (fuel i : nat) (a : attrmap) : option (list (list str)) :=
  match fuel with
  | O => Some []
  | S f =>
      match lookup_attr (86%N :: nat_str 5 i) a with
      | Some (VStr s) =>
          match point2 s with
          | Some p => match polygon_from f (S i) a with Some r => Some (p :: r) | None => None end
          | None => None
          end
      | _ => Some []
      end
  end.
Definition polygon_of (b : block) : res (list (list str)) :=
  match polygon_from 1000 1 (b_attrs b) with Some p => Ok p | None => Err 8 end.

(* ---------- LAYERS ---------- *)
Record twallcons := mkTWC { twc_name : str; twc_group : str; twc_material : list str; twc_thickness : list tnum }.
Definition airgap_prefix : str := s2l "Cámara de aire ".
(* HULC gives air gaps a default thickness of 5 cm in the list: the one in the material's name wins *)
Definition fixed_thickness (name t : str) : tnum :=
  if prefixb airgap_prefix name then
    if suffixb (s2l " 1 cm") name then NConst (1 # 100)
    else if suffixb (s2l " 2 cm") name then NConst (2 # 100)
    else if suffixb (s2l " 5 cm") name then NConst (5 # 100)
    else if suffixb (s2l "10 cm") name then NConst (10 # 100)
    else NTok t
  else NTok t.
Fixpoint zip_with {A B C} (f : A -> B -> C) (a : list A) (b : list B) : list C :=
  match a, b with x :: ra, y :: rb => f x y :: zip_with f ra rb | _, _ => [] end.
Definition wallcons_of (b : block) : res twallcons :=
  let a := b_attrs b in
  match get_text "MATERIAL" a, get_text "THICKNESS" a with
  | Some m, Some t =>
      let names := namesvec m in
      match f32vec t with
      | None => Err 8
      | Some ths =>
          if negb (Nat.eqb (List.length names) (List.length ths)) then Err 10
          else Ok (mkTWC (b_name b) (match get_text "GROUP" a with Some g => g | None => s2l "Capas" end) names
                         (zip_with fixed_thickness names ths))
      end
  | _, _ => Err 5
  end.

(* ---------- CONSTRUCTION ---------- *)
Record tconstruction := mkTCn { tcn_name : str; tcn_parent : str; tcn_layers : str; tcn_absorptance : tnum }.
Definition construction_of (b : block) : res tconstruction :=
  let a := b_attrs b in
  match get_text "TYPE" a with
  | None => Err 5
  | Some ty =>
      if negb (str_eqb ty (s2l "LAYERS")) then Err 6
      else match get_text "LAYERS" a, b_parent b with
           | Some l, Some p => Ok (mkTCn (b_name b) p l (num_or (get_num "ABSORPTANCE" a) (6 # 10)))
           | _, _ => Err 5
           end
  end.

(* ---------- DB.wallcons: the layers under their own name with absorptance 0.6, and under the name of every
   construction that refers to them with that construction's absorptance; a layers definition wins over a
   construction of the same name; "Ninguno" is always there ---------- *)
Definition ninguno : twallcons := mkTWC (s2l "Ninguno") [] [] [].
Fixpoint last_by {A} (name : A -> str) (n : str) (l : list A) : option A :=
  match l with [] => None | x :: r => match last_by name n r with Some y => Some y | None => if str_eqb (name x) n then Some x else None end end.
Definition layers_named (ls : list twallcons) (n : str) : option twallcons :=
  match last_by twc_name n ls with
  | Some l => Some l
  | None => if str_eqb n (s2l "Ninguno") then Some ninguno else None
  end.
Definition wallcons_lookup (ls : list twallcons) (cs : list tconstruction) (n : str) : option (twallcons * tnum) :=
  match layers_named ls n with
  | Some l => Some (l, NConst (6 # 10))
  | None =>
      match last_by tcn_name n cs with
      | Some c => match layers_named ls (tcn_layers c) with
                  | Some l => Some (mkTWC n (twc_group l) (twc_material l) (twc_thickness l), tcn_absorptance c)
                  | None => None
                  end
      | None => None
      end
  end.
(* every construction that survives in the map (the last of its name) must find its layers *)
Definition constructions_resolve (ls : list twallcons) (cs : list tconstruction) : bool :=
  forallb (fun c => match last_by tcn_name (tcn_name c) cs with
                    | Some c' => match layers_named ls (tcn_layers c') with Some _ => true | None => false end
                    | None => false
                    end) cs.
Definition wallcons_names (ls : list twallcons) (cs : list tconstruction) : list str :=
  s2l "Ninguno" :: map twc_name ls ++ map tcn_name cs.

(* ---------- GAP ---------- *)
Record twincons := mkTWn { twn_name : str; twn_group : str; twn_glass : str; twn_glassgroup : str; twn_frame : str;
  twn_framegroup : str; twn_percentage : str; twn_infcoeff : str; twn_deltau : tnum; twn_gglshwi : option str }.
Definition wincons_of (b : block) : res twincons :=
  let a := b_attrs b in
  match get_text "GLASS-TYPE" a, get_text "GROUP-GLASS" a, get_text "NAME-FRAME" a, get_text "GROUP-FRAME" a,
        get_num "PORCENTAGE" a, get_num "INF-COEF" a with
  | Some g, Some gg, Some f, Some fg, Some p, Some i =>
      Ok (mkTWn (b_name b) (match get_text "GROUP" a with Some x => x | None => s2l "Ventanas" end) g gg f fg p i
                (num_or (get_num "porcentajeIncrementoU" a) 0) (get_num "TransmisividadJulio" a))
  | _, _, _, _, _, _ => Err 5
  end.

(* ---------- THERMAL-BRIDGE ---------- *)
Record tcatalog := mkTCat { tct_classes : list str; tct_pcts : list str; tct_first : list str; tct_second : option (list str) }.
Record tbridge := mkTBr { tbr_name : str; tbr_length : option str; tbr_type : str; tbr_psi : tnum; tbr_frsi : tnum;
  tbr_geometry : option (str * str * str);     (* ANGLE-MIN, ANGLE-MAX, PARTITION *)
  tbr_catalog : option tcatalog }.
(* `v as i32` of the written number: truncation towards zero (NaN gives 0, infinities saturate) *)
Definition trunc_tok (t : str) : Z :=
  match parse_float t with
  | Some (FNum neg m e) =>
      let v := (if e <? 0 then Z.of_N m / Z.pow 10 (- e) else Z.of_N m * Z.pow 10 e)%Z in
      if neg then (- v)%Z else v
  | Some (FInf neg) => if neg then (-2147483648)%Z else 2147483647%Z
  | _ => 0%Z
  end.
Definition tb_of (b : block) : res tbridge :=
  let a := b_attrs b in
  let calc := str_eqb (b_name b) (s2l "LONGITUDES_CALCULADAS") in
  match (if calc then Some (NConst 0, NConst 0)
         else match get_num "TTL" a, get_num "FRSI" a with Some p, Some f => Some (NTok p, NTok f) | _, _ => None end) with
  | None => Err 5
  | Some (psi, frsi) =>
      let ty := match get_text "TYPE" a with Some t => t | None => [] end in
      let geo := if str_eqb ty (s2l "WINDOW-FRAME") || str_eqb ty (s2l "PILLAR") || is_empty ty then Ok None
                 else match get_num "ANGLE-MIN" a, get_num "ANGLE-MAX" a, get_text "PARTITION" a with
                      | Some mn, Some mx, Some p => Ok (Some (mn, mx, p))
                      | _, _, _ => Err 5
                      end in
      match geo with
      | Err e => Err e
      | Ok g =>
          let cat := match get_num "DEFINICION" a with
                     | None => Ok None
                     | Some d =>
                         let k := trunc_tok d in
                         if (k =? 1)%Z || (k =? 2)%Z then Ok None
                         else if (k =? 3)%Z then
                           match get_text "LISTA-N" a with
                           | None => Err 5
                           | Some ln =>
                               let vec_or_empty (k : string) := match get_text k a with
                                                                | Some s => match f32vec s with Some l => l | None => [] end
                                                                | None => [] end in
                               match get_text "LISTA-MARCO" a with
                               | None => Ok (Some (mkTCat (namesvec ln) (vec_or_empty "LISTA-L") (vec_or_empty "LISTA-MURO") None))
                               | Some lm => match f32vec lm with
                                            | Some l => Ok (Some (mkTCat (namesvec ln) (vec_or_empty "LISTA-L") (vec_or_empty "LISTA-MURO") (Some l)))
                                            | None => Err 8
                                            end
                               end
                           end
                         else Err 6
                     end in
          match cat with
          | Err e => Err e
          | Ok c => Ok (mkTBr (b_name b) (get_num "LONG-TOTAL" a) ty psi frsi g c)
          end
      end
  end.

(* ---------- schedules ---------- *)
Inductive skind := SFraction | SOnOff | STemperature.
Definition skind_of (s : str) : option skind :=
  if str_eqb s (s2l "FRACTION") then Some SFraction else if str_eqb s (s2l "ON/OFF") then Some SOnOff
  else if str_eqb s (s2l "TEMPERATURE") then Some STemperature else None.
Inductive tschedule :=
| TDay (name : str) (k : skind) (values : list str)
| TWeek (name : str) (k : skind) (days : list str)
| TYear (name : str) (k : skind) (days months : list N) (weeks : list str).
Definition kind_of (a : attrmap) : res skind :=
  match get_text "TYPE" a with None => Err 5 | Some t => match skind_of t with Some k => Ok k | None => Err 6 end end.
Definition len_1_or (n : nat) {A} (l : list A) : bool := Nat.eqb (List.length l) n || Nat.eqb (List.length l) 1.
Definition day_of (b : block) : res tschedule :=
  let a := b_attrs b in
  match kind_of a with
  | Err e => Err e
  | Ok k => match get_text "VALUES" a with
            | None => Err 5
            | Some v => match f32vec v with
                        | None => Err 8
                        | Some vs => if len_1_or 24 vs then Ok (TDay (squeeze2 (b_name b)) k vs) else Err 10
                        end
            end
  end.
Definition week_of (b : block) : res tschedule :=
  let a := b_attrs b in
  match kind_of a with
  | Err e => Err e
  | Ok k => match get_text "DAY-SCHEDULES" a with
            | None => Err 5
            | Some v => let ds := namesvec v in if len_1_or 7 ds then Ok (TWeek (squeeze2 (b_name b)) k ds) else Err 10
            end
  end.
Definition year_of (b : block) : res tschedule :=
  let a := b_attrs b in
  match kind_of a with
  | Err e => Err e
  | Ok k => match get_text "DAY" a, get_text "MONTH" a, get_text "WEEK-SCHEDULES" a with
            | Some d, Some m, Some w =>
                match u32vec d, u32vec m with
                | Some ds, Some ms => Ok (TYear (squeeze2 (b_name b)) k ds ms (namesvec w))
                | _, _ => Err 8
                end
            | _, _, _ => Err 5
            end
  end.

(* ---------- what a printer may write for a list (specification side of the round-trip theorems) ---------- *)
Definition is_pc (c : N) : bool := ((c =? 32) || (c =? 40) || (c =? 41))%N.     (* what trim_matches strips at both ends *)
Definition quoted (n : str) : str := 34%N :: n ++ [34%N].
(* ( item , item , item ) with blanks after "(" and before ")", white space g1 before and g2 after every comma *)
Definition list_text (lead trail g1 g2 : str) (items : list str) : str :=
  40%N :: lead ++ join (g1 ++ 44%N :: g2) items ++ trail ++ [41%N].
Definition has_char (d : N) (s : str) : bool := existsb (N.eqb d) s.
Definition name_item_ok (n : str) : bool :=
  edges_ok n && negb (has_char 34 n) && negb (str_eqb n [44%N]).
Definition num_item_ok (t : str) : bool :=
  is_number t && edges_ok t && negb (has_char 44 t) &&
  match t with x :: _ => negb (is_pc x) && negb (is_pc (last t 0%N)) | [] => false end.
