(* C18: abstract BDL documents, the content lines a printer writes for them, and the blocks the
   parser must recover.  Spacing around '=' is part of the printed document and must not matter. *)
From Coq Require Import NArith Bool List.
From CTE Require Import Model.Bdl.
Import ListNotations.
Local Open Scope N_scope.

Inductive aval :=
| ANum (tok : str)                        (* numeric token as written *)
| AWord (w : str)                         (* bare word *)
| AQuoted (s : str)                       (* s between double quotes *)
| AList (first : str) (rest : list str).  (* the opening text after the equals sign, then the continuation lines; rest = [] for a one-line list *)

Record aattr := mkAttr { at_key : str; at_sp1 : str; at_sp2 : str; at_val : aval }.
Record ablock := mkAB { ab_name : str; ab_sp1 : str; ab_sp2 : str; ab_kw : str; ab_attrs : list aattr }.

Definition eqc : N := 61.
Definition value_text (v : aval) : str :=
  match v with
  | ANum t => t
  | AWord w => w
  | AQuoted s => quote :: s ++ [quote]
  | AList f _ => f
  end.
(* the value the parser must hand out (before number / string typing) *)
Definition value_result (v : aval) : str :=
  match v with
  | ANum t => t
  | AWord w => w
  | AQuoted s => s
  | AList f rest => f ++ List.concat rest
  end.
Definition attr_lines (a : aattr) : list str :=
  (at_key a ++ at_sp1 a ++ eqc :: at_sp2 a ++ value_text (at_val a)) ::
  match at_val a with AList _ rest => rest | _ => [] end.
Definition header_line (b : ablock) : str :=
  quote :: ab_name b ++ quote :: ab_sp1 b ++ eqc :: ab_sp2 b ++ ab_kw b.
Definition body_lines (b : ablock) : list str := header_line b :: flat_map attr_lines (ab_attrs b).
Definition block_lines (b : ablock) : list str := body_lines b ++ [dotdot].
Definition doc_lines (d : list ablock) : list str := flat_map block_lines d.

(* what must come back *)
Definition attrs_result (l : list aattr) : attrmap :=
  fold_left (fun m a => attr_insert (at_key a) (value_result (at_val a)) m) l [].
Definition raw_block (b : ablock) : option block :=
  match parse_type (ab_kw b) with
  | Some t => Some (mkBlock t (ab_name b) None (attrs_result (ab_attrs b)))
  | None => None
  end.
Fixpoint expected_from (st : pstate) (d : list ablock) : option (list block) :=
  match d with
  | [] => Some []
  | b :: r =>
      match raw_block b with
      | None => None
      | Some blk =>
          let (par, st') := parent_step st blk in
          match expected_from st' r with
          | Some l => Some (mkBlock (b_type blk) (b_name blk) par (b_attrs blk) :: l)
          | None => None
          end
      end
  end.

(* ---------- well-formedness of what a printer may write ---------- *)
Definition all_wsb (s : str) : bool := forallb is_ws s.
Definition has (c : N) (s : str) : bool := existsb (N.eqb c) s.
Fixpoint ddfree (s : str) : bool :=
  match s with
  | c :: r => match r with c2 :: _ => negb ((c =? 46) && (c2 =? 46)) | [] => true end && ddfree r
  | [] => true
  end.
Definition edges_ok (s : str) : bool :=
  match s with [] => false | x :: _ => negb (is_ws x) && negb (is_ws (last s 0)) end.
(* no double quote at either end (so that trim_matches leaves the text alone) *)
Definition quote_free_edges (s : str) : bool :=
  match s with [] => true | x :: _ => negb (x =? quote) && negb (last s 0 =? quote) end.
(* a line the cleaner keeps as it is *)
Definition wf_line (l : str) : bool := negb (has nl l) && edges_ok l && ddfree l && keep_line l.

Definition wf_val (v : aval) : bool :=
  match v with
  | ANum t | AWord t => edges_ok t && quote_free_edges t && negb (starts_with 40 t)
  | AQuoted s => quote_free_edges s
  | AList f [] => starts_with 40 f && ends_with 41 f
  | AList f rest =>
      starts_with 40 f && negb (ends_with 41 f) && edges_ok f &&
      forallb (fun l => negb (ends_with 41 l)) (removelast rest) && ends_with 41 (last rest [])
  end.
Definition wf_attr (a : aattr) : bool :=
  edges_ok (at_key a) && negb (has eqc (at_key a)) && all_wsb (at_sp1 a) && all_wsb (at_sp2 a) &&
  wf_val (at_val a) && forallb wf_line (attr_lines a).
Definition wf_block (b : ablock) : bool :=
  edges_ok (ab_name b) && quote_free_edges (ab_name b) && negb (has eqc (ab_name b)) &&
  all_wsb (ab_sp1 b) && all_wsb (ab_sp2 b) &&
  edges_ok (ab_kw b) && quote_free_edges (ab_kw b) &&
  match parse_type (ab_kw b) with Some _ => true | None => false end &&
  wf_line (header_line b) && forallb wf_attr (ab_attrs b).
Definition wf_doc (d : list ablock) : bool := forallb wf_block d.
