(* C18: the NewBDL_O.tbl parser of hulc (hulc/src/tbl.rs) over lists of code points: two header lines,
   a line with the numbers of elements and spaces, then (name line, values line) pairs. *)
From Coq Require Import NArith ZArith Bool List String.
From CTE Require Import Model.Bdl.
Import ListNotations.
Local Open Scope N_scope.

(* str::split_whitespace *)
Fixpoint split_ws_aux (s : str) (cur : str) : list str :=
  match s with
  | [] => match cur with [] => [] | _ => [rev cur] end
  | c :: r => if is_ws c
              then match cur with [] => split_ws_aux r [] | _ => rev cur :: split_ws_aux r [] end
              else split_ws_aux r (c :: cur)
  end.
Definition split_ws (s : str) : list str := split_ws_aux s [].

(* i32::from_str: optional sign, digits, in range *)
Definition parse_i32 (s : str) : option Z :=
  let (neg, r) := strip_sign s in
  let (d, t) := take_digits r in
  match d, t with
  | _ :: _, [] =>
      let v := Z.of_N (digits_val d 0) in
      let z := if neg then (- v)%Z else v in
      if (Z.leb (-2147483648) z && Z.leb z 2147483647)%bool then Some z else None
  | _, _ => None
  end.

(* str::lines: split at LF, a CR before the LF belongs to the line end *)
Definition strip_cr (l : str) : str := match rev l with 13 :: r => rev r | _ => l end.
Definition tlines (text : str) : list str := map strip_cr (lines_of text).

Record telem := mkTE { te_name : str; te_vals : list str; te_type : str; te_surf : Z; te_space : Z }.
Record tspace := mkTS { ts_name : str; ts_id : Z; ts_mult : Z; ts_area : str; ts_qint : str }.
Definition elem_types : list str := map s2l ["0"; "1"; "2"; "-2"; "-3"; "-4"; "-5"]%string.

Definition parse_elem (name values : str) : option telem :=
  match split_ws (name ++ 32 :: values) with
  | [_; a; u; w; g1; g2; an; ti; ty; s1; s2] =>
      if forallb is_number [a; u; w; g1; g2; an; ti] && existsb (str_eqb ty) elem_types
      then match parse_i32 s1, parse_i32 s2 with
           | Some z1, Some z2 => Some (mkTE name [a; u; w; g1; g2; an; ti] ty z1 z2)
           | _, _ => None
           end
      else None
  | _ => None
  end.
Definition parse_space (name values : str) : option tspace :=
  match split_ws (name ++ 32 :: values) with
  | [_; i; m; a; q] =>
      match parse_i32 i, parse_i32 m with
      | Some zi, Some zm => if is_number a && is_number q then Some (mkTS name zi zm a q) else None
      | _, _ => None
      end
  | _ => None
  end.

Inductive res2 (A : Type) := Ok2 (a : A) (rest : list str) | Err2.
Arguments Ok2 {A}. Arguments Err2 {A}.
(* reads pairs of lines until `want` of them were read (want <= 0: until the lines run out) *)
Fixpoint read_elems (ls : list str) (want : Z) (got : Z) : res2 (list telem) :=
  match ls with
  | [] => Ok2 [] []
  | nm :: r =>
      match r with
      | [] => Err2
      | vals :: r2 =>
          match parse_elem (trim (trim_ch quote nm)) vals with
          | None => Err2
          | Some e =>
              if Z.eqb (got + 1) want then Ok2 [e] r2
              else match read_elems r2 want (got + 1) with
                   | Ok2 l rest => Ok2 (e :: l) rest
                   | Err2 => Err2
                   end
          end
      end
  end.
Fixpoint read_spaces (ls : list str) (want : Z) (got : Z) : res2 (list tspace) :=
  match ls with
  | [] => Ok2 [] []
  | nm :: r =>
      match r with
      | [] => Err2
      | vals :: r2 =>
          match parse_space (trim_ch quote nm) vals with
          | None => Err2
          | Some e =>
              if Z.eqb (got + 1) want then Ok2 [e] r2
              else match read_spaces r2 want (got + 1) with
                   | Ok2 l rest => Ok2 (e :: l) rest
                   | Err2 => Err2
                   end
          end
      end
  end.

Definition all_i32 (l : list str) : option (list Z) :=
  fold_right (fun s acc => match parse_i32 s, acc with Some z, Some r => Some (z :: r) | _, _ => None end) (Some []) l.

Definition parse_tbl (text : str) : res (list telem * list tspace) :=
  match tlines text with
  | _ :: _ :: counts :: rest =>
      match all_i32 (split_ws counts) with
      | Some (ne :: ns :: _) =>
          match read_elems rest ne 0 with
          | Err2 => Err 2
          | Ok2 es rest2 =>
              match read_spaces rest2 ns 0 with
              | Err2 => Err 3
              | Ok2 ss _ => Ok (es, ss)
              end
          end
      | _ => Err 1
      end
  | _ => Err 1
  end.
