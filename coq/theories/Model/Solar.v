(* Solar geometry and the ISO 52010 radiation split over R, as coded in climate/src/solar.rs. *)
From Coq Require Import Reals Lra.
Local Open Scope R_scope.

Definition rad (d : R) : R := d * PI / 180.
Definition sind (d : R) : R := sin (rad d).
Definition cosd (d : R) : R := cos (rad d).

(* declination for day n (degrees) *)
Definition decl (n : R) : R :=
  let r := n * 360 / 365 in
  0.33281 - 22.984 * cosd r - 0.3499 * cosd (2 * r) - 0.1398 * cosd (3 * r)
  + 3.7872 * sind r + 0.03205 * sind (2 * r) + 0.07187 * sind (3 * r).

(* sun vector in (East, North, Up) for declination d, hour angle w (positive in the morning), latitude l *)
Definition sun_E (d w : R) : R := cosd d * sind w.
Definition sun_N (d w l : R) : R := sind d * cosd l - cosd d * sind l * cosd w.
Definition sun_U (d w l : R) : R := sind d * sind l + cosd d * cosd l * cosd w.
(* sine of the solar altitude *)
Definition sin_alt := sun_U.

(* outward normal of a surface with tilt b and azimuth g (S = 0, E positive): Rz(g) Rx(b) z, the
   convention of WallGeom::normal *)
Definition nrm_E (b g : R) : R := sind b * sind g.
Definition nrm_N (b g : R) : R := - sind b * cosd g.
Definition nrm_U (b : R) : R := cosd b.

(* cosine of the incidence angle, the five-term formula of the code *)
Definition cos_inc (d w l b g : R) : R :=
  sind d * sind l * cosd b - sind d * cosd l * sind b * cosd g
  + cosd d * cosd l * cosd b * cosd w + cosd d * sind l * sind b * cosd g * cosd w
  + cosd d * sind b * sind g * sind w.

(* Model-side ray towards the sun from azimuth and altitude (energy::ray_dir_to_sun) *)
Definition ray_E (az alt : R) : R := cosd alt * sind az.
Definition ray_N (az alt : R) : R := - cosd alt * cosd az.
Definition ray_U (alt : R) : R := sind alt.

(* ---- radiation on a tilted surface (ISO 52010-1) ---- *)
Definition i_dir (gb ct : R) : R := Rmax 0 (gb * ct).
Definition i_circum (dif f1 a b : R) : R := dif * f1 * a / b.
Definition i_dif (dif f1 f2 a b beta : R) : R :=
  dif * ((1 - f1) * (1 + cosd beta) / 2 + f1 * a / b + f2 * sind beta).
Definition i_dif_grnd (gb dif salt beta rho : R) : R := (dif + gb * salt) * rho * (1 - cosd beta) / 2.
Definition dir_tot (gb ct dif f1 a b : R) : R := i_dir gb ct + i_circum dif f1 a b.
Definition dif_tot (gb dif f1 f2 a b beta salt rho : R) : R :=
  i_dif dif f1 f2 a b beta - i_circum dif f1 a b + i_dif_grnd gb dif salt beta rho.

Definition i_ext (n : R) : R := 1370 * (1 + 0.033 * cosd (n * 360 / 365)).
