(* Exact geometry over Q: points, axis-aligned boxes, rays, the slab test. *)
From Coq Require Import ZArith QArith Qabs Bool List.
From CTE Require Import Base.Num.
Import ListNotations.
Local Open Scope Q_scope.

Record vec3 := mkV { vx : Q; vy : Q; vz : Q }.
Record aabbq := mkBox { blo : vec3; bhi : vec3 }.
Record rayq := mkRay { ro : vec3; rd : vec3 }.

Definition vadd (a b : vec3) := mkV (vx a + vx b) (vy a + vy b) (vz a + vz b).
Definition vsub (a b : vec3) := mkV (vx a - vx b) (vy a - vy b) (vz a - vz b).
Definition vscale (t : Q) (a : vec3) := mkV (t * vx a) (t * vy a) (t * vz a).
Definition vdot (a b : vec3) : Q := vx a * vx b + vy a * vy b + vz a * vz b.
Definition ray_at (r : rayq) (t : Q) : vec3 := vadd (ro r) (vscale t (rd r)).

Definition inside (b : aabbq) (p : vec3) : Prop :=
  vx (blo b) <= vx p <= vx (bhi b) /\ vy (blo b) <= vy p <= vy (bhi b) /\ vz (blo b) <= vz p <= vz (bhi b).
Definition proper (b : aabbq) : Prop :=
  vx (blo b) <= vx (bhi b) /\ vy (blo b) <= vy (bhi b) /\ vz (blo b) <= vz (bhi b).

Definition box_join (a b : aabbq) : aabbq :=
  mkBox (mkV (qmin (vx (blo a)) (vx (blo b))) (qmin (vy (blo a)) (vy (blo b))) (qmin (vz (blo a)) (vz (blo b))))
        (mkV (qmax (vx (bhi a)) (vx (bhi b))) (qmax (vy (bhi a)) (vy (bhi b))) (qmax (vz (bhi a)) (vz (bhi b)))).
(* a is contained in b *)
Definition box_leb (a b : aabbq) : bool :=
  qleb (vx (blo b)) (vx (blo a)) && qleb (vy (blo b)) (vy (blo a)) && qleb (vz (blo b)) (vz (blo a)) &&
  qleb (vx (bhi a)) (vx (bhi b)) && qleb (vy (bhi a)) (vy (bhi b)) && qleb (vz (bhi a)) (vz (bhi b)).
Definition box_grow (e : Q) (b : aabbq) : aabbq :=
  mkBox (mkV (vx (blo b) - e) (vy (blo b) - e) (vz (blo b) - e)) (mkV (vx (bhi b) + e) (vy (bhi b) + e) (vz (bhi b) + e)).
Definition properb (b : aabbq) : bool :=
  qleb (vx (blo b)) (vx (bhi b)) && qleb (vy (blo b)) (vy (bhi b)) && qleb (vz (blo b)) (vz (bhi b)).

(* one axis of the slab test: None = the ray never is between the planes; Some None = always;
   Some (Some (a, b)) = exactly for t in [a, b] *)
Definition axis_ival (o d lo hi : Q) : option (option (Q * Q)) :=
  if qeqb d 0 then (if qleb lo o && qleb o hi then Some None else None)
  else let t1 := (lo - o) / d in let t2 := (hi - o) / d in Some (Some (qmin t1 t2, qmax t1 t2)).

Definition ivals (b : aabbq) (r : rayq) : option (list (Q * Q)) :=
  match axis_ival (vx (ro r)) (vx (rd r)) (vx (blo b)) (vx (bhi b)),
        axis_ival (vy (ro r)) (vy (rd r)) (vy (blo b)) (vy (bhi b)),
        axis_ival (vz (ro r)) (vz (rd r)) (vz (blo b)) (vz (bhi b)) with
  | Some a, Some b', Some c =>
      Some ((match a with Some i => [i] | None => [] end) ++ (match b' with Some i => [i] | None => [] end) ++
            (match c with Some i => [i] | None => [] end))
  | _, _, _ => None
  end.

(* the ray meets the box at some t >= 0 *)
Definition bhitq (b : aabbq) (r : rayq) : bool :=
  match ivals b r with
  | None => false
  | Some l => let t0 := fold_left qmax (map fst l) 0 in forallb (fun i => qleb t0 (snd i)) l
  end.
