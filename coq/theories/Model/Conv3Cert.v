(* per-case certificates for C03: the (cos, sin) pair handed to the model really is that of the angle *)
From Coq Require Import Reals.
From Interval Require Import Tactic.
Ltac cert03 k P := first [ assert P by (split; interval with (i_prec 60)); idtac "C03CERT" k "OK" | idtac "C03CERT" k "FAIL" ].
