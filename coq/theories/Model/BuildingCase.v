(* C18 correspondence for whole small buildings: spaces (with what Data::new adds from their floor and their
   polygon), walls, the construction database, thermal bridges and schedules *)
From Coq Require Import NArith ZArith QArith Qabs Bool List String.
From CTE Require Import Base.Num Model.Bdl Model.BdlCase.
From CTE Require Import Model.BdlTyped Model.BdlTypedEnv Model.BdlTypedDb Model.TypedCase.
From CTEGen Require Import BdlTypes.
Import ListNotations.

Record ispaceT := mkISp { isp_name : string; isp_floor : string; isp_type : string;
  isp_nums : list ival;          (* x, y, z, azimuth, height, floor multiplier, power, veei_obj, veei_ref, multiplier *)
  isp_inside : bool; isp_spacetype : string; isp_spaceconds : string; isp_systemconds : string; isp_multiplied : bool;
  isp_polygon : list (list ival) }.
Record iwallT := mkIWl { iwl_name : string; iwl_space : string; iwl_cons : string; iwl_location : option string; iwl_bounds : N;
  iwl_nums : list ival;          (* tilt, x, y, z *)
  iwl_polygon : bool; iwl_azimuth : option ival;   (* the azimuth only where it is the written one (horizontal / polygon) *)
  iwl_nextto : option string; iwl_vertices : option (list (list ival)) }.
Record iwallcons := mkIWC { iwc_name : string; iwc_group : string; iwc_material : list string; iwc_thickness : list ival; iwc_absorptance : ival }.
Record iwincons := mkIWC2 { iwn2_name : string; iwn2_group : string; iwn2_glass : string; iwn2_glassgroup : string; iwn2_frame : string;
  iwn2_framegroup : string; iwn2_framefrac : ival; iwn2_infcoeff : ival; iwn2_deltau : ival; iwn2_gglshwi : option ival }.
Record ibridge := mkIBr { ibr_name : string; ibr_length : option ival; ibr_type : string; ibr_psi : ival; ibr_frsi : ival;
  ibr_geometry : option (ival * ival * string);
  ibr_catalog : option (list string * list ival * list ival * option (list ival)) }.
Inductive ischedule :=
| IDay (name : string) (kind : N) (values : list ival)
| IWeek (name : string) (kind : N) (days : list string)
| IYear (name : string) (kind : N) (days months : list N) (weeks : list string).
Record idb := mkIDb { idb_wallcons : list iwallcons; idb_wincons : list iwincons; idb_bridges : list ibridge; idb_schedules : list ischedule }.
Inductive ibres := BOk (spaces : list ispaceT) (walls : list iwallT) (db : idb) | BErr | BPanic.
Record buildingcase := mkBC { bc_lines : list string; bc_impl : ibres }.

Definition bounds_n (b : tbounds) : N := match b with TB_EXTERIOR => 0 | TB_INTERIOR => 1 | TB_GROUND => 2 | TB_ADIABATIC => 3 end%N.
Definition ostr_eqb (a : option str) (b : option string) : bool :=
  match a, b with None, None => true | Some x, Some y => str_eqb x (s2l y) | _, _ => false end.
Fixpoint tns (a : list tnum) (b : list ival) : bool :=
  match a, b with [] , [] => true | x :: ra, y :: rb => tn x y && tns ra rb | _, _ => false end.
(* z of a space = its own Z + the Z of its floor, added in f32 *)
Definition exact_tn (n : tnum) : option Q :=
  match n with
  | NConst q => Some q
  | NTok t => match parse_float t with Some (FNum neg m e) => if Z.ltb 60 (Z.abs e) then None else Some (exact_of neg m e) | _ => None end
  end.
Definition sum_close (a b : tnum) (i : ival) : bool :=
  match exact_tn a, exact_tn b, i with
  | Some x, Some y, INum q => qleb (Qabs (q - (x + y))) ((Qabs x + Qabs y) * (1 # 4194304) + (1 # (Pos.pow 2 100)))
  | _, _, _ => true
  end.
Definition multiplied_of (t : str) : bool :=       (* |MULTIPLIED - 1| < 0.1 *)
  match parse_float t with
  | Some (FNum neg m e) => if Z.ltb 60 (Z.abs e) then false else let x := exact_of neg m e in qltb (Qabs (x - 1)) (1 # 10)
  | _ => false
  end.

Definition floor_named (n : str) (bs : list block) : option tfloor :=
  match find (fun b => N.eqb (b_type b) BT_Floor && str_eqb (b_name b) n) (rev bs) with
  | Some b => match floor_of b with Ok f => Some f | Err _ => None end
  | None => None
  end.
Definition polygon_named (poly : str) (bs : list block) : option (list (list str)) :=
  match find (fun b => N.eqb (b_type b) BT_Polygon && str_eqb (b_name b) poly) (rev bs) with
  | Some b => match polygon_of b with Ok p => Some p | Err _ => None end
  | None => None
  end.
Definition polygon_ok (poly : str) (bs : list block) (i : list (list ival)) : bool :=
  match polygon_named poly bs with Some p => tkss p i | None => false end.

Definition space_ok (bs : list block) (s : tspace) (i : ispaceT) : bool :=
  match floor_named (tsp_floor s) bs, isp_nums i with
  | Some f, [x; y; z; az; h; fm; pw; vo; vr; mu] =>
      str_eqb (tsp_name s) (s2l (isp_name i)) && str_eqb (tsp_floor s) (s2l (isp_floor i)) && str_eqb (tsp_type s) (s2l (isp_type i)) &&
      tn (tsp_x s) x && tn (tsp_y s) y && sum_close (tsp_z s) (tfl_z f) z && tn (tsp_azimuth s) az &&
      tk (tfl_height f) h && tn (tfl_multiplier f) fm && tk (tsp_power s) pw && tk (tsp_veei_obj s) vo && tk (tsp_veei_ref s) vr &&
      tk (tsp_multiplier s) mu && Bool.eqb (tsp_inside s) (isp_inside i) &&
      str_eqb (tsp_spacetype s) (s2l (isp_spacetype i)) && str_eqb (tsp_spaceconds s) (s2l (isp_spaceconds i)) &&
      str_eqb (tsp_systemconds s) (s2l (isp_systemconds i)) && Bool.eqb (multiplied_of (tsp_multiplied s)) (isp_multiplied i) &&
      polygon_ok (tsp_polygon s) bs (isp_polygon i)
  | _, _ => false
  end.
Definition wall_ok (bs : list block) (w : twall) (i : iwallT) : bool :=
  match twl_polygon w, iwl_vertices i with
  | None, None => true
  | Some n, Some v => polygon_ok n bs v
  | _, _ => false
  end &&
  str_eqb (twl_name w) (s2l (iwl_name i)) && str_eqb (twl_space w) (s2l (iwl_space i)) && str_eqb (twl_cons w) (s2l (iwl_cons i)) &&
  ostr_eqb (twl_location w) (iwl_location i) && N.eqb (bounds_n (twl_bounds w)) (iwl_bounds i) &&
  tns [twl_tilt w; twl_x w; twl_y w; twl_z w] (iwl_nums i) && Bool.eqb (match twl_polygon w with Some _ => true | None => false end) (iwl_polygon i) &&
  match iwl_azimuth i with Some a => tn (twl_azimuth w) a | None => true end &&
  ostr_eqb (twl_nextto w) (iwl_nextto i).
Fixpoint zip_ok {A B} (f : A -> B -> bool) (a : list A) (b : list B) : bool :=
  match a, b with [], [] => true | x :: ra, y :: rb => f x y && zip_ok f ra rb | _, _ => false end.

(* ---------- the database, thermal bridges, schedules ---------- *)
(* a documented default or a corrected thickness against the f32 the implementation holds *)
Definition tn_close (n : tnum) (i : ival) : bool :=
  match n, i with
  | NTok t, _ => tk t i
  | NConst q, INum x => qleb (Qabs (x - q)) (Qabs q * (1 # 8388608))
  | _, _ => false
  end.
Fixpoint tns_close (a : list tnum) (b : list ival) : bool :=
  match a, b with [], [] => true | x :: ra, y :: rb => tn_close x y && tns_close ra rb | _, _ => false end.
Fixpoint strs_eqb (a : list str) (b : list string) : bool :=
  match a, b with [], [] => true | x :: ra, y :: rb => str_eqb x (s2l y) && strs_eqb ra rb | _, _ => false end.
(* PORCENTAGE / 100 in f32 *)
Definition div100_close (tok : str) (i : ival) : bool :=
  match parse_float tok, i with
  | Some (FNum neg m e), INum q =>
      if Z.ltb 30 (Z.abs e) then true
      else let x := exact_of neg m e / 100 in qleb (Qabs (q - x)) (Qabs x * (1 # 2097152) + (1 # (Pos.pow 2 100)))
  | Some _, _ => true
  | None, _ => false
  end.
Definition wallcons_ok (ls : list twallcons) (cs : list tconstruction) (i : iwallcons) : bool :=
  match wallcons_lookup ls cs (s2l (iwc_name i)) with
  | Some (w, ab) =>
      str_eqb (twc_name w) (s2l (iwc_name i)) && str_eqb (twc_group w) (s2l (iwc_group i)) && strs_eqb (twc_material w) (iwc_material i) &&
      tns_close (twc_thickness w) (iwc_thickness i) && tn_close ab (iwc_absorptance i)
  | None => false
  end.
Definition wincons_ok (gs : list twincons) (i : iwincons) : bool :=
  match last_by twn_name (s2l (iwn2_name i)) gs with
  | Some g =>
      str_eqb (twn_group g) (s2l (iwn2_group i)) && str_eqb (twn_glass g) (s2l (iwn2_glass i)) &&
      str_eqb (twn_glassgroup g) (s2l (iwn2_glassgroup i)) && str_eqb (twn_frame g) (s2l (iwn2_frame i)) &&
      str_eqb (twn_framegroup g) (s2l (iwn2_framegroup i)) && div100_close (twn_percentage g) (iwn2_framefrac i) &&
      tk (twn_infcoeff g) (iwn2_infcoeff i) && tn (twn_deltau g) (iwn2_deltau i) && otk (twn_gglshwi g) (iwn2_gglshwi i)
  | None => false
  end.
Definition bridge_ok (t : tbridge) (i : ibridge) : bool :=
  str_eqb (tbr_name t) (s2l (ibr_name i)) && otk (tbr_length t) (ibr_length i) && str_eqb (tbr_type t) (s2l (ibr_type i)) &&
  tn (tbr_psi t) (ibr_psi i) && tn (tbr_frsi t) (ibr_frsi i) &&
  match tbr_geometry t, ibr_geometry i with
  | None, None => true
  | Some (mn, mx, p), Some (mn', mx', p') => tk mn mn' && tk mx mx' && str_eqb p (s2l p')
  | _, _ => false
  end &&
  match tbr_catalog t, ibr_catalog i with
  | None, None => true
  | Some c, Some (cl, pc, fe, se) =>
      strs_eqb (tct_classes c) cl && tks (tct_pcts c) pc && tks (tct_first c) fe &&
      match tct_second c, se with None, None => true | Some a, Some b => tks a b | _, _ => false end
  | _, _ => false
  end.
Definition kind_n (k : skind) : N := match k with SFraction => 0 | SOnOff => 1 | STemperature => 2 end%N.
Fixpoint ns_eqb (a b : list N) : bool :=
  match a, b with [], [] => true | x :: ra, y :: rb => N.eqb x y && ns_eqb ra rb | _, _ => false end.
Definition schedule_ok (t : tschedule) (i : ischedule) : bool :=
  match t, i with
  | TDay n k v, IDay n' k' v' => str_eqb n (s2l n') && N.eqb (kind_n k) k' && tks v v'
  | TWeek n k d, IWeek n' k' d' => str_eqb n (s2l n') && N.eqb (kind_n k) k' && strs_eqb d d'
  | TYear n k d m w, IYear n' k' d' m' w' => str_eqb n (s2l n') && N.eqb (kind_n k) k' && ns_eqb d d' && ns_eqb m m' && strs_eqb w w'
  | _, _ => false
  end.
Definition schedule_of (b : block) : option (res tschedule) :=
  if N.eqb (b_type b) BT_DaySchedulePd then Some (day_of b)
  else if N.eqb (b_type b) BT_WeekSchedulePd then Some (week_of b)
  else if N.eqb (b_type b) BT_SchedulePd then Some (year_of b) else None.
Fixpoint schedules_of (bs : list block) : list (res tschedule) :=
  match bs with [] => [] | b :: r => match schedule_of b with Some s => s :: schedules_of r | None => schedules_of r end end.

Definition db_code (bs : list block) (d : idb) : N :=
  match all_ok (map wallcons_of (of_type BT_Layers bs)), all_ok (map construction_of (of_type BT_Construction bs)),
        all_ok (map wincons_of (of_type BT_Gap bs)), all_ok (map tb_of (of_type BT_ThermalBridge bs)), all_ok (schedules_of bs) with
  | Some ls, Some cs, Some gs, Some tbs, Some scs =>
      if negb (constructions_resolve ls cs) then 3
      else if negb (Nat.eqb (distinct_n (wallcons_names ls cs)) (List.length (idb_wallcons d)) && forallb (wallcons_ok ls cs) (idb_wallcons d)) then 52
      else if negb (Nat.eqb (distinct_n (map twn_name gs)) (List.length (idb_wincons d)) && forallb (wincons_ok gs) (idb_wincons d)) then 53
      else if negb (zip_ok bridge_ok tbs (idb_bridges d)) then 54
      else if negb (zip_ok schedule_ok scs (idb_schedules d)) then 55
      else 0
  | _, _, _, _, _ => 3
  end%N.

Definition is_wall_type (t : N) : bool := N.eqb t BT_ExteriorWall || N.eqb t BT_Roof || N.eqb t BT_InteriorWall || N.eqb t BT_UndergroundWall.

(* only buildings the implementation accepts are compared: whether a whole document is accepted also depends
   on readers that are not modelled (polygons, constructions, layers) *)
Definition agree_C18B (c : buildingcase) : N :=
  match bc_impl c with
  | BPanic => 4
  | BErr => 0
  | BOk isps iwls db =>
      match build_blocks (text_of (bc_lines c)) with
      | Err _ => 3
      | Ok bs =>
          match all_ok (map space_of (of_type BT_Space bs)), all_ok (map wall_of (filter (fun b => is_wall_type (b_type b)) bs)) with
          | Some sps, Some wls =>
              if negb (zip_ok (space_ok bs) sps isps) then 50
              else if negb (zip_ok (wall_ok bs) wls iwls) then 51 else db_code bs db
          | _, _ => 3
          end
      end
  end%N.
