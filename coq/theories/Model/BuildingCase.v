(* C18 correspondence for whole small buildings: spaces (with what Data::new adds from their floor) and walls *)
From Coq Require Import NArith ZArith QArith Qabs Bool List String.
From CTE Require Import Base.Num Model.Bdl Model.BdlCase.
From CTE Require Import Model.BdlTyped Model.BdlTypedEnv Model.TypedCase.
From CTEGen Require Import BdlTypes.
Import ListNotations.

Record ispaceT := mkISp { isp_name : string; isp_floor : string; isp_type : string;
  isp_nums : list ival;          (* x, y, z, azimuth, height, floor multiplier, power, veei_obj, veei_ref, multiplier *)
  isp_inside : bool; isp_spacetype : string; isp_spaceconds : string; isp_systemconds : string; isp_multiplied : bool;
  isp_nvertices : nat }.
Record iwallT := mkIWl { iwl_name : string; iwl_space : string; iwl_cons : string; iwl_location : option string; iwl_bounds : N;
  iwl_nums : list ival;          (* tilt, x, y, z *)
  iwl_polygon : bool; iwl_azimuth : option ival;   (* the azimuth only where it is the written one (horizontal / polygon) *)
  iwl_nextto : option string }.
Inductive ibres := BOk (spaces : list ispaceT) (walls : list iwallT) | BErr | BPanic.
Record buildingcase := mkBC { bc_lines : list string; bc_impl : ibres }.

Definition bounds_n (b : tbounds) : N := match b with TB_EXTERIOR => 0 | TB_INTERIOR => 1 | TB_GROUND => 2 | TB_ADIABATIC => 3 end%N.
Definition ostr_eqb (a : option str) (b : option string) : bool :=
  match a, b with None, None => true | Some x, Some y => str_eqb x (s2l y) | _, _ => false end.
Fixpoint tns (a : list tnum) (b : list ival) : bool :=
  match a, b with [] , [] => true | x :: ra, y :: rb => tn x y && tns ra rb | _, _ => false end.
(* z of a space = its own Z + the Z of its floor, added in f32 *)
Definition exact_tn (n : tnum) : option Q :=
  match n with
  | NConst q => Some q
  | NTok t => match parse_float t with Some (FNum neg m e) => if Z.ltb 60 (Z.abs e) then None else Some (exact_of neg m e) | _ => None end
  end.
Definition sum_close (a b : tnum) (i : ival) : bool :=
  match exact_tn a, exact_tn b, i with
  | Some x, Some y, INum q => qleb (Qabs (q - (x + y))) ((Qabs x + Qabs y) * (1 # 4194304) + (1 # (Pos.pow 2 100)))
  | _, _, _ => true
  end.
Definition multiplied_of (t : str) : bool :=       (* |MULTIPLIED - 1| < 0.1 *)
  match parse_float t with
  | Some (FNum neg m e) => if Z.ltb 60 (Z.abs e) then false else let x := exact_of neg m e in qltb (Qabs (x - 1)) (1 # 10)
  | _ => false
  end.

Definition floor_named (n : str) (bs : list block) : option tfloor :=
  match find (fun b => N.eqb (b_type b) BT_Floor && str_eqb (b_name b) n) (rev bs) with
  | Some b => match floor_of b with Ok f => Some f | Err _ => None end
  | None => None
  end.
Definition vertices_of (poly : str) (bs : list block) : nat :=
  match find (fun b => N.eqb (b_type b) BT_Polygon && str_eqb (b_name b) poly) (rev bs) with
  | Some b => List.length (b_attrs b)
  | None => 0
  end.

Definition space_ok (bs : list block) (s : tspace) (i : ispaceT) : bool :=
  match floor_named (tsp_floor s) bs, isp_nums i with
  | Some f, [x; y; z; az; h; fm; pw; vo; vr; mu] =>
      str_eqb (tsp_name s) (s2l (isp_name i)) && str_eqb (tsp_floor s) (s2l (isp_floor i)) && str_eqb (tsp_type s) (s2l (isp_type i)) &&
      tn (tsp_x s) x && tn (tsp_y s) y && sum_close (tsp_z s) (tfl_z f) z && tn (tsp_azimuth s) az &&
      tk (tfl_height f) h && tn (tfl_multiplier f) fm && tk (tsp_power s) pw && tk (tsp_veei_obj s) vo && tk (tsp_veei_ref s) vr &&
      tk (tsp_multiplier s) mu && Bool.eqb (tsp_inside s) (isp_inside i) &&
      str_eqb (tsp_spacetype s) (s2l (isp_spacetype i)) && str_eqb (tsp_spaceconds s) (s2l (isp_spaceconds i)) &&
      str_eqb (tsp_systemconds s) (s2l (isp_systemconds i)) && Bool.eqb (multiplied_of (tsp_multiplied s)) (isp_multiplied i) &&
      Nat.eqb (vertices_of (tsp_polygon s) bs) (isp_nvertices i)
  | _, _ => false
  end.
Definition wall_ok (w : twall) (i : iwallT) : bool :=
  str_eqb (twl_name w) (s2l (iwl_name i)) && str_eqb (twl_space w) (s2l (iwl_space i)) && str_eqb (twl_cons w) (s2l (iwl_cons i)) &&
  ostr_eqb (twl_location w) (iwl_location i) && N.eqb (bounds_n (twl_bounds w)) (iwl_bounds i) &&
  tns [twl_tilt w; twl_x w; twl_y w; twl_z w] (iwl_nums i) && Bool.eqb (twl_polygon w) (iwl_polygon i) &&
  match iwl_azimuth i with Some a => tn (twl_azimuth w) a | None => true end &&
  ostr_eqb (twl_nextto w) (iwl_nextto i).
Fixpoint zip_ok {A B} (f : A -> B -> bool) (a : list A) (b : list B) : bool :=
  match a, b with [], [] => true | x :: ra, y :: rb => f x y && zip_ok f ra rb | _, _ => false end.

Definition is_wall_type (t : N) : bool := N.eqb t BT_ExteriorWall || N.eqb t BT_Roof || N.eqb t BT_InteriorWall || N.eqb t BT_UndergroundWall.

(* only buildings the implementation accepts are compared: whether a whole document is accepted also depends
   on readers that are not modelled (polygons, constructions, layers) *)
Definition agree_C18B (c : buildingcase) : N :=
  match bc_impl c with
  | BPanic => 4
  | BErr => 0
  | BOk isps iwls =>
      match build_blocks (text_of (bc_lines c)) with
      | Err _ => 3
      | Ok bs =>
          match all_ok (map space_of (of_type BT_Space bs)), all_ok (map wall_of (filter (fun b => is_wall_type (b_type b)) bs)) with
          | Some sps, Some wls =>
              if negb (zip_ok (space_ok bs) sps isps) then 50
              else if negb (zip_ok wall_ok wls iwls) then 51 else 0
          | _, _ => 3
          end
      end
  end%N.
