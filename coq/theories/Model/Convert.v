(* Name-level model of parsing + converting a HULC project: which name references are followed,
   where a missing definition is an error, where it is silently dropped, where the code crashes. *)
From Coq Require Import NArith Bool List.
From CTE Require Import Base.Num.
Import ListNotations.

Definition name := N.
Definition nmem (x : name) (l : list name) : bool := existsb (N.eqb x) l.

Record bspace := mkBSpace { bs_name : name; bs_polygon : name; bs_conds : name; bs_sys : name }.
Record bwall := mkBWall { bw_name : name; bw_space : name; bw_cons : name; bw_next : option name; bw_polygon : option name }.
Record bwin := mkBWin { bn_name : name; bn_wall : name; bn_gap : name }.
Record bconds := mkBConds { bc_name : name; bc_people : name; bc_equip : name; bc_light : name }.
Record bsys := mkBSys { by_name : name; by_scheds : option (name * name) }.   (* Some (cool, heat) when TYPE = CONDITIONED *)

Record bdoc := mkBDoc {
  d_spaces : list bspace; d_walls : list bwall; d_wins : list bwin;
  d_polygons : list name;
  d_constructions : list (name * name);        (* CONSTRUCTION name -> LAYERS name *)
  d_layers : list (name * list name);           (* LAYERS name -> MATERIAL names *)
  d_materials : list name;
  d_gaps : list (name * (name * name));         (* GAP name -> (GLASS-TYPE, NAME-FRAME) *)
  d_glasses : list name; d_frames : list name;
  d_conds : list bconds; d_sys : list bsys;
  d_years : list (name * list name); d_weeks : list (name * list name); d_days : list name;
  d_ninguno : name                               (* the name "Ninguno" (an empty layer set that always exists) *) }.

Inductive outcome := CErr | CPanic | COk.

Definition assoc {A} (k : name) (l : list (name * A)) : option A :=
  match find (fun p => N.eqb (fst p) k) l with Some p => Some (snd p) | None => None end.

(* ---- hulc::bdl::Data::new ---- *)
(* wall constructions known after parsing: every CONSTRUCTION (with the materials of its LAYERS) and
   every LAYERS block under its own name, plus "Ninguno" *)
Definition parsed_wallcons (b : bdoc) : list (name * list name) :=
  flat_map (fun c => match assoc (snd c) (d_layers b) with
                     | Some ms => if N.eqb (fst c) (snd c) then [] else [(fst c, ms)]
                     | None => [] end) (d_constructions b)
  ++ d_layers b ++ (if nmem (d_ninguno b) (map fst (d_layers b)) then [] else [(d_ninguno b, [])]).

Definition parse_ok (b : bdoc) : bool :=
  (* every CONSTRUCTION finds its LAYERS *)
  forallb (fun c => nmem (snd c) (map fst (d_layers b)) || N.eqb (snd c) (d_ninguno b)) (d_constructions b) &&
  (* every SPACE finds its POLYGON (its FLOOR is its parent block) *)
  forallb (fun s => nmem (bs_polygon s) (d_polygons b)) (d_spaces b) &&
  (* every wall finds its POLYGON when it names one, and its construction *)
  forallb (fun w => match bw_polygon w with Some p => nmem p (d_polygons b) | None => true end &&
                    nmem (bw_cons w) (map fst (parsed_wallcons b))) (d_walls b).

(* ---- Model::try_from ---- *)
Definition all_names_in (xs defs : list name) : bool := forallb (fun x => nmem x defs) xs.

Definition cons_step (b : bdoc) : bool :=
  let wcs := parsed_wallcons b in
  (* used wall constructions: found, and every material of theirs defined *)
  forallb (fun w => match assoc (bw_cons w) wcs with
                    | Some ms => all_names_in ms (d_materials b)
                    | None => false end) (d_walls b) &&
  (* used window constructions: found, with glazing and frame *)
  forallb (fun n => match assoc (bn_gap n) (d_gaps b) with
                    | Some (g, f) => nmem g (d_glasses b) && nmem f (d_frames b)
                    | None => false end) (d_wins b).

Definition walls_step (b : bdoc) : bool :=
  let spaces := map bs_name (d_spaces b) in
  forallb (fun w => nmem (bw_space w) spaces && match bw_next w with Some n => nmem n spaces | None => true end) (d_walls b).

(* a window whose wall is not a wall of the project: walls.iter().find(..).ok_or_else(..)? *)
Definition windows_wall_missing (b : bdoc) : bool :=
  negb (forallb (fun n => nmem (bn_wall n) (map bw_name (d_walls b))) (d_wins b)).

(* schedules: every lookup of a weekly / daily schedule name returns an error when it fails *)
Inductive sres := SOk | SErr | SPanic.
Definition week_res (b : bdoc) (w : name * list name) : sres :=
  match snd w with
  | [d] => if nmem d (d_days b) then SOk else SErr
  | ds => if Nat.eqb (length ds) 7 then (if all_names_in ds (d_days b) then SOk else SErr) else SErr
  end.
Definition year_res (b : bdoc) (y : name * list name) : sres :=
  if all_names_in (snd y) (map fst (d_weeks b)) then SOk else SErr.
Definition first_bad (l : list sres) : sres :=
  match find (fun r => match r with SOk => false | _ => true end) l with Some r => r | None => SOk end.
(* blocks are converted in file order; the harness lists days, weeks, years in that order *)
Definition sched_step (b : bdoc) : sres := first_bad (map (week_res b) (d_weeks b) ++ map (year_res b) (d_years b)).

Definition loads_step (b : bdoc) : bool :=
  let ys := map fst (d_years b) in
  forallb (fun c => nmem (bc_people c) ys && nmem (bc_equip c) ys && nmem (bc_light c) ys) (d_conds b).
Definition thermostats_step (b : bdoc) : bool :=
  let ys := map fst (d_years b) in
  forallb (fun s => match by_scheds s with Some (c, h) => nmem c ys && nmem h ys | None => true end) (d_sys b).

(* the steps in the order of the code: cons, spaces (never fails), walls, windows, schedules, loads,
   thermostats; `?` stops at the first error, unwrap() crashes *)
Definition convert (b : bdoc) : outcome :=
  if negb (parse_ok b) then CErr
  else if negb (cons_step b) then CErr
  else if negb (walls_step b) then CErr
  else if windows_wall_missing b then CErr
  else match sched_step b with
       | SErr => CErr
       | SPanic => CPanic
       | SOk => if negb (loads_step b) then CErr else if negb (thermostats_step b) then CErr else COk
       end.

(* ---- what "closed" means for the converted model, at the level of names ---- *)
Definition links_closed (b : bdoc) : bool :=
  let spaces := map bs_name (d_spaces b) in
  let wcs := parsed_wallcons b in
  forallb (fun w => nmem (bw_space w) spaces && nmem (bw_cons w) (map fst wcs) &&
                    match bw_next w with Some n => nmem n spaces | None => true end &&
                    match assoc (bw_cons w) wcs with Some ms => all_names_in ms (d_materials b) | None => false end) (d_walls b) &&
  forallb (fun n => nmem (bn_wall n) (map bw_name (d_walls b)) &&
                    match assoc (bn_gap n) (d_gaps b) with Some (g, f) => nmem g (d_glasses b) && nmem f (d_frames b) | None => false end) (d_wins b) &&
  forallb (fun c => all_names_in [bc_people c; bc_equip c; bc_light c] (map fst (d_years b))) (d_conds b) &&
  forallb (fun s => match by_scheds s with Some (c, h) => all_names_in [c; h] (map fst (d_years b)) | None => true end) (d_sys b) &&
  forallb (fun y => all_names_in (snd y) (map fst (d_weeks b))) (d_years b) &&
  forallb (fun w => all_names_in (snd w) (d_days b)) (d_weeks b).

(* the link kinds whose breakage the conversion does NOT reject: a space naming conditions that are
   not defined loses its loads / thermostat silently (F13, kept as a known finding) *)
Definition space_conds_dangling (b : bdoc) : bool :=
  existsb (fun s => negb (nmem (bs_conds s) (map bc_name (d_conds b))) || negb (nmem (bs_sys s) (map by_name (d_sys b)))) (d_spaces b).

(* ---- correspondence ---- *)
Definition outcome_idx (o : outcome) : N := match o with CErr => 1 | CPanic => 2 | COk => 0 end%N.
Record c02_case := mkC02 {
  c2_doc : bdoc;
  c2_impl : N;                 (* 0 converted, 1 rejected with an error, 2 crashed *)
  c2_mutated : bool;           (* a referenced definition was renamed / removed: must not convert *)
  c2_conds_kind : bool         (* ... and the broken link is space -> space / system conditions *) }.

(* a reference of one of the rejected kinds is broken in the document *)
Definition broken (b : bdoc) : bool := negb (links_closed b) || negb (parse_ok b).

Definition agree_C02 (c : c02_case) : N :=
  let o := convert (c2_doc c) in
  if negb (N.eqb (outcome_idx o) (c2_impl c)) then 1%N                  (* model and implementation disagree *)
  else if N.eqb (c2_impl c) 2 then 4%N                                  (* crashed instead of an error *)
  else if N.eqb (c2_impl c) 0 && broken (c2_doc c) then 2%N             (* a project with a broken reference was converted *)
  else if N.eqb (c2_impl c) 0 && c2_mutated c && c2_conds_kind c && space_conds_dangling (c2_doc c) then 3%N
  else 0%N.
