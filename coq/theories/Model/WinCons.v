(* Window constructions: U-value and solar factors (WinCons::u_value, g_glwi, g_glshwi and what
   EnergyProps reports for them). *)
From Coq Require Import ZArith NArith QArith Qabs Bool List.
From CTE Require Import Base.Num Model.BModel Model.Props.
Import ListNotations.
Local Open Scope Q_scope.

Definition u_win_formula (du ff uf ug : Q) : Q := (1 + du / 100) * (uf * ff + ug * (1 - ff)).

(* unrounded U-value; None when glazing or frame is missing *)
Definition u_win (db : consdb) (wc : wincons) : option Q :=
  match get_glass db (wnc_glass wc), get_frame db (wnc_frame wc) with
  | Some g, Some f => Some (u_win_formula (wnc_du wc) (wnc_ff wc) (fr_u f) (gl_u g))
  | _, _ => None
  end.

(* solar factor without shading: 0.90 times the glazing's normal-incidence factor *)
Definition g_glwi (db : consdb) (wc : wincons) : option Q :=
  match get_glass db (wnc_glass wc) with Some g => Some ((9 # 10) * gl_g g) | None => None end.
(* with movable shading: the user value when given, the unshaded factor otherwise *)
Definition g_glshwi (db : consdb) (wc : wincons) : option Q :=
  match wnc_gglshwi wc with Some x => Some x | None => g_glwi db wc end.

Definition g_default : Q := 77 # 100.
(* what EnergyProps reports *)
Definition props_g_glwi (db : consdb) (wc : wincons) : Q := opt_default g_default (g_glwi db wc).
Definition props_g_glshwi (db : consdb) (wc : wincons) : Q := opt_default (props_g_glwi db wc) (g_glshwi db wc).

Definition last_wincons (db : consdb) (id : uuid) : option wincons :=
  find (fun w => N.eqb (wnc_id w) id) (rev (c_wincons db)).

(* ---- correspondence ---- *)
Definition wtol2 (impl model : Q) : bool := close_rel (1 # 100000) ((1 # 200) + (1 # 10000)) impl model.

Definition wincons_agree (db : consdb) (e : uuid * winconsp) : bool :=
  match last_wincons db (fst e) with
  | None => false
  | Some wc => let p := snd e in
      opt_close wtol2 (cp_u p) (u_win db wc) && wtol2 (cp_gglwi p) (props_g_glwi db wc) &&
      wtol2 (cp_gglshwi p) (props_g_glshwi db wc) && qeqb (cp_ff p) (wnc_ff wc) && qeqb (cp_c100 p) (wnc_c100 wc)
  end.

Record c07_case := mkC07 {
  c07_db : consdb;
  c07_props : list (uuid * winconsp);       (* props.wincons as reported *)
  c07_direct : list (option Q * option Q * option Q)  (* WinCons::u_value, g_glwi, g_glshwi per construction, in list order *) }.

Fixpoint direct_agree (db : consdb) (wcs : list wincons) (d : list (option Q * option Q * option Q)) : bool :=
  match wcs, d with
  | [], [] => true
  | wc :: wcs', (u, g, gs) :: d' =>
      opt_close wtol2 u (u_win db wc) && opt_close wtol2 g (g_glwi db wc) && opt_close wtol2 gs (g_glshwi db wc) &&
      direct_agree db wcs' d'
  | _, _ => false
  end.

Definition agree_C07 (c : c07_case) : N :=
  first_fail [
    (1%N, forallb (wincons_agree (c07_db c)) (c07_props c));
    (2%N, direct_agree (c07_db c) (c_wincons (c07_db c)) (c07_direct c)) ].
