(* C18: typed elements built from the blocks (hulc/src/bdl/db/*.rs, envelope/{floor,window,shadings}.rs):
   which attribute feeds which field, which attributes are required, the documented legacy defaults. *)
From Coq Require Import NArith ZArith QArith Bool List String.
From CTE Require Import Model.Bdl.
Import ListNotations.
Local Open Scope N_scope.

Definition lookup_attr (k : str) (m : attrmap) : option bval :=
  match find (fun p => str_eqb (fst p) k) m with Some p => Some (snd p) | None => None end.
(* AttrMap::get_f32 / remove_f32: the value must have been typed as a number *)
Definition get_num (k : string) (m : attrmap) : option str :=
  match lookup_attr (s2l k) m with Some (VNum t) => Some t | _ => None end.
(* AttrMap::get_str / remove_str: the value must have been typed as a string *)
Definition get_text (k : string) (m : attrmap) : option str :=
  match lookup_attr (s2l k) m with Some (VStr s) => Some s | _ => None end.

(* a number of a typed element: a token of the file or a documented default *)
Inductive tnum := NTok (t : str) | NConst (q : Q).
Definition num_or (o : option str) (d : Q) : tnum := match o with Some t => NTok t | None => NConst d end.
Definition req {A} (o : option A) (k : A -> res A) : res A := match o with Some x => k x | None => Err 5 end.

Local Open Scope string_scope.
(* ---------- MATERIAL ---------- *)
Record tmaterial := mkTM { tm_name : str; tm_group : str;
  tm_props : option (option str * str * str * tnum * option str);   (* thickness, conductivity, density, specific heat, vapour *)
  tm_resistance : option str }.
(* String::replace("  ", " "): one pass, left to right, non overlapping *)
Fixpoint squeeze2 (s : str) : str :=
  match s with
  | 32%N :: r => match r with 32%N :: r2 => 32%N :: squeeze2 r2 | _ => 32%N :: squeeze2 r end
  | c :: r => c :: squeeze2 r
  | [] => []
  end.
Definition material_of (b : block) : res tmaterial :=
  let a := b_attrs b in
  let group := match get_text "GROUP" a with Some g => g | None => s2l "Materiales" end in
  match get_text "TYPE" a with
  | None => Err 5
  | Some ty =>
      if str_eqb ty (s2l "PROPERTIES") then
        match get_num "CONDUCTIVITY" a, get_num "DENSITY" a with
        | Some c, Some d =>
            Ok (mkTM (squeeze2 (b_name b)) group
                  (Some (get_num "THICKNESS" a, c, d, num_or (get_num "SPECIFIC-HEAT" a) 800, get_num "VAPOUR-DIFFUSIVITY-FACTOR" a)) None)
        | _, _ => Err 5
        end
      else match get_num "RESISTANCE" a with
           | Some r => Ok (mkTM (squeeze2 (b_name b)) group None (Some r))
           | None => Err 5
           end
  end.

(* ---------- GLASS-TYPE ---------- *)
Record tglass := mkTG { tg_name : str; tg_group : str; tg_conductivity : str; tg_shading_coef : str }.  (* g_gln = 0.86 x SHADING-COEF *)
Definition glass_of (b : block) : res tglass :=
  let a := b_attrs b in
  match get_text "TYPE" a with
  | None => Err 5
  | Some ty =>
      if negb (str_eqb ty (s2l "SHADING-COEF")) then Err 6
      else match get_num "GLASS-CONDUCTANCE" a, get_num "SHADING-COEF" a with
           | Some c, Some s => Ok (mkTG (b_name b) (match get_text "GROUP" a with Some g => g | None => s2l "Vidrios" end) c s)
           | _, _ => Err 5
           end
  end.

(* ---------- NAME-FRAME ---------- *)
Record tframe := mkTF { tf_name : str; tf_group : str; tf_conductivity : str; tf_absorptivity : str; tf_width : str }.
Definition frame_of (b : block) : res tframe :=
  let a := b_attrs b in
  match get_text "GROUP" a, get_num "FRAME-CONDUCT" a, get_num "FRAME-ABS" a, get_num "FRAME-WIDTH" a with
  | Some g, Some c, Some ab, Some w => Ok (mkTF (b_name b) g c ab w)
  | _, _, _, _ => Err 5
  end.

(* ---------- FLOOR ---------- *)
Record tfloor := mkTFl { tfl_name : str; tfl_z : tnum; tfl_height : str; tfl_multiplier : tnum; tfl_previous : str }.
Definition zero_tok (t : str) : bool :=
  match parse_float t with Some (FNum _ m _) => N.eqb m 0 | _ => false end.
Definition floor_of (b : block) : res tfloor :=
  let a := b_attrs b in
  let xy_ok := match get_num "X" a with Some t => zero_tok t | None => true end &&
               match get_num "Y" a with Some t => zero_tok t | None => true end in
  if negb xy_ok then Err 7
  else match get_num "SPACE-HEIGHT" a, get_text "PREVIOUS" a with
       | Some h, Some p => Ok (mkTFl (b_name b) (num_or (get_num "Z" a) 0) h (num_or (get_num "MULTIPLIER" a) 1) p)
       | _, _ => Err 5
       end.

(* extract_f32vec: the text between the parentheses, split at commas, every piece a number *)
Definition trim_parens (s : str) : str :=
  let drop := fix drop (s : str) : str := match s with c :: r => if (N.eqb c 32 || N.eqb c 40 || N.eqb c 41)%bool then drop r else s | [] => [] end in
  rev (drop (rev (drop s))).
Definition f32vec (s : str) : option (list str) :=
  let parts := map trim (split_on 44 (trim_parens s)) in
  if forallb is_number parts then Some parts else None.
(* point3_from_str: split at commas, blanks and parentheses stripped from each piece, three numbers *)
Definition point3 (s : str) : option (list str) :=
  match map trim_parens (split_on 44 s) with
  | [x; y; z] => if is_number x && is_number y && is_number z then Some [x; y; z] else None
  | _ => None
  end.
(* ---------- WINDOW (position and size) ---------- *)
Record twindow := mkTW { tw_name : str; tw_wall : str; tw_gap : str; tw_x : str; tw_y : str; tw_height : str; tw_width : str; tw_setback : str }.
Definition window_of (b : block) : res twindow :=
  let a := b_attrs b in
  let coeff_ok := match get_text "COEFF" a with
                  | None => true       (* old LIDER files have no correction coefficients *)
                  | Some s => match f32vec s with Some l => Nat.eqb (List.length l) 4 | None => false end
                  end in
  if negb coeff_ok then Err 9 else
  match b_parent b, get_text "GAP" a with
  | Some w, Some g =>
      match get_num "X" a, get_num "Y" a, get_num "HEIGHT" a, get_num "WIDTH" a, get_num "SETBACK" a with
      | Some x, Some y, Some h, Some wd, Some sb => Ok (mkTW (b_name b) w g x y h wd sb)
      | _, _, _, _, _ => Err 5
      end
  | _, _ => Err 5
  end.

(* ---------- BUILDING-SHADE ---------- *)
Record tshade := mkTS { tsh_name : str; tsh_tran : str; tsh_refl : str;
  tsh_geometry : option (list str);             (* X Y Z HEIGHT WIDTH AZIMUTH TILT *)
  tsh_vertices : option (list (list str)) }.    (* V1, V2, ... in the order of their numbers *)
Fixpoint nat_str (fuel n : nat) : str :=   (* decimal digits of n *)
  match fuel with
  | O => []
  | S f => (if Nat.ltb n 10 then [] else nat_str f (Nat.div n 10)) ++ [N.of_nat (48 + Nat.modulo n 10)]
  end.
Fixpoint vertices_from (fuel i : nat) (a : attrmap) : option (list (list str)) :=
  match fuel with
  | O => Some []
  | S f =>
      match lookup_attr (86%N :: nat_str 5 i) a with        (* "V" ++ i *)
      | Some (VStr s) =>
          match point3 s with
          | Some p => match vertices_from f (S i) a with Some r => Some (p :: r) | None => None end
          | None => None
          end
      | _ => Some []
      end
  end.
Definition shade_of (b : block) : res tshade :=
  let a := b_attrs b in
  match get_num "TRAN" a, get_num "REFL" a with
  | Some t, Some r =>
      match get_num "X" a with
      | Some x =>
          match get_num "Y" a, get_num "Z" a, get_num "HEIGHT" a, get_num "WIDTH" a, get_num "AZIMUTH" a, get_num "TILT" a with
          | Some y, Some z, Some h, Some w, Some az, Some ti => Ok (mkTS (b_name b) t r (Some [x; y; z; h; w; az; ti]) None)
          | _, _, _, _, _, _ => Err 5
          end
      | None => match vertices_from 100 1 a with
                | Some vs => Ok (mkTS (b_name b) t r None (Some vs))
                | None => Err 8
                end
      end
  | _, _ => Err 5
  end.
