(* Remote-obstruction factor: sunlit fraction of a window by exact geometry, and its aggregation
   over the July design-day hours. *)
From Coq Require Import ZArith NArith QArith Qabs Bool List.
From CTE Require Import Base.Num Model.Aabb Model.Poly.
Import ListNotations.
Local Open Scope Q_scope.

(* an obstacle: posed polygon, its own id and, for reveal surfaces, the window it belongs to *)
Record occ := mkOcc { oc_id : N; oc_link : option N; oc_pose : pose; oc_poly : list pt2 }.

(* candidates for a window: not the window's own wall, not the reveals of other windows *)
Definition candidate (wall_id win_id : N) (o : occ) : bool :=
  negb (N.eqb (oc_id o) wall_id) &&
  match oc_link o with Some l => N.eqb l win_id | None => true end.

(* Polygon::normal: +z or -z by the turn of the first three points *)
Definition poly_normal_z (poly : list pt2) : Q :=
  match poly with
  | a :: b :: c :: _ =>
      let v0 := (fst b - fst a, snd b - snd a) in let v1 := (fst c - fst a, snd c - snd a) in
      if qleb (snd v0 * fst v1) (fst v0 * snd v1) then 1 else -1
  | _ => 1
  end.
Definition surf_normal (p : pose) (poly : list pt2) : vec3 := rot_global p (mkV 0 0 (poly_normal_z poly)).

(* a sample point is: blocked for sure, clear for sure, or within the excluded margins *)
Inductive verdict := Blocked | Clear | Undecided.
Definition point_verdict (cands : list occ) (o : vec3) (d : vec3) : verdict :=
  let vs := map (fun c => decided_hit (oc_pose c) (oc_poly c) (mkRay o d)) cands in
  if existsb (fun v => match v with Some true => true | _ => false end) vs then Blocked
  else if forallb (fun v => match v with Some false => true | _ => false end) vs then Clear
  else Undecided.

(* bounds on the number of blocked sample points *)
Definition blocked_bounds (cands : list occ) (origins : list vec3) (d : vec3) : nat * nat :=
  let vs := map (fun o => point_verdict cands o d) origins in
  (length (filter (fun v => match v with Blocked => true | _ => false end) vs),
   length (filter (fun v => match v with Clear => false | _ => true end) vs)).

(* sunlit fraction from a number of blocked points *)
Definition sunlit_of (blocked total : nat) : Q :=
  1 - inject_Z (Z.of_nat blocked) / inject_Z (Z.of_nat total).

(* the sample grid: n x n cell centres of the window rectangle, set back behind the wall plane *)
Definition grid_points (x y w h s : Q) (n : nat) : list vec3 :=
  flat_map (fun j => map (fun i =>
      mkV (x + (inject_Z (Z.of_nat i) + (1 # 2)) * (w / inject_Z (Z.of_nat n)))
          (y + (inject_Z (Z.of_nat j) + (1 # 2)) * (h / inject_Z (Z.of_nat n))) (- s)) (seq 0 n)) (seq 0 n).

(* the frame a window is placed in (WallGeom::to_polygon_coords_matrix): origin at the first vertex of the wall
   outline, x axis along its first edge. Exact for first edges parallel to a local axis (what a rectangle listed
   from any of its corners gives); None otherwise *)
Definition frame_of (poly : list pt2) : option (pt2 * (Q * Q)) :=
  match poly with
  | v0 :: v1 :: _ :: _ =>
      let dx := fst v1 - fst v0 in let dy := snd v1 - snd v0 in
      if qeqb dy 0 then (if qltb 0 dx then Some (v0, (1, 0)) else if qltb dx 0 then Some (v0, (- (1), 0)) else None)
      else if qeqb dx 0 then (if qltb 0 dy then Some (v0, (0, 1)) else Some (v0, (0, - (1))))
      else None
  | _ => None
  end.
Definition in_frame (f : pt2 * (Q * Q)) (v : vec3) : vec3 :=
  let c := fst (snd f) in let s := snd (snd f) in
  mkV (fst (fst f) + c * vx v - s * vy v) (snd (fst f) + s * vx v + c * vy v) (vz v).

(* ---- aggregation over the design-day hours ---- *)
Record hour := mkHour { hr_f : Q; hr_dir : Q; hr_dif : Q }.   (* sunlit fraction, beam, diffuse on the window plane *)
Definition hour_factor (h : hour) : Q := (hr_f h * hr_dir h + hr_dif h) / (hr_dir h + hr_dif h).
Definition fsh (hs : list hour) : Q := qsum (map hour_factor hs) / inject_Z (Z.of_nat (length hs)).

(* ---- which surfaces can hide a window (Model::collect_occluders) ---- *)
Inductive bkind := BExt | BInt | BGnd | BAdb.
Record surf := mkSurf { sf_id : N; sf_bounds : bkind; sf_pose : option pose; sf_poly : list pt2 }.
Record winq := mkWinq { wq_id : N; wq_wall : N; wq_pos : option (Q * Q); wq_w : Q; wq_h : Q; wq_s : Q }.

Definition reveal_id : N := 340282366920938463463374607431768211455%N.
(* the four reveal surfaces of a set-back window, each as a posed polygon (Window::shades_for_setback) *)
Definition reveal_occs (p : pose) (win : N) (x y w h s : Q) : list occ :=
  let at_ v ca sa ct st := mkPose (vred (to_global p v)) ca sa ct st in
  [ mkOcc reveal_id (Some win) (at_ (mkV x (y + h) 0) (p_ca p) (p_sa p) (- p_st p) (p_ct p))
          [(0, 0); (0, - s); (w, - s); (w, 0)];
    mkOcc reveal_id (Some win) (at_ (mkV x (y + h) 0) (- p_sa p) (p_ca p) 0 1)
          [(0, 0); (- h * p_ct p, - h * p_st p); (s * p_st p - h * p_ct p, - s * p_ct p - h * p_st p); (s * p_st p, - s * p_ct p)];
    mkOcc reveal_id (Some win) (at_ (mkV (x + w) (y + h) 0) (p_sa p) (- p_ca p) 0 1)
          [(0, 0); (- s * p_st p, - s * p_ct p); (- s * p_st p + h * p_ct p, - s * p_ct p - h * p_st p); (h * p_ct p, - h * p_st p)];
    mkOcc reveal_id (Some win) (at_ (mkV x y 0) (p_ca p) (p_sa p) (p_st p) (- p_ct p))
          [(0, 0); (w, 0); (w, s); (0, s)] ].

Definition find_surf (walls : list surf) (id : N) : option surf := find (fun w => N.eqb (sf_id w) id) walls.

Definition window_reveals (walls : list surf) (w : winq) : list occ :=
  match find_surf walls (wq_wall w) with
  | None => []
  | Some wall =>
      if qltb (Qabs (wq_s w)) (1 # 100) then []
      else match wq_pos w, sf_pose wall with
           | Some (x, y), Some p => reveal_occs p (wq_id w) x y (wq_w w) (wq_h w) (wq_s w)
           | _, _ => []
           end
  end.

Definition surf_occ (s : surf) : list occ :=
  match sf_pose s, sf_poly s with
  | Some p, (_ :: _) as poly => [mkOcc (sf_id s) None p poly]
  | _, _ => []
  end.
Definition occluders (walls shades : list surf) (wins : list winq) : list occ :=
  flat_map surf_occ (filter (fun w => match sf_bounds w with BExt | BAdb => true | _ => false end) walls) ++
  flat_map surf_occ shades ++ flat_map (window_reveals walls) wins.

(* ---- correspondence ---- *)
Record c12_window := mkC12Win {
  cw_win : N;
  cw_exact : bool;                        (* geometry is rational: compare sample points and sunlit fractions *)
  cw_origins : list vec3;                (* ray_origins_for_window *)
  cw_hours : list (vec3 * Q * Q * Q * bool); (* sun direction, sunlit_fraction, beam, diffuse on the plane, compare this hour's fraction with exact geometry *)
  cw_fshobst : option Q                  (* reported factor (None: not finite / not reported) *) }.

Record c12_case := mkC12 {
  c12_walls : list surf; c12_shades : list surf; c12_wins : list winq; c12_windows : list c12_window }.

Definition find_win (c : c12_case) (id : N) : option winq := find (fun w => N.eqb (wq_id w) id) (c12_wins c).

Definition origins_ok (c : c12_case) (w : c12_window) : bool :=
  negb (cw_exact w) ||
  match find_win c (cw_win w) with
  | None => false
  | Some q =>
      match find_surf (c12_walls c) (wq_wall q) with
      | None => Nat.eqb (length (cw_origins w)) 0
      | Some wall =>
          match wq_pos q, sf_pose wall with
          | Some (x, y), Some p =>
              match frame_of (sf_poly wall) with
              | Some f =>
                  let model := map (fun v => to_global p (in_frame f v)) (grid_points x y (wq_w q) (wq_h q) (wq_s q) 5) in
                  Nat.eqb (length model) (length (cw_origins w)) &&
                  forallb (fun pq => vclose (1 # 1000) (fst pq) (snd pq)) (combine model (cw_origins w))
              | None =>
                  (* fewer than three vertices: no frame, no sample points; a first edge in a general direction: not compared *)
                  match sf_poly wall with _ :: _ :: _ :: _ => true | _ => Nat.eqb (length (cw_origins w)) 0 end
              end
          | _, _ => Nat.eqb (length (cw_origins w)) 0
          end
      end
  end.

Definition hour_ok (c : c12_case) (occs : list occ) (w : c12_window) (hd : vec3 * Q * Q * Q * bool) : bool :=
  negb (cw_exact w) || negb (snd hd) ||
  match hd with (d, f, _, _, _) =>
    match find_win c (cw_win w) with
    | None => false
    | Some q =>
      match find_surf (c12_walls c) (wq_wall q) with
      | None => qeqb f 1                                   (* no wall: fully sunlit *)
      | Some wall =>
        match sf_pose wall with
        | None => qeqb f 1                                 (* wall without position: fully sunlit *)
        | Some p =>
          let facing := vdot (surf_normal p (sf_poly wall)) d in
          let total := length (cw_origins w) in
          if qltb (Qabs (facing - (1 # 100))) (1 # 10000) then true   (* at the 0.01 incidence guard *)
          else if qltb facing (1 # 100) then qeqb f 0                  (* sun behind the window *)
          else if Nat.eqb total 0 then qeqb f 1                        (* window without position *)
          else
            let cands := filter (candidate (sf_id wall) (cw_win w)) occs in
            let bb := blocked_bounds cands (cw_origins w) d in
            qleb (sunlit_of (snd bb) total - (1 # 100000)) f && qleb f (sunlit_of (fst bb) total + (1 # 100000))
        end
      end
    end
  end.

Definition fsh_ok (w : c12_window) : bool :=
  match cw_fshobst w with
  | None => false
  | Some r =>
      match cw_hours w with
      | [] => true
      | hs => let m := fsh (map (fun hd => match hd with (_, f, dir, dif, _) => mkHour f dir dif end) hs) in
              qleb (Qabs (r - m)) ((1 # 200) + (1 # 10000)) && qleb 0 r && qleb r 1
      end
  end.

Definition agree_C12 (c : c12_case) : N :=
  let occs := occluders (c12_walls c) (c12_shades c) (c12_wins c) in
  first_fail [
    (1%N, forallb (origins_ok c) (c12_windows c));
    (2%N, forallb (fun w => forallb (hour_ok c occs w) (cw_hours w)) (c12_windows c));
    (3%N, forallb fsh_ok (c12_windows c)) ].
