(* C14: which loadable models are "sane" (referentially closed, positive sizes, non-negative
   physical data, well-formed schedules): for those every reported number must be finite. *)
From Coq Require Import ZArith NArith QArith Qabs Bool List.
From CTE Require Import Base.Num Model.BModel Model.Props Model.Checks Model.Geometry.
Import ListNotations.
Local Open Scope Q_scope.

Fixpoint nodupb (l : list uuid) : bool :=
  match l with [] => true | x :: r => negb (mem x r) && nodupb r end.
Definition opt_in (o : option uuid) (l : list uuid) : bool := match o with Some x => mem x l | None => true end.
Definition opt_pos (o : option Q) : bool := match o with Some x => qltb 0 x | None => true end.
Definition opt_nonneg (o : option Q) : bool := match o with Some x => qleb 0 x | None => true end.
Definition in01 (x : Q) : bool := qleb 0 x && qleb x 1.

Definition closed (m : model) : bool :=
  let c := m_cons m in let s := m_sched m in
  let mats := map m_id (c_materials c) in let gls := map gl_id (c_glasses c) in let frs := map fr_id (c_frames c) in
  let lds := map ld_id (m_loads m) in let ths := map th_id (m_thermostats m) in
  let ys := map sc_id (sch_year s) in let ws := map sc_id (sch_week s) in let ds := map sd_id (sch_day s) in
  match check m with [] => true | _ => false end &&
  forallb (fun wc => forallb (fun l => mem (l_mat l) mats) (wc_layers wc)) (c_wallcons c) &&
  forallb (fun wc => mem (wnc_glass wc) gls && mem (wnc_frame wc) frs) (c_wincons c) &&
  forallb (fun sp => opt_in (s_loads sp) lds && opt_in (s_thermostat sp) ths) (m_spaces m) &&
  forallb (fun l => opt_in (ld_people_sch l) ys && opt_in (ld_equip_sch l) ys && opt_in (ld_light_sch l) ys) (m_loads m) &&
  forallb (fun t => opt_in (th_max t) ys && opt_in (th_min t) ys) (m_thermostats m) &&
  forallb (fun y => forallb (fun v => mem (fst v) ws) (sc_values y)) (sch_year s) &&
  forallb (fun w => forallb (fun v => mem (fst v) ds) (sc_values w)) (sch_week s) &&
  nodupb (map s_id (m_spaces m)) && nodupb (map w_id (m_walls m)) && nodupb (map win_id (m_windows m)) &&
  nodupb (map wc_id (c_wallcons c)) && nodupb (map wnc_id (c_wincons c)) && nodupb mats && nodupb gls && nodupb frs &&
  nodupb lds && nodupb ths && nodupb ys && nodupb ws && nodupb ds &&
  nodupb (map sh_id (m_shades m)) && nodupb (map tb_id (m_tbs m)).

Definition counts_total (v : list (uuid * N)) : N := fold_right N.add 0%N (map snd v).

Definition positive_sizes (m : model) : bool :=
  forallb (fun sp => qltb 0 (s_height sp) && qltb 0 (s_mult sp) && opt_nonneg (s_nv sp) && opt_nonneg (s_illum sp)) (m_spaces m) &&
  forallb (fun w => qltb 0 (wall_area w) && qleb 0 (wall_area_net_raw m w)) (m_walls m) &&
  forallb (fun w => qltb 0 (wg_width (win_geom w)) && qltb 0 (wg_height (win_geom w)) && qleb 0 (wg_setback (win_geom w))) (m_windows m) &&
  forallb (fun sh => true) (m_shades m) &&
  forallb (fun wc => forallb (fun l => qltb 0 (l_e l)) (wc_layers wc)) (c_wallcons (m_cons m)) &&
  forallb (fun w => N.eqb (counts_total (sc_values w)) 7) (sch_week (m_sched m)) &&
  forallb (fun y => N.eqb (counts_total (sc_values y)) 365) (sch_year (m_sched m)) &&
  forallb (fun d => Nat.eqb (length (sd_values d)) 24) (sch_day (m_sched m)).

Definition nonneg_physics (m : model) : bool :=
  let c := m_cons m in
  forallb (fun mt => match m_props mt with
                     | Detailed k d cp _ => qleb 0 k && qleb 0 d && qleb 0 cp
                     | Resistance r _ => qleb 0 r end) (c_materials c) &&
  forallb (fun g => qleb 0 (gl_u g) && in01 (gl_g g)) (c_glasses c) &&
  forallb (fun f => qleb 0 (fr_u f) && in01 (fr_abs f)) (c_frames c) &&
  forallb (fun w => in01 (wnc_ff w) && qleb 0 (wnc_du w) && qleb 0 (wnc_c100 w) &&
                    match wnc_gglshwi w with Some g => in01 g | None => true end) (c_wincons c) &&
  forallb (fun t => qleb 0 (tb_l t)) (m_tbs m) &&
  forallb (fun l => qleb 0 (ld_area_pp l) && qleb 0 (ld_people_sens l) && qleb 0 (ld_people_lat l) &&
                    qleb 0 (ld_equip l) && qleb 0 (ld_light l)) (m_loads m) &&
  opt_nonneg (mt_gvent (m_meta m)) && opt_nonneg (mt_n50test (m_meta m)) &&
  qleb 0 (mt_d_perim (m_meta m)) && qleb 0 (mt_rn_perim (m_meta m)) &&
  forallb (fun o => opt_nonneg (wo_u o)) (m_ov_walls m) &&
  forallb (fun o => opt_nonneg (wno_u o) && match wno_fshobst o with Some f => in01 f | None => true end) (m_ov_wins m).

Definition saneb (m : model) : bool := closed m && positive_sizes m && nonneg_physics m.

Record c14_case := mkC14 { c14_model : model; c14_finite : bool }.
(* a sane model whose indicators hold a non-finite number is a violation *)
Definition agree_C14 (c : c14_case) : N :=
  if saneb (c14_model c) && negb (c14_finite c) then 1%N else 0%N.
Definition c14_sane (c : c14_case) : bool := saneb (c14_model c).
