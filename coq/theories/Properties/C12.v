(* C12 — obstruction factors are bounded, monotone and ~1 for unobstructed windows.
   Statements only; proofs in Proofs/FshobstP.v. *)
From Coq Require Import ZArith NArith QArith Qabs Bool List.
From CTE Require Import Base.Num Model.Aabb Model.Poly Model.Fshobst Proofs.NumP Proofs.FshobstP.
Import ListNotations.
Local Open Scope Q_scope.

(* the sunlit fraction (share of sample points whose line towards the sun meets no candidate
   obstacle) lies in [0,1] for any obstacles, any geometry *)
Theorem C12_sunlit_range : forall cands origins d, origins <> [] -> 0 <= sunlit_exact cands origins d <= 1.
Proof. exact sunlit_range. Qed.

(* more obstacles never unblock a point; adding ANY wall or shade never increases a sunlit fraction *)
Theorem C12_blocked_monotone : forall cands cands' d o,
  incl cands cands' -> blocked_exact cands d o = true -> blocked_exact cands' d o = true.
Proof. exact blocked_monotone. Qed.
Theorem C12_add_obstacle_le : forall c cands origins d, origins <> [] ->
  sunlit_exact (c :: cands) origins d <= sunlit_exact cands origins d.
Proof. exact add_obstacle_le. Qed.

(* the factor: mean over the hours of (f * beam + diffuse) / (beam + diffuse), in [0,1] ... *)
Theorem C12_fsh_range : forall hs, hs <> [] -> (forall h, In h hs -> hour_sane h) -> 0 <= fsh hs <= 1.
Proof. exact fsh_range. Qed.
(* ... monotone in every hourly sunlit fraction (so adding an obstacle never increases it, and two
   decimals keep that: round2 is monotone) ... *)
Theorem C12_fsh_monotone : forall hs hs',
  Forall2 (fun a b => same_weights a b /\ 0 <= hr_dir a /\ 0 < hr_dir a + hr_dif a /\ hr_f a <= hr_f b) hs hs' ->
  fsh hs <= fsh hs'.
Proof. exact fsh_monotone. Qed.
Theorem C12_round2_monotone : forall x y, x <= y -> round2 x <= round2 y.
Proof. exact round2_keeps_le. Qed.
(* ... 1 when nothing hides the window, the diffuse share when it is hidden at every hour *)
Theorem C12_fsh_unobstructed : forall hs, hs <> [] ->
  (forall h, In h hs -> hr_f h == 1 /\ 0 < hr_dir h + hr_dif h) -> fsh hs == 1.
Proof. exact fsh_unobstructed. Qed.
Theorem C12_fsh_hidden : forall hs, (forall h, In h hs -> hr_f h == 0) ->
  fsh hs == qsum (map (fun h => hr_dif h / (hr_dir h + hr_dif h)) hs) / inject_Z (Z.of_nat (length hs)).
Proof. exact fsh_hidden. Qed.

(* non-vacuity: a 1 x 1 screen one metre in front of a sample point hides it, not its neighbour *)
Definition screen := mkOcc 5%N None (mkPose (mkV 0 (-1) 0) 1 0 0 1) [(0, 0); (1, 0); (1, 1); (0, 1)].
Example C12_example :
  sunlit_exact [screen] [mkV (1#2) 0 (1#2); mkV 3 0 (1#2)] (mkV 0 (-1) 0) == 1 # 2 /\
  fsh [mkHour (1#2) 300 100; mkHour 1 0 50] == 13 # 16.
Proof. split; vm_compute; reflexivity. Qed.
