(* C15 — the model checker reports exactly the broken links.
   Statements only; proofs live in Proofs/ChecksP.v. *)
From Coq Require Import ZArith NArith QArith Bool List.
From CTE Require Import Base.Num Model.BModel Model.Checks Proofs.ChecksP.
Import ListNotations.

(* a warning (x, k) is emitted exactly when element x has broken link k *)
Theorem C15_check_exact : forall m x k, In (x, k) (check m) <-> broken m x k.
Proof. exact check_exact. Qed.

(* one warning per broken link: the multiplicity of (x,k) is the number of elements
   with id x having that broken link (duplicates counted separately) *)
Theorem C15_check_count : forall m x k, countw (x, k) (check m) = expected_count m x k.
Proof. exact check_count. Qed.

(* nothing is emitted exactly for closed models *)
Theorem C15_check_closed : forall m, check m = [] <-> closed_basic m.
Proof. exact check_closed. Qed.

(* the comparison used by the correspondence is sound *)
Theorem C15_same_multiset_sound : forall a b,
  same_multiset a b = true -> forall x, countw x a = countw x b.
Proof. exact same_multiset_sound. Qed.

(* non-vacuity: a model with one wall whose space is missing has exactly that warning,
   and a bridge of length 0 is not reported *)
Definition ex_geom := mkWallGeom 90 0 None [].
Definition ex_model : model :=
  mkModel (mkMeta true true 1 0%N None None 0 0)
    [] [mkWall 7%N EXTERIOR 8%N 9%N None ex_geom] [] [mkTb 3%N TB_GENERIC 0 0; mkTb 4%N TB_ROOF (-1) 0]
    [] (mkConsDb [mkWallCons 8%N [] 0] [] [] [] []) (mkSchedDb [] [] []) [] [] [] [].
Example C15_example : check ex_model = [(7%N, WallSpace); (4%N, BridgeNeg)].
Proof. reflexivity. Qed.
