(* C19 — damaged project files are rejected with an error, never with a crash or hang (partial: a
   crash is a run-time fact of the implementation; the theorems are about the block parser model and
   about the regenerated inventory of partial operations; the damaged files themselves are run).
   Statements only; proofs live in Proofs/BdlP.v. *)
From Coq Require Import NArith Bool List String.
From CTE Require Import Model.Bdl Model.BdlDoc Model.Sites19 Proofs.BdlP.
Import ListNotations.

(* edits that only touch the layout (re-indenting, blank and comment lines) never change what is parsed *)
Theorem C19_layout_edit_invisible : forall pls pls',
  pls <> [] -> pls' <> [] -> forallb wf_pline pls = true -> forallb wf_pline pls' = true ->
  forallb not_removed (render pls) = true -> forallb not_removed (render pls') = true ->
  contents pls = contents pls' -> build_blocks (render pls) = build_blocks (render pls').
Proof. exact layout_edit_invisible. Qed.

(* deleting a blank / comment / LIDER header line *)
Theorem C19_delete_noise_line : forall a p b,
  (match p with PContent _ _ _ => False | _ => True end) ->
  a ++ b <> [] -> forallb wf_pline (a ++ p :: b) = true ->
  forallb not_removed (render (a ++ p :: b)) = true -> forallb not_removed (render (a ++ b)) = true ->
  build_blocks (render (a ++ p :: b)) = build_blocks (render (a ++ b)).
Proof. exact delete_noise_line_invisible. Qed.

(* duplicating one *)
Theorem C19_duplicate_noise_line : forall a p b,
  (match p with PContent _ _ _ => False | _ => True end) ->
  forallb wf_pline (a ++ p :: b) = true ->
  forallb not_removed (render (a ++ p :: b)) = true -> forallb not_removed (render (a ++ p :: p :: b)) = true ->
  build_blocks (render (a ++ p :: p :: b)) = build_blocks (render (a ++ p :: b)).
Proof. exact duplicate_noise_line_invisible. Qed.

(* obligation on the regenerated inventory of partial operations (coq/gen/PartialOps.v, group c19) *)
Lemma sites19_accounted_ok : sites19_accounted = true.
Proof. vm_compute. reflexivity. Qed.
Theorem C19_sites_accounted : sites19_accounted = true.
Proof. exact sites19_accounted_ok. Qed.

Local Open Scope string_scope.
(* non-vacuity: the inventory is not empty and the model rejects a block without a known type *)
Example C19_example :
  (0 <? N.of_nat (List.length CTEGen.PartialOps.c19_partial_ops))%N = true /\
  (exists e, build_blocks (s2l "A = NOSUCHTYPE
 X = 1
 ..") = Err e).
Proof. split; [vm_compute; reflexivity | eexists; vm_compute; reflexivity]. Qed.
