(* C16 — purging removes exactly the unreachable items and changes no indicator.
   Statements only; proofs live in Proofs/PurgeP.v (structure) and Proofs/PurgeIndP.v (indicators). *)
From Coq Require Import ZArith NArith QArith Qabs Bool List.
From CTE Require Import Base.Num Model.BModel Model.Checks Model.Purge Proofs.ChecksP Proofs.PurgeP.
Import ListNotations.

(* exactly the unreachable items are removed: membership after purge <-> declarative reachability *)
Theorem C16_spaces_exact : forall m s, In s (m_spaces (purge m)) <-> kept_space m s.
Proof. exact purge_spaces_exact. Qed.
Theorem C16_bridges_exact : forall m t, In t (m_tbs (purge m)) <-> In t (m_tbs m) /\ tb_reach t.
Proof. exact purge_tbs_exact. Qed.
Theorem C16_wallcons_exact : forall m c, In c (c_wallcons (m_cons (purge m))) <-> kept_wallcons m c.
Proof. exact purge_wallcons_exact. Qed.
Theorem C16_wincons_exact : forall m c, In c (c_wincons (m_cons (purge m))) <-> kept_wincons m c.
Proof. exact purge_wincons_exact. Qed.
Theorem C16_materials_exact : forall m x,
  In x (c_materials (m_cons (purge m))) <-> In x (c_materials (m_cons m)) /\ material_reach m x.
Proof. exact purge_materials_exact. Qed.
Theorem C16_glasses_exact : forall m x,
  In x (c_glasses (m_cons (purge m))) <-> In x (c_glasses (m_cons m)) /\ glass_reach m x.
Proof. exact purge_glasses_exact. Qed.
Theorem C16_frames_exact : forall m x,
  In x (c_frames (m_cons (purge m))) <-> In x (c_frames (m_cons m)) /\ frame_reach m x.
Proof. exact purge_frames_exact. Qed.
Theorem C16_loads_exact : forall m l, In l (m_loads (purge m)) <-> kept_loads m l.
Proof. exact purge_loads_exact. Qed.
Theorem C16_thermostats_exact : forall m t, In t (m_thermostats (purge m)) <-> kept_thermostat m t.
Proof. exact purge_thermostats_exact. Qed.
Theorem C16_year_exact : forall m y, In y (sch_year (m_sched (purge m))) <-> kept_year m y.
Proof. exact purge_year_exact. Qed.
Theorem C16_week_exact : forall m w, In w (sch_week (m_sched (purge m))) <-> kept_week m w.
Proof. exact purge_week_exact. Qed.
Theorem C16_day_exact : forall m d,
  In d (sch_day (m_sched (purge m))) <-> In d (sch_day (m_sched m)) /\ day_reach m d.
Proof. exact purge_day_exact. Qed.

(* the relative order of what remains is kept, in every collection *)
Theorem C16_order : forall m,
  sublist (m_spaces (purge m)) (m_spaces m) /\ sublist (m_tbs (purge m)) (m_tbs m) /\
  sublist (c_wallcons (m_cons (purge m))) (c_wallcons (m_cons m)) /\
  sublist (c_wincons (m_cons (purge m))) (c_wincons (m_cons m)) /\
  sublist (c_materials (m_cons (purge m))) (c_materials (m_cons m)) /\
  sublist (c_glasses (m_cons (purge m))) (c_glasses (m_cons m)) /\
  sublist (c_frames (m_cons (purge m))) (c_frames (m_cons m)) /\
  sublist (m_loads (purge m)) (m_loads m) /\ sublist (m_thermostats (purge m)) (m_thermostats m) /\
  sublist (sch_year (m_sched (purge m))) (sch_year (m_sched m)) /\
  sublist (sch_week (m_sched (purge m))) (sch_week (m_sched m)) /\
  sublist (sch_day (m_sched (purge m))) (sch_day (m_sched m)).
Proof. exact purge_order. Qed.

Theorem C16_untouched : forall m,
  m_walls (purge m) = m_walls m /\ m_windows (purge m) = m_windows m /\
  m_shades (purge m) = m_shades m /\ m_meta (purge m) = m_meta m /\
  m_ov_walls (purge m) = m_ov_walls m /\ m_ov_wins (purge m) = m_ov_wins m.
Proof. exact purge_untouched. Qed.

Theorem C16_idempotent : forall m, purge (purge m) = purge m.
Proof. exact purge_idempotent. Qed.

(* no broken link is introduced: every warning after purge was there before *)
Theorem C16_no_new_warning : forall m, incl (check (purge m)) (check m).
Proof. exact purge_no_new_warning. Qed.
Theorem C16_closed : forall m, closed_basic m -> closed_basic (purge m).
Proof. exact purge_closed. Qed.

(* non-vacuity: an unused space with a private loads/year/week/day chain disappears with its chain *)
Definition ex_g := mkWallGeom 90 0 None [].
Definition ex16 : model :=
  mkModel (mkMeta true true 1 0%N None None 0 0)
    [mkSpace 1%N 1 CONDITIONED true 3 0 (Some 20%N) None None None;
     mkSpace 2%N 1 CONDITIONED true 3 0 (Some 21%N) None None None]
    [mkWall 7%N EXTERIOR 8%N 1%N None ex_g] [] [mkTb 3%N TB_GENERIC 0 0; mkTb 4%N TB_ROOF 2 0]
    [] (mkConsDb [mkWallCons 8%N [] 0; mkWallCons 9%N [] 0] [] [] [] [])
    (mkSchedDb [mkSched 30%N [(40%N, 365%N)]; mkSched 31%N [(41%N, 365%N)]]
               [mkSched 40%N [(50%N, 7%N)]; mkSched 41%N [(51%N, 7%N)]]
               [mkSchedDay 50%N []; mkSchedDay 51%N []])
    [mkLoads 20%N 1 (Some 30%N) 0 0 0 None 0 None; mkLoads 21%N 1 (Some 31%N) 0 0 0 None 0 None] [] [] [].
Example C16_example : snap (purge ex16) =
  mkSnap [1%N] [4%N] [8%N] [] [] [] [] [20%N] [] [30%N] [40%N] [50%N] [7%N] [] [].
Proof. reflexivity. Qed.
