(* C13 — ray casting: accelerated queries equal exhaustive ones and match exact geometry.
   Statements only; proofs in Proofs/BvhP.v, Proofs/AabbP.v, Proofs/RaycastP.v. *)
From Coq Require Import ZArith NArith QArith Qabs Bool List Permutation.
From CTE Require Import Base.Num Model.Aabb Model.Poly Model.Bvh Model.Raycast
  Proofs.NumP Proofs.AabbP Proofs.BvhP Proofs.RaycastP.
Import ListNotations.
Local Open Scope Q_scope.

(* for ANY element type, boxes and hit tests such that a hit element has its box hit, and ANY tree
   whose boxes cover what is below them - any number of elements, duplicates, any shape - the
   accelerated answer is the answer of testing every obstacle one by one *)
Theorem C13_bvh_complete :
  forall (T aabb ray : Type) (box : T -> aabb) (hit : T -> ray -> bool) (bhit : aabb -> ray -> bool)
         (join : aabb -> aabb -> aabb) (e0 : aabb),
  (forall e r, hit e r = true -> bhit (box e) r = true) ->
  forall (t : tree T aabb) es r,
  wf T aabb ray box bhit t -> Permutation (elems T aabb t) es ->
  blocked_tree T aabb ray hit bhit t r = blocked_list T ray hit es r.
Proof. exact bvh_complete. Qed.

(* construction with a split that makes progress terminates (fuel = number of elements + 1 is
   enough) and yields such a tree: none, one or many elements, coinciding centres included *)
Theorem C13_build_correct :
  forall (T aabb ray : Type) (box : T -> aabb) (hit : T -> ray -> bool) (bhit : aabb -> ray -> bool)
         (join : aabb -> aabb -> aabb) (e0 : aabb),
  (forall e r, hit e r = true -> bhit (box e) r = true) ->
  (forall a b r, bhit a r = true -> bhit (join a b) r = true /\ bhit (join b a) r = true) ->
  forall (part : list T -> list T * list T) maxn es r, progressive T part maxn ->
  exists t, build T aabb box join e0 part (S (length es)) maxn es = Some t /\
            blocked_tree T aabb ray hit bhit t r = blocked_list T ray hit es r.
Proof. exact build_correct. Qed.

(* the split of the code (partition by ANY predicate, halving when one side is empty) makes progress *)
Theorem C13_split_progress : forall (T : Type) (p : list T -> T -> bool) maxn,
  (1 <= maxn)%nat -> progressive T (part_fb p) maxn.
Proof. exact @part_fb_progressive. Qed.

(* the exact slab test decides "the ray meets the box at some t >= 0"; joins never lose a ray *)
Theorem C13_slab_spec : forall b r, proper b -> (bhitq b r = true <-> hits b r).
Proof. exact bhitq_spec. Qed.
Theorem C13_join_monotone : forall a b r, proper a ->
  bhitq a r = true -> bhitq (box_join a b) r = true /\ bhitq (box_join b a) r = true.
Proof. exact bhit_join_monotone. Qed.

(* a tree dumped from the implementation that passes the boolean validation answers every ray like
   the exhaustive test over its elements *)
Theorem C13_validated_tree : forall (t : btree) es r,
  wf_treeb t = true -> Permutation (elems elt aabbq t) es ->
  blocked_tree elt aabbq rayq ehit bhitq t r = blocked_list elt rayq ehit es r.
Proof. exact validated_tree_complete. Qed.

(* the bounding box of a polygon contains all its corners *)
Theorem C13_aabb_contains_corners : forall first l p, In p (first :: l) -> inside (aabb_of_points first l) p.
Proof. exact aabb_contains_corners. Qed.

(* poses (position, tilt, azimuth) are exact isometries: whatever the polygon's position, tilt and
   azimuth, going to polygon coordinates and back is the identity and dot products are preserved *)
Theorem C13_pose_inverse : forall p v, unit_pose p -> veq (to_local p (to_global p v)) v.
Proof. exact to_local_to_global. Qed.
Theorem C13_pose_dot : forall p a b, unit_pose p -> vdot (rot_global p a) (rot_global p b) == vdot a b.
Proof. exact rot_global_dot. Qed.
Theorem C13_pip_translate : forall q poly d,
  point_in_poly (shift d q) (map (shift d) poly) = point_in_poly q poly.
Proof. exact pip_translate. Qed.

(* reveal surfaces span exactly the gap between wall plane (z = 0) and window plane (z = -s) along
   the four edges, for every wall pose *)
Theorem C13_overhang : forall p x y w h s,
  quad_eq (code_overhang p x y w h s) (map (to_global p) (reveal_top x y w h s)).
Proof. exact code_overhang_spans. Qed.
Theorem C13_sill : forall p x y w h s,
  quad_eq (code_sill p x y w h s) (map (to_global p) (reveal_sill x y w h s)).
Proof. exact code_sill_spans. Qed.
Theorem C13_left_fin : forall p x y w h s,
  quad_eq (code_left_fin p x y w h s) (map (to_global p) (reveal_left x y w h s)).
Proof. exact code_left_fin_spans. Qed.
Theorem C13_right_fin : forall p x y w h s,
  quad_eq (code_right_fin p x y w h s) (map (to_global p) (reveal_right x y w h s)).
Proof. exact code_right_fin_spans. Qed.
(* the construction used before the repair was right for vertical walls only *)
Theorem C13_old_fin_vertical : forall p x y w h s, p_ct p == 0 -> p_st p == 1 ->
  quad_eq (old_left_fin p x y w h s) (map (to_global p) (reveal_left x y w h s)).
Proof. exact old_left_fin_vertical. Qed.
Theorem C13_old_fin_refuted :
  unit_pose roof_pose /\
  ~ quad_eq (old_left_fin roof_pose 1 1 1 1 (1 # 2)) (map (to_global roof_pose) (reveal_left 1 1 1 1 (1 # 2))).
Proof. exact old_left_fin_refuted. Qed.

(* non-vacuity *)
Definition unit_box := mkBox (mkV 0 0 0) (mkV 1 1 1).
Example C13_example :
  bhitq unit_box (mkRay (mkV (-1) (1#2) (1#2)) (mkV 1 0 0)) = true /\
  bhitq unit_box (mkRay (mkV (-1) (1#2) (1#2)) (mkV (-1) 0 0)) = false /\
  point_in_poly (1#2, 1#2) [(0,0); (1,0); (1,1); (0,1)] = true /\
  point_in_poly (2, 1#2) [(0,0); (1,0); (1,1); (0,1)] = false /\
  ray_hits_poly (mkPose (mkV 0 0 0) 1 0 0 1) [(0,0); (2,0); (2,2); (0,2)] (mkRay (mkV 1 (-3) 1) (mkV 0 1 0)) = true.
Proof. repeat split; reflexivity. Qed.
