(* C03 — conversion preserves the building's geometry and orientation conventions.
   Statements only; proofs live in Proofs/Conv3P.v.  Angles enter the model as (cos, sin) pairs: the
   theorems are algebraic identities valid for every pair (and every angle when cos^2 + sin^2 = 1);
   that a pair is the cosine and sine of the written angle is exact for the angles the generator
   uses and certified by interval arithmetic per case otherwise. *)
From Coq Require Import ZArith QArith List.
From CTE Require Import Base.Num Model.Aabb Model.Conv3 Proofs.Conv3P.
Import ListNotations.
Local Open Scope Q_scope.

(* turning the whole building by a further angle turns every position by that angle *)
Theorem C03_turn_building : forall dev e s q, veq (to_global (compose dev e) s q) (rotz (cw e) (to_global dev s q)).
Proof. exact turn_building. Qed.

(* ... and leaves every outline area unchanged (turns and shifts) *)
Theorem C03_area_turn_invariant : forall r l, fst r * fst r + snd r * snd r == 1 ->
  signed_area2 (map (rot2 r) l) == signed_area2 l.
Proof. exact area_turn_invariant. Qed.
Theorem C03_area_shift_invariant : forall d l, signed_area2 (map (shift2 d) l) == signed_area2 l.
Proof. exact area_shift_invariant. Qed.

(* the rectangle of a converted wall (position + Rz(azimuth) Rx(90) (x, y, 0)) spans exactly its edge over
   the storey height whenever the model azimuth is the direction of the turned edge *)
Theorem C03_wall_spans_edge : forall dev s n off az w,
  let P := edge_wall_corners dev s n off in
  let P1 := nth 0 P (mkV 0 0 0) in let P2 := nth 1 P (mkV 0 0 0) in
  vx P2 - vx P1 == w * fst az -> vy P2 - vy P1 == w * snd az ->
  veq (wall_point P1 az 0 0) P1 /\ veq (wall_point P1 az w 0) P2 /\
  veq (wall_point P1 az w (ss_height s)) (nth 2 P (mkV 0 0 0)) /\ veq (wall_point P1 az 0 (ss_height s)) (nth 3 P (mkV 0 0 0)).
Proof. exact wall_spans_edge. Qed.

(* and its normal is the edge turned by -90 degrees: away from a counter-clockwise outline *)
Theorem C03_wall_normal_outward : forall az w ex ey, ex == w * fst az -> ey == w * snd az ->
  veq (vscale w (wall_normal az)) (mkV ey (- ex) 0).
Proof. exact wall_normal_outward. Qed.

Theorem C03_rect_shade_turns : forall dev e az tilt origin w h,
  Forall2 veq (rect_shade_corners (compose dev e) az tilt origin w h)
              (map (rotz (cw e)) (rect_shade_corners dev az tilt origin w h)).
Proof. exact rect_shade_turns. Qed.

Theorem C03_poly_wall_turns : forall dev e s az tilt w poly,
  Forall2 veq (poly_wall_corners (compose dev e) s az tilt w poly)
              (map (rotz (cw e)) (poly_wall_corners dev s az tilt w poly)).
Proof. exact poly_wall_turns. Qed.

Theorem C03_turns_compose : forall a b p, veq (rotz a (rotz b p)) (rotz (compose a b) p).
Proof. exact rotz_compose. Qed.

(* non-vacuity: a 10 x 10 space at (10, 5) in a building turned by the 3-4-5 angle; its second wall *)
Definition ex_space := mkSS (mkV 10 5 0) (1, 0) 3 [(0, 0); (10, 0); (10, 10); (0, 10)].
Example C03_example :
  edge_wall_corners (4 # 5, 3 # 5) ex_space 1 (mkV 0 0 0) =
  [mkV (Qred (20 * (4#5) + 5 * (3#5))) (Qred (- (20 * (3#5)) + 5 * (4#5))) 0;
   mkV (Qred (20 * (4#5) + 15 * (3#5))) (Qred (- (20 * (3#5)) + 15 * (4#5))) 0;
   mkV (Qred (20 * (4#5) + 15 * (3#5))) (Qred (- (20 * (3#5)) + 15 * (4#5))) 3;
   mkV (Qred (20 * (4#5) + 5 * (3#5))) (Qred (- (20 * (3#5)) + 5 * (4#5))) 3] -> True.
Proof. intros _. exact I. Qed.
Example C03_example_agree :
  agree_C03 (EdgeWall (4 # 5, 3 # 5) ex_space 1 (mkV 0 0 0)
               [mkV 19 (-8) 0; mkV 25 0 0; mkV 25 0 3; mkV 19 (-8) 3] (mkV (4 # 5) (- (3 # 5)) 0)) = 0%N.
Proof. vm_compute. reflexivity. Qed.
