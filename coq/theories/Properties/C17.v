(* C17 — schedules: exact calendar partition, weekday alignment, occupancy and load means.
   Statements only; proofs in Proofs/SchedulesP.v. *)
From Coq Require Import ZArith NArith QArith Qabs Bool List Arith.
From CTE Require Import Base.Num Model.BModel Model.Props Model.Schedules Proofs.NumP Proofs.SchedulesP.
Import ListNotations.

(* a yearly schedule expands to as many days as its period lengths add up to *)
Theorem C17_expand_length : forall db id y,
  get_year db id = Some y -> weeks_nonempty db (sc_values y) ->
  length (expand db id) = counts_sum (sc_values y).
Proof. exact expand_length. Qed.

(* each day takes the weekday slot (year starting on a Monday = slot 0) of the weekly schedule of
   the period it falls in *)
Theorem C17_expand_weekday : forall db id y d,
  get_year db id = Some y -> weeks_7 db (sc_values y) -> (d < counts_sum (sc_values y))%nat ->
  exists wid, week_at (sc_values y) d = Some wid /\
    nth d (expand db id) 0%N = nth (d mod 7) (week_days_of db wid) 0%N.
Proof. exact expand_weekday. Qed.

(* the day-of-year used for HULC end dates is the calendar's, for all 365 dates *)
Theorem C17_day_of_year_calendar : forall m d,
  valid_date m d = true -> day_of_year d m = (cum_days m + d)%Z.
Proof. exact day_of_year_calendar. Qed.

(* end dates are converted into periods that partition the year exactly at those dates *)
Theorem C17_end_dates_partition : forall ends,
  increasing_from 0 ends -> last ends 0%Z = 365%Z ->
  zsum (periods ends) = 365%Z /\ Forall (fun p => (0 < p)%Z) (periods ends) /\
  prefix_sums 0 (periods ends) = ends /\ length (periods ends) = length ends.
Proof. exact end_dates_partition. Qed.

(* weekly schedules become runs covering the 7 days, daily ones 24 values *)
Theorem C17_week_runs : forall names v, week_runs names = Some v ->
  (length names = 7%nat -> runs_days v = names) /\
  (forall x, names = [x] -> runs_days v = repeat x 7) /\ length (runs_days v) = 7%nat.
Proof. exact week_runs_expand. Qed.
Theorem C17_day_values : forall vals v, day_values vals = Some v ->
  length v = 24%nat /\ (length vals = 24%nat -> v = vals) /\ (forall x, vals = [x] -> v = repeat x 24).
Proof. exact day_values_24. Qed.

(* occupied time: an hour counts exactly when some listed daily schedule is non-zero in it,
   whatever the order or multiplicity of the day's schedules *)
Theorem C17_hours_of_day : forall db ids,
  hours_of_day db ids = length (filter (fun h => existsb (fun id => day_nonzero db id h) ids) (seq 0 24)) /\
  (hours_of_day db ids <= 24)%nat.
Proof. exact hours_of_day_spec. Qed.
Theorem C17_hours_same_set : forall db ids ids',
  (forall x, In x ids <-> In x ids') -> hours_of_day db ids = hours_of_day db ids'.
Proof. exact hours_of_day_same_set. Qed.
Theorem C17_hours_none : forall m sps, occ_people_schedules m sps = [] -> hours_in_use m sps = 0%N.
Proof. exact hours_in_use_none. Qed.

(* the mean internal load is the floor-area-weighted mean over the occupied spaces *)
Theorem C17_avg_load_weighted : forall m sps t a,
  occ_load_sum m sps = Some t -> avg_load m sps = Some a -> ((1 # 8388608) < occ_area sps)%Q ->
  (a * occ_area sps == t)%Q.
Proof. exact avg_load_weighted. Qed.
Theorem C17_loads_avg_formula : forall m l p li e,
  opt_avg (m_sched m) (ld_people_sch l) = Some p -> opt_avg (m_sched m) (ld_light_sch l) = Some li ->
  opt_avg (m_sched m) (ld_equip_sch l) = Some e ->
  loads_avg m l = Some (p * ld_people_sens l + li * ld_light l + e * ld_equip l)%Q.
Proof. exact loads_avg_formula. Qed.

(* non-vacuity: Jan..Feb on week A (5+2 days), rest of the year on week B *)
Definition exdb : scheddb :=
  mkSchedDb [mkSched 1%N [(10%N, 59%N); (11%N, 306%N)]]
            [mkSched 10%N [(20%N, 5%N); (21%N, 2%N)]; mkSched 11%N [(21%N, 7%N)]]
            [mkSchedDay 20%N (repeat 1%Q 24); mkSchedDay 21%N (repeat 0%Q 24)].
Example C17_example :
  length (expand exdb 1%N) = 365%nat /\ nth 5 (expand exdb 1%N) 0%N = 21%N /\ nth 7 (expand exdb 1%N) 0%N = 20%N /\
  periods [day_of_year 28 2; day_of_year 31 12] = [59; 306]%Z.
Proof. repeat split; reflexivity. Qed.
