(* C09 — n50 follows the DB-HE air-permeability formula. Statements only; proofs in Proofs/N50P.v. *)
From Coq Require Import ZArith NArith QArith Qabs Bool List Permutation.
From CTE Require Import Base.Num Model.BModel Model.Props Model.N50 Proofs.NumP Proofs.KP Proofs.N50P.
Import ListNotations.
Local Open Scope Q_scope.

Theorem C09_n50_ref_formula : forall p,
  (1 # 1000) < gp_vol_net (ep_global p) ->
  nd_n50_ref (N50_model p) ==
  (629 # 1000) * (gp_co100 (ep_global p) * n50_walls_a p + n50_windows_ca p) / gp_vol_net (ep_global p).
Proof. exact n50_ref_formula. Qed.

Theorem C09_zero_volume : forall p, gp_vol_net (ep_global p) <= (1 # 1000) -> nd_n50_ref (N50_model p) = 0.
Proof. exact n50_zero_volume. Qed.

Theorem C09_no_test : forall p,
  gp_n50test (ep_global p) = None ->
  nd_n50 (N50_model p) = nd_n50_ref (N50_model p) /\ nd_walls_c (N50_model p) = gp_co100 (ep_global p).
Proof. exact n50_no_test. Qed.

Theorem C09_test_consistent : forall p t,
  gp_n50test (ep_global p) = Some t ->
  (1 # 1000) < n50_walls_a p -> (1 # 1000) < gp_vol_net (ep_global p) ->
  nd_n50 (N50_model p) = t /\
  (629 # 1000) * (nd_walls_c (N50_model p) * n50_walls_a p + n50_windows_ca p) / gp_vol_net (ep_global p) == t.
Proof. exact n50_test_consistent. Qed.

Theorem C09_test_no_walls : forall p t,
  gp_n50test (ep_global p) = Some t -> n50_walls_a p <= (1 # 1000) ->
  nd_n50 (N50_model p) = t /\ nd_walls_c (N50_model p) = gp_co100 (ep_global p).
Proof. exact n50_test_no_walls. Qed.

Theorem C09_c100_default : forall p w, lookup (np_cons w) (ep_wincons p) = None -> win_c100 p w = 100.
Proof. exact win_c100_default. Qed.
Theorem C09_c100_cons : forall p w c, lookup (np_cons w) (ep_wincons p) = Some c -> win_c100 p w = cp_c100 c.
Proof. exact win_c100_cons. Qed.

(* exactly envelope elements in contact with outside air count *)
Theorem C09_air_wall_spec : forall w, air_wall w = true <-> wp_tenv (snd w) = true /\ wp_bounds (snd w) = EXTERIOR.
Proof. exact air_wall_spec. Qed.
Theorem C09_excludes : forall p ws1 w ws2,
  ep_walls p = ws1 ++ w :: ws2 -> air_wall w = false -> N50_model (with_walls p (ws1 ++ ws2)) = N50_model p.
Proof. exact n50_excludes. Qed.

Theorem C09_permutation : forall p p',
  ep_global p = ep_global p' -> ep_wincons p = ep_wincons p' ->
  Permutation (ep_walls p) (ep_walls p') -> Permutation (ep_windows p) (ep_windows p') ->
  n50_walls_a p == n50_walls_a p' /\ n50_windows_a p == n50_windows_a p' /\ n50_windows_ca p == n50_windows_ca p'.
Proof. exact n50_permutation. Qed.

(* non-vacuity: 100 m2 of exterior envelope wall (multiplier 2 on 50), a 4 m2 window without
   construction, a ground wall that must not count, V = 250 *)
Definition ex_w b a := mkWallP 1%N None b 2%N O_S SIDE a a 2 true None None.
Definition ex09 : eprops :=
  mkEProps (mkGlobalP 100 300 250 250 1 None 16)
    [(10%N, ex_w EXTERIOR 50); (11%N, ex_w GROUND 70)]
    [(20%N, mkWinP 3%N 10%N O_S SIDE 2 2 EXTERIOR true None None None None)] [] [] [].
Example C09_example :
  Qred (nd_n50_ref (N50_model ex09)) = Qred ((629 # 1000) * (16 * 100 + 100 * 4) / 250) /\
  (1 # 1000) < gp_vol_net (ep_global ex09).
Proof. split; [reflexivity | vm_compute; reflexivity]. Qed.
