(* C04 — the JSON model format is lossless, idempotent and stable. Proofs in Proofs/SchemaP.v; the
   schema is regenerated from /repo's struct definitions and serde attributes on every run. *)
From Coq Require Import List String Bool QArith.
From CTE Require Import Model.Schema Model.SchemaCase Proofs.SchemaP.
From CTEGen Require Import Schema_repo.
Import ListNotations.
Local Open Scope string_scope.

(* one object level, for any struct with any number of fields: when every skip predicate omits only
   what absence restores (coherence), serialising and loading gives every field back *)
Theorem C04_level_roundtrip :
  forall (F V : Type) (name : F -> string) (skipb : F -> V -> bool) (dflt : F -> option V) (R : V -> V -> Prop),
  (forall v, R v v) ->
  (forall f x, skipb f x = true -> exists d, dflt f = Some d /\ R x d) ->
  forall fs o, NoDup (map name fs) -> names_match F V name fs o ->
  exists o', de1 F V name dflt fs (ser1 F V skipb fs o) = Some o' /\
             Forall2 (fun a b => fst a = fst b /\ R (snd a) (snd b)) o o'.
Proof. exact level_roundtrip. Qed.

(* ... and serialising the loaded object omits the same fields again (identical text) *)
Theorem C04_level_idempotent :
  forall (F V : Type) (skipb : F -> V -> bool) (R : V -> V -> Prop),
  (forall f x y, R x y -> skipb f x = skipb f y) ->
  forall fs o o', Forall2 (fun a b => fst a = fst b /\ R (snd a) (snd b)) o o' ->
  map fst (ser1 F V skipb fs o') = map fst (ser1 F V skipb fs o).
Proof. exact level_idempotent. Qed.

(* the schema read from /repo on this run is coherent: every skip predicate is a known one and omits
   exactly the value that absence restores (field default, helper function, container default,
   X::is_empty testing every field of X); field names are distinct; untagged variants are told apart
   by a required field *)
Theorem C04_repo_schema_coherent : schema_coherent repo_schema repo_enums FUEL = true.
Proof. vm_compute. reflexivity. Qed.
Theorem C04_no_incoherent_field : incoherent_fields repo_schema repo_enums FUEL = [].
Proof. vm_compute. reflexivity. Qed.
(* stable: every map of the format iterates in key order, so the text does not depend on the process that
   wrote it (a hash map has the same JSON shape but writes its keys in the hasher's order) *)
Theorem C04_maps_ordered : repo_unordered_maps = [].
Proof. reflexivity. Qed.

(* non-vacuity: a space at its defaults serialises to its three required fields and loads back *)
Definition ex_space : jv :=
  JObj [("id", JStr "a"); ("name", JStr ""); ("multiplier", JNum 1%Q); ("kind", JStr "CONDITIONED"); ("inside_tenv", JBool true);
        ("height", JNum 3%Q); ("z", JNum 0%Q); ("loads", JNull); ("thermostat", JNull); ("n_v", JNull); ("illuminance", JNull)].
Example C04_example :
  ser repo_schema repo_enums FUEL (FStruct "Space") ex_space =
    Some (JObj [("id", JStr "a"); ("height", JNum 3%Q); ("loads", JNull); ("thermostat", JNull)]) /\
  de repo_schema repo_enums FUEL (FStruct "Space")
    (JObj [("id", JStr "a"); ("height", JNum 3%Q); ("loads", JNull); ("thermostat", JNull)]) = Some ex_space.
Proof. split; vm_compute; reflexivity. Qed.
