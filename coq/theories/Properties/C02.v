(* C02 — converted models are referentially closed, or conversion fails with an error.
   Proofs in Proofs/ConvertP.v (name-level model of parse + convert) and Proofs/ChecksP.v. *)
From Coq Require Import NArith Bool List.
From CTE Require Import Base.Num Model.Convert Proofs.ConvertP.
Import ListNotations.
Local Open Scope N_scope.

(* whenever the modelled conversion yields a model, every reference (wall -> space, construction,
   adjacent space; window -> wall, construction -> glazing, frame; layers -> materials; conditions ->
   yearly schedules; yearly -> weekly -> daily) resolves to a definition of the project *)
Theorem C02_convert_closed : forall b, convert b = COk -> links_closed b = true.
Proof. exact convert_closed. Qed.

(* a project in which one of those references is broken is never turned into a model *)
Theorem C02_convert_rejects : forall b, links_closed b = false -> convert b <> COk.
Proof. exact convert_rejects. Qed.

(* a window whose wall is missing is rejected with an error (it crashed the converter before 0894e0a) *)
Theorem C02_window_wall_missing_rejected : forall b,
  parse_ok b = true -> cons_step b = true -> walls_step b = true -> windows_wall_missing b = true -> convert b = CErr.
Proof. exact window_wall_missing_rejected. Qed.

(* the one link kind that is not rejected: a space naming undefined space / system conditions is
   converted with `loads: None` (known finding F13; the full statement "every broken name reference
   is rejected" is false of the faithful model) *)
Theorem C02_space_conds_refuted : space_conds_dangling wit = true /\ convert wit = COk.
Proof. exact space_conds_refuted. Qed.

Example C02_example :
  convert (mkBDoc [mkBSpace 1 2 3 4] [mkBWall 10 1 20 None None] [mkBWin 30 10 40] [2] [(20, 21)] [(21, [22])] [22]
                  [(40, (41, 42))] [41] [42] [mkBConds 3 5 5 5] [mkBSys 4 (Some (5, 5))] [(5, [6])] [(6, [7])] [7] 50) = COk /\
  convert (mkBDoc [mkBSpace 1 2 3 4] [mkBWall 10 1 20 None None] [mkBWin 30 10 40] [2] [(20, 21)] [(21, [23])] [22]
                  [(40, (41, 42))] [41] [42] [mkBConds 3 5 5 5] [mkBSys 4 (Some (5, 5))] [(5, [6])] [(6, [7])] [7] 50) = CErr.
Proof. split; reflexivity. Qed.
