(* C01 — the export tool writes exactly the model JSON to standard output (partial: the theorems
   are about a model of the tools' control flow over what the library does; that the library itself
   prints nothing is an obligation over the regenerated inventory of /repo's stdout statements, and
   the real processes are compared with the model by the correspondence).
   Statements only; proofs live in Proofs/CliP.v. *)
From Coq Require Import NArith Bool List.
From CTE Require Import Model.Cli Proofs.CliP.
Import ListNotations.

(* a convertible directory, a silent library: exit 0 and exactly the model on stdout *)
Theorem C01_cli_exact : forall w j, w_has_arg w = true -> w_noise w = [] -> w_lib w = LOk j ->
  hulc2model_cli w = mkRun 0 [j] None.
Proof. exact cli_exact. Qed.

(* no project (or no argument): non-zero exit, nothing on stdout *)
Theorem C01_cli_failure : forall w, w_noise w = [] -> w_lib w <> LPanic -> (w_has_arg w = false \/ w_lib w = LErr) ->
  r_out (hulc2model_cli w) = [] /\ r_exit (hulc2model_cli w) <> 0%N.
Proof. exact cli_failure. Qed.

(* stdout is exactly one document iff nothing the conversion reaches prints *)
Theorem C01_one_doc_iff_silent : forall w j, w_has_arg w = true -> w_lib w = LOk j ->
  (r_out (hulc2model_cli w) = [j] <-> w_noise w = []).
Proof. exact cli_one_doc_iff_silent. Qed.

(* thor -o writes the same model *)
Theorem C01_thor_same_model : forall w j, w_has_arg w = true -> w_noise w = [] -> w_lib w = LOk j ->
  r_file (thor_o w) = Some j /\ r_out (hulc2model_cli w) = [j].
Proof. exact thor_same_model. Qed.

(* the correspondence oracle accepts the model's own runs and rejects any run with library noise *)
Theorem C01_oracle_accepts_model : forall lib, lib <> LPanic ->
  let r := hulc2model_cli (mkWorld lib [] true) in
  agree_C01 (Cli lib (r_exit r) (docs_of (r_out r) (model_of lib)) (match lib with LOk j => j | _ => 0%N end)) = 0%N.
Proof. exact agree_cli_model. Qed.

(* obligations on the regenerated inventory of stdout statements (coq/gen/StdoutSites.v) *)
Theorem C01_library_silent : library_silent = true.
Proof. exact library_silent_ok. Qed.
Theorem C01_cli_prints_only_model : cli_prints_only_model = true.
Proof. exact cli_prints_only_model_ok. Qed.

(* non-vacuity: one chunk of library noise and the oracle reports code 2 *)
Example C01_example : forall j,
  let r := hulc2model_cli (mkWorld (LOk j) [7%N] true) in
  agree_C01 (Cli (LOk j) (r_exit r) (docs_of (r_out r) (Some j)) j) = 2%N.
Proof. intros j. exact (agree_cli_noise j 7%N []). Qed.
