(* C14 — indicator computation is total (partial: crashes and hangs are run-time facts observed by
   fault enumeration; the theorems cover the logic that can make the computation fail).
   Proofs in Proofs/TotalP.v, Proofs/BvhP.v, Proofs/QSolP.v. *)
From Coq Require Import ZArith NArith QArith Bool List Arith.
From CTE Require Import Base.Num Model.BModel Model.Props Model.Schedules Model.QSolJul Model.Sites Model.Bvh Model.Total
  Proofs.NumP Proofs.QSolP Proofs.SchedulesP Proofs.BvhP Proofs.TotalP.
From CTEGen Require Import Tables PartialOps.
Import ListNotations.

(* every partial operation (unwrap, expect, panic!, assert!, indexing) in the non-test code of the
   anchored files, regenerated from /repo on this run, is a known one with a recorded reason *)
Theorem C14_sites_covered : covered c14_known c14_partial_ops = true.
Proof. exact sites_covered_c14. Qed.

(* the table lookups of the pipeline cannot fail: every zone has metadata, a non-empty July design day
   (days < 31, as nday_from_md requires) and a July total for every orientation class *)
Theorem C14_tables_complete : forall z, In z zones32 ->
  (exists m, In (z, m) zmeta) /\ (exists rows, In (z, rows) july /\ rows <> []).
Proof. exact tables_complete. Qed.
Theorem C14_july_total_defined : forall z o, In z zones32 -> exists h, july_total z o = Some h /\ (0 <= h)%Q.
Proof. exact table_total. Qed.
Theorem C14_qsol_never_fails : forall zone p, In zone zones32 -> exists d, QSol_model zone p = Some d.
Proof. exact qsol_defined. Qed.

(* termination: schedule expansion is bounded by the period lengths; BVH construction with the
   code's split terminates for any obstacle list *)
Theorem C14_expand_bounded : forall db vals cur, (length (expand_from db vals cur) <= counts_sum vals)%nat.
Proof. exact expand_bounded. Qed.
Theorem C14_bvh_terminates : forall (T : Type) (p : list T -> T -> bool) maxn, (1 <= maxn)%nat -> progressive T (part_fb p) maxn.
Proof. exact @part_fb_progressive. Qed.

(* q_sol;jul: no division by a zero area (every reported figure is a defined number) *)
Theorem C14_qsol_no_window : forall zone p,
  solset p = [] -> exists d, QSol_model zone p = Some d /\ qs_Q d = 0%Q /\ (qs_q d == 0)%Q /\ qs_detail d = [].
Proof. exact no_window_model. Qed.

(* non-vacuity of "sane": the empty model is sane; a model with a dangling wall->space link is not *)
Definition empty_model : model :=
  mkModel (mkMeta true true 1 0%N None None 0 0) [] [] [] [] [] (mkConsDb [] [] [] [] []) (mkSchedDb [] [] []) [] [] [] [].
Example C14_example : saneb empty_model = true /\
  saneb (mkModel (mkMeta true true 1 0%N None None 0 0) [] [mkWall 7%N EXTERIOR 8%N 9%N None (mkWallGeom 90 0 None [])] [] [] []
           (mkConsDb [] [] [] [] []) (mkSchedDb [] [] []) [] [] [] []) = false.
Proof. split; reflexivity. Qed.
