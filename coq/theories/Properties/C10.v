(* C10 — q_sol;jul follows the DB-HE solar-control formula. Statements only; proofs in Proofs/QSolP.v.
   The tables are the regenerated coq/gen/Tables.v (dumped from /repo on every run). *)
From Coq Require Import ZArith NArith QArith Qabs Bool List Permutation.
From CTE Require Import Base.Num Model.BModel Model.Props Model.QSolJul Proofs.NumP Proofs.QSolP.
From CTEGen Require Import Tables.
Import ListNotations.
Local Open Scope Q_scope.

Theorem C10_formula : forall aref l,
  qs_Q (QSol_of_items aref l) = qsum (map (fun i => si_fsh i * si_g i * (1 - si_ff i) * si_area i * si_rad i) l) /\
  (~ aref == 0 -> qs_q (QSol_of_items aref l) * aref == qs_Q (QSol_of_items aref l)).
Proof. exact qsol_formula. Qed.

(* what each window contributes: override > computed > 1, area with multiplier, tabulated H for the
   window's orientation class and the zone, defaults 0.77 / 0.20 without construction *)
Theorem C10_item_spec : forall zone p w i,
  sol_item zone p w = Some i ->
  si_fsh i = match np_fshov (snd w), np_fsh (snd w) with Some x, _ => x | None, Some y => y | None, None => 1 end /\
  si_area i = np_area (snd w) * np_mult (snd w) /\
  july_total zone (np_orient (snd w)) = Some (si_rad i) /\
  (si_g i, si_ff i) = match lookup (np_cons (snd w)) (ep_wincons p) with
                      | Some c => (cp_gglshwi c, cp_ff c) | None => (77 # 100, 1 # 5) end.
Proof. exact sol_item_spec. Qed.

Theorem C10_window_set : forall w, sol_win w = true <->
  np_tenv (snd w) = true /\ (np_bounds (snd w) = EXTERIOR \/ np_bounds (snd w) = GROUND).
Proof. exact sol_win_spec. Qed.

Theorem C10_detail_sums_to_total : forall aref l,
  let d := QSol_of_items aref l in
  qs_Q d == qsum (map (fun od => qd_gains (snd od)) (qs_detail d)) /\
  qs_awp d == qsum (map (fun od => qd_a (snd od)) (qs_detail d)).
Proof. exact detail_sums_to_total. Qed.

Theorem C10_mean_is_weighted : forall f l,
  ~ area_sum l == 0 -> qdiv0 (wsum f l) (area_sum l) * area_sum l == wsum f l.
Proof. exact mean_is_weighted. Qed.
Theorem C10_mean_between : forall f l lo hi,
  (forall i, In i l -> 0 <= si_area i) -> 0 < area_sum l ->
  (forall i, In i l -> lo <= f i <= hi) -> lo <= qdiv0 (wsum f l) (area_sum l) <= hi.
Proof. exact weighted_mean_between. Qed.

(* no envelope window: every reported figure is a defined number (0) *)
Theorem C10_no_window : forall zone p,
  solset p = [] -> exists d, QSol_model zone p = Some d /\ qs_Q d = 0 /\ qs_q d == 0 /\ qs_detail d = [].
Proof. exact no_window_model. Qed.

(* the embedded tables, as regenerated from /repo on this run: for every zone and orientation class
   there is exactly one entry, with 12 non-negative months; the July total exists and is >= 0 *)
Theorem C10_table_total : forall z o, In z zones32 -> exists h, july_total z o = Some h /\ 0 <= h.
Proof. exact table_total. Qed.
Theorem C10_table_shape : table_shape_ok = true.
Proof. exact table_shape_ok_true. Qed.
Theorem C10_defined : forall zone p, In zone zones32 -> exists d, QSol_model zone p = Some d.
Proof. exact qsol_defined. Qed.

(* non-vacuity: two south windows (one with F override 0.5, one without construction) and a skylight *)
Definition ex10 : eprops :=
  mkEProps (mkGlobalP 100 300 250 250 1 None 16) []
    [(20%N, mkWinP 3%N 10%N O_S SIDE 2 1 EXTERIOR true None None (Some (9#10)) (Some (1#2)));
     (21%N, mkWinP 4%N 10%N O_S SIDE 3 2 EXTERIOR true None None None None);
     (22%N, mkWinP 3%N 11%N O_HZ TOP 1 1 EXTERIOR true None None None None);
     (23%N, mkWinP 3%N 12%N O_N SIDE 5 1 INTERIOR true None None None None)]
    [] [(3%N, mkWinConsP (6#10) (5#10) None 27 (1#4))] [].
Example C10_example : exists d, QSol_model 30%N ex10 = Some d /\ length (qs_detail d) = 2%nat /\ 0 < qs_Q d.
Proof. eexists. split; [vm_compute; reflexivity|]. split; [reflexivity | vm_compute; reflexivity]. Qed.
