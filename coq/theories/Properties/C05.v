(* C05 — export and indicators are deterministic, reproducible and history-independent (partial:
   the theorem is about a process whose operations only read the shared state; that the code is
   such a process is a syntactic obligation over the regenerated inventory of its statics, and the
   run-time behaviour (threads, fresh processes, HashMap order, md5 of Debug text) is covered by
   the correspondence only).  Statements only; proofs live in Proofs/HistoryP.v. *)
From Coq Require Import NArith Bool List.
From CTE Require Import Model.History Proofs.HistoryP.
Import ListNotations.

(* whatever ran before, every operation returns what it returns alone from the initial state *)
Theorem C05_history_independent : forall (state op out : Type) (step : state -> op -> state * out),
  read_only step -> forall s0 h, snd (run step s0 h) = map (alone step s0) h.
Proof. exact history_independent. Qed.

(* any two schedules of the same operations give each operation the same output *)
Theorem C05_schedule_independent : forall (state op out : Type) (step : state -> op -> state * out),
  read_only step -> forall s0 h1 h2 o x,
  In (o, x) (combine h1 (snd (run step s0 h1))) -> In o h2 -> In (o, x) (combine h2 (snd (run step s0 h2))).
Proof. exact schedule_independent. Qed.

(* hence the observations of any set of histories pass the test the correspondence applies *)
Theorem C05_observations_functional : forall (state op out : Type) (step : state -> op -> state * out) key dig,
  read_only step -> (forall o1 o2, key o1 = key o2 -> o1 = o2) ->
  forall s0 (hs : list (list op)),
    functionalb (concat (map (fun h => observe key dig h (snd (run step s0 h))) hs)) = true.
Proof. exact @read_only_functional. Qed.

(* ids that are a function of the element's own definition survive any added definitions *)
Theorem C05_ids_local : forall (el : Type) (key id : el -> N) proj extra,
  ids_kept (map (fun e => mkObs (key e) (id e)) proj) (map (fun e => mkObs (key e) (id e)) (proj ++ extra)) = true.
Proof. exact @ids_kept_of_local_ids. Qed.

(* obligation on the regenerated inventory of /repo's process-wide state (coq/gen/Globals.v):
   only the three climate tables and the embedded catalogue, no static mut, no lock taken mutably *)
Theorem C05_shared_state_read_only : shared_state_read_only = true.
Proof. exact shared_state_read_only_ok. Qed.

(* non-vacuity: a machine that caches its first answer fails the observation test *)
Example C05_example :
  functionalb (observe (fun o => o) (fun x => x) [1;2]%N (snd (run cache_step None [1;2]%N)) ++
               observe (fun o => o) (fun x => x) [2]%N (snd (run cache_step None [2]%N))) = false.
Proof. exact cache_not_functional. Qed.
