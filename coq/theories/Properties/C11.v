(* C11 — reference area, volumes, compactness and envelope membership are consistent.
   Statements only; proofs in Proofs/GeometryP.v (and Proofs/SweepP.v for the float sweep). *)
From Coq Require Import ZArith NArith QArith Qabs Qround Bool List.
From CTE Require Import Base.Num Model.BModel Model.Props Model.Geometry Proofs.NumP Proofs.GeometryP.
Import ListNotations.
Local Open Scope Q_scope.

(* an element belongs to the envelope exactly when it bounds an inside space towards outside air,
   ground or an adiabatic boundary, or separates an inside space from an outside one *)
Theorem C11_tenv_rule : forall m w,
  tenv_rule m w = true <->
  ((w_bounds w = EXTERIOR \/ w_bounds w = GROUND \/ w_bounds w = ADIABATIC) /\ space_inside m (w_space w) = true) \/
  (w_bounds w = INTERIOR /\
   space_inside m (w_space w) <> match w_next w with Some n => space_inside m n | None => false end).
Proof. exact tenv_rule_spec. Qed.

(* scaling all lengths by s scales areas by s2, volumes by s3 and compactness by s *)
Theorem C11_scale_area : forall s l, poly_area (scale_poly s l) == s * s * poly_area l.
Proof. exact scale_area. Qed.
Theorem C11_scale_volume : forall s a h, (s * s * a) * (s * h) == s * s * s * (a * h).
Proof. exact scale_volume. Qed.
Theorem C11_scale_compactness : forall s v a, 0 < s -> ~ a == 0 -> (s * s * s * v) / (s * s * a) == s * (v / a).
Proof. exact scale_compactness. Qed.

(* classes depend only on the angle modulo 360 degrees *)
Theorem C11_tilt_periodic : forall t (k : Z), tilt_class (t + inject_Z k * 360) = tilt_class t.
Proof. exact tilt_class_periodic. Qed.
Theorem C11_orient_periodic : forall a (k : Z), orient_class (a + inject_Z k * 360) = orient_class a.
Proof. exact orient_class_periodic. Qed.
(* the parser and the model classify every tilt in [0,360] identically *)
Theorem C11_classifiers_agree : forall t, 0 <= t <= 360 -> hulc_position t = tilt_class t.
Proof. exact classifiers_agree. Qed.

(* the ventilation rate reported with the indicators is the one used inside the U-value calculation *)
Theorem C11_vent_rates_agree : forall m, NoDup (map s_id (m_spaces m)) -> vent_props m = vent_model m.
Proof. exact vent_rates_agree. Qed.

(* non-vacuity *)
Example C11_example :
  poly_area [(0, 0); (4, 0); (4, 3); (0, 3)] == 12 /\ tilt_class (-90) = SIDE /\ tilt_class 450 = SIDE /\
  orient_class (-180) = O_N /\ hulc_position 60 = TOP /\ tilt_class (60 + 360) = TOP.
Proof. repeat split; reflexivity. Qed.
