(* C20 — solar geometry, radiation identities and embedded climate tables. Proofs in Proofs/SolarP.v,
   Proofs/SchedulesP.v (calendar), Proofs/QSolP.v and Proofs/TotalP.v (regenerated tables). *)
From Coq Require Import ZArith NArith QArith Reals List.
From CTE Require Import Base.Num Model.BModel Model.Props Model.Schedules Model.Solar Model.SolarCase Model.QSolJul
  Proofs.SchedulesP Proofs.SolarP Proofs.QSolP Proofs.TotalP.
From CTEGen Require Import Tables.
Import ListNotations.

(* day numbers agree with the calendar for every date of a non-leap year; the two day-of-year
   functions of the code base (climate::nday_from_md, the schedule converter's day_of_year) agree *)
Theorem C20_nday_calendar : forall m d, valid_date m d = true -> nday m d = (cum_days m + d)%Z.
Proof. intros m d _. reflexivity. Qed.
Theorem C20_day_functions_agree : forall m d, valid_date m d = true -> day_of_year d m = nday m d.
Proof. intros m d H. rewrite (day_of_year_calendar m d H). reflexivity. Qed.
Theorem C20_last_day : nday 12 31 = 365%Z.
Proof. reflexivity. Qed.

Local Open Scope R_scope.
(* the sun vector (E, N, Up) from declination, hour angle and latitude is a unit vector; altitude and
   azimuth (from south, east positive) reconstruct it: this is "agrees with spherical astronomy" *)
Theorem C20_sun_unit : forall d w l, sun_E d w * sun_E d w + sun_N d w l * sun_N d w l + sun_U d w l * sun_U d w l = 1.
Proof. exact sun_unit. Qed.
Theorem C20_altitude_azimuth_reconstruct : forall d w l az alt,
  sind alt = sun_U d w l -> cosd alt <> 0 ->
  sind az = sun_E d w / cosd alt -> cosd az = - sun_N d w l / cosd alt ->
  ray_E az alt = sun_E d w /\ ray_N az alt = sun_N d w l /\ ray_U alt = sun_U d w l.
Proof. exact altitude_azimuth_reconstruct. Qed.

(* the incidence angle is the angle between the sun direction and the outward normal under the
   model's tilt / azimuth convention (normal = Rz(azimuth) Rx(tilt) z) *)
Theorem C20_incidence_is_dot : forall d w l b g,
  cos_inc d w l b g = sun_E d w * nrm_E b g + sun_N d w l * nrm_N b g + sun_U d w l * nrm_U b.
Proof. exact incidence_is_dot. Qed.
Theorem C20_normal_unit : forall b g, nrm_E b g * nrm_E b g + nrm_N b g * nrm_N b g + nrm_U b * nrm_U b = 1.
Proof. exact normal_unit. Qed.
Theorem C20_normal_matches_ray : forall b g az alt,
  nrm_E b g * ray_E az alt + nrm_N b g * ray_N az alt + nrm_U b * ray_U alt =
  sind b * cosd alt * cos (rad az - rad g) + cosd b * sind alt.
Proof. exact normal_matches_dir. Qed.

(* radiation identities of the ISO 52010 split *)
Theorem C20_horizontal_conserves : forall gb gdir dif f1 f2 a b rho salt,
  b <> 0 -> a = b -> 0 <= gdir -> gb * salt = gdir ->
  dir_tot gb salt dif f1 a b + dif_tot gb dif f1 f2 a b 0 salt rho = gdir + dif.
Proof. exact horizontal_conserves. Qed.
Theorem C20_downward_albedo : forall gb gdir dif f1 f2 b rho salt ct,
  b <> 0 -> gb * ct <= 0 -> gb * salt = gdir ->
  dir_tot gb ct dif f1 0 b = 0 /\ dif_tot gb dif f1 f2 0 b 180 salt rho = rho * (gdir + dif).
Proof. exact downward_albedo. Qed.
Theorem C20_beam_nonneg : forall gb ct dif f1 a b, 0 <= dif -> 0 <= f1 -> 0 <= a -> 0 < b -> 0 <= dir_tot gb ct dif f1 a b.
Proof. exact beam_nonneg. Qed.

(* embedded tables, as regenerated from /repo on this run: for every zone and orientation class one
   entry with 12 non-negative months; every zone has metadata and a July design day; zone names
   round-trip through their text *)
Theorem C20_monthly_tables : table_shape_ok = true.
Proof. exact table_shape_ok_true. Qed.
Theorem C20_zone_tables : tables_ok = true.
Proof. exact tables_ok_true. Qed.
Theorem C20_zone_names : zones_roundtrip_ok = true.
Proof. exact zones_roundtrip_true. Qed.

Example C20_example : nday 3 1 = 60%Z /\ valid_date 3 1 = true /\ day_of_year 1 3 = 60%Z.
Proof. repeat split. Qed.
