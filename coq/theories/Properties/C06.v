(* C06 — opaque U-values follow EN ISO 6946, 13370 and 13789. Statements only; proofs in
   Proofs/UValueP.v (rational part) and Proofs/UValueRP.v (real-valued ground formulas). *)
From Coq Require Import ZArith NArith QArith Qabs Bool List Reals.
From CTE Require Import Base.Num Model.BModel Model.Props Model.Geometry Model.UValue Model.UValueR
  Proofs.NumP Proofs.UValueP Proofs.UValueRP.
From CTEGen Require Import Constants.
Import ListNotations.

Local Open Scope Q_scope.
(* air contact: 1 / (Rsi + sum of layer resistances + Rse), Rsi by heat-flow direction *)
Theorem C06_u_air_formula : forall r t,
  u_air r t == 1 / (r + match t with BOTTOM => 17 # 100 | TOP => 10 # 100 | SIDE => 13 # 100 end + (4 # 100)).
Proof. exact u_air_formula. Qed.
Theorem C06_air_contact_value : forall m p cd v w c r,
  get_wallcons (m_cons m) (w_cons w) = Some c -> resistance (m_cons m) c = Some r ->
  (w_bounds w = EXTERIOR \/ w_bounds w = ADIABATIC) -> u_model m p cd v w = URat (u_air r (wall_tilt w)).
Proof. exact air_contact_value. Qed.

(* adding a layer or thickening one never increases the U-value *)
Theorem C06_u_air_antitone : forall r d t, 0 <= r -> 0 <= d -> u_air (r + d) t <= u_air r t.
Proof. exact u_air_antitone. Qed.
Theorem C06_add_layer_le : forall db l ls r r' t,
  layers_r db ls = Some r -> layers_r db (l :: ls) = Some r' -> 0 <= r ->
  (forall x, layer_r db l = Some x -> 0 <= x) -> u_air r' t <= u_air r t.
Proof. exact add_layer_le. Qed.
Theorem C06_thicken_layer_le : forall db m e e' x x',
  layer_r db (mkLayer m e) = Some x -> layer_r db (mkLayer m e') = Some x' -> e <= e' -> x <= x'.
Proof. exact thicken_layer_le. Qed.

(* partitions between a conditioned and an unconditioned space: 1 / (Rf + Ai / (sum Ae Ue + 0.33 n V)) *)
Theorem C06_partition_formula : forall a_i r_f ua q, ~ ua + (33 # 100) * q == 0 ->
  u_partition a_i r_f ua q == 1 / (r_f + a_i / (ua + (33 # 100) * q)).
Proof. exact u_partition_formula. Qed.
Theorem C06_partition_le_uf : forall a_i r_f ua q,
  0 < r_f -> 0 <= a_i -> 0 <= ua + VENT_COEF * q -> u_partition a_i r_f ua q <= 1 / r_f.
Proof. exact u_partition_le_uf. Qed.
Theorem C06_partition_antitone : forall a_i r_f r_f' ua q,
  0 < r_f -> r_f <= r_f' -> 0 <= a_i -> 0 <= ua + VENT_COEF * q ->
  u_partition a_i r_f' ua q <= u_partition a_i r_f ua q.
Proof. exact u_partition_antitone. Qed.
Theorem C06_flow_direction :
  rf_dir true false BOTTOM = RSI_DOWN /\ rf_dir false true TOP = RSI_DOWN /\
  rf_dir true false TOP = RSI_UP /\ rf_dir false true BOTTOM = RSI_UP /\
  (forall a b, rf_dir a b SIDE = RSI_HORIZ) /\ (forall t, rf_dir true true t = RSI_HORIZ) /\
  (forall t, rf_dir false false t = RSI_HORIZ).
Proof. exact rf_dir_spec. Qed.

(* an element whose construction or material is missing has no U-value *)
Theorem C06_missing_cons_none : forall m p cd v w, get_wallcons (m_cons m) (w_cons w) = None -> u_model m p cd v w = UNone.
Proof. exact missing_cons_none. Qed.
Theorem C06_missing_material_none : forall m p cd v w c,
  get_wallcons (m_cons m) (w_cons w) = Some c -> resistance (m_cons m) c = None -> u_model m p cd v w = UNone.
Proof. exact missing_material_none. Qed.

(* the constants of the code, regenerated from /repo on this run, are those of the standards *)
Theorem C06_constants_match : qlist_eqb repo_u_constants spec_constants = true.
Proof. exact constants_match. Qed.

Local Open Scope R_scope.
(* EN ISO 13370: perimeter insulation never increases U (psi <= 0) and vanishes without it; the
   basement-wall value lies between the buried part and the part above ground *)
Theorem C06_psi_nonpos : forall dd dt d1, 0 <= dd -> 0 < dt -> 0 <= d1 -> psi_ge dd dt d1 <= 0.
Proof. exact psi_nonpos. Qed.
Theorem C06_psi_zero_d : forall dt d1, psi_ge 0 dt d1 = 0.
Proof. exact psi_zero_d. Qed.
Theorem C06_psi_zero_d1 : forall dd dt, psi_ge dd dt 0 = 0.
Proof. exact psi_zero_d1. Qed.
Theorem C06_bwall_between : forall z dw dtm h hnet uw,
  0 < z -> 0 <= h -> hnet = z + h ->
  Rmin (ubw z dw dtm) uw <= bwall_u z dw dtm h hnet uw <= Rmax (ubw z dw dtm) uw.
Proof. exact bwall_between. Qed.

(* non-vacuity: 24 cm of brick (lambda 0.8) on a vertical outside wall: U = 1/(0.3 + 0.13 + 0.04) *)
Local Open Scope Q_scope.
Definition exdb06 := mkConsDb [mkWallCons 1%N [mkLayer 2%N (24 # 100)] (6#10)] [] [mkMaterial 2%N (Detailed (8#10) 1800 1000 None)] [] [].
Example C06_example :
  match get_wallcons exdb06 1%N with Some c =>
    match resistance exdb06 c with Some r => Qred (u_air r SIDE) = 100 # 47 | None => False end | None => False end.
Proof. reflexivity. Qed.
