(* C08 — K is the area-weighted mean transmittance of the thermal envelope.
   Statements only; proofs live in Proofs/KP.v. The model K_model takes the implementation's
   reported props; its inputs are tied to the Model by C06 (U), C07 (window U), C11 (envelope). *)
From Coq Require Import ZArith NArith QArith Qabs Bool List Permutation.
From CTE Require Import Base.Num Model.BModel Model.Props Model.K Proofs.NumP Proofs.KP.
Import ListNotations.
Local Open Scope Q_scope.

(* K * (sum of A) = sum of A*U over opaque parts and windows of the envelope set + sum of psi*L over
   bridges of non-negative length *)
Theorem C08_K_formula : forall p, (1 # 100) <= total_a p -> kd_K (K_model p) * total_a p == total_au p.
Proof. exact K_formula. Qed.
Theorem C08_K_small_area : forall p, total_a p < (1 # 100) -> kd_K (K_model p) = 0.
Proof. exact K_small_area. Qed.

(* user override first, then the computed value, then 5.7 W/m2K *)
Theorem C08_override_first : forall x u, ustar (Some x) u = x.
Proof. exact ustar_override. Qed.
Theorem C08_computed_next : forall y, ustar None (Some y) = y.
Proof. exact ustar_computed. Qed.
Theorem C08_default_last : ustar None None = 57 # 10.
Proof. exact ustar_default. Qed.

(* the breakdown adds up to the totals *)
Theorem C08_breakdown_sums : forall p,
  let k := K_model p in
  kd_a k == ke_a (kd_walls k) + ke_a (kd_roofs k) + ke_a (kd_floors k) + ke_a (kd_ground k) + ke_a (kd_windows k) /\
  kd_au k == ke_au (kd_walls k) + ke_au (kd_roofs k) + ke_au (kd_floors k) + ke_au (kd_ground k) +
             ke_au (kd_windows k) + qsum (map snd (kd_tbs k)) /\
  kd_opaques_a k == ke_a (kd_walls k) + ke_a (kd_roofs k) + ke_a (kd_floors k) + ke_a (kd_ground k) /\
  kd_windows_a k = ke_a (kd_windows k) /\ kd_windows_au k = ke_au (kd_windows k) /\
  kd_tbs_l k == qsum (map fst (kd_tbs k)) /\ kd_tbs_psil k == qsum (map snd (kd_tbs k)).
Proof. exact K_breakdown_sums. Qed.

(* each category mean lies between its minimum and maximum (non-negative areas) *)
Theorem C08_mean_between : forall (l : list item) umin umax umean,
  (forall i, In i l -> 0 <= fst i) ->
  ke_umin (kel_of l) = Some umin -> ke_umax (kel_of l) = Some umax -> ke_umean (kel_of l) = Some umean ->
  umin <= umean <= umax.
Proof. exact mean_between. Qed.

(* exactly the envelope set counts: any other element can be dropped *)
Theorem C08_excludes : forall p ws1 w ws2,
  ep_walls p = ws1 ++ w :: ws2 -> env_wall w = false -> K_model (with_walls p (ws1 ++ ws2)) = K_model p.
Proof. exact K_excludes. Qed.
Theorem C08_negative_bridge_ignored : forall p ts1 t ts2,
  ep_tbs p = ts1 ++ t :: ts2 -> tp_l (snd t) < 0 -> K_model (with_tbs p (ts1 ++ ts2)) = K_model p.
Proof. exact K_negative_bridge_ignored. Qed.

(* K does not change when elements are reordered or renamed *)
Theorem C08_permutation : forall p p',
  ep_global p = ep_global p' -> ep_wincons p = ep_wincons p' ->
  Permutation (ep_walls p) (ep_walls p') -> Permutation (ep_windows p) (ep_windows p') ->
  Permutation (ep_tbs p) (ep_tbs p') ->
  qlist_eq (K_scalars (K_model p)) (K_scalars (K_model p')).
Proof. exact K_permutation. Qed.
Theorem C08_rename : forall f p, (forall a b, f a = f b -> a = b) -> K_model (rename_props f p) = K_model p.
Proof. exact K_rename. Qed.

(* non-vacuity: one envelope wall (10 m2 net, U 0.5), one window on it (2 m2, no U -> 5.7), an interior
   wall that must not count, one bridge of 4 m and one negative *)
Definition ex_wall b tenv := mkWallP 1%N None b 2%N O_S SIDE 12 10 1 tenv (Some (1#2)) None.
Definition ex08 : eprops :=
  mkEProps (mkGlobalP 50 150 130 130 1 None 16)
    [(10%N, ex_wall EXTERIOR true); (11%N, ex_wall INTERIOR true)]
    [(20%N, mkWinP 3%N 10%N O_S SIDE 2 1 EXTERIOR true None None None None)]
    [(30%N, mkTbP TB_CORNER 4 (1#10)); (31%N, mkTbP TB_ROOF (-3) 1)] [] [].
Example C08_example : Qred (kd_K (K_model ex08)) = (7 # 5) /\ (1 # 100) <= total_a ex08.
Proof. split; [reflexivity | vm_compute; discriminate]. Qed.
