(* C18 — the BDL block parser recovers every value written in the file.
   Statements only; proofs live in Proofs/BdlP.v.  The theorems are about Model/Bdl.v (the block
   level: cleaner, LIDER preamble, ".." splitter, headers, attributes, number/string typing, parents);
   the typed elements built from the blocks, KyGananciasSolares.txt and NewBDL_O.tbl are covered by
   the correspondence only. *)
From Coq Require Import NArith QArith Bool List String.
From CTE Require Import Model.Bdl Model.BdlDoc Model.Kyg Model.Tbl Model.BdlTyped Model.BdlTypedEnv Model.BdlTypedDb Proofs.BdlP Proofs.BdlPreambleP Proofs.KygP Proofs.TblP Proofs.BdlTypedP Proofs.BdlTypedDbP Proofs.BdlPolySchedP Proofs.BdlEnvP.
Import ListNotations.

(* layout never matters: indentation, trailing blanks, CR before LF, blank lines, comment and LIDER
   header lines vanish, whatever their number and position *)
Theorem C18_layout_erased : forall pls, pls <> [] -> forallb wf_pline pls = true ->
  forallb not_removed (render pls) = true -> content_lines (render pls) = contents pls.
Proof. exact content_lines_render. Qed.

(* attributes of any number, order and kind (numbers, bare words, quoted strings, one-line and
   multi-line lists) are recovered with the written value *)
Theorem C18_attributes_recovered : forall attrs more acc, forallb wf_attr attrs = true ->
  parse_attrs (flat_map attr_lines attrs ++ more) acc None =
  parse_attrs more (fold_left (fun m a => attr_insert (at_key a) (value_result (at_val a)) m) attrs acc) None.
Proof. exact attrs_parse. Qed.

(* a printed block is parsed to its name, its keyword's type and its attributes *)
Theorem C18_block_recovered : forall b, wf_block b = true ->
  exists blk, raw_block b = Some blk /\ parse_block (join [nl] (body_lines b)) = Ok blk.
Proof. exact parse_block_body. Qed.

(* a printed document of any number of blocks, in any admissible layout, parses to exactly the blocks
   written, with the parents the floor / space / wall nesting gives *)
Theorem C18_roundtrip : forall d pls,
  wf_doc d = true -> pls <> [] -> forallb wf_pline pls = true -> forallb not_removed (render pls) = true ->
  contents pls = doc_lines d ->
  first_marker lider_markers (join [nl] (doc_lines d)) = None ->
  exists l, expected_from init_ps d = Some l /\ build_blocks (render pls) = Ok l.
Proof. exact bdl_roundtrip. Qed.

Theorem C18_recovered_fields : forall d st l, expected_from st d = Some l ->
  map b_name l = map ab_name d /\
  map b_attrs l = map (fun b => attrs_result (ab_attrs b)) d /\
  map (fun x => Some (b_type x)) l = map (fun b => parse_type (ab_kw b)) d.
Proof. exact expected_from_fields. Qed.

Theorem C18_numbers_typed : forall v, is_number v = true -> typed v = VNum v.
Proof. exact typed_number. Qed.

(* the loose attribute lines legacy LIDER files put before the general data block come back as the
   attributes of a PARTELIDER block, followed by the blocks of the document *)
Theorem C18_preamble_roundtrip : forall pre d pls,
  pre <> [] -> forallb wf_attr pre = true -> wf_doc d = true ->
  pls <> [] -> forallb wf_pline pls = true -> forallb not_removed (render pls) = true ->
  contents pls = pre_lines pre ++ doc_lines d ->
  first_marker lider_markers (join [nl] (pre_lines pre ++ doc_lines d)) =
    Some (join [nl] (pre_lines pre) ++ [nl], join [nl] (doc_lines d)) ->
  exists l, expected_from init_ps d = Some l /\ build_blocks (render pls) = Ok (partelider_block pre :: l).
Proof. exact preamble_roundtrip. Qed.

(* KyGananciasSolares.txt: a printed element line of either column layout, with either decimal
   separator in its numbers, is read back field by field (orientation O is handed out as W) *)
Theorem C18_kyg_wall_roundtrip : forall w, wf_kwall w = true -> parse_kline (print_wall w) = LWall w.
Proof. exact wall_roundtrip. Qed.
Theorem C18_kyg_window_roundtrip : forall w, wf_kwin w = true ->
  parse_kline (print_win w) = LWin (mkKN (kn_name w) (kn_a w) (kn_u w) (replace_O_W (kn_orient w)) (kn_ff w) (kn_new w)).
Proof. exact win_roundtrip. Qed.
Theorem C18_kyg_bridge_roundtrip : forall t, wf_ktb t = true -> parse_kline (print_tb t) = LTb t.
Proof. exact tb_roundtrip. Qed.
Theorem C18_kyg_line_layout : forall w1 w2 l, all_wsb w1 = true -> all_wsb w2 = true -> edges_ok l = true ->
  parse_kline (trim (w1 ++ l ++ w2)) = parse_kline l.
Proof. exact kline_layout. Qed.

(* typed elements: what a typed reader looks up in the attribute map of a parsed block is the last value
   written under that key, typed as number or string; absent attributes are absent (so defaults apply) *)
Theorem C18_lookup_written : forall k l, lookup_attr k (attrs_result l) = last_written k l.
Proof. exact lookup_attrs_result. Qed.
Theorem C18_material_defaults : forall b c d, get_text "TYPE" (b_attrs b) = Some (s2l "PROPERTIES") ->
  get_num "CONDUCTIVITY" (b_attrs b) = Some c -> get_num "DENSITY" (b_attrs b) = Some d ->
  get_text "GROUP" (b_attrs b) = None -> get_num "SPECIFIC-HEAT" (b_attrs b) = None ->
  exists m, material_of b = Ok m /\ tm_group m = s2l "Materiales" /\
            tm_props m = Some (get_num "THICKNESS" (b_attrs b), c, d, NConst 800%Q, get_num "VAPOUR-DIFFUSIVITY-FACTOR" (b_attrs b)).
Proof. exact material_defaults. Qed.
Theorem C18_floor_defaults : forall b h p, get_num "X" (b_attrs b) = None -> get_num "Y" (b_attrs b) = None ->
  get_num "SPACE-HEIGHT" (b_attrs b) = Some h -> get_text "PREVIOUS" (b_attrs b) = Some p ->
  get_num "Z" (b_attrs b) = None -> get_num "MULTIPLIER" (b_attrs b) = None ->
  floor_of b = Ok (mkTFl (b_name b) (NConst 0%Q) h (NConst 1%Q) p).
Proof. exact floor_defaults. Qed.

(* walls: a written TILT is the wall's tilt (the LOCATION default applies only without it) *)
Theorem C18_wall_written_tilt_wins : forall b w tk, wall_of b = Ok w -> get_num "TILT" (b_attrs b) = Some tk -> twl_tilt w = NTok tk.
Proof. exact wall_written_tilt_wins. Qed.
(* ... and without it: roofs and ceilings 0, floors 180, everything else 90; a floor always has azimuth 180, other
   elements the written azimuth or 0; position defaults to 0; only interior partitions keep NEXT-TO *)
Theorem C18_wall_defaults : forall b w, wall_of b = Ok w -> get_num "TILT" (b_attrs b) = None ->
  twl_tilt w = (if N.eqb (b_type b) CTEGen.BdlTypes.BT_Roof || loc_is w "TOP" then NConst 0 else if loc_is w "BOTTOM" then NConst 180 else NConst 90) /\
  twl_azimuth w = (if loc_is w "BOTTOM" then NConst 180 else num_or (get_num "AZIMUTH" (b_attrs b)) 0) /\
  twl_x w = num_or (get_num "X" (b_attrs b)) 0 /\ twl_y w = num_or (get_num "Y" (b_attrs b)) 0 /\ twl_z w = num_or (get_num "Z" (b_attrs b)) 0 /\
  twl_nextto w = (match twl_bounds w with TB_INTERIOR => get_text "NEXT-TO" (b_attrs b) | _ => None end).
Proof. exact wall_defaults. Qed.
Theorem C18_wall_boundary : forall b w, wall_of b = Ok w ->
  twl_bounds w = (if N.eqb (b_type b) CTEGen.BdlTypes.BT_InteriorWall
                  then (if match get_text "INT-WALL-TYPE" (b_attrs b) with Some k => str_eqb k (s2l "ADIABATIC") | None => false end then TB_ADIABATIC else TB_INTERIOR)
                  else if N.eqb (b_type b) CTEGen.BdlTypes.BT_UndergroundWall then TB_GROUND else TB_EXTERIOR).
Proof. exact wall_boundary. Qed.
(* spaces: inside the thermal envelope when the file says SI, or when it says nothing and the space is
   conditioned; use and system conditions default to the SPACE-TYPE name; position and azimuth default to 0 *)
Theorem C18_space_defaults : forall b s, space_of b = Ok s ->
  tsp_inside s = (match get_text "perteneceALaEnvolventeTermica" (b_attrs b) with
                  | Some v => str_eqb v (s2l "SI")
                  | None => match get_text "TYPE" (b_attrs b) with Some ty => str_eqb ty (s2l "CONDITIONED") | None => false end end) /\
  Some (tsp_spaceconds s) = (match get_text "SPACE-CONDITIONS" (b_attrs b) with Some c => Some c | None => get_text "SPACE-TYPE" (b_attrs b) end) /\
  Some (tsp_systemconds s) = (match get_text "SYSTEM-CONDITIONS" (b_attrs b) with Some c => Some c | None => get_text "SPACE-TYPE" (b_attrs b) end) /\
  tsp_x s = num_or (get_num "X" (b_attrs b)) 0 /\ tsp_y s = num_or (get_num "Y" (b_attrs b)) 0 /\
  tsp_z s = num_or (get_num "Z" (b_attrs b)) 0 /\ tsp_azimuth s = num_or (get_num "AZIMUTH" (b_attrs b)) 0.
Proof. exact space_defaults. Qed.

(* lists: every name of a written list of quoted names, and every number of a written list of numbers, comes
   back in order, for any number of items, blanks inside the parentheses and white space (line breaks included:
   a multi-line list is joined before it is typed) around the commas *)
Theorem C18_names_list_recovered : forall lead trail g1 g2 ns,
  forallb (N.eqb 32) lead = true -> forallb (N.eqb 32) trail = true -> all_wsb g1 = true -> all_wsb g2 = true ->
  forallb name_item_ok ns = true ->
  namesvec (list_text lead trail g1 g2 (map quoted ns)) = ns.
Proof. exact names_list_recovered. Qed.
Theorem C18_number_list_recovered : forall lead trail g1 g2 ts,
  forallb (N.eqb 32) lead = true -> forallb (N.eqb 32) trail = true -> all_wsb g1 = true -> all_wsb g2 = true ->
  ts <> [] -> forallb num_item_ok ts = true ->
  f32vec (list_text lead trail g1 g2 ts) = Some ts.
Proof. exact number_list_recovered. Qed.
(* LAYERS: the materials and the thicknesses written come back item by item (an air gap takes the thickness in
   its name, HULC writing a placeholder for it) *)
Theorem C18_layers_recovered : forall b lead trail g1 g2 lead' trail' g1' g2' ns ts,
  forallb (N.eqb 32) lead = true -> forallb (N.eqb 32) trail = true -> all_wsb g1 = true -> all_wsb g2 = true ->
  forallb (N.eqb 32) lead' = true -> forallb (N.eqb 32) trail' = true -> all_wsb g1' = true -> all_wsb g2' = true ->
  forallb name_item_ok ns = true -> ts <> [] -> forallb num_item_ok ts = true -> List.length ns = List.length ts ->
  get_text "MATERIAL" (b_attrs b) = Some (list_text lead trail g1 g2 (map quoted ns)) ->
  get_text "THICKNESS" (b_attrs b) = Some (list_text lead' trail' g1' g2' ts) ->
  exists w, wallcons_of b = Ok w /\ twc_name w = b_name b /\ twc_material w = ns /\
            twc_thickness w = zip_with fixed_thickness ns ts.
Proof. exact layers_recovered. Qed.
(* the wall constructions of the database: a name that is a construction's gives the layers that construction
   refers to under the construction's name with the construction's absorptance; a name that is a layers
   definition's gives those layers with the default absorptance 0.6; of two definitions under one name the
   one written last is found *)
Theorem C18_wallcons_by_construction : forall ls cs n c l,
  last_by twc_name n ls = None -> str_eqb n (s2l "Ninguno") = false ->
  last_by tcn_name n cs = Some c -> last_by twc_name (tcn_layers c) ls = Some l ->
  wallcons_lookup ls cs n = Some (mkTWC n (twc_group l) (twc_material l) (twc_thickness l), tcn_absorptance c).
Proof. exact wallcons_by_construction. Qed.
Theorem C18_wallcons_by_layers : forall ls cs n l,
  last_by twc_name n ls = Some l -> wallcons_lookup ls cs n = Some (l, NConst (6 # 10)).
Proof. exact wallcons_by_layers. Qed.
Theorem C18_last_definition_wins : forall (l1 l2 : list twallcons) x,
  forallb (fun y => negb (str_eqb (twc_name y) (twc_name x))) l2 = true ->
  last_by twc_name (twc_name x) (l1 ++ x :: l2) = Some x.
Proof. exact (@last_definition_wins twallcons twc_name). Qed.

(* schedules, gaps and thermal bridges: the typed element carries the written values *)
Theorem C18_day_schedule_recovered : forall b kt k lead trail g1 g2 ts,
  get_text "TYPE" (b_attrs b) = Some kt -> skind_of kt = Some k ->
  forallb (N.eqb 32) lead = true -> forallb (N.eqb 32) trail = true -> all_wsb g1 = true -> all_wsb g2 = true ->
  forallb num_item_ok ts = true -> (List.length ts = 24%nat \/ List.length ts = 1%nat) ->
  get_text "VALUES" (b_attrs b) = Some (list_text lead trail g1 g2 ts) ->
  day_of b = Ok (TDay (squeeze2 (b_name b)) k ts).
Proof. exact day_schedule_recovered. Qed.
Theorem C18_week_schedule_recovered : forall b kt k lead trail g1 g2 ns,
  get_text "TYPE" (b_attrs b) = Some kt -> skind_of kt = Some k ->
  forallb (N.eqb 32) lead = true -> forallb (N.eqb 32) trail = true -> all_wsb g1 = true -> all_wsb g2 = true ->
  forallb name_item_ok ns = true -> (List.length ns = 7%nat \/ List.length ns = 1%nat) ->
  get_text "DAY-SCHEDULES" (b_attrs b) = Some (list_text lead trail g1 g2 (map quoted ns)) ->
  week_of b = Ok (TWeek (squeeze2 (b_name b)) k ns).
Proof. exact week_schedule_recovered. Qed.
Theorem C18_week_schedule_length : forall b kt k lead trail g1 g2 ns,
  get_text "TYPE" (b_attrs b) = Some kt -> skind_of kt = Some k ->
  forallb (N.eqb 32) lead = true -> forallb (N.eqb 32) trail = true -> all_wsb g1 = true -> all_wsb g2 = true ->
  forallb name_item_ok ns = true -> List.length ns <> 7%nat -> List.length ns <> 1%nat ->
  get_text "DAY-SCHEDULES" (b_attrs b) = Some (list_text lead trail g1 g2 (map quoted ns)) ->
  week_of b = Err 10.
Proof. exact week_schedule_length. Qed.
Theorem C18_gap_recovered : forall b g gg f fg p i,
  get_text "GLASS-TYPE" (b_attrs b) = Some g -> get_text "GROUP-GLASS" (b_attrs b) = Some gg ->
  get_text "NAME-FRAME" (b_attrs b) = Some f -> get_text "GROUP-FRAME" (b_attrs b) = Some fg ->
  get_num "PORCENTAGE" (b_attrs b) = Some p -> get_num "INF-COEF" (b_attrs b) = Some i ->
  exists w, wincons_of b = Ok w /\ twn_name w = b_name b /\ twn_glass w = g /\ twn_glassgroup w = gg /\ twn_frame w = f /\
            twn_framegroup w = fg /\ twn_percentage w = p /\ twn_infcoeff w = i /\
            twn_group w = match get_text "GROUP" (b_attrs b) with Some x => x | None => s2l "Ventanas" end /\
            twn_deltau w = num_or (get_num "porcentajeIncrementoU" (b_attrs b)) 0 /\
            twn_gglshwi w = get_num "TransmisividadJulio" (b_attrs b).
Proof. exact gap_recovered. Qed.
Theorem C18_bridge_user_defined : forall b psi frsi,
  str_eqb (b_name b) (s2l "LONGITUDES_CALCULADAS") = false ->
  get_num "TTL" (b_attrs b) = Some psi -> get_num "FRSI" (b_attrs b) = Some frsi ->
  (get_num "DEFINICION" (b_attrs b) = None \/ exists d, get_num "DEFINICION" (b_attrs b) = Some d /\ trunc_tok d = 2%Z) ->
  forall ty mn mx pa, get_text "TYPE" (b_attrs b) = Some ty ->
  str_eqb ty (s2l "WINDOW-FRAME") = false -> str_eqb ty (s2l "PILLAR") = false -> is_empty ty = false ->
  get_num "ANGLE-MIN" (b_attrs b) = Some mn -> get_num "ANGLE-MAX" (b_attrs b) = Some mx -> get_text "PARTITION" (b_attrs b) = Some pa ->
  tb_of b = Ok (mkTBr (b_name b) (get_num "LONG-TOTAL" (b_attrs b)) ty (NTok psi) (NTok frsi) (Some (mn, mx, pa)) None).
Proof. exact bridge_user_defined. Qed.
Theorem C18_bridge_lengths_block : forall b,
  str_eqb (b_name b) (s2l "LONGITUDES_CALCULADAS") = true -> get_text "TYPE" (b_attrs b) = None ->
  get_num "DEFINICION" (b_attrs b) = None ->
  tb_of b = Ok (mkTBr (b_name b) (get_num "LONG-TOTAL" (b_attrs b)) [] (NConst 0) (NConst 0) None None).
Proof. exact bridge_lengths_block. Qed.

(* polygons: a vertex written "( x, y )" gives its two coordinates, and V1 .. Vn come back in the order of
   their numbers whatever their order in the file (the attribute map is sorted by key, V10 before V2) *)
Theorem C18_vertex_recovered : forall lead g1 g2 trail x y,
  forallb (N.eqb 32) lead = true -> forallb (N.eqb 32) g1 = true -> forallb (N.eqb 32) g2 = true -> forallb (N.eqb 32) trail = true ->
  coord_ok x = true -> coord_ok y = true ->
  point2 (point_text lead g1 g2 trail x y) = Some [x; y].
Proof. exact vertex_recovered. Qed.
Theorem C18_polygon_recovered : forall a pts start fuel,
  (List.length pts < fuel)%nat ->
  (forall k, (k < List.length pts)%nat -> exists s, lookup_attr (vkey (start + k)) a = Some (VStr s) /\ point2 s = Some (nth k pts [])) ->
  match lookup_attr (vkey (start + List.length pts)) a with Some (VStr _) => False | _ => True end ->
  polygon_from fuel start a = Some pts.
Proof. exact polygon_recovered. Qed.
(* year schedules: the lists of months, days and weekly schedules come back item by item *)
Theorem C18_count_list_recovered : forall lead trail g1 g2 ds,
  forallb (N.eqb 32) lead = true -> forallb (N.eqb 32) trail = true -> all_wsb g1 = true -> all_wsb g2 = true ->
  ds <> [] -> forallb count_ok ds = true ->
  u32vec (list_text lead trail g1 g2 ds) = Some (map (fun d => digits_val d 0) ds).
Proof. exact count_list_recovered. Qed.
Theorem C18_year_schedule_recovered : forall b kt k l1 t1 a1 b1 l2 t2 a2 b2 l3 t3 a3 b3 ms ds ws,
  get_text "TYPE" (b_attrs b) = Some kt -> skind_of kt = Some k ->
  forallb (N.eqb 32) l1 = true -> forallb (N.eqb 32) t1 = true -> all_wsb a1 = true -> all_wsb b1 = true ->
  forallb (N.eqb 32) l2 = true -> forallb (N.eqb 32) t2 = true -> all_wsb a2 = true -> all_wsb b2 = true ->
  forallb (N.eqb 32) l3 = true -> forallb (N.eqb 32) t3 = true -> all_wsb a3 = true -> all_wsb b3 = true ->
  ms <> [] -> forallb count_ok ms = true -> ds <> [] -> forallb count_ok ds = true -> forallb name_item_ok ws = true ->
  get_text "MONTH" (b_attrs b) = Some (list_text l1 t1 a1 b1 ms) ->
  get_text "DAY" (b_attrs b) = Some (list_text l2 t2 a2 b2 ds) ->
  get_text "WEEK-SCHEDULES" (b_attrs b) = Some (list_text l3 t3 a3 b3 (map quoted ws)) ->
  year_of b = Ok (TYear (squeeze2 (b_name b)) k (map (fun d => digits_val d 0) ds) (map (fun d => digits_val d 0) ms) ws).
Proof. exact year_schedule_recovered. Qed.

(* NewBDL_O.tbl: an element / a space written as a name line and a values line (any blanks in front of the
   values) is read back value by value *)
Theorem C18_tbl_element_roundtrip : forall e s1 s2 pre, wf_telem e s1 s2 = true -> all_wsb pre = true ->
  parse_elem (te_name e) (pre ++ join [32%N] (te_vals e ++ [te_type e; s1; s2])) = Some e.
Proof. exact elem_roundtrip. Qed.
Theorem C18_tbl_space_roundtrip : forall s si sm pre, wf_tspace s si sm = true -> all_wsb pre = true ->
  parse_space (ts_name s) (pre ++ join [32%N] [si; sm; ts_area s; ts_qint s]) = Some s.
Proof. exact space_roundtrip. Qed.

(* non-vacuity: a two-block document with an upper-case exponent, a quoted name and a three-line list,
   printed with tabs, CR LF, blank and comment lines, meets every hypothesis of C18_roundtrip *)
Local Open Scope string_scope.
Definition ex_doc : list ablock :=
  [ mkAB (s2l "P01_E01") (s2l " ") (s2l " ") (s2l "SPACE")
      [ mkAttr (s2l "HEIGHT") (s2l "   ") (s2l " ") (ANum (s2l "2.5E+00"));
        mkAttr (s2l "POLYGON") (s2l " ") (s2l "") (AQuoted (s2l "P01_E01_Pol2")) ];
    mkAB (s2l "Muro (25+5)") (s2l "") (s2l "") (s2l "LAYERS")
      [ mkAttr (s2l "MATERIAL") (s2l " ") (s2l " ") (AList (s2l "( ""a"",") [s2l """b"","; s2l """c"")"]) ] ].
Definition cr : list N := [13%N].
Definition ex_layout : list pline :=
  [ PDropped [] 36%N (s2l " comentario .."); PContent (s2l "  ") (header_line (nth 0 ex_doc (mkAB [] [] [] [] []))) cr;
    PContent (s2l "	") (s2l "HEIGHT   = 2.5E+00") (s2l "  " ++ cr); PBlank cr;
    PContent [] (s2l "POLYGON =""P01_E01_Pol2""") cr; PContent (s2l "   ") dotdot cr;
    PContent [] (s2l """Muro (25+5)""=LAYERS") cr; PContent [] (s2l "MATERIAL = ( ""a"",") cr;
    PContent (s2l "    ") (s2l """b"",") cr; PContent (s2l "    ") (s2l """c"")") cr; PContent [] dotdot cr; PBlank [] ].
Example C18_example :
  wf_doc ex_doc = true /\ forallb wf_pline ex_layout = true /\ forallb not_removed (render ex_layout) = true /\
  contents ex_layout = doc_lines ex_doc /\ first_marker lider_markers (join [nl] (doc_lines ex_doc)) = None /\
  match build_blocks (render ex_layout) with
  | Ok [b1; b2] => b_parent b1 = Some (s2l "Default") /\
                   b_attrs b1 = [(s2l "HEIGHT", VNum (s2l "2.5E+00")); (s2l "POLYGON", VStr (s2l "P01_E01_Pol2"))] /\
                   b_attrs b2 = [(s2l "MATERIAL", VStr (s2l "( ""a"",""b"",""c"")"))]
  | _ => False
  end.
Proof. vm_compute. repeat split; reflexivity. Qed.
Definition ex_pre : list aattr :=
  [ mkAttr (s2l "CAMBIO") (s2l " ") (s2l " ") (AWord (s2l "SI"));
    mkAttr (s2l "CONTRIBUCIONRESACS") (s2l "             ") (s2l "           ") (ANum (s2l "1800")) ].
Definition ex_pdoc : list ablock :=
  [ mkAB (s2l "DATOS GENERALES") (s2l " ") (s2l " ") (s2l "GENERAL-DATA") [ mkAttr (s2l "ENGLISH") (s2l " ") (s2l "  ") (AWord (s2l "NO")) ] ].
Example C18_preamble_example :
  forallb wf_attr ex_pre = true /\ wf_doc ex_pdoc = true /\
  first_marker lider_markers (join [nl] (pre_lines ex_pre ++ doc_lines ex_pdoc)%list) =
    Some ((join [nl] (pre_lines ex_pre) ++ [nl])%list, join [nl] (doc_lines ex_pdoc)).
Proof. vm_compute. repeat split; reflexivity. Qed.
Example C18_kyg_example :
  wf_kwin (mkKN (s2l "P02_E01_PE001_V") (s2l "2,00") (s2l "1.26") (s2l "SO") (s2l "10,00")
                (Some (s2l "0.79", s2l "-1.00", s2l "1.00", s2l "50.00", s2l "PVC 2"))) = true /\
  wf_kwall (mkKW (s2l "P01_E01_ME001") (s2l "30,00") (s2l "0,30") (s2l "1E0") None) = true.
Proof. split; vm_compute; reflexivity. Qed.

(* non-vacuity of the list theorems: a three-name list broken over two lines and a list of numbers with
   exponents meet their hypotheses, and the readers give the items *)
Example C18_lists_example :
  let ns := [s2l "Cámara de aire sin ventilar vertical 2 cm"; s2l "1/2 pie LP [80 mm< G < 100 mm]"; s2l "MW Lana mineral [0.04 W/[mK]]"] in
  let ts := [s2l "0.05"; s2l "1.15E-01"; s2l ".04"] in
  forallb name_item_ok ns = true /\ forallb num_item_ok ts = true /\
  namesvec (list_text (s2l " ") [] [] [10%N; 32%N; 32%N] (map quoted ns)) = ns /\
  f32vec (list_text [] (s2l " ") [] (s2l " ") ts) = Some ts /\
  zip_with fixed_thickness ns ts = [NConst (2 # 100); NTok (s2l "1.15E-01"); NTok (s2l ".04")].
Proof. vm_compute. repeat split; reflexivity. Qed.

(* non-vacuity: a twelve-vertex outline written out of order (V10 .. V12 sort before V2) comes back in the order
   of the vertex numbers; a three-span year *)
Example C18_polygon_example :
  let pt (i : nat) := (s2l "( " ++ nat_str 5 i ++ s2l ".5, -" ++ nat_str 5 i ++ s2l " )")%list in
  let a := fold_left (fun m i => attr_insert (vkey i) (pt i) m) [12; 3; 1; 10; 2; 11; 4; 5; 6; 7; 8; 9]%nat [] in
  map fst a = map vkey [1; 10; 11; 12; 2; 3; 4; 5; 6; 7; 8; 9]%nat /\
  polygon_from 1000 1 a = Some (map (fun i => [(nat_str 5 i ++ s2l ".5")%list; 45%N :: nat_str 5 i]) [1; 2; 3; 4; 5; 6; 7; 8; 9; 10; 11; 12]%nat) /\
  forallb count_ok [s2l "5"; s2l "09"; s2l "12"] = true /\
  u32vec (list_text [] [] [] (s2l " ") [s2l "5"; s2l "09"; s2l "12"]) = Some [5; 9; 12]%N.
Proof. vm_compute. repeat split; reflexivity. Qed.
