(* C18 — placeholder statements while the round-trip proofs are being built *)
From Coq Require Import NArith List.
From CTE Require Import Model.Bdl Model.BdlCase.
Import ListNotations.
From Coq Require Import String.
Local Open Scope string_scope.
Example C18_example : is_number (s2l "1.2E+01") = true /\ is_number (s2l "1e") = false.
Proof. split; reflexivity. Qed.
