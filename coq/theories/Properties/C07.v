(* C07 — window U-value and solar factors follow their definitions. Proofs in Proofs/WinConsP.v;
   the downstream defaults 5.7 W/m2K (K) and 0.77 / 0.20 (q_sol;jul) are C08_default_last and C10_item_spec. *)
From Coq Require Import ZArith NArith QArith Qabs Bool List.
From CTE Require Import Base.Num Model.BModel Model.Props Model.WinCons Proofs.NumP Proofs.WinConsP.
Import ListNotations.
Local Open Scope Q_scope.

Theorem C07_u_win_spec : forall db wc g f,
  get_glass db (wnc_glass wc) = Some g -> get_frame db (wnc_frame wc) = Some f ->
  u_win db wc = Some ((1 + wnc_du wc / 100) * (fr_u f * wnc_ff wc + gl_u g * (1 - wnc_ff wc))).
Proof. exact u_win_spec. Qed.

Theorem C07_u_win_between : forall du ff uf ug,
  0 <= ff <= 1 -> 0 <= du ->
  (1 + du / 100) * qmin ug uf <= u_win_formula du ff uf ug <= (1 + du / 100) * qmax ug uf.
Proof. exact u_win_between. Qed.
Theorem C07_u_win_ff0 : forall du uf ug, u_win_formula du 0 uf ug == (1 + du / 100) * ug.
Proof. exact u_win_ff0. Qed.
Theorem C07_u_win_ff1 : forall du uf ug, u_win_formula du 1 uf ug == (1 + du / 100) * uf.
Proof. exact u_win_ff1. Qed.
Theorem C07_u_win_monotone_du : forall du du' ff uf ug,
  0 <= ff <= 1 -> 0 <= uf -> 0 <= ug -> du <= du' -> u_win_formula du ff uf ug <= u_win_formula du' ff uf ug.
Proof. exact u_win_monotone_du. Qed.

Theorem C07_missing_glass_none : forall db wc,
  get_glass db (wnc_glass wc) = None -> u_win db wc = None /\ g_glwi db wc = None.
Proof. exact missing_glass_none. Qed.
Theorem C07_missing_frame_none : forall db wc, get_frame db (wnc_frame wc) = None -> u_win db wc = None.
Proof. exact missing_frame_none. Qed.

Theorem C07_g_glwi : forall db wc g, get_glass db (wnc_glass wc) = Some g -> g_glwi db wc = Some ((9 # 10) * gl_g g).
Proof. exact g_glwi_spec. Qed.
Theorem C07_g_user_first : forall db wc x, wnc_gglshwi wc = Some x -> g_glshwi db wc = Some x.
Proof. exact g_precedence_user. Qed.
Theorem C07_g_unshaded_otherwise : forall db wc, wnc_gglshwi wc = None -> g_glshwi db wc = g_glwi db wc.
Proof. exact g_precedence_none. Qed.
Theorem C07_props_defaults : forall db wc,
  get_glass db (wnc_glass wc) = None ->
  props_g_glwi db wc = 77 # 100 /\
  props_g_glshwi db wc = match wnc_gglshwi wc with Some x => x | None => 77 # 100 end.
Proof. exact props_defaults. Qed.

Definition exdb07 := mkConsDb [] [mkWinCons 1%N 2%N 3%N (1#4) 10 None 27] [] [mkGlass 2%N 2 (6#10)] [mkFrame 3%N 4 (1#2)].
Example C07_example :
  match c_wincons exdb07 with wc :: _ =>
    (match u_win exdb07 wc with Some u => Qred u = 11 # 4 | None => False end) /\
    (match g_glshwi exdb07 wc with Some g => Qred g = 27 # 50 | None => False end)
  | [] => False end.
Proof. split; reflexivity. Qed.
