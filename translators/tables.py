#!/usr/bin/env python3
"""Regenerates coq/gen/Tables.v from /repo's embedded climate tables, through the compiled public API
(vharness tables). Written only when the content changed, so make stays a no-op on an unchanged tree."""
import os, subprocess, sys
ROOT = os.path.dirname(os.path.dirname(os.path.abspath(__file__)))
out = os.path.join(ROOT, 'coq', 'gen', 'Tables.v')
os.makedirs(os.path.dirname(out), exist_ok=True)
h = os.environ.get('VERIF_HARNESS', os.path.join(ROOT, 'harness', 'target', 'release', 'vharness'))
p = subprocess.run([h, 'tables', '--out', out], stdout=subprocess.PIPE, stderr=subprocess.STDOUT, text=True)
print(p.stdout[-400:])
sys.exit(p.returncode)
