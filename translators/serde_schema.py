#!/usr/bin/env python3
"""Regenerates coq/gen/Schema_repo.v: the serde schema of every type reachable from bemodel::Model,
read from the struct / enum definitions and their #[serde(..)] attributes, the manual Default impls
and the default / skip helper functions. Fails closed on any attribute or type it does not know."""
import os, re, sys
ROOT = os.path.dirname(os.path.dirname(os.path.abspath(__file__)))
REPO = os.environ.get('VERIF_REPO', '/repo')
TYPES = os.path.join(REPO, 'bemodel/src/types')
files = [os.path.join(TYPES, f) for f in sorted(os.listdir(TYPES)) if f.endswith('.rs')] + \
        [os.path.join(REPO, 'bemodel/src/utils.rs'), os.path.join(REPO, 'bemodel/src/climatedata/climatezone.rs')]
src = {}
for f in files:
    t = open(f, encoding='utf-8').read()
    t = re.sub(r'//[^\n]*', '', t)
    src[f] = t
alltext = '\n'.join(src.values())

def fail(msg):
    sys.exit('serde_schema.py: ' + msg)

def balanced(text, start):
    """text[start] == '{' -> index after the matching '}'"""
    depth = 0
    for i in range(start, len(text)):
        if text[i] == '{':
            depth += 1
        elif text[i] == '}':
            depth -= 1
            if depth == 0:
                return i + 1
    fail('unbalanced braces')

def split_top(s, sep=','):
    out, depth, cur = [], 0, ''
    for ch in s:
        if ch in '<([{':
            depth += 1
        elif ch in '>)]}':
            depth -= 1
        if ch == sep and depth == 0:
            out.append(cur)
            cur = ''
        else:
            cur += ch
    if cur.strip():
        out.append(cur)
    return out

def parse_attrs(attr_text):
    """list of serde(...) contents -> dict"""
    d = {}
    for m in re.finditer(r'#\[serde\(([^\]]*)\)\]', attr_text):
        for item in split_top(m.group(1)):
            item = item.strip()
            if not item:
                continue
            mm = re.match(r'(\w+)\s*=\s*"([^"]*)"$', item)
            if mm:
                d[mm.group(1)] = mm.group(2)
            elif re.match(r'^\w+$', item):
                d[item] = True
            else:
                fail('unknown serde attribute syntax: ' + item)
    for k in d:
        if k not in ('default', 'skip_serializing_if', 'flatten', 'untagged', 'rename'):
            fail('unknown serde attribute: ' + k)
    return d

def parse_fields(body):
    """struct / variant body -> [(name, type, attrs)]"""
    fields = []
    pos = 0
    body = body.strip()
    parts = split_top(body)
    for p in parts:
        p = p.strip()
        if not p:
            continue
        attrs = parse_attrs(p)
        p2 = re.sub(r'#\[[^\]]*\]', '', p).strip()
        m = re.match(r'(?:pub(?:\([^)]*\))?\s+)?(\w+)\s*:\s*(.+)$', p2, re.S)
        if not m:
            fail('cannot parse field: ' + p2[:60])
        fields.append((m.group(1), re.sub(r'\s+', '', m.group(2)), attrs))
    return fields

structs, enums = {}, {}
for m in re.finditer(r'((?:#\[[^\]]*\]\s*)*)pub\s+struct\s+(\w+)\s*\{', alltext):
    name = m.group(2)
    end = balanced(alltext, m.end() - 1)
    structs[name] = (parse_attrs(m.group(1)), 'Default' in m.group(1) and 'derive' in m.group(1) and bool(re.search(r'derive\([^)]*\bDefault\b', m.group(1))),
                     parse_fields(alltext[m.end():end - 1]))
for m in re.finditer(r'((?:#\[[^\]]*\]\s*)*)pub\s+enum\s+(\w+)\s*\{', alltext):
    name = m.group(2)
    end = balanced(alltext, m.end() - 1)
    body = alltext[m.end():end - 1]
    attrs = parse_attrs(m.group(1))
    variants = []
    for v in split_top(body):
        v = v.strip()
        if not v:
            continue
        lead = re.match(r'^(?:\s*#\[[^\]]*\])*', v).group(0)
        vattrs = parse_attrs(lead)
        v2 = v[len(lead):].strip()
        mm = re.match(r'(\w+)\s*(\{(.*)\})?\s*$', v2, re.S)
        if not mm:
            fail('cannot parse variant of %s: %s' % (name, v2[:40]))
        variants.append((mm.group(1), parse_fields(mm.group(3)) if mm.group(2) else None, vattrs))
    enums[name] = (attrs, variants)

# manual Default impls: struct field values / enum default variant
manual = {}
for m in re.finditer(r'impl\s+Default\s+for\s+(\w+)\s*\{', alltext):
    name = m.group(1)
    end = balanced(alltext, m.end() - 1)
    body = alltext[m.end():end - 1]
    if name in enums:
        mm = re.search(r'(?:Self|%s)::(\w+)' % name, body)
        if not mm:
            fail('cannot read default variant of ' + name)
        manual[name] = mm.group(1)
    elif name in structs:
        fm = re.search(r'fn\s+default\s*\(\s*\)\s*->\s*\w+\s*\{', body)
        if not fm:
            fail('cannot read Default of ' + name)
        body = body[fm.end():]
        mm = re.search(r'(?:Self|%s)\s*\{' % name, body)
        if not mm:
            fail('cannot read Default of ' + name)
        e2 = balanced(body, mm.end() - 1)
        vals = {}
        for item in split_top(body[mm.end():e2 - 1]):
            item = item.strip()
            if not item:
                continue
            k, _, v = item.partition(':')
            vals[k.strip()] = v.strip()
        manual[name] = vals

# helper functions returning a constant
helpers = {}
for m in re.finditer(r'fn\s+(\w+)\s*\(\s*\)\s*->\s*(\w+)\s*\{\s*([^{}]*?)\s*\}', alltext):
    helpers[m.group(1)] = m.group(3).strip()
# is_empty methods: which fields they test
is_empty = {}
for m in re.finditer(r'impl\s+(\w+)\s*\{', alltext):
    end = balanced(alltext, m.end() - 1)
    body = alltext[m.end():end - 1]
    mm = re.search(r'fn\s+is_empty\s*\(\s*&self\s*\)\s*->\s*bool\s*\{', body)
    if mm:
        e2 = balanced(body, mm.end() - 1)
        is_empty[m.group(1)] = re.findall(r'self\.(\w+)\.is_empty\(\)', body[mm.end():e2])

def cs(s):
    return '"' + s.replace('"', '""') + '"'

unordered = []
cur_field = ['']
def ty_term(t):
    t = t.replace('super::', '').replace('crate::', '')
    if t in ('String',):
        return '(FAtom AStr)'
    if t in ('f32', 'f64', 'i32', 'u32', 'usize', 'i64', 'u64'):
        return '(FAtom ANum)'
    if t == 'bool':
        return '(FAtom ABool)'
    if t == 'Uuid':
        return '(FAtom AId)'
    m = re.match(r'^Option<(.+)>$', t)
    if m:
        return '(FOpt %s)' % ty_term(m.group(1))
    m = re.match(r'^Vec<(.+)>$', t)
    if m:
        return '(FVec %s)' % ty_term(m.group(1))
    m = re.match(r'^(BTreeMap|HashMap)<Uuid,(.+)>$', t)
    if m:
        if m.group(1) == 'HashMap':
            # same JSON shape, but the order of the keys in the text is the hasher's: recorded for C04_maps_ordered
            unordered.append(cur_field[0])
        return '(FMap %s)' % ty_term(m.group(2))
    m = re.match(r'^\((.+)\)$', t)
    if m:
        return '(FTuple [%s])' % '; '.join(ty_term(x.strip()) for x in split_top(m.group(1)))
    if t in ('Point2',):
        return '(FTuple [FAtom ANum; FAtom ANum])'
    if t in ('Point3',):
        return '(FTuple [FAtom ANum; FAtom ANum; FAtom ANum])'
    if t == 'Polygon':
        return '(FVec (FTuple [FAtom ANum; FAtom ANum]))'
    if t in structs:
        return '(FStruct %s)' % cs(t)
    if t in enums:
        attrs, variants = enums[t]
        if all(v[1] is None for v in variants):
            return '(FAtom (AEnum %s))' % cs(t)
        return '(FStruct %s)' % cs(t)
    fail('unknown type: ' + t)

def dval(expr):
    e = expr.strip()
    if re.match(r'^"[^"]+"\.(to_string|into)\(\)$', e) or re.match(r'^String::from\("[^"]+"\)$', e):
        return 'VStr'
    if e in ('String::new()', '"".to_string()', 'String::default()'):
        return 'VEmptyStr'
    m = re.match(r'^(-?[0-9]+(?:\.[0-9]+)?)$', e)
    if m:
        from fractions import Fraction
        f = Fraction(m.group(1))
        return '(VNum (%d # %d))' % (f.numerator, f.denominator)
    if e in ('true', 'false'):
        return '(VBool %s)' % e
    if e == 'None':
        return 'VNone'
    if e in ('Vec::new()', 'vec![]', 'Vec::default()'):
        return 'VEmptyVec'
    if re.match(r'^[\w:]*default\(\)$', e) or e.endswith('::default()'):
        return 'VStd'
    return 'VOther'

SKIPS = {'String::is_empty': 'SkEmptyStr', 'Vec::is_empty': 'SkEmptyVec', 'Option::is_none': 'SkNone', 'is_default': 'SkDefault',
         'BTreeMap::is_empty': 'SkEmptyMap', 'HashMap::is_empty': 'SkEmptyMap'}

def skip_term(name):
    if name in SKIPS:
        return SKIPS[name]
    m = re.match(r'^(\w+)::is_empty$', name)
    if m and m.group(1) in structs:
        return '(SkStructEmpty %s)' % cs(m.group(1))
    # helper predicates on a constant: fn multiplier_is_1(m: &f32) -> bool { *m == 1.0 } ; fn is_true(b: &bool) -> bool { *b }
    mm = re.search(r'fn\s+%s\s*\([^)]*\)\s*->\s*bool\s*\{\s*([^{}]*?)\s*\}' % re.escape(name), alltext)
    if mm:
        body = mm.group(1).strip()
        m2 = re.match(r'^\*\w+\s*==\s*(-?[0-9.]+)$', body)
        if m2:
            from fractions import Fraction
            f = Fraction(m2.group(1))
            return '(SkIsNum (%d # %d))' % (f.numerator, f.denominator)
        if re.match(r'^\*\w+$', body):
            return 'SkIsTrue'
        if re.match(r'^!\s*\*\w+$', body):
            return 'SkIsFalse'
        if re.match(r'^\w+\s*==\s*&(?:T::|Default::)default\(\)$', body):
            return 'SkDefault'
    return '(SkUnknown %s)' % cs(name)

def dflt_term(attrs):
    d = attrs.get('default')
    if d is None:
        return 'DvNone'
    if d is True:
        return 'DvStd'
    if d in helpers:
        return '(DvVal %s)' % dval(helpers[d])
    return '(DvVal VOther)'

def field_term(f):
    name, ty, attrs = f
    cur_field[0] = name
    return '(mkFd %s %s %s %s %s)' % (cs(attrs.get('rename', name) if isinstance(attrs.get('rename'), str) else name), ty_term(ty), dflt_term(attrs),
                                      skip_term(attrs['skip_serializing_if']) if 'skip_serializing_if' in attrs else 'SkNever',
                                      'true' if attrs.get('flatten') else 'false')

# types reachable from Model
reach, todo = [], ['Model']
while todo:
    t = todo.pop()
    if t in reach:
        continue
    reach.append(t)
    fl = structs[t][2] if t in structs else [f for v in enums[t][1] if v[1] for f in v[1]]
    for _, ty, _ in fl:
        for w in re.findall(r'\w+', ty):
            if (w in structs or (w in enums and any(v[1] for v in enums[w][1]))) and w not in reach:
                todo.append(w)
unit_enums = sorted(e for e in enums if all(v[1] is None for v in enums[e][1]) and re.search(r'\b%s\b' % e, ' '.join(ty for t in reach if t in structs for _, ty, _ in structs[t][2]) + ' ' + ' '.join(ty for t in reach if t in enums for v in enums[t][1] if v[1] for _, ty, _ in v[1])))

out = ['(* GENERATED by translators/serde_schema.py from /repo/bemodel/src/types. Do not edit. *)',
       'From Coq Require Import String List QArith.', 'From CTE Require Import Model.Schema.', 'Import ListNotations.', 'Local Open Scope string_scope.', '']
items = []
for t in reach:
    if t in structs:
        attrs, derives_default, fields = structs[t]
        man = manual.get(t) if isinstance(manual.get(t), dict) else None
        mterm = '[%s]' % '; '.join('(%s, %s)' % (cs(k), dval(v)) for k, v in man.items()) if man else '[]'
        # a flattened untagged enum: one variant of the parent per variant of the enum, its fields inlined
        variants = [[]]
        for f in fields:
            fname, fty_, fattrs = f
            if fattrs.get('flatten'):
                if fty_ not in enums or not enums[fty_][0].get('untagged'):
                    fail('flatten of %s: only untagged enums with data are supported' % fty_)
                variants = [v + [field_term(g) for g in ev[1]] for v in variants for ev in enums[fty_][1]]
            else:
                variants = [v + [field_term(f)] for v in variants]
        items.append('  mkSd %s %s %s %s %s [%s]' % (cs(t), 'true' if attrs.get('default') else 'false', 'true' if derives_default else 'false', mterm,
                     '[%s]' % '; '.join(cs(x) for x in is_empty.get(t, [])), '; '.join('[%s]' % '; '.join(v) for v in variants)))
    else:
        attrs, variants = enums[t]
        if not attrs.get('untagged'):
            fail('enum %s with data must be untagged' % t)
        items.append('  mkSd %s false false [] [] [%s]' % (cs(t), '; '.join('[%s]' % '; '.join(field_term(f) for f in v[1]) for v in variants)))
out.append('Definition repo_schema : list sdesc := [\n' + ';\n'.join(items) + '\n].\n')
out.append('(* unit enums: (name, variants, default variant) *)')
out.append('Definition repo_enums : list (string * list string * option string) := [\n' + ';\n'.join(
    '  (%s, [%s], %s)' % (cs(e), '; '.join(cs(v[0]) for v in enums[e][1]), ('Some ' + cs(manual[e])) if isinstance(manual.get(e), str) else 'None') for e in unit_enums) + '\n].')
out.append('(* fields whose map type does not iterate in key order (HashMap) *)')
out.append('Definition repo_unordered_maps : list string := [%s].' % '; '.join(cs(x) for x in sorted(set(unordered))))
text = '\n'.join(out) + '\n'
path = os.path.join(ROOT, 'coq', 'gen', 'Schema_repo.v')
if not os.path.exists(path) or open(path).read() != text:
    open(path, 'w').write(text)
print('schema written: %d types, %d unit enums' % (len(reach), len(unit_enums)))
