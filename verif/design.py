#!/usr/bin/env python3
"""Assembles DESIGN.md from verif/design_head.md, verif/props.py, the Properties files,
known_findings.json, seeded/*/meta.json and verif/design_tail.md."""
import json, re, sys, os, glob
ROOT = os.path.dirname(os.path.dirname(os.path.abspath(__file__)))
sys.path.insert(0, os.path.join(ROOT, 'verif'))
import props
os.chdir(ROOT)
titles = {json.loads(l)['id']: json.loads(l)['title'] for l in open('properties.jsonl')}
ev = {}
for f in glob.glob('evidence/*.json'):
    d = json.load(open(f)); ev[d['property_id']] = d
def thms(pid):
    s = open('coq/theories/Properties/%s.v' % pid).read()
    return re.findall(r'^(?:Theorem|Example|Corollary)\s+(\w+)', s, re.M)
seeds = {}
for d in sorted(os.listdir('seeded')):
    p = 'seeded/%s/meta.json' % d
    if os.path.exists(p):
        m = json.load(open(p)); seeds.setdefault(m['breaks_property'], []).append((d, m))
PARTIAL = {'C01', 'C05', 'C14', 'C19'}
out = []
for pid in sorted(props.PROPS):
    c = props.PROPS[pid]; e = ev.get(pid, {})
    out.append('### %s — %s%s\n\n' % (pid, titles[pid], '  *(partial)*' if pid in PARTIAL else ''))
    out.append('* **Technique.** %s\n' % c['technique'])
    out.append('* **What is shown.** %s\n' % c['level_text'])
    out.append('* **Theorems** (`coq/theories/Properties/%s.v`): %s.\n' % (pid, ', '.join('`%s`' % t for t in thms(pid))))
    out.append('* **Tie to the code.** `%s`; quick tier n = %s, thorough n = %s; last quick run on the committed tree: %s cases evaluated in Coq.\n' % (
        c['agree'], c['n']['quick'], c['n']['thorough'], e.get('coverage', {}).get('traces_validated_against_impl', '?')))
    out.append('* **Disagreement codes.** %s.\n' % '; '.join('%s = %s' % (k, v) for k, v in c['codes'].items()))
    out.append('* **Trusted / not covered.** %s Assumptions: %s.\n' % (c['level_note'], '; '.join(c['assumptions'])))
    ax = e.get('coverage', {}).get('axioms_reported', [])
    out.append('* **Axioms reported by `Print Assumptions`.** %s\n' % (', '.join('`%s`' % a for a in ax) if ax else 'none (closed under the global context).'))
    for d, m in seeds.get(pid, []):
        out.append('* **Seeded change `%s`.** Needs: %s. Detected by: %s.\n' % (d, m['needs_to_manifest'], m['detected_by']))
    out.append('\n')
kf = json.load(open('known_findings.json'))['findings']
fixes = ''.join('* %s\n' % f['what'] for f in kf if f['status'] == 'fixed')
known = ''.join('* KNOWN-FINDING property=%s (class `%s`): %s\n' % (f['property'], f['match'].get('class'), f['what']) for f in kf if f['status'] == 'known')
rows = ['| seeded change | property | needs | detected by |', '|---|---|---|---|']
for pid in sorted(seeds):
    for d, m in seeds[pid]:
        rows.append('| `%s` | %s | %s | %s |' % (d, pid, m['needs_to_manifest'].replace('|', '/'), m['detected_by'].replace('|', '/')))
tail = open('verif/design_tail.md').read().replace('@FIXES@', fixes).replace('@KNOWN@', known).replace('@SEEDS@', '\n'.join(rows))
open('DESIGN.md', 'w').write(open('verif/design_head.md').read() + ''.join(out) + tail)
print('DESIGN.md written:', sum(1 for _ in open('DESIGN.md')), 'lines')
