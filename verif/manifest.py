#!/usr/bin/env python3
"""Regenerates MANIFEST.json from verif/props.py (run after adding a property)."""
import json, os, sys
ROOT = os.path.dirname(os.path.dirname(os.path.abspath(__file__)))
sys.path.insert(0, os.path.join(ROOT, 'verif'))
import props

ids = [json.loads(l)['id'] for l in open(os.path.join(ROOT, 'properties.jsonl'))]
checks, na = [], []
for pid in ids:
    c = props.PROPS.get(pid)
    if not c:
        na.append({'property_id': pid, 'reason': props.NOT_YET.get(pid, 'check not built yet; design in DESIGN.md section 5')})
        continue
    checks.append({
        'property_id': pid,
        'quick_cmd': './check %s --tier quick' % pid,
        'thorough_cmd': './check %s --tier thorough' % pid,
        'evidence_file': 'evidence/%s.json' % pid,
        'replay_cmd_template': './check %s --replay {path}' % pid,
        'engine': 'coq+vharness',
        'level_claimed': {'category': 'proof', 'text': c['level_text'], 'design_ref': 'DESIGN.md section 5 / %s' % pid},
        'level_note': c['level_note'],
        'technique': c['technique'],
    })
man = {
    'version': 1,
    'setup_cmd': './setup',
    'hooks': {'guard': 'cargo feature cteenergymodel_verif of crate bemodel', 'enable': 'harness/Cargo.toml depends on bemodel with features = ["cteenergymodel_verif"]; the feature only re-exports the BVHNode and Occluder types (no behaviour change)',
              'baseline_off_cmd': 'cd /repo && cargo test --workspace --no-fail-fast --offline',
              'source_commits': ['e477b1c'], 'add_only': True},
    'engines': [{'name': 'coq+vharness', 'path': 'check', 'serves_properties': [c['property_id'] for c in checks],
                 'kind_free_text': 'Coq 8.16 theorems about hand-written models (coq/theories) + correspondence: Rust harness runs the implementation, Coq evaluates the model on the same inputs and compares (vm_compute / interval certificates); translators regenerate coq/gen from /repo'}],
    'checks': checks,
    'not_applicable': na,
    'notes': 'Genuine defects are listed in known_findings.json (fixed: entries suppress nothing). See DESIGN.md.',
}
json.dump(man, open(os.path.join(ROOT, 'MANIFEST.json'), 'w'), indent=1)
print('checks:', [c['property_id'] for c in checks], 'not yet:', [x['property_id'] for x in na])
