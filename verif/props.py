"""Per-property configuration of ./check."""

TRUSTED = [
    'Coq 8.16.1 kernel incl. vm_compute (no native_compute)',
    'Rust harness /verif/harness: input generation, Rust->Coq term printer (exact dyadic numbers, ids interned per case), outcome capture',
    'correspondence compares public-API observables; the theorems are about coq/theories/Model/*.v',
]

NOT_YET = {}

PROPS = {
    'C15': {
        'agree': 'agree_C15 (Model/Checks.v)',
        'technique': 'Coq proof (exact iff + multiplicity by induction over the element lists) + vm_compute correspondence',
        'level_text': 'Theorems C15_check_exact / C15_check_count / C15_check_closed state for every model (any sizes, duplicates, nil ids) that the modelled checker emits (x,k) exactly for broken links, once per broken link, and nothing for closed models; the model is tied to bemodel::check by evaluating both on the same generated and shipped models and comparing warning multisets inside Coq.',
        'level_note': 'Trusted: Coq kernel + vm_compute; harness generator/printer; warning kind is classified from the message by the referenced id. Messages/names are not modelled. Purity and indicator warnings are observed on the implementation per case.',
        'n': {'quick': 400, 'thorough': 12000},
        'codes': {'1': 'multiset of (id, kind) warnings differs from the model', '2': 'a warning could not be classified',
                  '3': 'warnings returned with the indicators differ from check()', '4': 'check modified the model'},
        'assumptions': ['warning kind is recovered from which referenced id the message mentions (keyword fallback)',
                        'names and messages are not modelled'],
    },
}
