"""Per-property configuration of ./check."""

TRUSTED = [
    'Coq 8.16.1 kernel incl. vm_compute (no native_compute)',
    'Rust harness /verif/harness: input generation, Rust->Coq term printer (exact dyadic numbers, ids interned per case), outcome capture',
    'correspondence compares public-API observables; the theorems are about coq/theories/Model/*.v',
]

NOT_YET = {}

PROPS = {
    'C15': {
        'agree': 'agree_C15 (Model/Checks.v)',
        'technique': 'Coq proof (exact iff + multiplicity by induction over the element lists) + vm_compute correspondence',
        'level_text': 'Theorems C15_check_exact / C15_check_count / C15_check_closed state for every model (any sizes, duplicates, nil ids) that the modelled checker emits (x,k) exactly for broken links, once per broken link, and nothing for closed models; the model is tied to bemodel::check by evaluating both on the same generated and shipped models and comparing warning multisets inside Coq.',
        'level_note': 'Trusted: Coq kernel + vm_compute; harness generator/printer; warning kind is classified from the message by the referenced id. Messages/names are not modelled. Purity and indicator warnings are observed on the implementation per case.',
        'n': {'quick': 400, 'thorough': 12000},
        'codes': {'1': 'multiset of (id, kind) warnings differs from the model', '2': 'a warning could not be classified',
                  '3': 'warnings returned with the indicators differ from check()', '4': 'check modified the model'},
        'assumptions': ['warning kind is recovered from which referenced id the message mentions (keyword fallback)',
                        'names and messages are not modelled'],
    },
    'C16': {
        'agree': 'agree_C16 (Model/Purge.v)',
        'technique': 'Coq proof (membership iff declarative reachability per collection, sublist order, idempotence, no new warning) + vm_compute correspondence',
        'level_text': 'Theorems C16_*_exact state for every model that each of the 12 purged collections keeps exactly the items reachable from the remaining elements (spaces from walls; loads/thermostats from kept spaces; year/week/day schedules down the chain; constructions, materials, glazings, frames; bridges with |l| > eps), in their original relative order (C16_order), that purge is idempotent, touches nothing else and introduces no checker warning. The model is tied to bemodel::purge_unused by evaluating both on the same generated and shipped models and comparing the id lists of all 15 collections inside Coq; indicator invariance is observed on the implementation per case.',
        'level_note': 'Trusted: Coq kernel + vm_compute; harness generator/printer. Indicator invariance (a_ref, volumes, K, n50, q_sol;jul) is compared on the implementation before/after purge per case, and proved for the K/n50 models in Properties/C16.v where stated.',
        'n': {'quick': 400, 'thorough': 12000},
        'codes': {'1': 'ids per collection after purge differ from the model (something reachable removed, something unreachable kept, or order changed)',
                  '2': 'a kept item is not field-for-field the original', '3': 'purging twice differs from purging once',
                  '4': 'purge introduced a checker warning', '5': 'an indicator changed'},
        'assumptions': ['names are not modelled; item contents are compared as JSON values by the harness'],
    },
    'C08': {
        'agree': 'agree_C08 (Model/K.v)',
        'technique': 'Coq proof over Q (sums by induction, Permutation invariance, nra for the mean bounds) + vm_compute correspondence on the implementation\'s reported props',
        'level_text': 'Theorems C08_* state for every props value (any number of walls, windows, bridges): K times the envelope area equals the sum of A*U over opaque parts and windows of exactly the envelope set in contact with air or ground plus psi*L over bridges of non-negative length; override > computed > 5.7; the five categories and nine bridge kinds add up to the totals; each category mean lies between its min and max; elements outside the set and negative bridges can be dropped; K is invariant under permutation and injective renaming. K_model is tied to KData::from by evaluating both on the same props (reported by the implementation for generated and shipped models) and comparing every KData field inside Coq to 1e-4 relative.',
        'level_note': 'Trusted: Coq kernel + vm_compute; harness generator/printer. The props fields K reads are tied to the Model by C06, C07 and C11. Comparisons exactly at the 0.001 / 0.01 m2 guards are skipped.',
        'n': {'quick': 400, 'thorough': 12000},
        'codes': {'1': 'K', '2': 'summary a/au', '3': 'opaques a/au', '4': 'windows a/au', '5': 'bridges l/psil totals',
                  '6': 'per-category opaque breakdown (a, au, u_min, u_max, u_mean)', '7': 'windows breakdown', '8': 'bridge kinds', '9': 'non-finite number in K data'},
        'assumptions': ['f32 summation noise is absorbed by a 1e-4 relative + 1e-4 absolute tolerance'],
    },
    'C09': {
        'agree': 'agree_C09 (Model/N50.v)',
        'technique': 'Coq proof over Q (field for the blower-door consistency, sums by induction) + vm_compute correspondence on the implementation\'s reported props',
        'level_text': 'Theorems C09_* state for every props value: n50_ref = 0.629 (Co Ao + sum Ch Ah) / V over envelope elements in contact with outside air, 0 when V is 0 (<= 0.001); Co is what props report (16 new / 29 existing, tied by C11); Ch defaults to 100; with a blower-door value n50 is that value and the reported wall permeability satisfies the same equation; without it n50 = n50_ref and the wall permeability is Co; ground/adiabatic/interior elements can be dropped; invariant under permutation. N50_model is tied to N50Data::from by evaluating both on the same reported props and comparing all 11 fields inside Coq.',
        'level_note': 'Trusted: Coq kernel + vm_compute; harness generator/printer. Cases with V, Ao or Ah within 1e-5 of the 0.001 guards are skipped.',
        'n': {'quick': 400, 'thorough': 12000},
        'codes': {'1': 'n50_ref', '2': 'n50', '3': 'walls_a / windows_a', '4': 'windows_c_a / windows_c', '5': 'walls_c_ref / walls_c_a_ref',
                  '6': 'walls_c / walls_c_a', '7': 'vol', '9': 'non-finite number'},
        'assumptions': ['f32 noise absorbed by 1e-4 relative tolerance; back-calculated wall permeability compared with a tolerance scaled by the cancelling terms'],
    },
    'C10': {
        'agree': 'agree_C10 (Model/QSolJul.v)',
        'technique': 'Coq proof over Q (weighted means, partition by orientation, finiteness) + regenerated climate tables (vm_compute obligations) + vm_compute correspondence',
        'level_text': 'Theorems C10_* state for every props value and zone: Q_sol;jul is the sum over windows of envelope elements in contact with air or ground of Fsh,obst g_gl;sh;wi (1-Ff) A H_sol;jul with override > computed > 1, defaults 0.77/0.20 without construction, H from the regenerated embedded tables for the window\'s orientation class and the zone (C10_table_total: every zone x orientation has a non-negative entry); q = Q / A_ref; the per-orientation detail adds up to the totals; every mean times its area is the weighted sum and lies between min and max; with no such window (or A_ref = 0) every figure is a defined finite number. QSol_model is tied to QSolJulData::from by evaluating both on reported props for models cycling over all 32 zones.',
        'level_note': 'Trusted: Coq kernel + vm_compute; harness generator/printer; tables dumped through the compiled public statics into coq/gen/Tables.v on every run.',
        'n': {'quick': 384, 'thorough': 12000},
        'codes': {'1': 'Q_soljul', '2': 'q_soljul', '3': 'a_wp', '4': 'global means', '5': 'per-orientation detail', '9': 'non-finite number reported',
                  '10': 'q_sol;jul data does not load back from its JSON', '20': 'model predicts a crash (missing table entry), implementation returned', '21': 'implementation crashed'},
        'assumptions': ['f32 noise absorbed by 1e-4 relative tolerance'],
    },
    'C17': {
        'agree': 'agree_C17 (Model/Schedules.v)',
        'technique': 'Coq proof (induction over periods with the invariant skip = days_so_far mod 7; telescoping sums; 365-date finite sweep lifted by forallb_forall) + vm_compute correspondence incl. all 365 end dates through Model::try_from',
        'level_text': 'Theorems C17_* state: a yearly schedule of any number of periods expands to sum-of-counts days, day d taking slot d mod 7 (Monday = 0) of the weekly schedule in force; the day-of-year formula equals the calendar for all 365 dates; strictly increasing end dates ending on day 365 give positive periods whose prefix sums are exactly those dates; weekly run-length encoding expands back to the 7 names, daily schedules to 24 values; an hour is in use exactly when some occupied space has non-zero occupancy (order/duplicates irrelevant); the mean load is the floor-area-weighted mean. The models are tied to SchedulesDb::get_year_as_day_sch, the HULC schedule conversion in Model::try_from (all 365 end dates every run) and EnergyProps (occ_spaces_hours_in_use, occ_spaces_average_load, loads_avg) by evaluating both sides on the same inputs inside Coq.',
        'level_note': 'Trusted: Coq kernel + vm_compute; harness generator/printer. Space areas are taken from the reported props (tied to the Model by C11). Dangling schedule ids / different expanded lengths (crashes) are C14.',
        'n': {'quick': 400, 'thorough': 8000},
        'codes': {'1': 'expanded day list differs', '2': 'period lengths from end dates differ', '3': 'weekly runs differ', '4': 'daily values differ',
                  '5': 'occupied hours differ', '6': 'mean internal load differs', '7': 'a schedule-averaged load differs'},
        'assumptions': ['loads compared to 1e-4 relative'],
    },
}
