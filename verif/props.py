"""Per-property configuration of ./check."""

TRUSTED = [
    'Coq 8.16.1 kernel incl. vm_compute (no native_compute)',
    'Rust harness /verif/harness: input generation, Rust->Coq term printer (exact dyadic numbers, ids interned per case), outcome capture',
    'correspondence compares public-API observables; the theorems are about coq/theories/Model/*.v',
]

NOT_YET = {}

PROPS = {
    'C15': {
        'agree': 'agree_C15 (Model/Checks.v)',
        'technique': 'Coq proof (exact iff + multiplicity by induction over the element lists) + vm_compute correspondence',
        'level_text': 'Theorems C15_check_exact / C15_check_count / C15_check_closed state for every model (any sizes, duplicates, nil ids) that the modelled checker emits (x,k) exactly for broken links, once per broken link, and nothing for closed models; the model is tied to bemodel::check by evaluating both on the same generated and shipped models and comparing warning multisets inside Coq.',
        'level_note': 'Trusted: Coq kernel + vm_compute; harness generator/printer; warning kind is classified from the message by the referenced id. Messages/names are not modelled. Purity and indicator warnings are observed on the implementation per case.',
        'n': {'quick': 400, 'thorough': 12000},
        'codes': {'1': 'multiset of (id, kind) warnings differs from the model', '2': 'a warning could not be classified',
                  '3': 'warnings returned with the indicators differ from check()', '4': 'check modified the model'},
        'assumptions': ['warning kind is recovered from which referenced id the message mentions (keyword fallback)',
                        'names and messages are not modelled'],
    },
    'C16': {
        'agree': 'agree_C16 (Model/Purge.v)',
        'technique': 'Coq proof (membership iff declarative reachability per collection, sublist order, idempotence, no new warning) + vm_compute correspondence',
        'level_text': 'Theorems C16_*_exact state for every model that each of the 12 purged collections keeps exactly the items reachable from the remaining elements (spaces from walls; loads/thermostats from kept spaces; year/week/day schedules down the chain; constructions, materials, glazings, frames; bridges with |l| > eps), in their original relative order (C16_order), that purge is idempotent, touches nothing else and introduces no checker warning. The model is tied to bemodel::purge_unused by evaluating both on the same generated and shipped models and comparing the id lists of all 15 collections inside Coq; indicator invariance is observed on the implementation per case.',
        'level_note': 'Trusted: Coq kernel + vm_compute; harness generator/printer. Indicator invariance (a_ref, volumes, K, n50, q_sol;jul) is compared on the implementation before/after purge per case, and proved for the K/n50 models in Properties/C16.v where stated.',
        'n': {'quick': 400, 'thorough': 12000},
        'codes': {'1': 'ids per collection after purge differ from the model (something reachable removed, something unreachable kept, or order changed)',
                  '2': 'a kept item is not field-for-field the original', '3': 'purging twice differs from purging once',
                  '4': 'purge introduced a checker warning', '5': 'an indicator changed'},
        'assumptions': ['names are not modelled; item contents are compared as JSON values by the harness'],
    },
}
