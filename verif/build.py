#!/usr/bin/env python3
"""Build steps shared by ./setup and ./check: Coq theories (coq_makefile + make, full .vo) and
the Rust harness (cargo, offline, path dependencies on /repo). Serialised by a file lock so that
concurrent checks do not trample each other's build."""
import fcntl, glob, os, subprocess, sys, time, hashlib

ROOT = os.path.dirname(os.path.dirname(os.path.abspath(__file__)))
COQ = os.path.join(ROOT, 'coq')
HARNESS = os.path.join(ROOT, 'harness')
REPO = os.environ.get('VERIF_REPO', '/repo')


class Lock:
    def __init__(self, name):
        self.path = os.path.join(ROOT, '.' + name + '.lock')

    def __enter__(self):
        self.f = open(self.path, 'w')
        fcntl.flock(self.f, fcntl.LOCK_EX)

    def __exit__(self, *a):
        fcntl.flock(self.f, fcntl.LOCK_UN)
        self.f.close()


def coq_project():
    """(re)write _CoqProject and Makefile when the set of .v files changed"""
    files = sorted(glob.glob(os.path.join(COQ, 'theories', '**', '*.v'), recursive=True) +
                   glob.glob(os.path.join(COQ, 'gen', '*.v')))
    rel = [os.path.relpath(f, COQ) for f in files]
    text = ('-Q theories CTE\n-Q gen CTEGen\n'
            '-arg -w -arg -notation-overridden,-deprecated-hint-without-locality,-deprecated-instance-without-locality,-ambiguous-paths\n'
            + '\n'.join(rel) + '\n')
    p = os.path.join(COQ, '_CoqProject')
    old = open(p).read() if os.path.exists(p) else ''
    if old != text or not os.path.exists(os.path.join(COQ, 'Makefile')):
        open(p, 'w').write(text)
        subprocess.run(['coq_makefile', '-f', '_CoqProject', '-o', 'Makefile'], cwd=COQ, check=True,
                       stdout=subprocess.DEVNULL, stderr=subprocess.DEVNULL)


def run_translators():
    """regenerate coq/gen/*.v from /repo (every translator writes its file only when it changed)"""
    logs = []
    ok = True
    for tr in sorted(glob.glob(os.path.join(ROOT, 'translators', '*.py'))):
        p = subprocess.run([sys.executable, tr], cwd=ROOT, stdout=subprocess.PIPE, stderr=subprocess.STDOUT, text=True,
                           env=dict(os.environ, VERIF_REPO=REPO))
        logs.append('%s: rc=%d %s' % (os.path.basename(tr), p.returncode, p.stdout[-1500:]))
        ok = ok and p.returncode == 0
    return ok, '\n'.join(logs)


def restore_missing_gen():
    """a translator that fails leaves its last output in place; on a fresh checkout there is none, so the
    committed copy made on the unchanged tree (coq/gen.baseline) stands in. Only ever used to SEARCH for a
    failing input after the failure itself has been reported."""
    base = os.path.join(COQ, 'gen.baseline')
    os.makedirs(os.path.join(COQ, 'gen'), exist_ok=True)
    for f in glob.glob(os.path.join(base, '*.v')):
        dst = os.path.join(COQ, 'gen', os.path.basename(f))
        if not os.path.exists(dst):
            import shutil
            shutil.copy(f, dst)


def make_coq(targets=None, timeout=1500, allow_stale=False):
    """returns (ok, log). allow_stale: build even when a translator failed, with the last generated (or the
    baseline) file of that translator - for the search of a failing input only."""
    with Lock('coq'):
        tok, tlog = run_translators()
        if not tok:
            if not allow_stale:
                return False, 'TRANSLATOR FAILED\n' + tlog
            restore_missing_gen()
        coq_project()
        cmd = ['timeout', str(timeout), 'make', '-j16'] + (targets or [])
        p = subprocess.run(cmd, cwd=COQ, stdout=subprocess.PIPE, stderr=subprocess.STDOUT, text=True)
        return p.returncode == 0, p.stdout


def build_harness(timeout=1500):
    """cargo build --release --offline of the harness against /repo's current working tree"""
    with Lock('cargo'):
        lock = os.path.join(HARNESS, 'Cargo.lock')
        src = os.path.join(REPO, 'Cargo.lock')
        if not os.path.exists(lock) and os.path.exists(src):
            import shutil
            shutil.copy(src, lock)
        env = dict(os.environ, CARGO_NET_OFFLINE='true', RUSTFLAGS=os.environ.get('RUSTFLAGS', '') + ' -Awarnings')
        p = subprocess.run(['timeout', str(timeout), 'cargo', 'build', '--release', '--offline'],
                           cwd=HARNESS, stdout=subprocess.PIPE, stderr=subprocess.STDOUT, text=True, env=env)
        return p.returncode == 0, p.stdout


BINS = os.path.join(HARNESS, 'target-bins')


def build_bins(timeout=1500):
    """cargo build (dev profile) of /repo's own hulc2model and thor binaries, from its working tree"""
    with Lock('cargo-bins'):
        env = dict(os.environ, CARGO_NET_OFFLINE='true', CARGO_TARGET_DIR=BINS,
                   RUSTFLAGS=os.environ.get('RUSTFLAGS', '') + ' -Awarnings')
        p = subprocess.run(['timeout', str(timeout), 'cargo', 'build', '--offline', '-p', 'hulc2model', '-p', 'bemodel', '--bins'],
                           cwd=REPO, stdout=subprocess.PIPE, stderr=subprocess.STDOUT, text=True, env=env)
        return p.returncode == 0, p.stdout


if __name__ == '__main__':
    what = sys.argv[1] if len(sys.argv) > 1 else 'all'
    t0 = time.time()
    if what in ('all', 'harness'):
        ok, log = build_harness()
        print(log[-3000:])
        if not ok:
            sys.exit('harness build failed')
    if what in ('all', 'coq'):
        ok, log = make_coq()
        print(log[-3000:])
        if not ok:
            sys.exit('coq build failed')
    print('setup done in %.1fs' % (time.time() - t0))
