#!/bin/bash
# seedrun.sh <name> <check id>... : applies /verif/seeded/<name>/patch.diff to /repo, runs the checks, undoes it
NAME=$1; shift
cd /verif
[ -z "$(git -C /repo status --porcelain --untracked-files=no)" ] || { echo "/repo has uncommitted changes"; exit 2; }
rm -rf /var/tmp/evidence.keep; cp -r /verif/evidence /var/tmp/evidence.keep
git -C /repo apply /verif/seeded/$NAME/patch.diff || { echo "patch does not apply to /repo"; exit 2; }
for c in "$@"; do echo "--- $c on seeded $NAME"; ./check $c --tier quick > /var/tmp/seedrun.log 2>&1; echo "rc=$?"; tail -4 /var/tmp/seedrun.log; done
git -C /repo checkout -- .
# evidence files are only ever committed from runs on the unchanged tree
rm -rf /verif/evidence; mv /var/tmp/evidence.keep /verif/evidence
