#!/usr/bin/env python3
"""seedmeta.py <name> <property> <needs> <detected_by> : writes /verif/seeded/<name>/meta.json"""
import json, sys, os
name, prop, needs, det = sys.argv[1:5]
d = os.path.join(os.path.dirname(os.path.dirname(os.path.abspath(__file__))), 'seeded', name)
json.dump({
  'breaks_property': prop, 'needs_to_manifest': needs,
  'confirmed_by': 'verif/seedconfirm.sh in a scratch worktree: demo passes on the unmodified tree, the workspace builds and all existing tests pass with patch.diff applied, the demo fails with it',
  'checks_run': 'verif/seedrun.sh %s %s (git -C /repo apply; ./check <id> --tier quick; git -C /repo checkout -- .)' % (name, prop),
  'detected_by': det,
}, open(os.path.join(d, 'meta.json'), 'w'), indent=1)
