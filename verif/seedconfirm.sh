#!/bin/bash
# seedconfirm.sh <ID> <name> <crate> [demo-file]
# Confirms a seeded change delivered in /tmp/mut/out/<ID>/ in the scratch worktree /tmp/mut/<ID>:
#  (1) demo passes on the unmodified tree, (2) with the patch the workspace builds and the whole
#  existing test suite passes, (3) the demo fails with the patch. Then stores it in /verif/seeded/<name>/.
set -u
ID=$1; NAME=$2; CRATE=$3; DEMO=${4:-demo_test.rs}
WT=/tmp/mut/$ID; OUT=/tmp/mut/out/$ID
export CARGO_NET_OFFLINE=true CARGO_TARGET_DIR=$WT/target
cd $WT || exit 2
git checkout -q -- . ; rm -f */tests/zz_demo.rs
[ -f Cargo.lock ] || cp /repo/Cargo.lock .
run_demo() {
  if [ -d "$OUT/demo" ]; then (cd $OUT/demo && export CARGO_TARGET_DIR=$WT/target-demo && if [ -d tests ]; then cargo test --offline -q > /var/tmp/seeddemo.log 2>&1; r=$?; else cargo run --offline -q > /var/tmp/seeddemo.log 2>&1; r=$?; fi; tail -5 /var/tmp/seeddemo.log; exit $r)
  else mkdir -p $WT/$CRATE/tests; cp $OUT/$DEMO $WT/$CRATE/tests/zz_demo.rs; cargo test -q -p $CRATE --test zz_demo --offline 2>&1 | tail -15 | grep -E "test result|panicked|FAILED|error" | head -5; r=${PIPESTATUS[0]}; rm -f $WT/$CRATE/tests/zz_demo.rs; return $r; fi
}
echo "== demo on unmodified tree"; run_demo; A=$?
git apply $OUT/patch.diff || { echo "patch does not apply"; exit 2; }
echo "== test suite with patch"; cargo test --workspace --no-fail-fast --offline 2>&1 | grep -E "^test result" | awk '{p+=$4; f+=$6} END {print "passed="p" failed="f; exit (f>0)}'; S=$?
echo "== demo with patch"; run_demo; B=$?
git checkout -q -- .
echo "demo_unmodified_rc=$A suite_with_patch_rc=$S demo_with_patch_rc=$B"
if [ $A -eq 0 ] && [ $S -eq 0 ] && [ $B -ne 0 ]; then
  mkdir -p /verif/seeded/$NAME; cp $OUT/patch.diff /verif/seeded/$NAME/; 
  if [ -d "$OUT/demo" ]; then rm -rf /verif/seeded/$NAME/demo; cp -r $OUT/demo /verif/seeded/$NAME/demo; rm -rf /verif/seeded/$NAME/demo/target; else cp $OUT/$DEMO /verif/seeded/$NAME/demo_test.rs; fi
  cp $OUT/notes.md /verif/seeded/$NAME/notes.md 2>/dev/null
  echo CONFIRMED
else echo NOT-CONFIRMED; exit 1; fi
