#!/bin/bash
# runall.sh [ids...] : runs the quick checks on the unchanged tree (rewrites evidence/) and prints one line each
cd /verif
ids="$@"; [ -z "$ids" ] && ids=$(python3 -c "import json; print(' '.join(c['property_id'] for c in json.load(open('MANIFEST.json'))['checks']))")
for c in $ids; do ./check $c --tier quick > /var/tmp/runall.$c.log 2>&1; echo "$c rc=$? $(tail -1 /var/tmp/runall.$c.log)"; done
# the generated model parts of the unchanged tree, kept as the stand-in used when a translator fails on a changed tree
[ -z "$@" ] && [ -z "$(git -C /repo status --porcelain --untracked-files=no)" ] && cp /verif/coq/gen/*.v /verif/coq/gen.baseline/
