//! C11 — reference area, volumes, compactness, envelope membership, classifiers.
use crate::{coq, corpus, gen, props, rng::Rng, Args, Batch, Case};
use bemodel::*;
use serde_json::json;

fn fin(x: f32) -> Option<f32> {
    if x.is_finite() {
        Some(x)
    } else {
        None
    }
}

/// the tilt classes of both classifiers (the project-file reader's Wall::position, without normalisation, and
/// bemodel's Tilt::from) at the class limits, their f32 neighbours, and the tilts of this model's walls
fn tilt_classes(m: &Model) -> String {
    let mut ts: Vec<f32> = vec![];
    for l in [0.0f32, 60.0, 120.0, 240.0, 300.0, 360.0] {
        ts.push(l);
        ts.push(f32::from_bits(l.to_bits() + 1));
        if l > 0.0 {
            ts.push(f32::from_bits(l.to_bits() - 1));
        }
    }
    ts.extend([-90.0f32, -180.0, 450.0, 719.5, 90.0, 180.0]);
    ts.extend(m.walls.iter().take(12).map(|w| w.geometry.tilt).filter(|t| t.is_finite()));
    let cls = |s: String| match s.as_str() {
        "TOP" => "TOP",
        "BOTTOM" => "BOTTOM",
        _ => "SIDE",
    };
    let v: Vec<String> = ts
        .iter()
        .map(|&t| {
            let hw = hulc::bdl::Wall { tilt: t, ..Default::default() };
            format!("({}, {}, {})", coq::q(t), cls(format!("{:?}", hw.position())), cls(format!("{:?}", Tilt::from(t))))
        })
        .collect();
    format!("[{}]", v.join("; "))
}

pub fn one_case(m: &Model, origin: &str) -> Option<Case> {
    coq::reset_ids();
    let mt = coq::model(m);
    let ind = crate::guarded(std::panic::AssertUnwindSafe(|| m.energy_indicators())).ok()?;
    let vent_model = crate::guarded(std::panic::AssertUnwindSafe(|| m.global_ventilation_rate())).ok()?;
    let g = &ind.props.global;
    let term = format!(
        "(mkC11 {}\n {}\n {} {} ({}, {}, {}, {}) {})",
        mt,
        props::eprops(&ind.props),
        coq::optq(&fin(g.global_ventilation_rate)),
        coq::optq(&fin(vent_model)),
        props::qz(ind.area_ref), props::qz(ind.compactness), props::qz(ind.vol_env_net), props::qz(ind.vol_env_gross),
        tilt_classes(m)
    );
    let outside = m.spaces.iter().filter(|s| !s.inside_tenv).count();
    Some(Case {
        post: String::new(),
        term,
        json: json!({"origin": origin, "model": serde_json::to_value(m).unwrap(),
                     "global": serde_json::to_value(g).unwrap(), "model_global_ventilation_rate": format!("{}", vent_model),
                     "classes": if g.global_ventilation_rate.is_finite() != vent_model.is_finite() || (g.global_ventilation_rate - vent_model).abs() > 1e-3 { vec!["vent_rate_mismatch"] } else { vec![] }}),
        nontrivial: outside > 0 && m.spaces.len() >= 2,
    })
}

/// scale all lengths of a model by s (polygons, positions, heights, z, window sizes, layer thickness,
/// bridge lengths)
pub fn scale_model(m: &Model, s: f32) -> Model {
    let mut k = m.clone();
    for sp in k.spaces.iter_mut() {
        sp.height *= s;
        sp.z *= s;
    }
    for w in k.walls.iter_mut() {
        for p in w.geometry.polygon.iter_mut() {
            p.x *= s;
            p.y *= s;
        }
        if let Some(p) = w.geometry.position.as_mut() {
            p.x *= s;
            p.y *= s;
            p.z *= s;
        }
    }
    for w in k.windows.iter_mut() {
        w.geometry.width *= s;
        w.geometry.height *= s;
        w.geometry.setback *= s;
        if let Some(p) = w.geometry.position.as_mut() {
            p.x *= s;
            p.y *= s;
        }
    }
    for c in k.cons.wallcons.iter_mut() {
        for l in c.layers.iter_mut() {
            l.e *= s;
        }
    }
    k
}

fn rel_close(a: f32, b: f32, tol: f32) -> bool {
    (a - b).abs() <= tol * a.abs().max(b.abs()) + 0.011
}

/// metamorphic scaling on the implementation: areas x s^2, volumes x s^3, compactness x s
fn scaling_findings(m: &Model, s: f32, origin: &str, out: &mut Vec<serde_json::Value>) -> bool {
    let a = crate::guarded(std::panic::AssertUnwindSafe(|| m.energy_indicators()));
    let k = scale_model(m, s);
    let b = crate::guarded(std::panic::AssertUnwindSafe(|| k.energy_indicators()));
    if let (Ok(a), Ok(b)) = (a, b) {
        let tol = 2e-3 + 0.011 / a.area_ref.max(1.0);
        let ok = rel_close(b.area_ref, a.area_ref * s * s, tol)
            && rel_close(b.vol_env_gross, a.vol_env_gross * s * s * s, tol)
            && rel_close(b.vol_env_net, a.vol_env_net * s * s * s, 5e-3)
            && rel_close(b.compactness, a.compactness * s, 5e-3);
        if !ok {
            out.push(json!({"what": "scaling all lengths does not scale areas by s2, volumes by s3, compactness by s", "scale": s, "origin": origin,
                "before": [a.area_ref, a.vol_env_gross, a.vol_env_net, a.compactness], "after": [b.area_ref, b.vol_env_gross, b.vol_env_net, b.compactness],
                "model": serde_json::to_value(m).unwrap(), "classes": ["scaling"]}));
        }
        true
    } else {
        false
    }
}

pub fn run(a: &Args) -> Batch {
    let mut r = Rng::new(a.seed ^ 0x11);
    let mut cases = vec![];
    let mut findings = vec![];
    let mut stats = std::collections::BTreeMap::<&str, usize>::new();
    for (name, m) in corpus::shipped_models() {
        if let Some(c) = one_case(&m, &name) {
            cases.push(c);
        }
        for s in [0.25f32, 2.0] {
            if scaling_findings(&m, s, &name, &mut findings) {
                *stats.entry("scaling_runs").or_default() += 1;
            }
        }
    }
    let cfg = gen::GenCfg { max_spaces: 6, ..Default::default() };
    for i in 0..a.n {
        let mut rr = r.fork(i as u64);
        let mut m = gen::gen_model(&mut rr, &cfg);
        match i % 6 {
            1 => {
                gen::add_duplicates(&mut rr, &mut m);
            }
            2 => {
                gen::break_links(&mut rr, &mut m, 1, 10);
            }
            3 => {
                gen::add_unused(&mut rr, &mut m);
            }
            _ => {}
        }
        let origin = format!("gen seed={} i={}", a.seed, i);
        match one_case(&m, &origin) {
            Some(c) => cases.push(c),
            None => *stats.entry("indicator_crashes_skipped").or_default() += 1,
        }
        if i % 4 == 0 {
            let s = *rr.pick(&[0.25f32, 0.5, 2.0, 4.0, 1.5, 3.0]);
            if scaling_findings(&m, s, &origin, &mut findings) {
                *stats.entry("scaling_runs").or_default() += 1;
            }
        }
    }
    Batch {
        imports: "From Coq Require Import ZArith NArith QArith List.\nFrom CTE Require Import Base.Num Model.BModel Model.Props Model.Geometry.".into(),
        case_ty: "c11_case".into(),
        agree: "agree_C11".into(),
        cases,
        impl_findings: findings,
        rule: "shipped model files + generated models (spaces inside/outside the envelope, three space kinds, multipliers, several floors per space, ceilings given from either side, duplicates, broken links, unused items); every reported wall / window / space / global prop is recomputed by the Coq model from the Model; metamorphic scaling (s in {1/4,1/2,3/2,2,3,4}) on the implementation; non-trivial = at least two spaces, one outside the envelope; distinct by content hash".into(),
        stats: json!(stats),
    }
}
