//! C13 — ray casting: accelerated queries equal exhaustive ones and match exact geometry.
use crate::{coq, rng::Rng, Args, Batch, Case};
use bemodel::energy::{BVHNode, Bounded, Intersectable, Ray, AABB, BVH};
use bemodel::*;
use serde_json::json;

fn v3(x: f32, y: f32, z: f32) -> String {
    format!("(mkV {} {} {})", coq::q(x), coq::q(y), coq::q(z))
}
fn boxq(b: &AABB) -> String {
    format!("(mkBox {} {})", v3(b.min.x, b.min.y, b.min.z), v3(b.max.x, b.max.y, b.max.z))
}
fn rayq(r: &Ray) -> String {
    format!("(mkRay {} {})", v3(r.origin.x, r.origin.y, r.origin.z), v3(r.dir.x, r.dir.y, r.dir.z))
}
fn frac(n: i64, d: i64) -> String {
    if n < 0 {
        format!("(({}) # {})", n, d)
    } else {
        format!("({} # {})", n, d)
    }
}

/// run f on another thread; None when it does not return within `secs` seconds
fn with_timeout<T: Send + 'static>(secs: u64, f: impl FnOnce() -> T + Send + 'static) -> Option<T> {
    let (tx, rx) = std::sync::mpsc::channel();
    std::thread::spawn(move || {
        let _ = tx.send(f());
    });
    rx.recv_timeout(std::time::Duration::from_secs(secs)).ok()
}

fn hang(out: &str, what: &str, input: serde_json::Value) -> ! {
    let _ = std::fs::create_dir_all(out);
    let _ = std::fs::write(format!("{}/hang.json", out), json!({"what": what, "input": input}).to_string());
    eprintln!("HANG: {}", what);
    std::process::exit(3)
}

fn bits_eq(a: &AABB, b: &AABB) -> bool {
    let f = |p: &Point3| [p.x.to_bits(), p.y.to_bits(), p.z.to_bits()];
    f(&a.min) == f(&b.min) && f(&a.max) == f(&b.max)
}

fn dump(node: &BVHNode<AABB>, input: &[AABB], used: &mut Vec<bool>, ok: &mut bool) -> String {
    match node {
        BVHNode::Leaf { aabb, elements } => {
            let items: Vec<String> = elements
                .iter()
                .map(|e| {
                    let k = (0..input.len()).find(|k| !used[*k] && bits_eq(&input[*k], e));
                    match k {
                        Some(k) => {
                            used[k] = true;
                            format!("({}, {})", coq::n(k), boxq(e))
                        }
                        None => {
                            *ok = false;
                            format!("({}, {})", coq::n(input.len() + 7), boxq(e))
                        }
                    }
                })
                .collect();
            format!("(Leaf {} [{}])", boxq(aabb), items.join("; "))
        }
        BVHNode::Node { aabb, left, right } => match (left, right) {
            (Some(l), Some(r)) => format!("(Node {} {} {})", boxq(aabb), dump(l, input, used, ok), dump(r, input, used, ok)),
            _ => {
                *ok = false;
                format!("(Leaf {} [])", boxq(aabb))
            }
        },
    }
}

fn rand_box(r: &mut Rng, c: [f32; 3], spread: f32, size: f32, flat: bool) -> AABB {
    let cx = c[0] + r.grid(-(spread as f64), spread as f64, 0.01);
    let cy = c[1] + r.grid(-(spread as f64), spread as f64, 0.01);
    let cz = c[2] + r.grid(-(spread as f64), spread as f64, 0.01);
    let mut h = [r.grid(0.05, size as f64, 0.01), r.grid(0.05, size as f64, 0.01), r.grid(0.05, size as f64, 0.01)];
    if flat {
        h[r.below(3)] = 0.0;
    }
    AABB::new(point![cx - h[0], cy - h[1], cz - h[2]], point![cx + h[0], cy + h[1], cz + h[2]])
}

fn gen_boxes(r: &mut Rng, n: usize, pattern: usize) -> Vec<AABB> {
    let mut v = vec![];
    match pattern {
        0 => (0..n).for_each(|_| v.push(rand_box(r, [0.0, 0.0, 0.0], 20.0, 2.0, false))),
        1 => {
            // clusters
            let centres: Vec<[f32; 3]> = (0..3).map(|_| [r.grid(-20.0, 20.0, 1.0), r.grid(-20.0, 20.0, 1.0), r.grid(0.0, 10.0, 1.0)]).collect();
            (0..n).for_each(|_| {
                let c = *r.pick(&centres);
                v.push(rand_box(r, c, 1.0, 1.0, false))
            })
        }
        2 => {
            // concentric: equal centres, different sizes
            (0..n).for_each(|k| {
                let h = 0.25 * (1 + k % 17) as f32;
                v.push(AABB::new(point![1.0 - h, 2.0 - h, 3.0 - h], point![1.0 + h, 2.0 + h, 3.0 + h]))
            })
        }
        3 => {
            // duplicated elements
            let a = rand_box(r, [0.0, 0.0, 0.0], 5.0, 2.0, false);
            (0..n).for_each(|k| v.push(if k % 3 == 0 { rand_box(r, [0.0, 0.0, 0.0], 10.0, 2.0, false) } else { a }))
        }
        4 => (0..n).for_each(|_| v.push(rand_box(r, [0.0, 0.0, 0.0], 15.0, 3.0, true))),
        6 => {
            // skewed: centres at doubling distances along one axis (a deep, one-sided tree)
            let ax = r.below(3);
            (0..n).for_each(|k| {
                let d = 0.001 * (2.0f32).powi((k % 40) as i32) + 0.01 * (k / 40) as f32;
                let mut c = [0.3f32, 0.7, 1.1];
                c[ax] = d;
                v.push(AABB::new(point![c[0] - 0.0004, c[1] - 0.2, c[2] - 0.2], point![c[0] + 0.0004, c[1] + 0.2, c[2] + 0.2]))
            })
        }
        7 => {
            // equal slats stacked along a short axis: every centroid coincides on the longest axis of the set, at a
            // value that is not a dyadic number (the running mean of equal f32 values need not be that value)
            let x0 = *r.pick(&[2.0f32, 2.1, 0.3, 7.7, 1.0e-3, 123.456]);
            let len = *r.pick(&[6.1f32, 0.7, 3.3, 10.1]);
            (0..n).for_each(|k| {
                let z = 0.05 * k as f32;
                v.push(AABB::new(point![x0, 1.0, z], point![x0 + len, 1.2, z + 0.01]))
            })
        }
        _ => {
            // identical boxes plus one a hair away
            let a = AABB::new(point![0.0, 0.0, 0.0], point![1.0, 1.0, 1.0]);
            (0..n).for_each(|_| v.push(a));
            if let Some(l) = v.last_mut() {
                *l = AABB::new(point![f32::from_bits(1), 0.0, 0.0], point![1.0 + f32::EPSILON, 1.0, 1.0]);
            }
        }
    }
    v
}

fn gen_ray(r: &mut Rng, boxes: &[AABB]) -> Ray {
    let origin = point![r.grid(-40.0, 40.0, 0.5) + 0.013, r.grid(-40.0, 40.0, 0.5) + 0.017, r.grid(-10.0, 30.0, 0.5) + 0.019];
    match r.below(5) {
        0 | 1 if !boxes.is_empty() => {
            let b = r.pick(boxes);
            let u = |lo: f32, hi: f32, r: &mut Rng| lo + (hi - lo) * (0.1 + 0.8 * r.unit() as f32);
            let target = point![u(b.min.x, b.max.x, r), u(b.min.y, b.max.y, r), u(b.min.z, b.max.z, r)];
            let d = target - origin;
            Ray::new(origin, if r.chance(1, 6) { -d } else { d })
        }
        2 => {
            let mut d = vector![0.0, 0.0, 0.0];
            d[r.below(3)] = if r.chance(1, 2) { 1.0 } else { -1.0 };
            Ray::new(origin, d)
        }
        _ => Ray::new(origin, vector![r.f(-1.0, 1.0), r.f(-1.0, 1.0), r.f(-1.0, 1.0) + 1e-3]),
    }
}

fn bvh_case(r: &mut Rng, n: usize, pattern: usize, nrays: usize, out: &str, findings: &mut Vec<serde_json::Value>) -> Option<Case> {
    let boxes = gen_boxes(r, n, pattern);
    let input = boxes.clone();
    let desc = json!({"kind": "bvh", "n": n, "pattern": pattern, "boxes": boxes.iter().map(|b| [b.min.x, b.min.y, b.min.z, b.max.x, b.max.y, b.max.z]).collect::<Vec<_>>() });
    // the leaf capacity the library uses (30) and smaller ones (deeper trees over the same obstacles)
    let leaf = *r.pick(&[30usize, 30, 30, 1, 2, 4, 8]);
    let desc = json!({"kind": "bvh", "n": n, "pattern": pattern, "leaf_capacity": leaf, "boxes": desc["boxes"].clone()});
    let built = with_timeout(10, move || crate::guarded(std::panic::AssertUnwindSafe(|| BVH::build(input, leaf))));
    let bvh = match built {
        None => hang(out, "BVH::build did not return within 10 s", desc),
        Some(Err(e)) => {
            findings.push(json!({"what": "BVH::build panicked", "site": e, "input": desc, "classes": ["bvh_build_panic"]}));
            return None;
        }
        Some(Ok(b)) => b,
    };
    let rays: Vec<Ray> = (0..nrays).map(|_| gen_ray(r, &boxes)).collect();
    let answers: Vec<(bool, bool)> = rays.iter().map(|ray| (bvh.intersects(ray).is_some(), boxes.iter().any(|b| b.intersects(ray).is_some()))).collect();
    if n == 0 {
        if answers.iter().any(|a| a.0) {
            findings.push(json!({"what": "a BVH over no obstacle reports a blocked ray", "input": desc, "classes": ["bvh_empty_blocks"]}));
        }
        return None;
    }
    let mut used = vec![false; boxes.len()];
    let mut ok = true;
    let tree = match &bvh.root {
        Some(root) => format!("(Some {})", dump(root, &boxes, &mut used, &mut ok)),
        None => "None".to_string(),
    };
    let term = format!(
        "(C13Bvh (mkBvhCase {}\n {}\n {}))",
        coq::list(&boxes, boxq),
        tree,
        coq::list(&rays.iter().zip(&answers).collect::<Vec<_>>(), |(ray, a)| format!("({}, {}, {})", rayq(ray), coq::b(a.0), coq::b(a.1)))
    );
    let blocked = answers.iter().filter(|a| a.1).count();
    Some(Case { post: String::new(), term, json: json!({"input": desc, "blocked_rays": blocked, "rays": nrays, "tree_elements_matched": ok}), nontrivial: blocked > 0 && blocked < nrays })
}

/// rational points of the unit circle (cos, sin) with the angle in degrees
fn unit_pairs() -> Vec<(i64, i64, i64, f64)> {
    let mut v = vec![(1, 0, 1, 0.0), (0, 1, 1, 90.0), (-1, 0, 1, 180.0), (0, -1, 1, 270.0)];
    for (p, q) in [(1i64, 2i64), (1, 3), (2, 3), (1, 4), (3, 4), (1, 5), (2, 5), (3, 5), (4, 5), (1, 7), (3, 7), (5, 7), (2, 9), (7, 9)] {
        let d = q * q + p * p;
        let (c, s) = (q * q - p * p, 2 * p * q);
        for (cc, ss) in [(c, s), (-c, s), (c, -s), (-c, -s), (s, c), (-s, c)] {
            v.push((cc, ss, d, (ss as f64).atan2(cc as f64).to_degrees()));
        }
    }
    v
}

struct PoseQ {
    term: String,
    tilt: f32,
    azimuth: f32,
    pos: Point3,
}
fn gen_pose(r: &mut Rng, pairs: &[(i64, i64, i64, f64)]) -> PoseQ {
    let a = if r.chance(1, 3) { pairs[r.below(4)] } else { *r.pick(pairs) };
    let t = if r.chance(1, 3) { pairs[r.below(4)] } else { *r.pick(pairs) };
    let pos = point![r.grid(-20.0, 20.0, 0.25), r.grid(-20.0, 20.0, 0.25), r.grid(0.0, 12.0, 0.25)];
    PoseQ {
        term: format!("(mkPose {} {} {} {} {})", v3(pos.x, pos.y, pos.z), frac(a.0, a.2), frac(a.1, a.2), frac(t.0, t.2), frac(t.1, t.2)),
        tilt: t.3 as f32,
        azimuth: a.3 as f32,
        pos,
    }
}

fn poly_case(r: &mut Rng, pairs: &[(i64, i64, i64, f64)], nrays: usize) -> Case {
    let pose = gen_pose(r, pairs);
    let n = r.range(3, 12) as usize;
    // star-shaped simple polygon (possibly non-convex), counter-clockwise or clockwise
    let mut angs: Vec<f64> = (0..n).map(|k| (k as f64 + 0.15 + 0.7 * r.unit()) * std::f64::consts::TAU / n as f64).collect();
    if r.chance(1, 3) {
        angs.reverse();
    }
    let off = (r.grid(-2.0, 2.0, 0.25), r.grid(-2.0, 2.0, 0.25));
    let polygon: Polygon = angs
        .iter()
        .map(|a| {
            let rad = r.grid(0.6, 3.0, 0.05) as f64;
            point![((rad * a.cos()) as f32 * 1000.0).round() / 1000.0 + off.0, ((rad * a.sin()) as f32 * 1000.0).round() / 1000.0 + off.1]
        })
        .collect();
    let geom = WallGeom { tilt: pose.tilt, azimuth: pose.azimuth, position: Some(pose.pos), polygon: polygon.clone() };
    let aabb = geom.aabb();
    let to_global = geom.to_global_coords_matrix().unwrap();
    let mut rays = vec![];
    for _ in 0..nrays {
        let target = to_global * point![off.0 + r.f(-3.5, 3.5), off.1 + r.f(-3.5, 3.5), 0.0];
        let origin = match r.below(6) {
            0 => to_global * point![r.f(-5.0, 5.0), r.f(-5.0, 5.0), r.f(-0.001, 0.001)],
            _ => point![pose.pos.x + r.f(-15.0, 15.0), pose.pos.y + r.f(-15.0, 15.0), pose.pos.z + r.f(-15.0, 15.0)],
        };
        let d = target - origin;
        let ray = Ray::new(origin, if r.chance(1, 7) { -d } else { d });
        let ans = crate::guarded(std::panic::AssertUnwindSafe(|| geom.intersects(&ray).is_some())).unwrap_or(false);
        rays.push((ray, ans));
    }
    let hits = rays.iter().filter(|x| x.1).count();
    let term = format!(
        "(C13Poly (mkPolyCase {} {} {}\n {}))",
        pose.term,
        coq::list(&polygon, |p| format!("({}, {})", coq::q(p.x), coq::q(p.y))),
        boxq(&aabb),
        coq::list(&rays, |(ray, a)| format!("({}, {})", rayq(ray), coq::b(*a)))
    );
    Case {
        post: String::new(),
        term,
        json: json!({"kind": "polygon", "tilt": pose.tilt, "azimuth": pose.azimuth, "position": [pose.pos.x, pose.pos.y, pose.pos.z],
                     "polygon": polygon.iter().map(|p| [p.x, p.y]).collect::<Vec<_>>(), "hits": hits, "rays": nrays}),
        nontrivial: hits > 0 && hits < nrays,
    }
}

fn reveal_case(r: &mut Rng, pairs: &[(i64, i64, i64, f64)], findings: &mut Vec<serde_json::Value>) -> Option<Case> {
    let pose = gen_pose(r, pairs);
    let mut m = Model::default();
    let sp = Space::default();
    let wall = Wall {
        space: sp.id,
        geometry: WallGeom { tilt: pose.tilt, azimuth: pose.azimuth, position: Some(pose.pos), polygon: vec![point![0.0, 0.0], point![6.0, 0.0], point![6.0, 3.0], point![0.0, 3.0]] },
        ..Default::default()
    };
    let (x, y) = (r.grid(0.0, 3.0, 0.05), r.grid(0.0, 1.5, 0.05));
    let (w, h) = (r.grid(0.3, 2.5, 0.05), r.grid(0.3, 1.4, 0.05));
    let s = r.grid(0.05, 1.0, 0.05);
    let win = Window { wall: wall.id, geometry: WinGeom { position: Some(point![x, y]), width: w, height: h, setback: s }, ..Default::default() };
    let wid = win.id;
    m.spaces.push(sp);
    m.walls.push(wall);
    m.windows.push(win);
    let occ = match crate::guarded(std::panic::AssertUnwindSafe(|| m.collect_occluders())) {
        Ok(o) => o,
        Err(e) => {
            findings.push(json!({"what": "collect_occluders panicked", "site": e, "classes": ["reveal_panic"]}));
            return None;
        }
    };
    let quads: Vec<Vec<Point3>> = occ
        .iter()
        .filter(|o| o.linked_to_id == Some(wid))
        .filter_map(|o| o.trans_matrix.map(|t| o.polygon.iter().map(|p| t.inverse() * point![p.x, p.y, 0.0]).collect()))
        .collect();
    let term = format!(
        "(C13Reveal (mkRevealCase {} {} {} {} {} {}\n {}))",
        pose.term, coq::q(x), coq::q(y), coq::q(w), coq::q(h), coq::q(s),
        coq::list(&quads, |q| coq::list(q, |p| v3(p.x, p.y, p.z)))
    );
    let vertical = (pose.tilt - 90.0).abs() < 1e-3;
    Some(Case {
        post: String::new(),
        term,
        json: json!({"kind": "reveal", "tilt": pose.tilt, "azimuth": pose.azimuth, "window": [x, y, w, h, s], "reveals": quads.len(),
                     "corners": quads.iter().map(|q| q.iter().map(|p| [p.x, p.y, p.z]).collect::<Vec<_>>()).collect::<Vec<_>>(),
                     "classes": if vertical { vec![] } else { vec!["reveal_fin_on_non_vertical_wall"] }}),
        nontrivial: !vertical,
    })
}

pub fn run(a: &Args) -> Batch {
    let mut r = Rng::new(a.seed ^ 0x13);
    let mut cases = vec![];
    let mut findings = vec![];
    let mut stats = std::collections::BTreeMap::<String, usize>::new();
    let pairs = unit_pairs();
    let nrays = if a.thorough { 60 } else { 40 };
    let sizes = [0usize, 1, 2, 3, 7, 29, 30, 31, 32, 45, 60, 61, 62, 100, 150, 200];
    let nb = a.n / 3;
    for i in 0..nb {
        let mut rr = r.fork(i as u64);
        let n = if i < sizes.len() * 2 { sizes[i % sizes.len()] } else { rr.range(0, 200) as usize };
        let pattern = if i < 8 { i } else { rr.below(8) };
        *stats.entry(format!("bvh_pattern_{}", pattern)).or_default() += 1;
        if let Some(c) = bvh_case(&mut rr, n, pattern, nrays, &a.out, &mut findings) {
            cases.push(c);
        }
    }
    // the patterns that used to defeat the builder, at the sizes around the leaf capacity
    for (k, (n, pattern)) in [(31usize, 5usize), (31, 2), (31, 3), (64, 5), (200, 2), (1, 0), (30, 0), (0, 0), (100, 6), (200, 6), (36, 7), (64, 7), (120, 7)].iter().enumerate() {
        let mut rr = r.fork(9000 + k as u64);
        if let Some(c) = bvh_case(&mut rr, *n, *pattern, nrays, &a.out, &mut findings) {
            cases.push(c);
        }
    }
    for i in 0..a.n / 3 {
        let mut rr = r.fork(20000 + i as u64);
        cases.push(poly_case(&mut rr, &pairs, nrays));
        *stats.entry("polygons".into()).or_default() += 1;
    }
    for i in 0..a.n / 3 {
        let mut rr = r.fork(40000 + i as u64);
        if let Some(c) = reveal_case(&mut rr, &pairs, &mut findings) {
            cases.push(c);
            *stats.entry("reveals".into()).or_default() += 1;
        }
    }
    Batch {
        imports: "From Coq Require Import ZArith NArith QArith List.\nFrom CTE Require Import Base.Num Model.Aabb Model.Poly Model.Bvh Model.Raycast.".into(),
        case_ty: "c13_case".into(),
        agree: "agree_C13".into(),
        cases,
        impl_findings: findings,
        rule: "obstacle sets of 0..200 boxes (random, clustered, concentric with equal centres, duplicated, flat, identical-plus-one-ulp, centres at doubling distances, equal slats whose centroids coincide on the longest axis at a non-dyadic value) built with BVH::build (leaf capacity 30 as in the library, or 1 / 2 / 4 / 8 for deeper trees) under a 10 s watchdog, tree dumped and validated in Coq, rays aimed at boxes / random / axis-parallel; star-shaped simple polygons with 3..12 corners in rational poses (incl. quarter turns) against rays, exact geometry deciding outside the stated margins; reveal surfaces of set-back windows on walls of any pose; non-trivial = some rays hit and some miss (a non-vertical wall for reveals); distinct by content hash".into(),
        stats: json!(stats),
    }
}
