//! C18, second part: the typed elements built from the blocks (hulc::bdl::Data::new), the
//! KyGananciasSolares.txt parser and the NewBDL_O.tbl parser, against printers of abstract
//! descriptions. These are differential tests in Rust (no theorem): what is written must come back.
use crate::p18::gen_num;
use crate::rng::Rng;
use hulc::bdl::Data;
use serde_json::{json, Value};

fn f(tok: &str) -> f32 {
    tok.parse::<f32>().unwrap_or(f32::NAN)
}
fn pos_num(r: &mut Rng) -> String {
    // positive numbers in the formats HULC and hand-edited files use
    const N: &[&str] = &["0.075", "1", "12.5", "1000", "1.2E+01", "4.0E-02", "1E3", "2.5e-3", ".5", "5.", "+4", "0.1", "3", "0.02", "1.00000001"];
    if r.chance(1, 3) {
        format!("{}", r.f(0.01, 500.0))
    } else {
        r.pick(N).to_string()
    }
}
fn same(a: f32, b: f32) -> bool {
    a.to_bits() == b.to_bits() || (a.is_nan() && b.is_nan())
}
fn pad(r: &mut Rng) -> String {
    const I: &[&str] = &[" ", "  ", "      ", "\t", "          "];
    r.pick(I).to_string()
}

/// MATERIAL, GLASS-TYPE, NAME-FRAME, BUILDING-SHADE and WINDOW blocks with random values and optional attributes
pub fn typed_elements(r: &mut Rng, n: usize, findings: &mut Vec<Value>, texts: &mut Vec<String>) -> Value {
    let mut checked = 0usize;
    let mut fields = 0usize;
    for doc in 0..n {
        let mut text = String::new();
        let mut expect: Vec<(String, Vec<(&'static str, Option<f32>)>, Option<String>)> = vec![];
        let nb = 1 + r.below(8);
        for b in 0..nb {
            let name = format!("E{}_{}", doc, b);
            let mut lines: Vec<String> = vec![];
            let mut exp: Vec<(&'static str, Option<f32>)> = vec![];
            let mut group = None;
            let kind = r.below(6);
            let mut attr = |lines: &mut Vec<String>, r: &mut Rng, k: &str, v: &str| lines.push(format!("{}{}{}={}{}", pad(r), k, pad(r), pad(r), v));
            match kind {
                0 => {
                    attr(&mut lines, r, "TYPE", "PROPERTIES");
                    let (c, d) = (pos_num(r), pos_num(r));
                    attr(&mut lines, r, "CONDUCTIVITY", &c);
                    attr(&mut lines, r, "DENSITY", &d);
                    exp.push(("conductivity", Some(f(&c))));
                    exp.push(("density", Some(f(&d))));
                    if r.chance(2, 3) {
                        let t = pos_num(r);
                        attr(&mut lines, r, "THICKNESS", &t);
                        exp.push(("thickness", Some(f(&t))));
                    } else {
                        exp.push(("thickness", None));
                    }
                    if r.chance(2, 3) {
                        let t = pos_num(r);
                        attr(&mut lines, r, "SPECIFIC-HEAT", &t);
                        exp.push(("specificheat", Some(f(&t))));
                    } else {
                        // documented legacy default
                        exp.push(("specificheat", Some(800.0)));
                    }
                    if r.chance(1, 2) {
                        let t = pos_num(r);
                        attr(&mut lines, r, "VAPOUR-DIFFUSIVITY-FACTOR", &t);
                        exp.push(("vapourdiffusivity", Some(f(&t))));
                    } else {
                        exp.push(("vapourdiffusivity", None));
                    }
                    if r.chance(1, 2) {
                        attr(&mut lines, r, "GROUP", "\"Grupo uno\"");
                        group = Some("Grupo uno".to_string());
                    } else {
                        group = Some("Materiales".to_string());
                    }
                    text.push_str(&format!("\"{}\" = MATERIAL\n", name));
                }
                1 => {
                    attr(&mut lines, r, "TYPE", "SHADING-COEF");
                    let (c, s) = (pos_num(r), pos_num(r));
                    attr(&mut lines, r, "GLASS-CONDUCTANCE", &c);
                    attr(&mut lines, r, "SHADING-COEF", &s);
                    exp.push(("conductivity", Some(f(&c))));
                    exp.push(("g_gln", Some(f(&s) * 0.86)));
                    if r.chance(1, 2) {
                        attr(&mut lines, r, "GROUP", "\"Vidrios dobles\"");
                        group = Some("Vidrios dobles".to_string());
                    } else {
                        group = Some("Vidrios".to_string());
                    }
                    text.push_str(&format!("\"{}\" = GLASS-TYPE\n", name));
                }
                2 => {
                    let (c, a, w) = (pos_num(r), pos_num(r), pos_num(r));
                    attr(&mut lines, r, "GROUP", "\"Marcos\"");
                    attr(&mut lines, r, "FRAME-CONDUCT", &c);
                    attr(&mut lines, r, "FRAME-ABS", &a);
                    attr(&mut lines, r, "FRAME-WIDTH", &w);
                    exp.push(("conductivity", Some(f(&c))));
                    exp.push(("absorptivity", Some(f(&a))));
                    exp.push(("width", Some(f(&w))));
                    group = Some("Marcos".to_string());
                    text.push_str(&format!("\"{}\" = NAME-FRAME\n", name));
                }
                3 => {
                    let v: Vec<String> = (0..9).map(|_| gen_num(r)).collect();
                    for (k, t) in ["TRAN", "REFL", "X", "Y", "Z", "HEIGHT", "WIDTH", "AZIMUTH", "TILT"].iter().zip(&v) {
                        attr(&mut lines, r, k, t);
                    }
                    for (k, t) in ["tran", "refl", "x", "y", "z", "height", "width", "azimuth", "tilt"].iter().zip(&v) {
                        exp.push((k, Some(f(t))));
                    }
                    text.push_str(&format!("\"{}\" = BUILDING-SHADE\n", name));
                }
                4 => {
                    // a shade given by 3..14 vertices: they must come back in the order of their numbers
                    let n = 3 + r.below(12);
                    let (tr, rf) = (gen_num(r), gen_num(r));
                    attr(&mut lines, r, "TRAN", &tr);
                    attr(&mut lines, r, "REFL", &rf);
                    exp.push(("tran", Some(f(&tr))));
                    exp.push(("refl", Some(f(&rf))));
                    const VK: [&str; 42] = ["v1x", "v1y", "v1z", "v2x", "v2y", "v2z", "v3x", "v3y", "v3z", "v4x", "v4y", "v4z", "v5x", "v5y", "v5z", "v6x", "v6y", "v6z", "v7x", "v7y", "v7z", "v8x", "v8y", "v8z",
                        "v9x", "v9y", "v9z", "v10x", "v10y", "v10z", "v11x", "v11y", "v11z", "v12x", "v12y", "v12z", "v13x", "v13y", "v13z", "v14x", "v14y", "v14z"];
                    for i in 0..n {
                        let c: Vec<String> = (0..3).map(|_| format!("{}", r.grid(-50.0, 50.0, 0.25))).collect();
                        attr(&mut lines, r, &format!("V{}", i + 1), &format!("( {}, {}, {} )", c[0], c[1], c[2]));
                        for (j, t) in c.iter().enumerate() {
                            exp.push((VK[i * 3 + j], Some(f(t))));
                        }
                    }
                    exp.push(("nvertices", Some(n as f32)));
                    text.push_str(&format!("\"{}\" = BUILDING-SHADE\n", name));
                }
                _ => {
                    let v: Vec<String> = (0..5).map(|_| gen_num(r)).collect();
                    attr(&mut lines, r, "GAP", "\"Hueco tipo\"");
                    for (k, t) in ["X", "Y", "HEIGHT", "WIDTH", "SETBACK"].iter().zip(&v) {
                        attr(&mut lines, r, k, t);
                    }
                    for (k, t) in ["x", "y", "height", "width", "setback"].iter().zip(&v) {
                        exp.push((k, Some(f(t))));
                    }
                    group = Some("Hueco tipo".to_string());
                    text.push_str(&format!("\"{}\" = WINDOW\n", name));
                }
            }
            r.shuffle(&mut lines);
            // TYPE decides how a MATERIAL / GLASS-TYPE is read: any position is fine, the map is keyed
            for l in &lines {
                text.push_str(l);
                text.push('\n');
            }
            text.push_str("  ..\n");
            expect.push((name, exp, group));
        }
        texts.push(text.clone());
        let t2 = text.clone();
        let data = match crate::guarded(std::panic::AssertUnwindSafe(move || Data::new(&t2).map_err(|e| e.to_string()))) {
            Ok(Ok(d)) => d,
            Ok(Err(e)) => {
                // non-finite tokens (inf / nan) are numbers for the block parser; typed readers take them as numbers too
                findings.push(json!({"kind": "typed_document_rejected", "error": e.chars().take(200).collect::<String>(), "text": text.chars().take(2000).collect::<String>(), "classes": ["typed_document_rejected"]}));
                continue;
            }
            Err(p) => {
                findings.push(json!({"kind": "typed_document_crashed", "site": p, "text": text.chars().take(2000).collect::<String>(), "classes": ["typed_document_crashed"]}));
                continue;
            }
        };
        checked += 1;
        for (name, exp, group) in &expect {
            let got: Option<(Vec<(&'static str, Option<f32>)>, Option<String>)> = if let Some(m) = data.db.materials.get(name) {
                m.properties.as_ref().map(|p| {
                    (vec![("conductivity", Some(p.conductivity)), ("density", Some(p.density)), ("thickness", p.thickness), ("specificheat", Some(p.specificheat)), ("vapourdiffusivity", p.vapourdiffusivity)], Some(m.group.clone()))
                })
            } else if let Some(g) = data.db.glasses.get(name) {
                Some((vec![("conductivity", Some(g.conductivity)), ("g_gln", Some(g.g_gln))], Some(g.group.clone())))
            } else if let Some(fr) = data.db.frames.get(name) {
                Some((vec![("conductivity", Some(fr.conductivity)), ("absorptivity", Some(fr.absorptivity)), ("width", Some(fr.width))], Some(fr.group.clone())))
            } else if let Some(s) = data.shadings.iter().find(|s| &s.name == name) {
                if let Some(vs) = &s.vertices {
                    const VK: [&str; 42] = ["v1x", "v1y", "v1z", "v2x", "v2y", "v2z", "v3x", "v3y", "v3z", "v4x", "v4y", "v4z", "v5x", "v5y", "v5z", "v6x", "v6y", "v6z", "v7x", "v7y", "v7z", "v8x", "v8y", "v8z",
                        "v9x", "v9y", "v9z", "v10x", "v10y", "v10z", "v11x", "v11y", "v11z", "v12x", "v12y", "v12z", "v13x", "v13y", "v13z", "v14x", "v14y", "v14z"];
                    let mut v: Vec<(&'static str, Option<f32>)> = vec![("tran", Some(s.tran)), ("refl", Some(s.refl)), ("nvertices", Some(vs.len() as f32))];
                    for (i, p) in vs.iter().enumerate().take(14) {
                        v.push((VK[i * 3], Some(p.x)));
                        v.push((VK[i * 3 + 1], Some(p.y)));
                        v.push((VK[i * 3 + 2], Some(p.z)));
                    }
                    Some((v, None))
                } else {
                    s.geometry.as_ref().map(|g| {
                        (vec![("tran", Some(s.tran)), ("refl", Some(s.refl)), ("x", Some(g.x)), ("y", Some(g.y)), ("z", Some(g.z)), ("height", Some(g.height)), ("width", Some(g.width)), ("azimuth", Some(g.azimuth)), ("tilt", Some(g.tilt))], None)
                    })
                }
            } else if let Some(w) = data.windows.iter().find(|w| &w.name == name) {
                Some((vec![("x", Some(w.x)), ("y", Some(w.y)), ("height", Some(w.height)), ("width", Some(w.width)), ("setback", Some(w.setback))], Some(w.cons.clone())))
            } else {
                None
            };
            match got {
                None => findings.push(json!({"kind": "typed_value_not_recovered", "element": name, "detail": "element missing from the parsed data", "text": text.chars().take(2000).collect::<String>(), "classes": ["typed_value_not_recovered"]})),
                Some((vals, grp)) => {
                    for (k, e) in exp {
                        fields += 1;
                        let g = vals.iter().find(|(kk, _)| kk == k).map(|x| x.1);
                        let ok = match (e, g) {
                            (Some(a), Some(Some(b))) => same(*a, b),
                            (None, Some(None)) => true,
                            _ => false,
                        };
                        if !ok {
                            findings.push(json!({"kind": "typed_value_not_recovered", "element": name, "field": k, "written": format!("{:?}", e), "parsed": format!("{:?}", g), "text": text.chars().take(2000).collect::<String>(), "classes": ["typed_value_not_recovered"]}));
                        }
                    }
                    if let (Some(a), Some(b)) = (group, grp) {
                        fields += 1;
                        if *a != b {
                            findings.push(json!({"kind": "typed_value_not_recovered", "element": name, "field": "group / gap", "written": a, "parsed": b, "classes": ["typed_value_not_recovered"]}));
                        }
                    }
                }
            }
        }
    }
    json!({"typed_documents": n, "typed_documents_parsed": checked, "typed_fields_compared": fields})
}

fn dec(r: &mut Rng, comma: bool, lo: f64, hi: f64, decimals: usize) -> (String, f32) {
    let x = r.f(lo, hi);
    let s = format!("{:.*}", decimals, x);
    let v = s.parse::<f32>().unwrap();
    (if comma { s.replace('.', ",") } else { s }, v)
}

/// KyGananciasSolares.txt in the old and new column layouts, with either decimal separator
pub fn kyg_files(r: &mut Rng, n: usize, findings: &mut Vec<Value>, texts: &mut Vec<String>) -> Value {
    let mut fields = 0usize;
    for doc in 0..n {
        let new_layout = r.chance(1, 2);
        let comma = r.chance(1, 2);
        let crlf = r.chance(1, 3);
        let mut lines = vec!["###;Datos para Factor de Pérdidas".to_string()];
        let mut walls = vec![];
        let mut wins = vec![];
        let mut tbs = vec![];
        for i in 0..(1 + r.below(8)) {
            let name = format!("P0{}_E01_PE{:03}", 1 + i % 4, i);
            let (a, av) = dec(r, comma, 1.0, 80.0, 2);
            let (u, uv) = dec(r, comma, 0.1, 4.0, 2);
            let (b, bv) = dec(r, comma, 0.0, 1.0, 2);
            if new_layout {
                lines.push(format!("Muro;{};{};{};{};Fachada;E ;SATE", name, a, u, b));
            } else {
                lines.push(format!("Muro;{};{};{};{}", name, a, u, b));
            }
            walls.push((name.clone(), av, uv, bv));
            if r.chance(1, 2) {
                let wn = format!("{}_V", name);
                let (a, av) = dec(r, comma, 0.5, 10.0, 2);
                let (u, uv) = dec(r, comma, 0.8, 5.0, 2);
                let (ff, ffv) = dec(r, comma, 0.0, 100.0, 2);
                let ori = *r.pick(&["N ", "S ", "E ", "O ", "SO", "NE"]);
                if new_layout {
                    let (g, gv) = dec(r, comma, 0.1, 0.9, 2);
                    let (c, cv) = dec(r, comma, 3.0, 100.0, 2);
                    lines.push(format!("Ventana;{};{};{};{};{};{};-1.00;1.00;{};PVC 2", wn, a, u, ori, ff, g, c));
                    wins.push((wn.clone(), av, uv, ffv / 100.0, ori.trim().replace('O', "W"), Some(gv), Some(cv)));
                } else {
                    lines.push(format!("Ventana;{};{};{};{};{}", wn, a, u, ori, ff));
                    wins.push((wn.clone(), av, uv, ffv / 100.0, ori.trim().replace('O', "W"), None, None));
                }
            }
        }
        for (i, kind) in ["FRENTE_FORJADO", "UNION_CUBIERTA", "HUECO_VENTANA"].iter().enumerate() {
            if r.chance(2, 3) {
                let (l, lv) = dec(r, comma, 0.0, 90.0, 2);
                let (p, pv) = dec(r, comma, 0.0, 1.0, 3);
                if new_layout && i % 2 == 0 {
                    lines.push(format!("PPTT;{};{};{};SDINT", l, p, kind));
                    tbs.push((kind.to_string(), lv, pv, "SDINT".to_string()));
                } else {
                    lines.push(format!("PPTT;{};{};{}", l, p, kind));
                    tbs.push((kind.to_string(), lv, pv, String::new()));
                }
            }
        }
        let (k, kv) = dec(r, comma, 0.2, 2.0, 3);
        lines.push(format!("Coeficiente K = ;{}", k));
        lines.push(String::new());
        lines.push("# factores".to_string());
        let mut hf = vec![];
        for i in 0..9 {
            let (h, hv) = dec(r, false, 0.0, 200.0, 6);
            lines.push(format!("{} ; {}", i, h));
            hf.push(hv);
        }
        // solar gains per window: azimuth, area, htot, h1, h2, h3, gain (always with a decimal point)
        let mut gains = vec![];
        for w in &wins {
            let (az, azv) = dec(r, false, 0.0, 359.0, 6);
            let (ht, htv) = dec(r, false, 1000.0, 200000.0, 6);
            let (h3, h3v) = dec(r, false, 100.0, 1000.0, 6);
            lines.push(format!("\"{}\"; {}; 2.000000; {}; {}; {}; {}; 1.0", w.0, az, ht, ht, ht, h3));
            gains.push((w.0.clone(), azv, h3v / htv));
        }
        let eol = if crlf { "\r\n" } else { "\n" };
        let text = lines.join(eol) + eol;
        texts.push(text.clone());
        let t2 = text.clone();
        let parsed = match crate::guarded(std::panic::AssertUnwindSafe(move || hulc::kyg::parse(&t2).map_err(|e| e.to_string()))) {
            Ok(Ok(k)) => k,
            Ok(Err(e)) => {
                findings.push(json!({"kind": "kyg_rejected", "doc": doc, "error": e, "new_layout": new_layout, "comma": comma, "text": text.chars().take(1500).collect::<String>(), "classes": ["kyg_value_not_recovered"]}));
                continue;
            }
            Err(p) => {
                findings.push(json!({"kind": "kyg_crashed", "doc": doc, "site": p, "classes": ["kyg_value_not_recovered"]}));
                continue;
            }
        };
        let mut bad = vec![];
        for (n, a, u, b) in &walls {
            fields += 3;
            match parsed.walls.get(n) {
                Some(w) if same(w.a, *a) && same(w.u, *u) && same(w.btrx, *b) && w.wtype.is_some() == new_layout => {}
                other => bad.push(format!("wall {}: written ({}, {}, {}), parsed {:?}", n, a, u, b, other.map(|w| (w.a, w.u, w.btrx)))),
            }
        }
        for (n, a, u, ff, ori, g, c) in &wins {
            fields += 5;
            match parsed.windows.get(n) {
                Some(w) if same(w.a, *a) && same(w.u, *u) && same(w.ff, *ff) && &w.orientation == ori && match (g, w.ggln) {
                    (Some(x), Some(y)) => same(*x, y),
                    (None, None) => true,
                    _ => false,
                } && match (c, w.infcoeff_100) {
                    (Some(x), Some(y)) => same(*x, y),
                    (None, None) => true,
                    _ => false,
                } => {}
                other => bad.push(format!("window {}: written ({}, {}, {}, {}), parsed {:?}", n, a, u, ff, ori, other.map(|w| (w.a, w.u, w.ff, w.orientation.clone())))),
            }
        }
        for (n, az, fsh) in &gains {
            fields += 2;
            match parsed.windows.get(n) {
                Some(w) if same(w.azimuth_n, *az) && same(w.fshobst, *fsh) => {}
                other => bad.push(format!("solar gains of {}: written azimuth {} fshobst {}, parsed {:?}", n, az, fsh, other.map(|w| (w.azimuth_n, w.fshobst)))),
            }
        }
        for (n, l, p, sd) in &tbs {
            fields += 3;
            match parsed.thermal_bridges.get(n) {
                Some(t) if same(t.l, *l) && same(t.psi, *p) && &t.sisdim == sd => {}
                other => bad.push(format!("thermal bridge {}: written ({}, {}, '{}'), parsed {:?}", n, l, p, sd, other.map(|t| (t.l, t.psi, t.sisdim.clone())))),
            }
        }
        fields += 1 + hf.len();
        if !same(parsed.k, kv) {
            bad.push(format!("K written {} parsed {}", kv, parsed.k));
        }
        if parsed.hfactors.len() != hf.len() || parsed.hfactors.iter().zip(&hf).any(|(a, b)| !same(*a, *b)) {
            bad.push(format!("insolation factors written {:?} parsed {:?}", hf, parsed.hfactors));
        }
        for b in bad.into_iter().take(3) {
            findings.push(json!({"kind": "kyg_value_not_recovered", "doc": doc, "detail": b, "new_layout": new_layout, "comma": comma, "crlf": crlf, "classes": ["kyg_value_not_recovered"]}));
        }
    }
    json!({"kyg_files": n, "kyg_fields_compared": fields})
}

/// NewBDL_O.tbl: header, counts, (name, values) pairs for elements and spaces
pub fn tbl_files(r: &mut Rng, n: usize, out_dir: &str, findings: &mut Vec<Value>, texts: &mut Vec<String>) -> Value {
    let mut fields = 0usize;
    let path = format!("{}/c18-scratch.tbl", out_dir);
    for doc in 0..n {
        let ne = 1 + r.below(10);
        let ns = 1 + r.below(4);
        let crlf = r.chance(1, 3);
        let mut lines = vec!["Nombre".to_string(), " A U p f fv angNorte tilt tipo codigo0 codigo1".to_string(), format!("{} {}", ne, ns)];
        let mut elems = vec![];
        for i in 0..ne {
            let name = format!("P01_E{:02}_PE{:03}", 1 + i % 3, i);
            let vals: Vec<(String, f32)> = (0..7).map(|_| dec(r, false, 0.0, 300.0, 6)).collect();
            let ty = *r.pick(&["0", "1", "2", "-2", "-3", "-4", "-5"]);
            let (s1, s2) = (r.below(50) as i32, r.below(10) as i32 - 1);
            lines.push(format!("\"{}\"", name));
            lines.push(format!(" {} {} {} {}", vals.iter().map(|v| v.0.clone()).collect::<Vec<_>>().join(" "), ty, s1, s2));
            elems.push((name, vals.iter().map(|v| v.1).collect::<Vec<f32>>(), s1, s2));
        }
        let mut spaces = vec![];
        for i in 0..ns {
            let name = format!("P01_E{:02}", i + 1);
            let (a, av) = dec(r, false, 5.0, 400.0, 6);
            let (q, qv) = dec(r, false, 0.0, 10.0, 6);
            let mult = 1 + r.below(3) as i32;
            lines.push(format!("\"{}\"", name));
            lines.push(format!(" {} {} {} {}", i, mult, a, q));
            spaces.push((name, i as i32, mult, av, qv));
        }
        let eol = if crlf { "\r\n" } else { "\n" };
        let text = lines.join(eol) + eol;
        texts.push(text.clone());
        if std::fs::write(&path, text.as_bytes()).is_err() {
            continue;
        }
        let p2 = path.clone();
        let parsed = match crate::guarded(std::panic::AssertUnwindSafe(move || hulc::tbl::parse(&p2).map_err(|e| format!("{:#}", e)))) {
            Ok(Ok(t)) => t,
            Ok(Err(e)) => {
                findings.push(json!({"kind": "tbl_rejected", "doc": doc, "error": e, "crlf": crlf, "text": text.chars().take(800).collect::<String>(), "classes": ["tbl_value_not_recovered"]}));
                continue;
            }
            Err(p) => {
                findings.push(json!({"kind": "tbl_crashed", "doc": doc, "site": p, "classes": ["tbl_value_not_recovered"]}));
                continue;
            }
        };
        let mut bad = vec![];
        for (n, v, s1, s2) in &elems {
            fields += 9;
            match parsed.elements.get(n) {
                Some(e) if same(e.area, v[0]) && same(e.u, v[1]) && same(e.w_or_inf, v[2]) && same(e.g_winter, v[3]) && same(e.g_summer, v[4]) && same(e.ang_north, v[5]) && same(e.tilt, v[6]) && e.id_surf == *s1 && e.id_space == *s2 => {}
                other => bad.push(format!("element {}: written {:?} {} {}, parsed {:?}", n, v, s1, s2, other.map(|e| (e.area, e.u, e.w_or_inf, e.id_surf, e.id_space)))),
            }
        }
        for (n, id, mult, a, q) in &spaces {
            fields += 4;
            match parsed.spaces.get(n) {
                Some(s) if s.id_space == *id && s.mult == *mult && same(s.area, *a) && same(s.qint, *q) => {}
                other => bad.push(format!("space {}: written ({}, {}, {}, {}), parsed {:?}", n, id, mult, a, q, other.map(|s| (s.id_space, s.mult, s.area, s.qint)))),
            }
        }
        for b in bad.into_iter().take(3) {
            findings.push(json!({"kind": "tbl_value_not_recovered", "doc": doc, "detail": b, "crlf": crlf, "classes": ["tbl_value_not_recovered"]}));
        }
    }
    let _ = std::fs::remove_file(&path);
    json!({"tbl_files": n, "tbl_fields_compared": fields})
}

fn num(x: f32) -> String {
    if x.is_nan() {
        "INan".into()
    } else if x.is_infinite() {
        format!("(IInf {})", crate::coq::b(x < 0.0))
    } else {
        format!("(INum {})", crate::coq::q(x))
    }
}

/// a KyGananciasSolares.txt text with what hulc::kyg::parse makes of it, as a Coq case
pub fn kyg_case(text: &str) -> (String, usize) {
    use crate::p18::{clines, cstr};
    let t = text.to_string();
    let (it, cls) = match crate::guarded(std::panic::AssertUnwindSafe(move || hulc::kyg::parse(&t).map_err(|e| e.to_string()))) {
        Ok(Ok(k)) => {
            let walls: Vec<String> = k
                .walls
                .values()
                .map(|w| {
                    let ext = match (&w.wtype, &w.orientation, &w.cons) {
                        (Some(a), Some(b), Some(c)) => format!("(Some ({}, {}, {}))", cstr(a), cstr(b), cstr(c)),
                        _ => "None".to_string(),
                    };
                    format!("mkIW {} {} {} {} {}", cstr(&w.name), num(w.a), num(w.u), num(w.btrx), ext)
                })
                .collect();
            let wins: Vec<String> = k
                .windows
                .values()
                .map(|w| {
                    let ext = match (w.ggln, w.unknown1, w.unknown2, w.infcoeff_100, &w.cons) {
                        (Some(g), Some(a), Some(b), Some(i), Some(c)) => format!("(Some ({}, {}, {}, {}, {}))", num(g), num(a), num(b), num(i), cstr(c)),
                        _ => "None".to_string(),
                    };
                    format!("mkIN {} {} {} {} {} {} {} {}", cstr(&w.name), num(w.a), num(w.u), num(w.ff), cstr(&w.orientation), num(w.azimuth_n), num(w.fshobst), ext)
                })
                .collect();
            let tbs: Vec<String> = k.thermal_bridges.values().map(|t| format!("mkIT {} {} {} {}", cstr(&t.name), num(t.l), num(t.psi), cstr(&t.sisdim))).collect();
            let hf: Vec<String> = k.hfactors.iter().map(|x| num(*x)).collect();
            (format!("KOk (mkIK [{}] [{}] [{}] {} [{}])", walls.join("; "), wins.join("; "), tbs.join("; "), num(k.k), hf.join("; ")), 0)
        }
        Ok(Err(_)) => ("KErr".to_string(), 1),
        Err(_) => ("KPanic".to_string(), 2),
    };
    (format!("CKyg (mkKC {}\n ({}))", clines(text), it), cls)
}

/// a NewBDL_O.tbl text with what hulc::tbl::parse makes of it, as a Coq case
pub fn tbl_case(text: &str, scratch: &str) -> (String, usize) {
    use crate::p18::{clines, cstr};
    let bytes: Vec<u8> = text.chars().map(|c| if (c as u32) < 256 { c as u32 as u8 } else { b'?' }).collect();
    let _ = std::fs::write(scratch, bytes);
    let p = scratch.to_string();
    let (it, cls) = match crate::guarded(std::panic::AssertUnwindSafe(move || hulc::tbl::parse(&p).map_err(|e| e.to_string()))) {
        Ok(Ok(t)) => {
            let es: Vec<String> = t
                .elements
                .iter()
                .map(|(k, e)| {
                    let vals = [e.area, e.u, e.w_or_inf, e.g_winter, e.g_summer, e.ang_north, e.tilt];
                    let ty: i32 = match format!("{:?}", e.type_).as_str() {
                        "EXTWALL" => 0,
                        "WINDOW" => 1,
                        "DOOR" => 2,
                        "ADBWALL" => -2,
                        "GNDWALL" => -3,
                        "INTWALL" => -4,
                        _ => -5,
                    };
                    format!("mkIE {} [{}] {} {} {}", cstr(k), vals.iter().map(|x| num(*x)).collect::<Vec<_>>().join("; "), crate::coq::z(ty as i128), crate::coq::z(e.id_surf as i128), crate::coq::z(e.id_space as i128))
                })
                .collect();
            let ss: Vec<String> = t.spaces.iter().map(|(k, s)| format!("mkIS {} {} {} {} {}", cstr(k), crate::coq::z(s.id_space as i128), crate::coq::z(s.mult as i128), num(s.area), num(s.qint))).collect();
            (format!("TOk [{}] [{}]", es.join("; "), ss.join("; ")), 0)
        }
        Ok(Err(_)) => ("TErr".to_string(), 1),
        Err(_) => ("TPanic".to_string(), 2),
    };
    // the text as the parser sees it (latin-1 file read back as characters)
    (format!("CTbl (mkTC {}\n ({}))", clines(text), it), cls)
}

fn onum(o: &Option<f32>) -> String {
    match o {
        Some(x) => format!("(Some {})", num(*x)),
        None => "None".to_string(),
    }
}

/// a BDL text of MATERIAL / GLASS-TYPE / NAME-FRAME / WINDOW / BUILDING-SHADE blocks with the typed elements
/// hulc::bdl::Data::new builds from it, as a Coq case
pub fn typed_case(text: &str) -> (String, usize) {
    use crate::p18::{clines, cstr};
    let t = text.to_string();
    let (it, cls) = match crate::guarded(std::panic::AssertUnwindSafe(move || Data::new(&t).map_err(|e| e.to_string()))) {
        Ok(Ok(d)) => {
            let ms: Vec<String> = d
                .db
                .materials
                .values()
                .map(|m| {
                    let props = match &m.properties {
                        Some(p) => format!("(Some ({}, {}, {}, {}, {}))", onum(&p.thickness), num(p.conductivity), num(p.density), num(p.specificheat), onum(&p.vapourdiffusivity)),
                        None => "None".to_string(),
                    };
                    format!("mkIM {} {} {} {}", cstr(&m.name), cstr(&m.group), props, onum(&m.resistance))
                })
                .collect();
            let gs: Vec<String> = d.db.glasses.values().map(|g| format!("mkIG {} {} {} {}", cstr(&g.name), cstr(&g.group), num(g.conductivity), num(g.g_gln))).collect();
            let fs: Vec<String> = d.db.frames.values().map(|f| format!("mkIF {} {} {} {} {}", cstr(&f.name), cstr(&f.group), num(f.conductivity), num(f.absorptivity), num(f.width))).collect();
            let ws: Vec<String> = d
                .windows
                .iter()
                .map(|w| format!("mkIWn {} {} {} [{}; {}; {}; {}; {}]", cstr(&w.name), cstr(&w.wall), cstr(&w.cons), num(w.x), num(w.y), num(w.height), num(w.width), num(w.setback)))
                .collect();
            let ss: Vec<String> = d
                .shadings
                .iter()
                .map(|s| {
                    let g = match &s.geometry {
                        Some(g) => format!("(Some [{}; {}; {}; {}; {}; {}; {}])", num(g.x), num(g.y), num(g.z), num(g.height), num(g.width), num(g.azimuth), num(g.tilt)),
                        None => "None".to_string(),
                    };
                    let v = match &s.vertices {
                        Some(vs) => format!("(Some [{}])", vs.iter().map(|p| format!("[{}; {}; {}]", num(p.x), num(p.y), num(p.z))).collect::<Vec<_>>().join("; ")),
                        None => "None".to_string(),
                    };
                    format!("mkISh {} {} {} {} {}", cstr(&s.name), num(s.tran), num(s.refl), g, v)
                })
                .collect();
            (format!("DOk (mkID [{}] [{}] [{}] [{}] [{}])", ms.join("; "), gs.join("; "), fs.join("; "), ws.join("; "), ss.join("; ")), 0)
        }
        Ok(Err(_)) => ("DErr".to_string(), 1),
        Err(_) => ("DPanic".to_string(), 2),
    };
    (format!("CTyped (mkTyC {}\n ({}))", clines(text), it), cls)
}
