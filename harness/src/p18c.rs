//! C18, third part: whole small buildings (FLOOR, POLYGON, SPACE, walls of every kind, WINDOW,
//! LAYERS / CONSTRUCTION / MATERIAL, GAP) printed from an abstract description with optional
//! attributes left out; bdl::Data::new must hand back the written values and the documented legacy
//! defaults. Differential test in Rust (no theorem).
use crate::p18::gen_num;
use crate::rng::Rng;
use hulc::bdl::Data;
use serde_json::{json, Value};

fn f(t: &str) -> f32 {
    t.parse::<f32>().unwrap_or(f32::NAN)
}
fn same(a: f32, b: f32) -> bool {
    a.to_bits() == b.to_bits() || (a.is_nan() && b.is_nan())
}
fn finite_num(r: &mut Rng) -> String {
    loop {
        let t = gen_num(r);
        if f(&t).is_finite() {
            return t;
        }
    }
}
fn pos(r: &mut Rng) -> String {
    const N: &[&str] = &["3", "2.7", "1E1", "4.5e0", "+3.2", "2.50", "10", ".9E1"];
    r.pick(N).to_string()
}

struct Out {
    text: String,
}
impl Out {
    fn block(&mut self, r: &mut Rng, name: &str, ty: &str, attrs: &mut Vec<(String, String)>) {
        r.shuffle(attrs);
        self.text.push_str(&format!("\"{}\" = {}\n", name, ty));
        for (k, v) in attrs.iter() {
            self.text.push_str(&format!("   {} = {}\n", k, v));
        }
        self.text.push_str("   ..\n");
    }
}

/// a list value, now and then broken over two lines after a comma
fn list_value(r: &mut Rng, items: &[String]) -> String {
    let mut out = String::from("(");
    for (i, it) in items.iter().enumerate() {
        if i > 0 {
            out.push(',');
            if r.chance(1, 6) {
                out.push_str("\n         ");
            } else if r.chance(2, 3) {
                out.push(' ');
            }
        }
        out.push_str(it);
    }
    if r.chance(1, 3) {
        out.push(' ');
    }
    out.push(')');
    out
}
fn list_num(r: &mut Rng) -> String {
    finite_num(r).trim_start_matches('+').to_string()
}

/// more of the construction database (layers with air gaps, constructions over them, gaps), thermal bridges of the
/// three kinds of definition, and day / week / year schedules
fn extra_blocks(r: &mut Rng, o: &mut Out) {
    const MATS: &[&str] = &[
        "Mat1", "Cámara de aire sin ventilar vertical 2 cm", "Cámara de aire ligeramente ventilada horizontal 10 cm", "Cámara de aire ñ1 cm",
        "Cámara de aire 7 cm", "Cámara de aire sin ventilar horizontal 1 cm", "Cámara de aire 5 cm", "Camara de aire 2 cm", "MW Lana mineral [0.04 W/[mK]]",
    ];
    let nl = r.below(3);
    for li in 0..nl {
        let n = 1 + r.below(4);
        let mats: Vec<String> = (0..n).map(|_| format!("\"{}\"", r.pick(MATS))).collect();
        let ths: Vec<String> = (0..n).map(|_| list_num(r)).collect();
        let mut a = vec![("MATERIAL".to_string(), list_value(r, &mats)), ("THICKNESS".to_string(), list_value(r, &ths))];
        if r.chance(1, 2) {
            a.push(("GROUP".into(), "\"Fachadas\"".into()));
        }
        o.block(r, &format!("Capas{}", li + 2), "LAYERS", &mut a);
        // a construction over these layers: under its own name, or under the layers' name
        if r.chance(2, 3) {
            let cname = if r.chance(1, 4) { format!("Capas{}", li + 2) } else { format!("Cons{}", li + 2) };
            let mut a = vec![("TYPE".to_string(), "LAYERS".to_string()), ("LAYERS".to_string(), format!("\"Capas{}\"", li + 2))];
            if r.chance(1, 2) {
                a.push(("ABSORPTANCE".into(), finite_num(r)));
            }
            o.block(r, &cname, "CONSTRUCTION", &mut a);
        }
    }
    if r.chance(1, 5) {
        // a construction left with the default composition
        let mut a = vec![("TYPE".to_string(), "LAYERS".to_string()), ("LAYERS".to_string(), "\"Ninguno\"".to_string())];
        o.block(r, "ConsNinguno", "CONSTRUCTION", &mut a);
    }
    for gi in 0..r.below(3) {
        let mut a: Vec<(String, String)> = vec![
            ("GLASS-TYPE".into(), "\"Vidrio 1\"".into()),
            ("GROUP-GLASS".into(), "\"Vidrios\"".into()),
            ("NAME-FRAME".into(), "\"Marco 1\"".into()),
            ("GROUP-FRAME".into(), "\"Marcos\"".into()),
            ("PORCENTAGE".into(), finite_num(r)),
            ("INF-COEF".into(), finite_num(r)),
        ];
        if r.chance(1, 2) {
            a.push(("GROUP".into(), "\"Huecos proyecto\"".into()));
        }
        if r.chance(1, 2) {
            a.push(("porcentajeIncrementoU".into(), finite_num(r)));
        }
        if r.chance(1, 2) {
            a.push(("TransmisividadJulio".into(), finite_num(r)));
        }
        // a second definition under the same name replaces the first
        let name = if gi == 2 && r.chance(1, 2) { "Hueco1".to_string() } else { format!("Hueco{}", gi + 1) };
        o.block(r, &name, "GAP", &mut a);
    }
    for ti in 0..r.below(4) {
        let kind = r.below(5);
        let name = if kind == 0 { "LONGITUDES_CALCULADAS".to_string() } else { format!("PT{}", ti) };
        let mut a: Vec<(String, String)> = vec![];
        if r.chance(3, 4) {
            a.push(("LONG-TOTAL".into(), finite_num(r)));
        }
        if kind != 0 || r.chance(1, 3) {
            a.push(("TTL".into(), finite_num(r)));
            a.push(("FRSI".into(), finite_num(r)));
        }
        let ty = *r.pick(&["SLAB", "MASONRY", "UNDER-EXT", "PILLAR", "WINDOW-FRAME", ""]);
        if !ty.is_empty() {
            a.push(("TYPE".into(), ty.into()));
        }
        if !matches!(ty, "PILLAR" | "WINDOW-FRAME" | "") || r.chance(1, 4) {
            a.push(("ANGLE-MIN".into(), finite_num(r)));
            a.push(("ANGLE-MAX".into(), finite_num(r)));
            a.push(("PARTITION".into(), (*r.pick(&["YES", "BOTH"])).into()));
        }
        match kind {
            0 | 1 => a.push(("DEFINICION".into(), "1".into())),
            2 => a.push(("DEFINICION".into(), (*r.pick(&["2", "2.0", "2.7"])).into())),
            3 => {
                a.push(("DEFINICION".into(), (*r.pick(&["3", "3.0", "+3"])).into()));
                let n = 1 + r.below(3);
                let cls: Vec<String> = (0..n).map(|i| format!("\"Clase {} - forjado\"", i)).collect();
                a.push(("LISTA-N".into(), list_value(r, &cls)));
                if r.chance(3, 4) {
                    let v: Vec<String> = (0..n).map(|_| list_num(r)).collect();
                    a.push(("LISTA-L".into(), list_value(r, &v)));
                }
                if r.chance(3, 4) {
                    let v: Vec<String> = (0..n).map(|_| list_num(r)).collect();
                    a.push(("LISTA-MURO".into(), list_value(r, &v)));
                }
                if r.chance(1, 2) {
                    let v: Vec<String> = (0..n).map(|_| list_num(r)).collect();
                    a.push(("LISTA-MARCO".into(), list_value(r, &v)));
                }
            }
            _ => {} // old LIDER: no DEFINICION
        }
        o.block(r, &name, "THERMAL-BRIDGE", &mut a);
    }
    let kinds = ["FRACTION", "ON/OFF", "TEMPERATURE"];
    for si in 0..r.below(4) {
        match r.below(3) {
            0 => {
                let n = if r.chance(1, 4) { 1 } else { 24 };
                let v: Vec<String> = (0..n).map(|_| list_num(r)).collect();
                let mut a = vec![("TYPE".to_string(), r.pick(&kinds).to_string()), ("VALUES".to_string(), list_value(r, &v))];
                o.block(r, &format!("Dia  {}", si), "DAY-SCHEDULE-PD", &mut a);
            }
            1 => {
                let n = if r.chance(1, 4) { 1 } else { 7 };
                let v: Vec<String> = (0..n).map(|i| format!("\"Dia {}\"", i % 3)).collect();
                let mut a = vec![("TYPE".to_string(), r.pick(&kinds).to_string()), ("DAY-SCHEDULES".to_string(), list_value(r, &v))];
                o.block(r, &format!("Semana {}", si), "WEEK-SCHEDULE-PD", &mut a);
            }
            _ => {
                let n = 1 + r.below(4);
                let months: Vec<String> = (0..n).map(|i| if i + 1 == n { "12".to_string() } else { format!("{}", 1 + r.below(11)) }).collect();
                let days: Vec<String> = (0..n).map(|_| (*r.pick(&["31", "30", "28", "15", "01"])).to_string()).collect();
                let weeks: Vec<String> = (0..n).map(|i| format!("\"Semana {}\"", i)).collect();
                let mut a = vec![
                    ("TYPE".to_string(), r.pick(&kinds).to_string()),
                    ("MONTH".to_string(), list_value(r, &months)),
                    ("DAY".to_string(), list_value(r, &days)),
                    ("WEEK-SCHEDULES".to_string(), list_value(r, &weeks)),
                ];
                o.block(r, &format!("Anual {}", si), "SCHEDULE-PD", &mut a);
            }
        }
    }
}

pub fn buildings(r: &mut Rng, n: usize, findings: &mut Vec<Value>, texts: &mut Vec<String>) -> Value {
    let mut fields = 0usize;
    let mut parsed = 0usize;
    for doc in 0..n {
        let mut o = Out { text: String::new() };
        let mut bad: Vec<String> = vec![];
        // materials, layers, constructions, gap
        let mut a = vec![("TYPE".into(), "PROPERTIES".into()), ("CONDUCTIVITY".into(), "1.5".into()), ("DENSITY".into(), "1000".into())];
        o.block(r, "Mat1", "MATERIAL", &mut a);
        let absorb = if r.chance(1, 2) { Some(finite_num(r)) } else { None };
        let thick = [pos(r), pos(r)];
        let mut a = vec![("MATERIAL".into(), "(\"Mat1\", \"Mat1\")".into()), ("THICKNESS".into(), format!("({}, {})", thick[0].trim_start_matches('+'), thick[1].trim_start_matches('+')))];
        o.block(r, "Capas1", "LAYERS", &mut a);
        let mut a = vec![("TYPE".into(), "LAYERS".into()), ("LAYERS".into(), "\"Capas1\"".into())];
        if let Some(ab) = &absorb {
            a.push(("ABSORPTANCE".into(), ab.clone()));
        }
        o.block(r, "Cons1", "CONSTRUCTION", &mut a);
        // floor and polygon
        let (fz, fh) = (finite_num(r), pos(r));
        let fmult = if r.chance(1, 2) { Some(pos(r)) } else { None };
        let mut a = vec![("Z".into(), fz.clone()), ("SPACE-HEIGHT".into(), fh.clone()), ("PREVIOUS".into(), "\"\"".into())];
        if let Some(m) = &fmult {
            a.push(("MULTIPLIER".into(), m.clone()));
        }
        // the floor-to-floor height HULC also writes: equal to SPACE-HEIGHT, 0 (old LIDER) or another value
        // (a plenum); the spaces take SPACE-HEIGHT
        match r.below(4) {
            0 => a.push(("FLOOR-HEIGHT".into(), fh.clone())),
            1 => a.push(("FLOOR-HEIGHT".into(), "0".into())),
            2 => a.push(("FLOOR-HEIGHT".into(), "3.75".into())),
            _ => {}
        }
        o.block(r, "P01", "FLOOR", &mut a);
        // up to 14 vertices: V10.. sort before V2 in the attribute map
        let nv = 3 + r.below(12);
        let verts: Vec<(String, String)> = (0..nv).map(|_| (finite_num(r), finite_num(r))).collect();
        o.text.push_str("\"P01_E01_Pol\" = POLYGON\n");
        for (i, (x, y)) in verts.iter().enumerate() {
            // vertex lists are read by their own number reader: keep an explicit sign out of a list
            o.text.push_str(&format!("   V{}   =( {}, {} )\n", i + 1, x.trim_start_matches('+'), y.trim_start_matches('+')));
        }
        o.text.push_str("   ..\n");
        // space
        let sx = if r.chance(1, 2) { Some(finite_num(r)) } else { None };
        let sy = if r.chance(1, 2) { Some(finite_num(r)) } else { None };
        let sz = if r.chance(1, 3) { Some(finite_num(r)) } else { None };
        let saz = if r.chance(1, 2) { Some(finite_num(r)) } else { None };
        let stype = *r.pick(&["CONDITIONED", "UNHABITED", "No acondicionado"]);
        let inside = match r.below(3) {
            0 => Some("SI"),
            1 => Some("NO"),
            _ => None,
        };
        let sconds = if r.chance(1, 2) { Some("Condiciones A") } else { None };
        let (power, vo, vr, mult) = (finite_num(r), finite_num(r), finite_num(r), pos(r));
        let multiplied = *r.pick(&["0", "1"]);
        let mut a: Vec<(String, String)> = vec![
            ("SHAPE".into(), "POLYGON".into()),
            ("POLYGON".into(), "\"P01_E01_Pol\"".into()),
            ("TYPE".into(), if stype.contains(' ') { format!("\"{}\"", stype) } else { stype.into() }),
            ("SPACE-TYPE".into(), "\"Residencial\"".into()),
            ("POWER".into(), power.clone()),
            ("VEEI-OBJ".into(), vo.clone()),
            ("VEEI-REF".into(), vr.clone()),
            ("MULTIPLIER".into(), mult.clone()),
            ("MULTIPLIED".into(), multiplied.into()),
        ];
        for (k, v) in [("X", &sx), ("Y", &sy), ("Z", &sz), ("AZIMUTH", &saz)] {
            if let Some(v) = v {
                a.push((k.into(), v.clone()));
            }
        }
        if let Some(i) = inside {
            a.push(("perteneceALaEnvolventeTermica".into(), format!("\"{}\"", i)));
        }
        if let Some(c) = sconds {
            a.push(("SPACE-CONDITIONS".into(), format!("\"{}\"", c)));
        }
        o.block(r, "P01_E01", "SPACE", &mut a);
        // walls
        struct W {
            name: String,
            ty: &'static str,
            loc: Option<String>,
            tilt: Option<String>,
            xyz: [Option<String>; 3],
            az: Option<String>,
            int_type: Option<&'static str>,
            next: bool,
        }
        let mut walls: Vec<W> = vec![];
        let nw = 2 + r.below(5);
        for i in 0..nw {
            let ty = *r.pick(&["EXTERIOR-WALL", "INTERIOR-WALL", "UNDERGROUND-WALL", "ROOF"]);
            let loc = match r.below(4) {
                0 => Some("TOP".to_string()),
                1 => Some("BOTTOM".to_string()),
                2 => Some(format!("SPACE-V{}", 1 + r.below(nv))),
                _ => Some(format!("SPACE-V{}", 1 + r.below(nv))),
            };
            let horizontal = matches!(loc.as_deref(), Some("TOP") | Some("BOTTOM"));
            // an explicit tilt only on horizontal elements (a vertical one takes its azimuth from the outline)
            let tilt = if horizontal && r.chance(1, 2) { Some(if loc.as_deref() == Some("TOP") { "0".to_string() } else { "180".to_string() }) } else { None };
            let opt = |r: &mut Rng| if r.chance(1, 2) { Some(finite_num(r)) } else { None };
            let int_type = if ty == "INTERIOR-WALL" { Some(*r.pick(&["STANDARD", "ADIABATIC"])) } else { None };
            walls.push(W { name: format!("P01_E01_M{}", i), ty, loc, tilt, xyz: [opt(r), opt(r), opt(r)], az: opt(r), int_type, next: r.chance(1, 2) });
        }
        for w in &walls {
            let mut a: Vec<(String, String)> = vec![("CONSTRUCTION".into(), "\"Cons1\"".into())];
            if let Some(l) = &w.loc {
                a.push(("LOCATION".into(), l.clone()));
            }
            if let Some(t) = &w.tilt {
                a.push(("TILT".into(), t.clone()));
            }
            for (k, v) in ["X", "Y", "Z"].iter().zip(&w.xyz) {
                if let Some(v) = v {
                    a.push((k.to_string(), v.clone()));
                }
            }
            if let Some(v) = &w.az {
                a.push(("AZIMUTH".into(), v.clone()));
            }
            if let Some(t) = w.int_type {
                a.push(("INT-WALL-TYPE".into(), t.into()));
            }
            if w.next {
                a.push(("NEXT-TO".into(), "\"P01_E01\"".into()));
            }
            // some walls carry an outline of their own (one POLYGON block each: Data::new hands it over, it does not copy it)
            if r.chance(1, 4) {
                let nvw = 3 + r.below(4);
                o.text.push_str(&format!("\"{}_Pol\" = POLYGON\n", w.name));
                for i in 0..nvw {
                    o.text.push_str(&format!("   V{} = ( {}, {} )\n", i + 1, finite_num(r).trim_start_matches('+'), finite_num(r).trim_start_matches('+')));
                }
                o.text.push_str("   ..\n");
                a.push(("POLYGON".into(), format!("\"{}_Pol\"", w.name)));
            }
            o.block(r, &w.name, w.ty, &mut a);
            // one window under every second wall
            if w.name.ends_with('0') || w.name.ends_with('2') {
                let mut a: Vec<(String, String)> = vec![("GAP".into(), "\"Hueco1\"".into())];
                for k in ["X", "Y", "HEIGHT", "WIDTH", "SETBACK"] {
                    a.push((k.into(), "1".into()));
                }
                o.block(r, &format!("{}_V", w.name), "WINDOW", &mut a);
            }
        }
        extra_blocks(r, &mut o);
        let text = o.text.clone();
        texts.push(text.clone());
        let t2 = text.clone();
        let d = match crate::guarded(std::panic::AssertUnwindSafe(move || Data::new(&t2).map_err(|e| e.to_string()))) {
            Ok(Ok(d)) => d,
            Ok(Err(e)) => {
                findings.push(json!({"kind": "building_rejected", "doc": doc, "error": e.chars().take(200).collect::<String>(), "text": text.chars().take(3000).collect::<String>(), "classes": ["typed_value_not_recovered"]}));
                continue;
            }
            Err(p) => {
                findings.push(json!({"kind": "building_crashed", "doc": doc, "site": p, "text": text.chars().take(3000).collect::<String>(), "classes": ["typed_value_not_recovered"]}));
                continue;
            }
        };
        parsed += 1;
        let mut chk = |what: &str, ok: bool, detail: String| {
            fields += 1;
            if !ok {
                bad.push(format!("{}: {}", what, detail));
            }
        };
        // construction: layers under the construction's name with its absorptance (default 0.6)
        match d.db.wallcons.get("Cons1") {
            Some(wc) => {
                chk("construction absorptance", same(wc.absorptance, absorb.as_ref().map(|a| f(a)).unwrap_or(0.60)), format!("written {:?} parsed {}", absorb, wc.absorptance));
                chk("layer thicknesses", wc.thickness.len() == 2 && same(wc.thickness[0], f(thick[0].trim_start_matches('+'))) && same(wc.thickness[1], f(thick[1].trim_start_matches('+'))), format!("written {:?} parsed {:?}", thick, wc.thickness));
                chk("layer materials", wc.material == vec!["Mat1".to_string(), "Mat1".to_string()], format!("{:?}", wc.material));
            }
            None => chk("construction present", false, "Cons1 missing".into()),
        }
        // space: floor data flow into it
        match d.spaces.first() {
            Some(s) => {
                let d0 = |o: &Option<String>| o.as_ref().map(|t| f(t)).unwrap_or(0.0);
                chk("space x", same(s.x, d0(&sx)), format!("written {:?} parsed {}", sx, s.x));
                chk("space y", same(s.y, d0(&sy)), format!("written {:?} parsed {}", sy, s.y));
                chk("space z = own + floor", same(s.z, d0(&sz) + f(&fz)), format!("written {:?} + floor {} parsed {}", sz, fz, s.z));
                chk("space azimuth", same(s.angle_with_building_north, d0(&saz)), format!("written {:?} parsed {}", saz, s.angle_with_building_north));
                chk("space height = floor height", same(s.height, f(&fh)), format!("floor {} parsed {}", fh, s.height));
                chk("floor multiplier (default 1)", same(s.floor_multiplier, fmult.as_ref().map(|m| f(m)).unwrap_or(1.0)), format!("written {:?} parsed {}", fmult, s.floor_multiplier));
                chk("space multiplier", same(s.multiplier, f(&mult)), format!("written {} parsed {}", mult, s.multiplier));
                chk("space power / veei", same(s.power, f(&power)) && same(s.veei_obj, f(&vo)) && same(s.veei_ref, f(&vr)), format!("written {} {} {} parsed {} {} {}", power, vo, vr, s.power, s.veei_obj, s.veei_ref));
                chk("space type", s.stype == stype, format!("written {} parsed {}", stype, s.stype));
                let exp_inside = match inside {
                    Some(i) => i == "SI",
                    None => stype == "CONDITIONED",
                };
                chk("inside thermal envelope (default: conditioned)", s.insidete == exp_inside, format!("written {:?} type {} parsed {}", inside, stype, s.insidete));
                chk("space conditions (default: the space type name)", s.spaceconds == sconds.unwrap_or("Residencial"), format!("written {:?} parsed {}", sconds, s.spaceconds));
                chk("system conditions (default: the space type name)", s.systemconds == "Residencial", s.systemconds.clone());
                chk("multiplied flag", s.ismultiplied == (multiplied == "1"), format!("written {} parsed {}", multiplied, s.ismultiplied));
                chk("floor", s.floor == "P01", s.floor.clone());
                let pv = s.polygon.as_vec();
                chk("outline", pv.len() == verts.len() && pv.iter().zip(&verts).all(|(p, (x, y))| same(p.x, f(x.trim_start_matches('+'))) && same(p.y, f(y.trim_start_matches('+')))), format!("written {:?} parsed {:?}", verts, pv));
            }
            None => chk("space present", false, "space missing".into()),
        }
        // walls
        for w in &walls {
            match d.walls.iter().find(|x| x.name == w.name) {
                None => chk("wall present", false, format!("wall {} missing", w.name)),
                Some(p) => {
                    let d0 = |o: &Option<String>| o.as_ref().map(|t| f(t)).unwrap_or(0.0);
                    chk("wall space", p.space == "P01_E01", p.space.clone());
                    chk("wall construction", p.cons == "Cons1", p.cons.clone());
                    let exp_loc = w.loc.as_ref().map(|l| l.trim_start_matches("SPACE-").to_string());
                    chk("wall location", p.location == exp_loc, format!("written {:?} parsed {:?}", w.loc, p.location));
                    chk("wall x y z (default 0)", same(p.x, d0(&w.xyz[0])) && same(p.y, d0(&w.xyz[1])) && same(p.z, d0(&w.xyz[2])), format!("written {:?} parsed ({}, {}, {})", w.xyz, p.x, p.y, p.z));
                    let exp_tilt = match (&w.tilt, w.ty, w.loc.as_deref()) {
                        (Some(t), _, _) => f(t),
                        (None, "ROOF", _) | (None, _, Some("TOP")) => 0.0,
                        (None, _, Some("BOTTOM")) => 180.0,
                        _ => 90.0,
                    };
                    chk("wall tilt (default by kind / location)", same(p.tilt, exp_tilt), format!("{} {:?} written {:?} parsed {}", w.ty, w.loc, w.tilt, p.tilt));
                    let exp_bounds = match (w.ty, w.int_type) {
                        ("INTERIOR-WALL", Some("ADIABATIC")) => "ADIABATIC",
                        ("INTERIOR-WALL", _) => "INTERIOR",
                        ("UNDERGROUND-WALL", _) => "GROUND",
                        _ => "EXTERIOR",
                    };
                    chk("wall boundary", format!("{:?}", p.bounds) == exp_bounds, format!("{} {:?} parsed {:?}", w.ty, w.int_type, p.bounds));
                    let exp_next = if exp_bounds == "INTERIOR" && w.next { Some("P01_E01".to_string()) } else { None };
                    chk("wall next-to (interior only)", p.nextto == exp_next, format!("written {} parsed {:?}", w.next, p.nextto));
                    // azimuth: floors keep 180, other horizontal elements keep the written value (default 0);
                    // vertical ones on an edge take it from the outline (covered by C03)
                    let horizontal = exp_tilt == 0.0 || exp_tilt == 180.0 || matches!(w.loc.as_deref(), Some("TOP") | Some("BOTTOM"));
                    if horizontal {
                        let exp_az = if w.loc.as_deref() == Some("BOTTOM") { 180.0 } else { d0(&w.az) };
                        chk("horizontal element azimuth", same(p.angle_with_space_north, exp_az), format!("{:?} written {:?} parsed {}", w.loc, w.az, p.angle_with_space_north));
                    }
                }
            }
        }
        for w in d.windows.iter() {
            chk("window parent wall", w.name == format!("{}_V", w.wall), format!("{} under {}", w.name, w.wall));
        }
        for b in bad.into_iter().take(4) {
            findings.push(json!({"kind": "typed_value_not_recovered", "doc": doc, "detail": b, "text": text.chars().take(3000).collect::<String>(), "classes": ["typed_value_not_recovered"]}));
        }
    }
    json!({"buildings": n, "buildings_parsed": parsed, "building_fields_compared": fields})
}

fn pts(v: &[nalgebra::Point2<f32>]) -> String {
    format!("[{}]", v.iter().map(|p| format!("[{}; {}]", num(p.x), num(p.y))).collect::<Vec<_>>().join("; "))
}
fn num(x: f32) -> String {
    if x.is_nan() {
        "INan".into()
    } else if x.is_infinite() {
        format!("(IInf {})", crate::coq::b(x < 0.0))
    } else {
        format!("(INum {})", crate::coq::q(x))
    }
}

/// a BDL text of a whole building with the spaces and walls hulc::bdl::Data::new builds from it, as a Coq case
pub fn building_case(text: &str) -> (String, usize) {
    use crate::p18::{clines, cstr};
    let t = text.to_string();
    let ostr = |o: &Option<String>| match o {
        Some(s) => format!("(Some {})", cstr(s)),
        None => "None".to_string(),
    };
    let (it, cls) = match crate::guarded(std::panic::AssertUnwindSafe(move || Data::new(&t).map_err(|e| e.to_string()))) {
        Ok(Ok(d)) => {
            let sps: Vec<String> = d
                .spaces
                .iter()
                .map(|s| {
                    format!(
                        "mkISp {} {} {} [{}] {} {} {} {} {} {}",
                        cstr(&s.name), cstr(&s.floor), cstr(&s.stype),
                        [s.x, s.y, s.z, s.angle_with_building_north, s.height, s.floor_multiplier, s.power, s.veei_obj, s.veei_ref, s.multiplier].iter().map(|x| num(*x)).collect::<Vec<_>>().join("; "),
                        crate::coq::b(s.insidete), cstr(&s.spacetype), cstr(&s.spaceconds), cstr(&s.systemconds), crate::coq::b(s.ismultiplied), pts(&s.polygon.as_vec())
                    )
                })
                .collect();
            let wls: Vec<String> = d
                .walls
                .iter()
                .map(|w| {
                    let horizontal = w.tilt == 0.0 || w.tilt == 180.0 || matches!(w.location.as_deref(), Some("TOP") | Some("BOTTOM"));
                    let az = if horizontal || w.polygon.is_some() { format!("(Some {})", num(w.angle_with_space_north)) } else { "None".to_string() };
                    let bounds = match format!("{:?}", w.bounds).as_str() {
                        "EXTERIOR" => 0,
                        "INTERIOR" => 1,
                        "GROUND" => 2,
                        _ => 3,
                    };
                    format!(
                        "mkIWl {} {} {} {} {}%N [{}; {}; {}; {}] {} {} {} {}",
                        cstr(&w.name), cstr(&w.space), cstr(&w.cons), ostr(&w.location), bounds, num(w.tilt), num(w.x), num(w.y), num(w.z),
                        crate::coq::b(w.polygon.is_some()), az, ostr(&w.nextto),
                        match &w.polygon { Some(p) => format!("(Some {})", pts(&p.as_vec())), None => "None".to_string() }
                    )
                })
                .collect();
            let nums = |v: &[f32]| format!("[{}]", v.iter().map(|x| num(*x)).collect::<Vec<_>>().join("; "));
            let strs = |v: &[String]| format!("[{}]", v.iter().map(|x| cstr(x)).collect::<Vec<_>>().join("; "));
            let onum = |o: &Option<f32>| match o {
                Some(x) => format!("(Some {})", num(*x)),
                None => "None".to_string(),
            };
            let wcs: Vec<String> = d
                .db
                .wallcons
                .values()
                .map(|w| format!("mkIWC {} {} {} {} {}", cstr(&w.name), cstr(&w.group), strs(&w.material), nums(&w.thickness), num(w.absorptance)))
                .collect();
            let gcs: Vec<String> = d
                .db
                .wincons
                .values()
                .map(|g| {
                    format!(
                        "mkIWC2 {} {} {} {} {} {} {} {} {} {}",
                        cstr(&g.name), cstr(&g.group), cstr(&g.glass), cstr(&g.glassgroup), cstr(&g.frame), cstr(&g.framegroup),
                        num(g.framefrac), num(g.infcoeff), num(g.deltau), onum(&g.gglshwi)
                    )
                })
                .collect();
            let tbs: Vec<String> = d
                .thermal_bridges
                .iter()
                .map(|t| {
                    let geo = match &t.geometry {
                        Some(g) => format!("(Some ({}, {}, {}))", num(g.anglemin), num(g.anglemax), cstr(&g.partition)),
                        None => "None".to_string(),
                    };
                    let cat = match &t.catalog {
                        Some(c) => format!(
                            "(Some ({}, {}, {}, {}))",
                            strs(&c.classes), nums(&c.pcts), nums(&c.firstelems),
                            match &c.secondelems { Some(v) => format!("(Some {})", nums(v)), None => "None".to_string() }
                        ),
                        None => "None".to_string(),
                    };
                    format!("mkIBr {} {} {} {} {} {} {}", cstr(&t.name), onum(&t.length), cstr(&t.tbtype), num(t.psi), num(t.frsi), geo, cat)
                })
                .collect();
            let kind = |k: &dyn std::fmt::Debug| match format!("{:?}", k).as_str() {
                "Fraction" => 0,
                "OnOff" => 1,
                _ => 2,
            };
            let ns = |v: &[u32]| format!("[{}]", v.iter().map(|x| format!("{}%N", x)).collect::<Vec<_>>().join("; "));
            let scs: Vec<String> = d
                .schedules
                .iter()
                .map(|s| match s {
                    hulc::bdl::Schedule::Day(x) => format!("IDay {} {}%N {}", cstr(&x.name), kind(&x.kind), nums(&x.values)),
                    hulc::bdl::Schedule::Week(x) => format!("IWeek {} {}%N {}", cstr(&x.name), kind(&x.kind), strs(&x.days)),
                    hulc::bdl::Schedule::Year(x) => format!("IYear {} {}%N {} {} {}", cstr(&x.name), kind(&x.kind), ns(&x.days), ns(&x.months), strs(&x.weeks)),
                })
                .collect();
            (
                format!(
                    "BOk [{}] [{}]\n (mkIDb [{}] [{}] [{}] [{}])",
                    sps.join("; "), wls.join("; "), wcs.join("; "), gcs.join("; "), tbs.join("; "), scs.join("; ")
                ),
                0,
            )
        }
        Ok(Err(_)) => ("BErr".to_string(), 1),
        Err(_) => ("BPanic".to_string(), 2),
    };
    (format!("CBuilding (mkBC {}\n ({}))", clines(text), it), cls)
}
