//! Printer from Rust values to Coq terms. Numbers are exact: an f32/f64 is printed as
//! `(dy m e)` = m * 2^e, never as a decimal approximation.
use bemodel::*;

pub fn z(i: i128) -> String {
    if i < 0 {
        format!("({})%Z", i)
    } else {
        format!("{}%Z", i)
    }
}
pub fn n<T: std::fmt::Display>(i: T) -> String {
    format!("{}%N", i)
}
pub fn b(x: bool) -> String {
    (if x { "true" } else { "false" }).to_string()
}

/// exact rational value of a finite f64 (f32 values are widened losslessly)
pub fn q64(x: f64) -> String {
    assert!(x.is_finite(), "non-finite number reached the Coq printer: {}", x);
    if x == 0.0 {
        return "(dy 0%Z 0%Z)".to_string();
    }
    let bits = x.to_bits();
    let sign: i128 = if bits >> 63 == 1 { -1 } else { 1 };
    let exp = ((bits >> 52) & 0x7ff) as i64;
    let frac = bits & 0xf_ffff_ffff_ffff;
    let (mut m, mut e) = if exp == 0 {
        (frac as i128, -1074i64)
    } else {
        ((frac | (1u64 << 52)) as i128, exp - 1075)
    };
    while m % 2 == 0 {
        m /= 2;
        e += 1;
    }
    // fold small positive exponents into the mantissa for readability
    while e > 0 && m < (1i128 << 100) {
        m *= 2;
        e -= 1;
    }
    format!("(dy {} {})", z(sign * m), z(e as i128))
}
/// exact rational literal `(num # den)%Q` of a finite f64 (no `dy`: usable where the term is not
/// evaluated by vm_compute first)
pub fn qlit64(x: f64) -> String {
    assert!(x.is_finite());
    if x == 0.0 {
        return "(0 # 1)%Q".to_string();
    }
    let bits = x.to_bits();
    let neg = bits >> 63 == 1;
    let exp = ((bits >> 52) & 0x7ff) as i64;
    let frac = bits & 0xf_ffff_ffff_ffff;
    let (mut m, mut e) = if exp == 0 { (frac as u128, -1074i64) } else { ((frac | (1u64 << 52)) as u128, exp - 1075) };
    while m % 2 == 0 {
        m /= 2;
        e += 1;
    }
    let (num, den): (u128, u128) = if e >= 0 { (m << e, 1) } else { (m, 1u128 << (-e)) };
    if neg {
        format!("((-{}) # {})%Q", num, den)
    } else {
        format!("({} # {})%Q", num, den)
    }
}
pub fn q(x: f32) -> String {
    q64(x as f64)
}
thread_local! {
    static IDS: std::cell::RefCell<std::collections::HashMap<u128, usize>> = std::cell::RefCell::new(Default::default());
}
/// start a new case: ids are interned per case (nil = 0, others 1, 2, ... in order of first
/// appearance); the models only ever compare ids for equality, and 39-digit literals cost
/// Coq's parser ~4 ms each
pub fn reset_ids() {
    IDS.with(|m| m.borrow_mut().clear());
}
pub fn id(u: Uuid) -> String {
    let v = u.as_u128();
    if v == 0 {
        return n(0);
    }
    IDS.with(|m| {
        let mut m = m.borrow_mut();
        let k = m.len() + 1;
        n(*m.entry(v).or_insert(k))
    })
}
pub fn opt<T>(o: &Option<T>, f: impl Fn(&T) -> String) -> String {
    match o {
        Some(x) => format!("(Some {})", f(x)),
        None => "None".to_string(),
    }
}
pub fn list<T>(v: &[T], f: impl Fn(&T) -> String) -> String {
    let items: Vec<String> = v.iter().map(f).collect();
    format!("[{}]", items.join("; "))
}
pub fn optq(o: &Option<f32>) -> String {
    opt(o, |x| q(*x))
}
pub fn optid(o: &Option<Uuid>) -> String {
    opt(o, |x| id(*x))
}

pub fn boundary(b: BoundaryType) -> &'static str {
    match b {
        BoundaryType::EXTERIOR => "EXTERIOR",
        BoundaryType::INTERIOR => "INTERIOR",
        BoundaryType::GROUND => "GROUND",
        BoundaryType::ADIABATIC => "ADIABATIC",
    }
}
pub fn tilt(t: Tilt) -> &'static str {
    match t {
        Tilt::BOTTOM => "BOTTOM",
        Tilt::TOP => "TOP",
        Tilt::SIDE => "SIDE",
    }
}
pub fn orient(o: Orientation) -> &'static str {
    match o {
        Orientation::N => "O_N",
        Orientation::NE => "O_NE",
        Orientation::E => "O_E",
        Orientation::SE => "O_SE",
        Orientation::S => "O_S",
        Orientation::SW => "O_SW",
        Orientation::W => "O_W",
        Orientation::NW => "O_NW",
        Orientation::HZ => "O_HZ",
    }
}
pub fn spacetype(s: SpaceType) -> &'static str {
    match s {
        SpaceType::CONDITIONED => "CONDITIONED",
        SpaceType::UNCONDITIONED => "UNCONDITIONED",
        SpaceType::UNINHABITED => "UNINHABITED",
    }
}
pub fn tbkind(k: ThermalBridgeKind) -> &'static str {
    use ThermalBridgeKind::*;
    match k {
        ROOF => "TB_ROOF",
        BALCONY => "TB_BALCONY",
        CORNER => "TB_CORNER",
        INTERMEDIATEFLOOR => "TB_INTERMEDIATEFLOOR",
        INTERNALWALL => "TB_INTERNALWALL",
        GROUNDFLOOR => "TB_GROUNDFLOOR",
        PILLAR => "TB_PILLAR",
        WINDOW => "TB_WINDOW",
        GENERIC => "TB_GENERIC",
    }
}
pub const ZONES: [bemodel::climatedata::ClimateZone; 32] = {
    use bemodel::climatedata::ClimateZone::*;
    [
        A1c, A2c, A3c, A4c, Alfa1c, Alfa2c, Alfa3c, Alfa4c, B1c, B2c, B3c, B4c, C1c, C2c, C3c,
        C4c, D1c, D2c, D3c, E1c, A3, A4, B3, B4, C1, C2, C3, C4, D1, D2, D3, E1,
    ]
};
pub fn zone_idx(zn: bemodel::climatedata::ClimateZone) -> usize {
    ZONES.iter().position(|x| *x == zn).unwrap()
}

pub fn wallgeom(g: &WallGeom) -> String {
    format!(
        "(mkWallGeom {} {} {} {})",
        q(g.tilt),
        q(g.azimuth),
        opt(&g.position, |p| format!("({}, {}, {})", q(p.x), q(p.y), q(p.z))),
        list(&g.polygon, |p| format!("({}, {})", q(p.x), q(p.y)))
    )
}
pub fn space(s: &Space) -> String {
    format!(
        "(mkSpace {} {} {} {} {} {} {} {} {} {})",
        id(s.id),
        q(s.multiplier),
        spacetype(s.kind),
        b(s.inside_tenv),
        q(s.height),
        q(s.z),
        optid(&s.loads),
        optid(&s.thermostat),
        optq(&s.n_v),
        optq(&s.illuminance)
    )
}
pub fn wall(w: &Wall) -> String {
    format!(
        "(mkWall {} {} {} {} {} {})",
        id(w.id),
        boundary(w.bounds),
        id(w.cons),
        id(w.space),
        optid(&w.next_to),
        wallgeom(&w.geometry)
    )
}
pub fn window(w: &Window) -> String {
    let g = &w.geometry;
    format!(
        "(mkWindow {} {} {} (mkWinGeom {} {} {} {}))",
        id(w.id),
        id(w.cons),
        id(w.wall),
        opt(&g.position, |p| format!("({}, {})", q(p.x), q(p.y))),
        q(g.height),
        q(g.width),
        q(g.setback)
    )
}
pub fn tb(t: &ThermalBridge) -> String {
    format!("(mkTb {} {} {} {})", id(t.id), tbkind(t.kind), q(t.l), q(t.psi))
}
pub fn shade(s: &Shade) -> String {
    format!("(mkShade {} {})", id(s.id), wallgeom(&s.geometry))
}
pub fn consdb(c: &ConsDb) -> String {
    let wc = list(&c.wallcons, |w| {
        format!(
            "(mkWallCons {} {} {})",
            id(w.id),
            list(&w.layers, |l| format!("(mkLayer {} {})", id(l.material), q(l.e))),
            q(w.absorptance)
        )
    });
    let wnc = list(&c.wincons, |w| {
        format!(
            "(mkWinCons {} {} {} {} {} {} {})",
            id(w.id),
            id(w.glass),
            id(w.frame),
            q(w.f_f),
            q(w.delta_u),
            optq(&w.g_glshwi),
            q(w.c_100)
        )
    });
    let mats = list(&c.materials, |m| {
        let p = match m.properties {
            MatProps::Detailed { conductivity, density, specific_heat, vapour_diff } => format!(
                "(Detailed {} {} {} {})",
                q(conductivity),
                q(density),
                q(specific_heat),
                optq(&vapour_diff)
            ),
            MatProps::Resistance { resistance, vapour_diff } => {
                format!("(Resistance {} {})", q(resistance), optq(&vapour_diff))
            }
        };
        format!("(mkMaterial {} {})", id(m.id), p)
    });
    let gl = list(&c.glasses, |g| format!("(mkGlass {} {} {})", id(g.id), q(g.u_value), q(g.g_gln)));
    let fr =
        list(&c.frames, |g| format!("(mkFrame {} {} {})", id(g.id), q(g.u_value), q(g.absorptivity)));
    format!("(mkConsDb {} {} {} {} {})", wc, wnc, mats, gl, fr)
}
pub fn schedvals(v: &[(Uuid, u32)]) -> String {
    list(v, |(i, c)| format!("({}, {})", id(*i), n(*c)))
}
pub fn scheddb(s: &SchedulesDb) -> String {
    format!(
        "(mkSchedDb {} {} {})",
        list(&s.year, |y| format!("(mkSched {} {})", id(y.id), schedvals(&y.values))),
        list(&s.week, |y| format!("(mkSched {} {})", id(y.id), schedvals(&y.values))),
        list(&s.day, |y| format!("(mkSchedDay {} {})", id(y.id), list(&y.values, |v| q(*v))))
    )
}
pub fn loads(l: &SpaceLoads) -> String {
    format!(
        "(mkLoads {} {} {} {} {} {} {} {} {})",
        id(l.id),
        q(l.area_per_person),
        optid(&l.people_schedule),
        q(l.people_sensible),
        q(l.people_latent),
        q(l.equipment),
        optid(&l.equipment_schedule),
        q(l.lighting),
        optid(&l.lighting_schedule)
    )
}
pub fn model(m: &Model) -> String {
    let mt = &m.meta;
    let meta = format!(
        "(mkMeta {} {} {} {} {} {} {} {})",
        b(mt.is_new_building),
        b(mt.is_dwelling),
        z(mt.num_dwellings as i128),
        n(zone_idx(mt.climate)),
        optq(&mt.global_ventilation_l_s),
        optq(&mt.n50_test_ach),
        q(mt.d_perim_insulation),
        q(mt.rn_perim_insulation)
    );
    let ovw: Vec<_> = m.overrides.walls.iter().collect();
    let ovn: Vec<_> = m.overrides.windows.iter().collect();
    format!(
        "(mkModel {}\n {}\n {}\n {}\n {}\n {}\n {}\n {}\n {}\n {}\n {}\n {})",
        meta,
        list(&m.spaces, space),
        list(&m.walls, wall),
        list(&m.windows, window),
        list(&m.thermal_bridges, tb),
        list(&m.shades, shade),
        consdb(&m.cons),
        scheddb(&m.schedules),
        list(&m.loads, loads),
        list(&m.thermostats, |t| format!(
            "(mkThermostat {} {} {})",
            id(t.id),
            optid(&t.temp_max),
            optid(&t.temp_min)
        )),
        list(&ovw, |(i, o)| format!("(mkWallOv {} {})", id(**i), optq(&o.u_value))),
        list(&ovn, |(i, o)| format!(
            "(mkWinOv {} {} {})",
            id(**i),
            optq(&o.u_value),
            optq(&o.f_shobst)
        ))
    )
}
