//! C08 (K), C09 (n50), C10 (q_sol;jul): the indicator models over the implementation's own
//! reported `props`, compared inside Coq.
use crate::{coq, corpus, gen, props, rng::Rng, Args, Batch, Case};
use bemodel::energy::EnergyIndicators;
use bemodel::*;
use serde_json::json;

fn kel(e: &KElementPropsLike) -> String {
    format!(
        "(mkKel {} {} {} {} {})",
        props::qz(e.a), props::qz(e.au), coq::optq(&e.u_max), coq::optq(&e.u_min), coq::optq(&e.u_mean)
    )
}
pub struct KElementPropsLike {
    a: f32,
    au: f32,
    u_max: Option<f32>,
    u_min: Option<f32>,
    u_mean: Option<f32>,
}
fn kel_of(v: &serde_json::Value) -> KElementPropsLike {
    let f = |k: &str| v.get(k).and_then(|x| x.as_f64()).map(|x| x as f32);
    KElementPropsLike { a: f("a").unwrap_or(f32::NAN), au: f("au").unwrap_or(f32::NAN), u_max: f("u_max"), u_min: f("u_min"), u_mean: f("u_mean") }
}

fn all_finite_json(v: &serde_json::Value) -> bool {
    // serde_json writes non-finite floats as null; Option fields are null when None: use the
    // typed values instead where it matters. Here: no number field may be null in K / n50 data
    match v {
        serde_json::Value::Object(m) => m.iter().all(|(k, x)| (k.starts_with("u_m") && x.is_null()) || all_finite_json(x)),
        serde_json::Value::Array(a) => a.iter().all(all_finite_json),
        serde_json::Value::Null => false,
        _ => true,
    }
}

fn variants(r: &mut Rng, i: usize, m: &mut Model) {
    match i % 8 {
        0 => {}
        1 | 2 => {
            gen::break_links(r, m, 1, 8);
        }
        3 => {
            gen::negate_bridges(r, m, 1, 2);
            gen::add_duplicates(r, m);
        }
        4 => {
            // nothing in contact with outside air
            for w in m.walls.iter_mut() {
                if w.bounds == BoundaryType::EXTERIOR {
                    w.bounds = *r.pick(&[BoundaryType::GROUND, BoundaryType::ADIABATIC, BoundaryType::INTERIOR]);
                }
            }
        }
        5 => {
            // zero volume or no habitable space inside the envelope
            if r.chance(1, 2) {
                for s in m.spaces.iter_mut() {
                    s.height = 0.0;
                }
            } else {
                for s in m.spaces.iter_mut() {
                    if r.chance(1, 2) {
                        s.inside_tenv = false
                    } else {
                        s.kind = SpaceType::UNINHABITED
                    }
                }
            }
        }
        6 => {
            // windows on ground / adiabatic / interior walls, windows without construction
            for w in m.walls.iter_mut() {
                if r.chance(1, 3) {
                    w.bounds = *r.pick(&[BoundaryType::GROUND, BoundaryType::ADIABATIC, BoundaryType::INTERIOR]);
                }
            }
            for w in m.windows.iter_mut() {
                if r.chance(1, 3) {
                    w.cons = gen::uid(r);
                }
            }
        }
        _ => {
            m.windows.clear();
        }
    }
}

fn models(a: &Args, salt: u64) -> Vec<(String, Model)> {
    let mut r = Rng::new(a.seed ^ salt);
    let mut out = corpus::shipped_models();
    let cfg = gen::GenCfg::default();
    for i in 0..a.n {
        let mut rr = r.fork(i as u64);
        let mut m = gen::gen_model(&mut rr, &cfg);
        variants(&mut rr, i, &mut m);
        if salt == 0x10 {
            // q_sol;jul: cover every climate zone evenly
            m.meta.climate = coq::ZONES[i % 32];
        }
        out.push((format!("gen seed={} i={}", a.seed, i), m));
    }
    out
}

fn compute(m: &Model) -> Result<EnergyIndicators, String> {
    crate::guarded(std::panic::AssertUnwindSafe(|| m.energy_indicators()))
}

pub fn run08(a: &Args) -> Batch {
    let mut cases = vec![];
    let mut crashed = 0;
    let mut stats = std::collections::BTreeMap::<&str, usize>::new();
    for (origin, m) in models(a, 0x08) {
        coq::reset_ids();
        let ind = match compute(&m) {
            Ok(i) => i,
            Err(_) => {
                crashed += 1;
                continue;
            }
        };
        let k = &ind.K_data;
        let kj = serde_json::to_value(k).unwrap();
        let s = &k.summary;
        let tbs = [&k.tbs.roof, &k.tbs.balcony, &k.tbs.corner, &k.tbs.intermediate_floor, &k.tbs.internal_wall, &k.tbs.ground_floor, &k.tbs.pillar, &k.tbs.window, &k.tbs.generic];
        let finite = all_finite_json(&kj);
        let impl_term = format!(
            "(mkKData {} {} {} {} {} {} {} {} {} {} {} {} {} {} {})",
            props::qz(k.K), props::qz(s.a), props::qz(s.au), props::qz(s.opaques_a), props::qz(s.opaques_au), props::qz(s.windows_a),
            props::qz(s.windows_au), props::qz(s.tbs_l), props::qz(s.tbs_psil),
            kel(&kel_of(&kj["walls"])), kel(&kel_of(&kj["roofs"])), kel(&kel_of(&kj["floors"])), kel(&kel_of(&kj["ground"])), kel(&kel_of(&kj["windows"])),
            coq::list(&tbs, |t| format!("({}, {})", props::qz(t.l), props::qz(t.psil)))
        );
        let nenv = ind.props.walls.values().filter(|w| w.is_tenv && (w.bounds == BoundaryType::EXTERIOR || w.bounds == BoundaryType::GROUND)).count();
        for (name, e) in [("walls", &k.walls), ("roofs", &k.roofs), ("floors", &k.floors), ("ground", &k.ground), ("windows", &k.windows)] {
            if e.a > 0.0 {
                *stats.entry(name).or_default() += 1;
            }
        }
        if ind.props.walls.values().any(|w| w.u_value_override.is_some() && w.is_tenv) {
            *stats.entry("with_wall_override").or_default() += 1;
        }
        if ind.props.windows.values().any(|w| w.u_value.is_none() && w.u_value_override.is_none() && w.is_tenv) {
            *stats.entry("window_default_u").or_default() += 1;
        }
        if ind.props.thermal_bridges.values().any(|t| t.l < 0.0) {
            *stats.entry("negative_bridge").or_default() += 1;
        }
        cases.push(Case {
            post: String::new(),
            term: format!(
                "(mkC08 {}\n {} {} {})",
                props::eprops(&ind.props),
                impl_term,
                coq::b(finite),
                coq::list(&m.thermal_bridges, |t| format!("({}, mkTbP {} {} {})", coq::id(t.id), coq::tbkind(t.kind), props::qz(t.l), props::qz(t.psi)))
            ),
            json: json!({"origin": origin, "model": serde_json::to_value(&m).unwrap(), "K_data": kj, "nonfinite": props::nonfinite_report(&ind.props)}),
            nontrivial: nenv >= 2,
        });
    }
    stats.insert("indicator_crashes_skipped", crashed);
    Batch {
        imports: "From Coq Require Import ZArith NArith QArith List.\nFrom CTE Require Import Base.Num Model.BModel Model.Props Model.K.".into(),
        case_ty: "c08_case".into(),
        agree: "agree_C08".into(),
        cases,
        impl_findings: vec![],
        rule: "shipped model files + generated models (inside/outside spaces, all boundary kinds and tilts, multipliers, U overrides, bridges of every kind incl. negative/zero length, windows with and without resolvable construction, duplicates, broken links); the K model takes the implementation's reported props; non-trivial = at least two envelope elements in contact with air or ground; distinct by content hash".into(),
        stats: json!(stats),
    }
}

pub fn run09(a: &Args) -> Batch {
    let mut cases = vec![];
    let mut stats = std::collections::BTreeMap::<&str, usize>::new();
    let mut crashed = 0;
    for (origin, m) in models(a, 0x09) {
        coq::reset_ids();
        let ind = match compute(&m) {
            Ok(i) => i,
            Err(_) => {
                crashed += 1;
                continue;
            }
        };
        let d = &ind.n50_data;
        let v = [d.n50, d.n50_ref, d.walls_a, d.walls_c_ref, d.walls_c_a_ref, d.walls_c, d.walls_c_a, d.windows_a, d.windows_c, d.windows_c_a, d.vol];
        let finite = v.iter().all(|x| x.is_finite()) && props::n50_inputs_finite(&ind.props);
        let impl_term = format!("(mkN50 {})", v.iter().map(|x| props::qz(*x)).collect::<Vec<_>>().join(" "));
        *stats.entry(if m.meta.is_new_building { "new" } else { "existing" }).or_default() += 1;
        if m.meta.n50_test_ach.is_some() {
            *stats.entry("with_test").or_default() += 1;
        }
        if d.vol <= 0.001 {
            *stats.entry("zero_volume").or_default() += 1;
        }
        if d.walls_a <= 0.001 {
            *stats.entry("zero_wall_area").or_default() += 1;
        }
        if d.windows_a > 0.001 {
            *stats.entry("with_windows").or_default() += 1;
        }
        cases.push(Case {
            post: String::new(),
            term: format!("(mkC09 {}\n {} {} {} {})", props::eprops(&ind.props), impl_term, coq::b(finite), coq::optq(&m.meta.n50_test_ach), {
                let v: Vec<String> = m.cons.wincons.iter().filter(|w| m.cons.wincons.iter().filter(|x| x.id == w.id).count() == 1)
                    .map(|w| format!("({}, {})", coq::id(w.id), coq::q(w.c_100))).collect();
                format!("[{}]", v.join("; "))
            }),
            json: json!({"origin": origin, "model": serde_json::to_value(&m).unwrap(), "n50_data": serde_json::to_value(d).unwrap(), "nonfinite": props::nonfinite_report(&ind.props)}),
            nontrivial: d.walls_a > 0.001 && d.vol > 0.001,
        });
    }
    stats.insert("indicator_crashes_skipped", crashed);
    Batch {
        imports: "From Coq Require Import ZArith NArith QArith List.\nFrom CTE Require Import Base.Num Model.BModel Model.Props Model.N50.".into(),
        case_ty: "c09_case".into(),
        agree: "agree_C09".into(),
        cases,
        impl_findings: vec![],
        rule: "shipped model files + generated models (new/existing, with/without blower-door value, windows with/without construction, multipliers, ground/adiabatic/interior elements, zero-volume and zero-wall-area variants); non-trivial = A_o > 0 and V > 0; distinct by content hash".into(),
        stats: json!(stats),
    }
}

pub fn run10(a: &Args) -> Batch {
    let mut cases = vec![];
    let mut stats = std::collections::BTreeMap::<String, usize>::new();
    for (origin, m) in models(a, 0x10) {
        coq::reset_ids();
        let zone = coq::zone_idx(m.meta.climate);
        let (props_term, impl_term, finite, roundtrip, nwin, dj) = match compute(&m) {
            Ok(ind) => {
                let d = &ind.q_soljul_data;
                let mut fin = [d.q_soljul, d.Q_soljul, d.a_wp, d.irradiance_mean, d.fshobst_mean, d.gglshwi_mean, d.f_f_mean].iter().all(|x| x.is_finite());
                let mut det: Vec<_> = d.detail.iter().collect();
                det.sort_by_key(|(o, _)| orient_rank(**o));
                for (_, x) in &det {
                    fin &= [x.gains, x.a, x.irradiance, x.f_f_mean, x.gglshwi_mean, x.fshobst_mean].iter().all(|v| v.is_finite());
                }
                let t = format!(
                    "(Some (mkQSol {} {} {} {} {} {} {} {}))",
                    props::qz(d.q_soljul), props::qz(d.Q_soljul), props::qz(d.a_wp), props::qz(d.irradiance_mean), props::qz(d.fshobst_mean),
                    props::qz(d.gglshwi_mean), props::qz(d.f_f_mean),
                    coq::list(&det, |(o, x)| format!(
                        "({}, mkQDetail {} {} {} {} {} {})",
                        coq::orient(**o), props::qz(x.gains), props::qz(x.a), props::qz(x.irradiance), props::qz(x.f_f_mean), props::qz(x.gglshwi_mean), props::qz(x.fshobst_mean)
                    ))
                );
                // the q_sol;jul block serialises to JSON that loads back
                let rt = serde_json::to_string(d).ok().and_then(|s| serde_json::from_str::<serde_json::Value>(&s).ok()).map_or(false, |v| {
                    serde_json::from_value::<QSolLoad>(v).is_ok()
                });
                for (o, _) in &det {
                    *stats.entry(format!("orient_{}", o)).or_default() += 1;
                }
                (props::eprops(&ind.props), t, fin && props::qsol_inputs_finite(&ind.props), rt, det.len(), serde_json::to_value(d).unwrap())
            }
            Err(e) => {
                // without props nothing can be compared: report as an implementation finding of C14's kind
                *stats.entry("indicator_crashes_skipped".into()).or_default() += 1;
                let _ = e;
                continue;
            }
        };
        // the model's own windows with the tilt and azimuth of their wall (ids that are unique on both sides)
        let win_geo = {
            let mut v = vec![];
            for w in &m.windows {
                if m.windows.iter().filter(|x| x.id == w.id).count() != 1 {
                    continue;
                }
                let ws: Vec<_> = m.walls.iter().filter(|x| x.id == w.wall).collect();
                if ws.len() == 1 {
                    v.push(format!("({}, {}, {})", coq::id(w.id), coq::q(ws[0].geometry.tilt), coq::q(ws[0].geometry.azimuth)));
                }
            }
            format!("[{}]", v.join("; "))
        };
        *stats.entry(format!("zone_{}", m.meta.climate)).or_default() += 1;
        if nwin == 0 {
            *stats.entry("no_envelope_window".into()).or_default() += 1;
        }
        cases.push(Case {
            post: String::new(),
            term: format!("(mkC10 {} {}\n {} {} {} {})", coq::n(zone), props_term, impl_term, win_geo, coq::b(finite), coq::b(roundtrip)),
            json: json!({"origin": origin, "zone": m.meta.climate.to_string(), "model": serde_json::to_value(&m).unwrap(), "q_soljul_data": dj,
                         "classes": if nwin == 0 { vec!["no_envelope_window"] } else { vec![] }}),
            nontrivial: nwin >= 1,
        });
    }
    Batch {
        imports: "From Coq Require Import ZArith NArith QArith List.\nFrom CTE Require Import Base.Num Model.BModel Model.Props Model.QSolJul.".into(),
        case_ty: "c10_case".into(),
        agree: "agree_C10".into(),
        cases,
        impl_findings: vec![],
        rule: "shipped model files + generated models cycling through all 32 climate zones (windows in all orientation classes incl. skylights, F_sh;obst overrides, missing constructions, multipliers, no-window and A_ref = 0 variants); H_sol;jul comes from the regenerated tables; non-trivial = at least one envelope window; distinct by content hash".into(),
        stats: json!(stats),
    }
}

#[derive(serde::Deserialize)]
#[allow(non_snake_case, dead_code)]
struct QSolLoad {
    q_soljul: f32,
    Q_soljul: f32,
    a_wp: f32,
    irradiance_mean: f32,
    fshobst_mean: f32,
    gglshwi_mean: f32,
    f_f_mean: f32,
}

fn orient_rank(o: Orientation) -> usize {
    use Orientation::*;
    match o {
        N => 0,
        NE => 1,
        E => 2,
        SE => 3,
        S => 4,
        SW => 5,
        W => 6,
        NW => 7,
        HZ => 8,
    }
}
