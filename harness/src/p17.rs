//! C17 — schedules: calendar partition, weekday alignment, occupancy and load means.
use crate::{coq, corpus, gen, props, rng::Rng, Args, Batch, Case};
use bemodel::*;
use hulc::bdl::{Data, DaySchedule, Schedule as HSchedule, WeekSchedule, YearSchedule};
use hulc::ctehexml::CtehexmlData;
use serde_json::json;
use std::convert::TryFrom;

const MLEN: [u32; 12] = [31, 28, 31, 30, 31, 30, 31, 31, 30, 31, 30, 31];

fn expand_case(db: &SchedulesDb, origin: &str) -> Case {
    coq::reset_ids();
    let dbt = coq::scheddb(db);
    let mut ids: Vec<Uuid> = db.year.iter().map(|y| y.id).collect();
    ids.push(Uuid::from_u128(0xdead_beef));
    let results: Vec<Vec<Uuid>> = ids.iter().map(|i| db.get_year_as_day_sch(*i)).collect();
    let total: usize = results.iter().map(|v| v.len()).sum();
    Case {
        post: String::new(),
        term: format!(
            "(C17Expand {}\n {} {})",
            dbt,
            coq::list(&ids, |i| coq::id(*i)),
            coq::list(&results, |v| coq::list(v, |i| coq::id(*i)))
        ),
        json: json!({"origin": origin, "kind": "expand", "schedules": serde_json::to_value(db).unwrap(), "expanded_lengths": results.iter().map(|v| v.len()).collect::<Vec<_>>()}),
        nontrivial: total > 0,
    }
}

/// malformed stream: weeks with != 7 days, empty weeks, unknown weekly ids, period sums != 365
fn damage_db(r: &mut Rng, db: &mut SchedulesDb) {
    for w in db.week.iter_mut() {
        match r.below(6) {
            0 => w.values.clear(),
            1 => {
                if let Some(v) = w.values.first_mut() {
                    v.1 += r.range(1, 3) as u32
                }
            }
            2 => {
                if let Some(v) = w.values.last_mut() {
                    v.1 = v.1.saturating_sub(1)
                }
            }
            _ => {}
        }
    }
    for y in db.year.iter_mut() {
        for v in y.values.iter_mut() {
            if r.chance(1, 8) {
                v.0 = gen::uid(r);
            }
            if r.chance(1, 8) {
                v.1 = r.range(0, 40) as u32;
            }
        }
    }
}

fn hulc_project(dates: &[(u32, u32)], week_names: &[String], day_vals: &[f32]) -> CtehexmlData {
    // three daily schedules d0 d1 d2, one weekly schedule "w0" using week_names, weekly "w1",
    // one yearly schedule "y0" with the given end dates alternating w0 / w1
    let mut schedules = vec![];
    for k in 0..3 {
        schedules.push(HSchedule::Day(DaySchedule {
            name: format!("d{}", k),
            values: if k == 0 { day_vals.to_vec() } else { vec![k as f32 * 0.25] },
            ..Default::default()
        }));
    }
    schedules.push(HSchedule::Week(WeekSchedule { name: "w0".into(), days: week_names.to_vec(), ..Default::default() }));
    schedules.push(HSchedule::Week(WeekSchedule { name: "w1".into(), days: vec!["d1".into()], ..Default::default() }));
    schedules.push(HSchedule::Year(YearSchedule {
        name: "y0".into(),
        days: dates.iter().map(|d| d.0).collect(),
        months: dates.iter().map(|d| d.1).collect(),
        weeks: (0..dates.len()).map(|k| format!("w{}", k % 2)).collect(),
        ..Default::default()
    }));
    CtehexmlData { bdldata: Data { schedules, ..Default::default() }, ..Default::default() }
}

fn convert(d: &CtehexmlData) -> Result<Model, String> {
    match crate::guarded(std::panic::AssertUnwindSafe(|| Model::try_from(d))) {
        Ok(Ok(m)) => Ok(m),
        Ok(Err(e)) => Err(format!("Err: {}", e)),
        Err(p) => Err(format!("panic: {}", p)),
    }
}

fn dates_case(dates: &[(u32, u32)], findings: &mut Vec<serde_json::Value>) -> Option<Case> {
    let week: Vec<String> = vec!["d0".into()];
    let d = hulc_project(dates, &week, &[1.0]);
    match convert(&d) {
        Ok(m) => {
            let y = m.schedules.year.iter().find(|y| y.name == "y0")?;
            let counts: Vec<i128> = y.values.iter().map(|v| v.1 as i128).collect();
            Some(Case {
                post: String::new(),
                term: format!(
                    "(C17Dates {} {})",
                    coq::list(dates, |(d, m)| format!("({}, {})", coq::z(*d as i128), coq::z(*m as i128))),
                    coq::list(&counts, |c| coq::z(*c))
                ),
                json: json!({"kind": "dates", "end_dates_day_month": dates, "period_lengths": counts}),
                nontrivial: dates.len() >= 2,
            })
        }
        Err(e) => {
            findings.push(json!({"what": "conversion of a schedule with increasing end dates failed", "dates": dates, "error": e, "classes": ["dates_conversion_failed"]}));
            None
        }
    }
}

fn week_case(names: &[usize], findings: &mut Vec<serde_json::Value>) -> Option<Case> {
    let wn: Vec<String> = names.iter().map(|k| format!("d{}", k)).collect();
    let d = hulc_project(&[(31, 12)], &wn, &[1.0]);
    match convert(&d) {
        Ok(m) => {
            let w = m.schedules.week.iter().find(|w| w.name == "w0")?;
            let idx = |id: Uuid| m.schedules.day.iter().position(|d| d.id == id).and_then(|p| m.schedules.day[p].name[1..].parse::<usize>().ok());
            let vals: Vec<(usize, u32)> = w.values.iter().map(|(i, c)| (idx(*i).unwrap_or(99), *c)).collect();
            Some(Case {
                post: String::new(),
                term: format!(
                    "(C17Week {} {})",
                    coq::list(names, |k| coq::n(*k + 1)),
                    coq::list(&vals, |(k, c)| format!("({}, {})", coq::n(*k + 1), coq::n(*c)))
                ),
                json: json!({"kind": "week", "names": wn, "runs": vals}),
                nontrivial: true,
            })
        }
        Err(e) => {
            findings.push(json!({"what": "conversion of a weekly schedule failed", "names": wn, "error": e, "classes": ["week_conversion_failed"]}));
            None
        }
    }
}

fn day_case(vals: &[f32], findings: &mut Vec<serde_json::Value>) -> Option<Case> {
    let d = hulc_project(&[(31, 12)], &["d0".to_string()], vals);
    match convert(&d) {
        Ok(m) => {
            let ds = m.schedules.day.iter().find(|w| w.name == "d0")?;
            Some(Case {
                post: String::new(),
                term: format!("(C17Day {} {})", coq::list(vals, |v| coq::q(*v)), coq::list(&ds.values, |v| coq::q(*v))),
                json: json!({"kind": "day", "values": vals, "converted": ds.values}),
                nontrivial: true,
            })
        }
        Err(e) => {
            findings.push(json!({"what": "conversion of a daily schedule failed", "values": vals, "error": e, "classes": ["day_conversion_failed"]}));
            None
        }
    }
}

fn props_case(m: &Model, origin: &str) -> Option<Case> {
    coq::reset_ids();
    let mt = coq::model(m);
    let ind = crate::guarded(std::panic::AssertUnwindSafe(|| m.energy_indicators())).ok()?;
    let p = &ind.props;
    let sps: Vec<_> = p.spaces.iter().collect();
    let lds: Vec<_> = p.loads.iter().collect();
    let fin = |x: f32| if x.is_finite() { Some(x) } else { None };
    Some(Case {
        post: String::new(),
        term: format!(
            "(C17Props {}\n {} {} {} {})",
            mt,
            coq::list(&sps, |(i, s)| format!(
                "({}, mkSpq {} {} {} {} {})",
                coq::id(**i), coq::spacetype(s.kind), coq::b(s.inside_tenv), props::qz(s.area), props::qz(s.multiplier), coq::optid(&s.loads)
            )),
            coq::n(p.global.occ_spaces_hours_in_use),
            coq::optq(&fin(p.global.occ_spaces_average_load)),
            coq::list(&lds, |(i, l)| format!("({}, {})", coq::id(**i), coq::optq(&fin(l.loads_avg))))
        ),
        json: json!({"origin": origin, "kind": "props", "model": serde_json::to_value(m).unwrap(),
                     "hours_in_use": p.global.occ_spaces_hours_in_use, "average_load": p.global.occ_spaces_average_load}),
        nontrivial: p.global.occ_spaces_hours_in_use > 0,
    })
}

pub fn run(a: &Args) -> Batch {
    let mut r = Rng::new(a.seed ^ 0x17);
    let mut cases = vec![];
    let mut findings = vec![];
    let mut stats = std::collections::BTreeMap::<&str, usize>::new();
    // (b) every single end date of the year, exhaustively in every tier
    let mut doy = 0;
    for m in 1..=12u32 {
        for d in 1..=MLEN[m as usize - 1] {
            doy += 1;
            let dates = if doy == 365 { vec![(31, 12)] } else { vec![(d, m), (31, 12)] };
            if let Some(c) = dates_case(&dates, &mut findings) {
                cases.push(c);
                *stats.entry("single_end_dates").or_default() += 1;
            }
        }
    }
    let n = a.n;
    for i in 0..n / 8 {
        let mut rr = r.fork(1000 + i as u64);
        let np = rr.range(1, 12) as usize;
        let mut days: Vec<u32> = (0..np - 1).map(|_| rr.range(1, 364) as u32).collect();
        days.push(365);
        days.sort_unstable();
        days.dedup();
        let dates: Vec<(u32, u32)> = days
            .iter()
            .map(|&x| {
                let (mut m, mut rest) = (1u32, x);
                while rest > MLEN[m as usize - 1] {
                    rest -= MLEN[m as usize - 1];
                    m += 1;
                }
                (rest, m)
            })
            .collect();
        if let Some(c) = dates_case(&dates, &mut findings) {
            cases.push(c);
            *stats.entry("random_date_lists").or_default() += 1;
        }
    }
    // (c) weekly and daily HULC schedules
    for i in 0..n / 8 {
        let mut rr = r.fork(2000 + i as u64);
        let names: Vec<usize> = if rr.chance(1, 6) { vec![rr.below(3)] } else { (0..7).map(|_| if rr.chance(2, 3) { 0 } else { rr.below(3) }).collect() };
        if let Some(c) = week_case(&names, &mut findings) {
            cases.push(c);
            *stats.entry("weekly").or_default() += 1;
        }
        let vals: Vec<f32> = if rr.chance(1, 4) { vec![rr.grid(0.0, 1.0, 0.05)] } else { (0..24).map(|_| rr.grid(0.0, 30.0, 0.5)).collect() };
        if let Some(c) = day_case(&vals, &mut findings) {
            cases.push(c);
            *stats.entry("daily").or_default() += 1;
        }
    }
    // (a) expansion of yearly schedules, well-formed and malformed
    for i in 0..n / 2 {
        let mut rr = r.fork(3000 + i as u64);
        let mut db = gen::gen_schedules(&mut rr);
        if i % 3 == 2 {
            damage_db(&mut rr, &mut db);
            *stats.entry("expand_malformed").or_default() += 1;
        } else {
            *stats.entry("expand_wellformed").or_default() += 1;
        }
        cases.push(expand_case(&db, &format!("gen seed={} i={}", a.seed, i)));
    }
    // (d) occupied hours and mean loads
    for (name, m) in corpus::shipped_models() {
        if let Some(c) = props_case(&m, &name) {
            cases.push(c);
            *stats.entry("props_shipped").or_default() += 1;
        }
    }
    let cfg = gen::GenCfg { max_spaces: 6, shades: false, ..Default::default() };
    for i in 0..n / 4 {
        let mut rr = r.fork(4000 + i as u64);
        let mut m = gen::gen_model(&mut rr, &cfg);
        if i % 4 == 3 {
            gen::add_unused(&mut rr, &mut m);
        }
        if let Some(c) = props_case(&m, &format!("gen seed={} i={}", a.seed, i)) {
            cases.push(c);
            *stats.entry("props_generated").or_default() += 1;
        }
    }
    Batch {
        imports: "From Coq Require Import ZArith NArith QArith List.\nFrom CTE Require Import Base.Num Model.BModel Model.Props Model.Schedules.".into(),
        case_ty: "c17_case".into(),
        agree: "agree_C17".into(),
        cases,
        impl_findings: findings,
        rule: "all 365 single end dates (exhaustive) + random increasing date lists through Model::try_from; weekly (7 names / 1) and daily (24 values / 1) HULC schedules; get_year_as_day_sch on generated schedule databases, one third malformed (weeks of != 7 days, empty weeks, unknown weekly ids, arbitrary period lengths); occupied hours / mean loads on shipped and generated models with 1..6 spaces sharing schedules; non-trivial = non-empty result; distinct by content hash".into(),
        stats: json!(stats),
    }
}
