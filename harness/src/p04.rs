//! C04 — the JSON model format is lossless, idempotent and stable.
use crate::{coq, corpus, gen, rng::Rng, Args, Batch, Case};
use bemodel::*;
use serde_json::{json, Value};

fn s(x: &str) -> String {
    format!("(JStr \"{}\")", x.replace('"', "\"\""))
}
fn num(x: f32) -> String {
    format!("(JNum {})", coq::q(x))
}
fn int(x: i64) -> String {
    format!("(JNum (inject_Z {}))", coq::z(x as i128))
}
fn b(x: bool) -> String {
    format!("(JBool {})", x)
}
fn id(u: &Uuid) -> String {
    s(&u.to_string())
}
fn opt<T>(o: &Option<T>, f: impl Fn(&T) -> String) -> String {
    match o {
        Some(x) => f(x),
        None => "JNull".into(),
    }
}
fn arr<T>(v: &[T], f: impl Fn(&T) -> String) -> String {
    format!("(JArr [{}])", v.iter().map(f).collect::<Vec<_>>().join("; "))
}
fn obj(fields: Vec<(&str, String)>) -> String {
    format!("(JObj [{}])", fields.iter().map(|(k, v)| format!("(\"{}\", {})", k, v)).collect::<Vec<_>>().join("; "))
}

fn wallgeom(g: &WallGeom) -> String {
    obj(vec![
        ("tilt", num(g.tilt)),
        ("azimuth", num(g.azimuth)),
        ("position", opt(&g.position, |p| format!("(JArr [{}; {}; {}])", num(p.x), num(p.y), num(p.z)))),
        ("polygon", arr(&g.polygon, |p| format!("(JArr [{}; {}])", num(p.x), num(p.y)))),
    ])
}

/// the model with EVERY field written out, in declaration order (independent of serde)
pub fn full(m: &Model) -> String {
    let mt = &m.meta;
    let meta = obj(vec![
        ("name", s(&mt.name)),
        ("is_new_building", b(mt.is_new_building)),
        ("is_dwelling", b(mt.is_dwelling)),
        ("num_dwellings", int(mt.num_dwellings as i64)),
        ("climate", s(&format!("{:?}", mt.climate))),
        ("global_ventilation_l_s", opt(&mt.global_ventilation_l_s, |x| num(*x))),
        ("n50_test_ach", opt(&mt.n50_test_ach, |x| num(*x))),
        ("d_perim_insulation", num(mt.d_perim_insulation)),
        ("rn_perim_insulation", num(mt.rn_perim_insulation)),
    ]);
    let spaces = arr(&m.spaces, |x| {
        obj(vec![
            ("id", id(&x.id)),
            ("name", s(&x.name)),
            ("multiplier", num(x.multiplier)),
            ("kind", s(&format!("{:?}", x.kind))),
            ("inside_tenv", b(x.inside_tenv)),
            ("height", num(x.height)),
            ("z", num(x.z)),
            ("loads", opt(&x.loads, id)),
            ("thermostat", opt(&x.thermostat, id)),
            ("n_v", opt(&x.n_v, |v| num(*v))),
            ("illuminance", opt(&x.illuminance, |v| num(*v))),
        ])
    });
    let walls = arr(&m.walls, |x| {
        obj(vec![
            ("id", id(&x.id)),
            ("name", s(&x.name)),
            ("bounds", s(&format!("{:?}", x.bounds))),
            ("cons", id(&x.cons)),
            ("space", id(&x.space)),
            ("next_to", opt(&x.next_to, id)),
            ("geometry", wallgeom(&x.geometry)),
        ])
    });
    let windows = arr(&m.windows, |x| {
        let g = &x.geometry;
        obj(vec![
            ("id", id(&x.id)),
            ("name", s(&x.name)),
            ("cons", id(&x.cons)),
            ("wall", id(&x.wall)),
            (
                "geometry",
                obj(vec![
                    ("position", opt(&g.position, |p| format!("(JArr [{}; {}])", num(p.x), num(p.y)))),
                    ("height", num(g.height)),
                    ("width", num(g.width)),
                    ("setback", num(g.setback)),
                ]),
            ),
        ])
    });
    let tbs = arr(&m.thermal_bridges, |x| {
        obj(vec![("id", id(&x.id)), ("name", s(&x.name)), ("kind", s(&format!("{:?}", x.kind))), ("l", num(x.l)), ("psi", num(x.psi))])
    });
    let shades = arr(&m.shades, |x| obj(vec![("id", id(&x.id)), ("name", s(&x.name)), ("geometry", wallgeom(&x.geometry))]));
    let c = &m.cons;
    let cons = obj(vec![
        (
            "wallcons",
            arr(&c.wallcons, |x| {
                obj(vec![
                    ("id", id(&x.id)),
                    ("name", s(&x.name)),
                    ("layers", arr(&x.layers, |l| obj(vec![("material", id(&l.material)), ("e", num(l.e))]))),
                    ("absorptance", num(x.absorptance)),
                ])
            }),
        ),
        (
            "wincons",
            arr(&c.wincons, |x| {
                obj(vec![
                    ("id", id(&x.id)),
                    ("name", s(&x.name)),
                    ("glass", id(&x.glass)),
                    ("frame", id(&x.frame)),
                    ("f_f", num(x.f_f)),
                    ("delta_u", num(x.delta_u)),
                    ("g_glshwi", opt(&x.g_glshwi, |v| num(*v))),
                    ("c_100", num(x.c_100)),
                ])
            }),
        ),
        (
            "materials",
            arr(&c.materials, |x| {
                let mut f = vec![("id", id(&x.id)), ("name", s(&x.name))];
                match x.properties {
                    MatProps::Detailed { conductivity, density, specific_heat, vapour_diff } => {
                        f.push(("conductivity", num(conductivity)));
                        f.push(("density", num(density)));
                        f.push(("specific_heat", num(specific_heat)));
                        f.push(("vapour_diff", opt(&vapour_diff, |v| num(*v))));
                    }
                    MatProps::Resistance { resistance, vapour_diff } => {
                        f.push(("resistance", num(resistance)));
                        f.push(("vapour_diff", opt(&vapour_diff, |v| num(*v))));
                    }
                }
                obj(f)
            }),
        ),
        ("glasses", arr(&c.glasses, |x| obj(vec![("id", id(&x.id)), ("name", s(&x.name)), ("u_value", num(x.u_value)), ("g_gln", num(x.g_gln))]))),
        ("frames", arr(&c.frames, |x| obj(vec![("id", id(&x.id)), ("name", s(&x.name)), ("u_value", num(x.u_value)), ("absorptivity", num(x.absorptivity))]))),
    ]);
    let sv = |v: &[(Uuid, u32)]| arr(v, |(i, c)| format!("(JArr [{}; {}])", id(i), int(*c as i64)));
    let sch = &m.schedules;
    let schedules = obj(vec![
        ("year", arr(&sch.year, |x| obj(vec![("id", id(&x.id)), ("name", s(&x.name)), ("values", sv(&x.values))]))),
        ("week", arr(&sch.week, |x| obj(vec![("id", id(&x.id)), ("name", s(&x.name)), ("values", sv(&x.values))]))),
        ("day", arr(&sch.day, |x| obj(vec![("id", id(&x.id)), ("name", s(&x.name)), ("values", arr(&x.values, |v| num(*v)))]))),
    ]);
    let loads = arr(&m.loads, |x| {
        obj(vec![
            ("id", id(&x.id)),
            ("name", s(&x.name)),
            ("area_per_person", num(x.area_per_person)),
            ("people_schedule", opt(&x.people_schedule, id)),
            ("people_sensible", num(x.people_sensible)),
            ("people_latent", num(x.people_latent)),
            ("equipment", num(x.equipment)),
            ("equipment_schedule", opt(&x.equipment_schedule, id)),
            ("lighting", num(x.lighting)),
            ("lighting_schedule", opt(&x.lighting_schedule, id)),
        ])
    });
    let thermostats = arr(&m.thermostats, |x| obj(vec![("id", id(&x.id)), ("name", s(&x.name)), ("temp_max", opt(&x.temp_max, id)), ("temp_min", opt(&x.temp_min, id))]));
    let ovw: Vec<_> = m.overrides.walls.iter().collect();
    let ovn: Vec<_> = m.overrides.windows.iter().collect();
    let overrides = format!(
        "(JObj [(\"walls\", JObj [{}]); (\"windows\", JObj [{}])])",
        ovw.iter().map(|(k, v)| format!("(\"{}\", {})", k, obj(vec![("u_value", opt(&v.u_value, |x| num(*x)))]))).collect::<Vec<_>>().join("; "),
        ovn.iter()
            .map(|(k, v)| format!("(\"{}\", {})", k, obj(vec![("u_value", opt(&v.u_value, |x| num(*x))), ("f_shobst", opt(&v.f_shobst, |x| num(*x)))])))
            .collect::<Vec<_>>()
            .join("; ")
    );
    let extra = opt(&m.extra, |v| {
        arr(v, |x| {
            obj(vec![
                ("name", s(&x.name)),
                ("bounds", s(&format!("{:?}", x.bounds))),
                ("spacetype", s(&format!("{:?}", x.spacetype))),
                ("nextspace", opt(&x.nextspace, id)),
                ("nextspacetype", opt(&x.nextspacetype, |t| s(&format!("{:?}", t)))),
                ("tilt", s(&format!("{:?}", x.tilt))),
                ("cons", id(&x.cons)),
                ("u", num(x.u)),
                ("computed_u", num(x.computed_u)),
            ])
        })
    });
    obj(vec![
        ("meta", meta), ("spaces", spaces), ("walls", walls), ("windows", windows), ("thermal_bridges", tbs), ("shades", shades),
        ("cons", cons), ("schedules", schedules), ("loads", loads), ("thermostats", thermostats), ("overrides", overrides), ("extra", extra),
    ])
}

/// a serde_json::Value as a Coq jv term (numbers exactly)
pub fn jv(v: &Value) -> String {
    match v {
        Value::Null => "JNull".into(),
        Value::Bool(x) => b(*x),
        Value::Number(n) => {
            if let Some(i) = n.as_i64() {
                int(i)
            } else {
                // the text holds the shortest decimal that reads back as the same f32 (serde_json / ryu,
                // a trusted dependency): compare the f32 it denotes
                format!("(JNum {})", coq::q(n.as_f64().unwrap() as f32))
            }
        }
        Value::String(x) => s(x),
        Value::Array(a) => format!("(JArr [{}])", a.iter().map(jv).collect::<Vec<_>>().join("; ")),
        Value::Object(o) => format!("(JObj [{}])", o.iter().map(|(k, x)| format!("(\"{}\", {})", k.replace('"', "\"\""), jv(x))).collect::<Vec<_>>().join("; ")),
    }
}

pub fn one_case(m: &Model, origin: &str) -> Case {
    let text = m.as_json().unwrap();
    let value: Value = serde_json::from_str(&text).unwrap();
    let back = Model::from_json(&text);
    let (full_back, text2) = match &back {
        Ok(m2) => (full(m2), m2.as_json().unwrap()),
        Err(e) => (format!("(JStr \"load error: {}\")", e.to_string().replace('"', "'")), String::new()),
    };
    let f = full(m);
    let term = format!("(mkC04\n {}\n {}\n {}\n {})", f, jv(&value), full_back, coq::b(text2 == text));
    Case {
        post: String::new(),
        term,
        json: json!({"origin": origin, "model_json": value, "text_idempotent": text2 == text, "loads_back": back.is_ok()}),
        nontrivial: !m.walls.is_empty(),
    }
}

/// push values onto / next to their serde defaults, blank names, negative zeros
fn defaults_variant(r: &mut Rng, m: &mut Model) {
    for x in m.spaces.iter_mut() {
        if r.chance(1, 2) {
            x.name.clear();
        }
        x.multiplier = *r.pick(&[1.0, 1.0, 2.0, 0.999_999_9, 0.0]);
        x.inside_tenv = r.chance(1, 2);
        x.kind = *r.pick(&[SpaceType::CONDITIONED, SpaceType::UNCONDITIONED, SpaceType::UNINHABITED]);
        x.z = *r.pick(&[0.0, -0.0, 1e-30, 3.0]);
    }
    for x in m.walls.iter_mut() {
        if r.chance(1, 3) {
            x.name.clear();
        }
        if r.chance(1, 5) {
            x.geometry.polygon.clear();
        }
    }
    for x in m.windows.iter_mut() {
        if r.chance(1, 3) {
            x.name.clear();
        }
    }
    for x in m.thermal_bridges.iter_mut() {
        x.l = *r.pick(&[0.0, -0.0, 1.0, 12.5]);
        x.psi = *r.pick(&[0.0, 0.1, -0.0]);
        if r.chance(1, 2) {
            x.kind = ThermalBridgeKind::GENERIC;
        }
        if r.chance(1, 3) {
            x.name.clear();
        }
    }
    if r.chance(1, 2) {
        m.meta.name.clear();
    }
    m.meta.d_perim_insulation = *r.pick(&[0.0, -0.0, 1.0]);
    m.meta.rn_perim_insulation = *r.pick(&[0.0, 1e30, 0.5]);
    for c in m.cons.wallcons.iter_mut() {
        if r.chance(1, 3) {
            c.name.clear();
        }
        if r.chance(1, 4) {
            c.layers.clear();
        }
    }
    for c in m.cons.materials.iter_mut() {
        if r.chance(1, 3) {
            c.name.clear();
        }
    }
    // every numeric / optional field of the construction database at the values a skip rule or a
    // default could single out (0, -0, 1, the type's Default, None)
    for c in m.cons.wincons.iter_mut() {
        if r.chance(1, 3) {
            c.name.clear();
        }
        c.f_f = *r.pick(&[0.0, -0.0, 1.0, 0.25]);
        c.delta_u = *r.pick(&[0.0, -0.0, 10.0, 1.0]);
        c.c_100 = *r.pick(&[0.0, -0.0, 50.0, 27.0, 1.0, 3.0, 9.0]);
        c.g_glshwi = *r.pick(&[None, Some(0.0), Some(1.0), Some(0.3)]);
    }
    for g in m.cons.glasses.iter_mut() {
        if r.chance(1, 3) {
            g.name.clear();
        }
        g.u_value = *r.pick(&[0.0, -0.0, 1.0, 2.7]);
        g.g_gln = *r.pick(&[0.0, 1.0, 0.6]);
    }
    for f in m.cons.frames.iter_mut() {
        if r.chance(1, 3) {
            f.name.clear();
        }
        f.u_value = *r.pick(&[0.0, -0.0, 1.0, 2.2]);
        f.absorptivity = *r.pick(&[0.0, 1.0, 0.6]);
    }
    for c in m.cons.wallcons.iter_mut() {
        c.absorptance = *r.pick(&[0.0, -0.0, 1.0, 0.6]);
        for l in c.layers.iter_mut() {
            if r.chance(1, 4) {
                l.e = *r.pick(&[0.0, 1.0]);
            }
        }
    }
    for w in m.windows.iter_mut() {
        w.geometry.setback = *r.pick(&[0.0, -0.0, 1.0, 0.2]);
        w.geometry.width = *r.pick(&[0.0, 1.0, 1.5]);
        w.geometry.height = *r.pick(&[0.0, 1.0, 1.2]);
        if r.chance(1, 3) {
            w.geometry.position = None;
        }
    }
    for w in m.walls.iter_mut() {
        w.geometry.tilt = *r.pick(&[0.0, 90.0, 180.0, 1.0]);
        w.geometry.azimuth = *r.pick(&[0.0, -0.0, 180.0, -90.0]);
        if r.chance(1, 4) {
            w.geometry.position = None;
        }
        if r.chance(1, 4) {
            w.next_to = None;
        }
    }
    for x in m.spaces.iter_mut() {
        x.height = *r.pick(&[0.0, 1.0, 2.7]);
        x.n_v = *r.pick(&[None, Some(0.0), Some(1.0)]);
        x.illuminance = *r.pick(&[None, Some(0.0), Some(100.0)]);
    }
    m.meta.global_ventilation_l_s = *r.pick(&[None, Some(0.0), Some(30.0)]);
    m.meta.n50_test_ach = *r.pick(&[None, Some(0.0), Some(3.0)]);
    for x in m.schedules.day.iter_mut() {
        if r.chance(1, 4) {
            x.values.clear();
        }
        if r.chance(1, 3) {
            x.name.clear();
        }
    }
    for x in m.loads.iter_mut() {
        if r.chance(1, 3) {
            x.name.clear();
        }
    }
    if r.chance(1, 3) {
        m.extra = Some(
            (0..r.range(0, 2))
                .map(|k| ExtraData {
                    name: format!("extra \"{}\"", k),
                    bounds: BoundaryType::GROUND,
                    spacetype: SpaceType::UNINHABITED,
                    nextspace: if r.chance(1, 2) { Some(gen::uid(r)) } else { None },
                    nextspacetype: if r.chance(1, 2) { Some(SpaceType::CONDITIONED) } else { None },
                    tilt: Tilt::TOP,
                    cons: gen::uid(r),
                    u: 0.5,
                    computed_u: 0.25,
                })
                .collect(),
        );
    }
}

pub fn run(a: &Args) -> Batch {
    let mut r = Rng::new(a.seed ^ 0x04);
    let mut cases = vec![];
    let mut findings = vec![];
    let mut stats = std::collections::BTreeMap::<&str, usize>::new();
    // every model file shipped with the repository loads and re-serialises to the same JSON value
    let dir = corpus::repo().join("bemodel/tests/data");
    let mut names: Vec<_> = std::fs::read_dir(&dir).map(|d| d.filter_map(|e| e.ok()).map(|e| e.path()).collect()).unwrap_or_default();
    names.sort();
    for p in names {
        if p.extension().map_or(false, |e| e == "json") {
            let name = p.file_name().unwrap().to_string_lossy().to_string();
            let txt = std::fs::read_to_string(&p).unwrap_or_default();
            let orig: Value = match serde_json::from_str(&txt) {
                Ok(v) => v,
                Err(_) => continue,
            };
            match Model::from_json(&txt) {
                Ok(m) => {
                    let again: Value = serde_json::from_str(&m.as_json().unwrap()).unwrap();
                    if !values_equal(&orig, &again) {
                        findings.push(json!({"what": "a shipped model file does not re-serialise to the same JSON value", "file": name, "classes": ["shipped_value_changed"], "diff": first_diff(&orig, &again, "")}));
                    }
                    *stats.entry("shipped_files").or_default() += 1;
                    if a.thorough || txt.len() < 120_000 {
                        cases.push(one_case(&m, &name));
                    }
                }
                Err(e) => findings.push(json!({"what": "a shipped model file does not load", "file": name, "error": e.to_string(), "classes": ["shipped_does_not_load"]})),
            }
        }
    }
    let cfg = gen::GenCfg { max_spaces: 3, ..Default::default() };
    for i in 0..a.n {
        let mut rr = r.fork(i as u64);
        let mut m = gen::gen_model(&mut rr, &cfg);
        match i % 4 {
            0 => {}
            1 | 2 => defaults_variant(&mut rr, &mut m),
            _ => {
                gen::add_unused(&mut rr, &mut m);
                if rr.chance(1, 2) {
                    m.cons = ConsDb::default();
                }
                if rr.chance(1, 2) {
                    m.schedules = SchedulesDb::default();
                }
                if rr.chance(1, 2) {
                    m.overrides = PropsOverrides::default();
                }
            }
        }
        cases.push(one_case(&m, &format!("gen seed={} i={}", a.seed, i)));
    }
    cases.push(one_case(&Model::default(), "Model::default()"));
    Batch {
        imports: "From Coq Require Import ZArith NArith QArith List String.\nFrom CTE Require Import Base.Num Model.Schema Model.SchemaCase.\nLocal Open Scope string_scope.".into(),
        case_ty: "c04_case".into(),
        agree: "agree_C04".into(),
        cases,
        impl_findings: findings,
        rule: "shipped model files (value stability; the smaller ones also as full cases) + generated models covering every field, both material-property variants, present/absent options, values equal to / next to / far from each serde default (blank names, multiplier 1, inside_tenv true, z = 0 and -0, zero-length bridges, GENERIC kind), empty and non-empty collections, overrides, extra data; the full form is printed field by field by the harness, independently of serde; non-trivial = the model has walls; distinct by content hash".into(),
        stats: json!(stats),
    }
}

fn values_equal(a: &Value, b: &Value) -> bool {
    match (a, b) {
        (Value::Number(x), Value::Number(y)) => x.as_f64().map(|v| v as f32) == y.as_f64().map(|v| v as f32),
        (Value::Array(x), Value::Array(y)) => x.len() == y.len() && x.iter().zip(y).all(|(p, q)| values_equal(p, q)),
        (Value::Object(x), Value::Object(y)) => x.len() == y.len() && x.iter().all(|(k, v)| y.get(k).map_or(false, |w| values_equal(v, w))),
        _ => a == b,
    }
}
fn first_diff(a: &Value, b: &Value, path: &str) -> String {
    match (a, b) {
        (Value::Object(x), Value::Object(y)) => {
            for (k, v) in x {
                match y.get(k) {
                    None => return format!("{}/{} dropped", path, k),
                    Some(w) => {
                        let d = first_diff(v, w, &format!("{}/{}", path, k));
                        if !d.is_empty() {
                            return d;
                        }
                    }
                }
            }
            for k in y.keys() {
                if !x.contains_key(k) {
                    return format!("{}/{} added", path, k);
                }
            }
            String::new()
        }
        (Value::Array(x), Value::Array(y)) => {
            if x.len() != y.len() {
                return format!("{} length {} -> {}", path, x.len(), y.len());
            }
            for (i, (p, q)) in x.iter().zip(y).enumerate() {
                let d = first_diff(p, q, &format!("{}/{}", path, i));
                if !d.is_empty() {
                    return d;
                }
            }
            String::new()
        }
        _ => {
            if values_equal(a, b) {
                String::new()
            } else {
                format!("{}: {} -> {}", path, a, b)
            }
        }
    }
}
