//! C05 — conversion and indicators are deterministic, reproducible and history-independent.
//! Every operation of a pool (convert project p / compute the indicators of model m) is run in many
//! contexts — repeated in this process, first thing in a fresh process, after other operations in a
//! worker process (in both orders for models sharing ids), concurrently on 16 threads — and the
//! (operation, digest of output) observations are checked in Coq to be a function of the operation.
use crate::hproj::{self, Outcome, Src};
use crate::{corpus, gen, rng::Rng, Args, Batch, Case};
use bemodel::Model;
use serde_json::{json, Value};
use std::io::{BufRead, BufReader, Write};
use std::process::{Command, Stdio};
use std::sync::Arc;

#[derive(Clone)]
pub enum Op {
    /// kind 0 = .ctehexml, 1 = .cte
    Convert { name: String, kind: u8, text: String },
    Ind { name: String, json: String },
}

fn fnv_bytes(b: &[u8]) -> u64 {
    let mut h = 0xcbf29ce484222325u64;
    for x in b {
        h ^= *x as u64;
        h = h.wrapping_mul(0x100000001b3);
    }
    h
}

impl Op {
    pub fn name(&self) -> &str {
        match self {
            Op::Convert { name, .. } | Op::Ind { name, .. } => name,
        }
    }
    pub fn key(&self) -> u64 {
        match self {
            Op::Convert { kind, text, .. } => fnv_bytes(format!("convert{}:{}", kind, text).as_bytes()),
            Op::Ind { json, .. } => fnv_bytes(format!("ind:{}", json).as_bytes()),
        }
    }
    fn line(&self) -> String {
        match self {
            Op::Convert { kind, text, .. } => json!({"op": "convert", "kind": kind, "text": text}).to_string(),
            Op::Ind { json, .. } => json!({"op": "ind", "json": json}).to_string(),
        }
    }
    /// runs the operation on the implementation: (digest of the output, short class)
    pub fn exec(&self) -> (u64, &'static str) {
        match self {
            Op::Convert { kind, text, .. } => {
                let src = if *kind == 0 { Src::Ctehexml(text.clone()) } else { Src::Cte(text.clone()) };
                match hproj::convert(&src) {
                    Outcome::Ok(m) => match m.as_json() {
                        Ok(t) => (fnv_bytes(t.as_bytes()), "ok"),
                        Err(e) => (fnv_bytes(format!("JSONERR {}", e).as_bytes()), "jsonerr"),
                    },
                    Outcome::Err(e) => (fnv_bytes(format!("ERR {}", e).as_bytes()), "err"),
                    Outcome::Panic(p) => (fnv_bytes(format!("PANIC {}", p).as_bytes()), "panic"),
                }
            }
            Op::Ind { json, .. } => match Model::from_json(json) {
                Err(e) => (fnv_bytes(format!("LOADERR {}", e).as_bytes()), "loaderr"),
                Ok(m) => match crate::guarded(std::panic::AssertUnwindSafe(|| m.energy_indicators().as_json())) {
                    Ok(Ok(t)) => {
                        // compared as serde values (canonical text of the value)
                        let v: Value = serde_json::from_str(&t).unwrap_or(Value::Null);
                        (fnv_bytes(v.to_string().as_bytes()), "ok")
                    }
                    Ok(Err(e)) => (fnv_bytes(format!("JSONERR {}", e).as_bytes()), "jsonerr"),
                    Err(p) => (fnv_bytes(format!("PANIC {}", p).as_bytes()), "panic"),
                },
            },
        }
    }
}

fn op_of_line(l: &str) -> Option<Op> {
    let v: Value = serde_json::from_str(l).ok()?;
    match v["op"].as_str()? {
        "convert" => Some(Op::Convert { name: String::new(), kind: v["kind"].as_u64()? as u8, text: v["text"].as_str()?.to_string() }),
        "ind" => Some(Op::Ind { name: String::new(), json: v["json"].as_str()?.to_string() }),
        _ => None,
    }
}

/// `vharness c05-worker`: one operation per stdin line, one "<digest> <class>" line per operation
pub fn worker() {
    let stdin = std::io::stdin();
    for line in stdin.lock().lines() {
        let line = match line {
            Ok(l) => l,
            Err(_) => break,
        };
        match op_of_line(&line) {
            Some(op) => {
                let (d, c) = op.exec();
                println!("C05OUT {} {}", d, c);
            }
            None => println!("C05OUT 0 badline"),
        }
        let _ = std::io::stdout().flush();
    }
}

/// runs a history in a fresh worker process; None when the process died or produced garbage
fn run_in_process(h: &[Arc<Op>]) -> Option<Vec<u64>> {
    let exe = std::env::current_exe().ok()?;
    let mut child = Command::new(exe).arg("c05-worker").stdin(Stdio::piped()).stdout(Stdio::piped()).stderr(Stdio::null()).spawn().ok()?;
    let mut tx = child.stdin.take()?;
    let lines: Vec<String> = h.iter().map(|o| o.line()).collect();
    let writer = std::thread::spawn(move || {
        for l in lines {
            if writeln!(tx, "{}", l).is_err() {
                break;
            }
        }
    });
    let out = child.stdout.take()?;
    let mut res = vec![];
    for l in BufReader::new(out).lines().flatten() {
        // anything else on stdout is the library's own printing (C01's business)
        if let Some(rest) = l.strip_prefix("C05OUT ") {
            res.push(rest.split(' ').next()?.parse::<u64>().ok()?);
        }
    }
    let _ = writer.join();
    let _ = child.wait();
    if res.len() == h.len() {
        Some(res)
    } else {
        None
    }
}

// ---------- operation pool ----------
const EXTRA_BLOCKS: [(&str, &str); 5] = [
    ("material", "\"ZZ VERIF MAT\" = MATERIAL\n    TYPE              = PROPERTIES\n    THICKNESS         =          0.075\n    THICKNESS_CHANGE         = YES\n    THICKNESS_MAX         =              2\n    THICKNESS_MIN         =          0.001\n    CONDUCTIVITY      =              1.25\n    DENSITY           =           1234\n    SPECIFIC-HEAT     =           1000\n    VAPOUR-DIFFUSIVITY-FACTOR =             50\n    NAME          = \"ZZ VERIF MAT\"\n    GROUP         = \"ZZ\"\n    IMAGE          = \"asfalto.bmp\"\n    NAME_CALENER   = \"\"\n    LIBRARY       = NO\n    UTIL          =  NO\n    OBSOLETE      = NO\n    ..\n"),
    ("day-schedule", "\"ZZVD\" = DAY-SCHEDULE-PD\n  TYPE  = FRACTION\n  VALUES  = ( 0.25)\n  ..\n"),
    ("building-shade", "\"ZZ Sombra\" = BUILDING-SHADE\n      BULB-TRA = \"Default.bulb\"\n      BULB-REF = \"Default.bulb\"\n      TRAN     =              0\n      REFL     =            0.7\n      X        = 100.000000\n      Y        = 100.000000\n      Z        = 0.000000\n      HEIGHT   = 2.000000\n      WIDTH    = 3.000000\n      TILT     = 90.000000\n      AZIMUTH  = 180.000000\n           ..\n"),
    ("glass", "\"ZZ Vidrio\" = GLASS-TYPE\n     GROUP             = \"ZZ\"\n     TYPE              = SHADING-COEF\n     SHADING-COEF      =      0.5\n     GLASS-CONDUCTANCE =              2\n     NAME_CALENER      = \"\"\n     LIBRARY       =  NO\n    UTIL          =  NO\n    ..\n"),
    ("frame", "\"ZZ Marco\" = NAME-FRAME\n     GROUP         = \"ZZ\"\n     FRAME-WIDTH   =            0.1\n     FRAME-CONDUCT =       3.2\n     FRAME-ABS     =            0.7\n     NAME_CALENER  = \"\"\n     LIBRARY       =  NO\n    UTIL          =  NO\n    ..\n"),
];

fn append_block(src: &Src, block: &str) -> Src {
    let bdl = src.bdl();
    let mut t = bdl.trim_end().to_string();
    t.push('\n');
    t.push_str(block);
    src.with_bdl(&t)
}

fn src_op(name: &str, s: &Src) -> Op {
    match s {
        Src::Ctehexml(t) => Op::Convert { name: name.to_string(), kind: 0, text: t.clone() },
        Src::Cte(t) => Op::Convert { name: name.to_string(), kind: 1, text: t.clone() },
    }
}

/// (collection path, name, occurrence index) -> id for every named element of a model
fn element_ids(m: &Model) -> Vec<(String, String)> {
    fn walk(v: &Value, path: &str, out: &mut Vec<(String, String)>) {
        match v {
            Value::Array(a) => {
                for x in a {
                    if let (Some(id), Some(name)) = (x.get("id").and_then(|i| i.as_str()), x.get("name").and_then(|n| n.as_str())) {
                        out.push((format!("{}/{}", path, name), id.to_string()));
                    }
                    walk(x, path, out);
                }
            }
            Value::Object(o) => {
                for (k, x) in o {
                    if x.is_array() || x.is_object() {
                        walk(x, &format!("{}.{}", path, k), out);
                    }
                }
            }
            _ => {}
        }
    }
    let v: Value = serde_json::from_str(&m.as_json().unwrap_or_default()).unwrap_or(Value::Null);
    let mut out = vec![];
    walk(&v, "", &mut out);
    // equal names inside one collection are told apart by their order
    let mut seen = std::collections::HashMap::new();
    out.into_iter()
        .map(|(k, id)| {
            let n = seen.entry(k.clone()).or_insert(0usize);
            *n += 1;
            (format!("{}#{}", k, n), id)
        })
        .collect()
}

fn obs_term(l: &[(u64, u64)]) -> String {
    format!("[{}]", l.iter().map(|(k, o)| format!("mkObs {}%N {}%N", k, o)).collect::<Vec<_>>().join("; "))
}

fn uuid_n(id: &str) -> u64 {
    fnv_bytes(id.as_bytes())
}

/// a sibling of a model: same ids everywhere, different physical content
fn sibling(txt: &str, how: usize) -> Option<String> {
    let mut v: Value = serde_json::from_str(txt).ok()?;
    match how {
        0 => {
            // the whole building turned by 90 degrees: every wall and shade keeps its id
            for coll in ["walls", "shades"] {
                if let Some(a) = v.get_mut(coll).and_then(|w| w.as_array_mut()) {
                    for w in a {
                        if let Some(az) = w.get_mut("geometry").and_then(|g| g.get_mut("azimuth")) {
                            let x = az.as_f64().unwrap_or(0.0) + 90.0;
                            let x = if x > 180.0 { x - 360.0 } else { x };
                            *az = json!(x);
                        }
                    }
                }
            }
        }
        1 => {
            let z = v["meta"]["climate"].as_str().unwrap_or("D3").to_string();
            // the other family of zones (peninsular / Canary Islands: another latitude, another sun path)
            v["meta"]["climate"] = json!(if z.ends_with('c') { "E1" } else { "A3c" });
        }
        _ => {
            // every window twice as wide, every wall tilted by 10 degrees less (kept in range)
            if let Some(a) = v.get_mut("windows").and_then(|w| w.as_array_mut()) {
                for w in a {
                    if let Some(x) = w.get_mut("geometry").and_then(|g| g.get_mut("width")) {
                        *x = json!(x.as_f64().unwrap_or(1.0) * 0.5);
                    }
                }
            }
            if let Some(a) = v.get_mut("walls").and_then(|w| w.as_array_mut()) {
                for w in a {
                    if let Some(t) = w.get_mut("geometry").and_then(|g| g.get_mut("tilt")) {
                        let x = t.as_f64().unwrap_or(90.0);
                        *t = json!(if x >= 10.0 { x - 10.0 } else { x });
                    }
                }
            }
        }
    }
    Some(v.to_string())
}

pub fn run(a: &Args) -> Batch {
    let mut r = Rng::new(a.seed);
    let mut cases = vec![];
    let mut impl_findings = vec![];
    let shipped = hproj::shipped_projects();
    let legacy = hproj::legacy_cte_files();

    // ---------- pool ----------
    let mut pool: Vec<Arc<Op>> = vec![];
    // groups of operations on models / projects that share ids: run in both orders in one process
    let mut groups: Vec<Vec<usize>> = vec![];
    let mut converted: Vec<(String, String)> = vec![];
    for p in &shipped {
        pool.push(Arc::new(src_op(&p.name, &p.src)));
        if let Outcome::Ok(m) = hproj::convert(&p.src) {
            converted.push((p.name.clone(), m.as_json().unwrap_or_default()));
        }
    }
    let nleg = if a.thorough { legacy.len() } else { legacy.len().min(6) };
    for p in legacy.iter().take(nleg) {
        pool.push(Arc::new(src_op(&p.name, &p.src)));
    }
    let mut models: Vec<(String, String)> = converted.clone();
    for (name, m) in corpus::shipped_models() {
        models.push((name, m.as_json().unwrap_or_default()));
    }
    let cfg = gen::GenCfg::default();
    for i in 0..a.n {
        let mut rr = r.fork(i as u64);
        let m = gen::gen_model(&mut rr, &cfg);
        models.push((format!("gen seed={} i={}", a.seed, i), m.as_json().unwrap_or_default()));
    }
    for (name, txt) in &models {
        let mut g = vec![pool.len()];
        pool.push(Arc::new(Op::Ind { name: name.clone(), json: txt.clone() }));
        for how in 0..3 {
            if let Some(s) = sibling(txt, how) {
                g.push(pool.len());
                pool.push(Arc::new(Op::Ind { name: format!("{} sibling{}", name, how), json: s }));
            }
        }
        groups.push(g);
    }
    let npool = pool.len();

    // ---------- histories ----------
    // context label, history (indices into the pool), outputs
    let mut runs: Vec<(String, Vec<usize>, Vec<u64>)> = vec![];
    let mut dead: Vec<(String, Vec<usize>)> = vec![];
    // 1. this process, sequentially, three times (in order, reversed, shuffled)
    let mut orders: Vec<Vec<usize>> = vec![(0..npool).collect(), (0..npool).rev().collect()];
    let mut sh: Vec<usize> = (0..npool).collect();
    r.shuffle(&mut sh);
    orders.push(sh);
    let mut classes = vec![String::new(); npool];
    for (k, ord) in orders.iter().enumerate() {
        let outs: Vec<u64> = ord
            .iter()
            .map(|&i| {
                let (d, c) = pool[i].exec();
                classes[i] = c.to_string();
                d
            })
            .collect();
        runs.push((format!("same-process pass {}", k), ord.clone(), outs));
    }
    // 2. 16 threads of this process, each with its own shuffled slice of the pool, all at once
    {
        let per = (npool / 2).max(1).min(npool);
        let mut hs = vec![];
        for _ in 0..16 {
            let mut o: Vec<usize> = (0..npool).collect();
            r.shuffle(&mut o);
            o.truncate(per);
            hs.push(o);
        }
        let barrier = Arc::new(std::sync::Barrier::new(hs.len()));
        let handles: Vec<_> = hs
            .iter()
            .cloned()
            .map(|h| {
                let ops: Vec<Arc<Op>> = h.iter().map(|&i| pool[i].clone()).collect();
                let b = barrier.clone();
                std::thread::spawn(move || {
                    b.wait();
                    ops.iter().map(|o| o.exec().0).collect::<Vec<u64>>()
                })
            })
            .collect();
        for (t, (h, jh)) in hs.into_iter().zip(handles).enumerate() {
            match jh.join() {
                Ok(outs) => runs.push((format!("thread {} of 16", t), h, outs)),
                Err(_) => dead.push((format!("thread {} of 16", t), h)),
            }
        }
    }
    // 3. worker processes: every operation first thing in a fresh process; groups sharing ids in
    //    both orders; random histories
    let mut phist: Vec<(String, Vec<usize>)> = vec![];
    for i in 0..npool {
        phist.push(("fresh process".into(), vec![i]));
    }
    for g in &groups {
        let mut fwd = g.clone();
        phist.push(("fresh process, models sharing ids, in order".into(), fwd.clone()));
        fwd.reverse();
        phist.push(("fresh process, models sharing ids, reversed".into(), fwd));
    }
    let nrand = if a.thorough { 64 } else { 16 };
    for _ in 0..nrand {
        let len = 4 + r.below(8);
        let h: Vec<usize> = (0..len).map(|_| r.below(npool)).collect();
        phist.push(("fresh process, random history".into(), h));
    }
    let phist = Arc::new(phist);
    let pool_a = Arc::new(pool.clone());
    let nthreads = 16;
    let handles: Vec<_> = (0..nthreads)
        .map(|k| {
            let phist = phist.clone();
            let pool = pool_a.clone();
            std::thread::spawn(move || {
                let mut res = vec![];
                for (j, (_, h)) in phist.iter().enumerate() {
                    if j % nthreads != k {
                        continue;
                    }
                    let ops: Vec<Arc<Op>> = h.iter().map(|&i| pool[i].clone()).collect();
                    res.push((j, run_in_process(&ops)));
                }
                res
            })
        })
        .collect();
    for jh in handles {
        for (j, out) in jh.join().unwrap_or_default() {
            let (label, h) = &phist[j];
            match out {
                Some(o) => runs.push((label.clone(), h.clone(), o)),
                None => dead.push((label.clone(), h.clone())),
            }
        }
    }
    for (label, h) in &dead {
        impl_findings.push(json!({"kind": "history_died", "context": label, "history": h.iter().map(|&i| pool[i].name().to_string()).collect::<Vec<_>>(), "classes": ["worker_died"]}));
    }

    // ---------- one case per operation: all its observations ----------
    let mut per_op: Vec<Vec<(u64, String)>> = vec![vec![]; npool];
    for (label, h, outs) in &runs {
        for (pos, (&i, &o)) in h.iter().zip(outs).enumerate() {
            let before: Vec<&str> = h[..pos].iter().rev().take(3).map(|&j| pool[j].name()).collect();
            per_op[i].push((o, format!("{} pos {} after [{}]", label, pos, before.join(" <- "))));
        }
    }
    let mut nobs = 0usize;
    for (i, obs) in per_op.iter().enumerate() {
        let key = pool[i].key();
        nobs += obs.len();
        let l: Vec<(u64, u64)> = obs.iter().map(|(o, _)| (key, *o)).collect();
        let mut distinct: Vec<u64> = obs.iter().map(|(o, _)| *o).collect();
        distinct.sort();
        distinct.dedup();
        let differing: Vec<Value> = if distinct.len() > 1 { obs.iter().map(|(o, c)| json!({"digest": o.to_string(), "context": c})).collect() } else { vec![] };
        cases.push(Case {
            term: format!("Hist {}", obs_term(&l)),
            post: String::new(),
            json: json!({"kind": "hist", "op": pool[i].name(), "op_kind": match &*pool[i] { Op::Convert { .. } => "convert", Op::Ind { .. } => "indicators" },
                          "class": classes[i], "observations": obs.len(), "distinct_outputs": distinct.len(), "differing": differing}),
            nontrivial: obs.len() >= 4,
        });
    }

    // ---------- ids: adding an unrelated definition changes no existing id ----------
    let mut nids = 0usize;
    let mut ids_skipped = 0usize;
    for p in shipped.iter().chain(legacy.iter().take(nleg)) {
        let base = match hproj::convert(&p.src) {
            Outcome::Ok(m) => m,
            _ => continue,
        };
        let before = element_ids(&base);
        // the unrelated definitions, and the same under the name of an existing definition of another kind
        // (name -> id tables must not mix kinds)
        let mut extras: Vec<(String, String)> = EXTRA_BLOCKS.iter().map(|(n, b)| (n.to_string(), b.to_string())).collect();
        if let Ok(blocks) = hulc::bdl::build_blocks(&p.src.bdl()) {
            let first = |ty: &str| blocks.iter().find(|b| format!("{:?}", b.btype) == ty).map(|b| b.name.clone());
            let renamed = |which: usize, old: &str, new: &str| EXTRA_BLOCKS[which].1.replace(&format!("\"{}\"", old), &format!("\"{}\"", new));
            for (label, which, old, ty) in [
                ("day-schedule named as a week schedule", 1usize, "ZZVD", "WeekSchedulePd"),
                ("day-schedule named as a year schedule", 1, "ZZVD", "SchedulePd"),
                ("glass named as a material", 3, "ZZ Vidrio", "Material"),
                ("frame named as a glass", 4, "ZZ Marco", "GlassType"),
                ("material named as a layers definition", 0, "ZZ VERIF MAT", "Layers"),
                ("material named as a frame", 0, "ZZ VERIF MAT", "NameFrame"),
                ("glass named as a gap", 3, "ZZ Vidrio", "Gap"),
            ] {
                if let Some(n) = first(ty) {
                    if !n.contains('"') {
                        extras.push((label.to_string(), renamed(which, old, &n)));
                    }
                }
            }
        }
        for (bname, block) in extras.iter() {
            let src2 = append_block(&p.src, block);
            let after = match hproj::convert(&src2) {
                Outcome::Ok(m) => element_ids(&m),
                o => {
                    ids_skipped += 1;
                    impl_findings.push(json!({"kind": "extra_block_rejected", "project": p.name, "block": bname, "outcome": format!("{:?}", o).chars().take(200).collect::<String>(), "classes": ["extra_block_rejected"]}));
                    continue;
                }
            };
            nids += 1;
            let b: Vec<(u64, u64)> = before.iter().map(|(k, id)| (fnv_bytes(k.as_bytes()), uuid_n(id))).collect();
            let af: Vec<(u64, u64)> = after.iter().map(|(k, id)| (fnv_bytes(k.as_bytes()), uuid_n(id))).collect();
            let changed: Vec<&String> = before.iter().filter(|x| !after.contains(x)).map(|(k, _)| k).take(5).collect();
            cases.push(Case {
                term: format!("Ids {} {}", obs_term(&b), obs_term(&af)),
                post: String::new(),
                json: json!({"kind": "ids", "project": p.name, "added": bname, "elements": before.len(), "elements_after": after.len(), "changed": changed}),
                nontrivial: before.len() >= 5,
            });
        }
    }

    // ---------- shipped reference models (pairs named by /repo/Makefile) ----------
    let mk = std::fs::read_to_string(corpus::repo().join("Makefile")).unwrap_or_default();
    let mut nref = 0usize;
    for line in mk.lines() {
        let toks: Vec<&str> = line.split_whitespace().collect();
        let src = toks.iter().find(|t| t.ends_with(".ctehexml") && t.starts_with("hulc_tests/"));
        let out = toks.iter().position(|t| *t == "-o").and_then(|i| toks.get(i + 1));
        if let (Some(src), Some(out)) = (src, out) {
            let refp = corpus::repo().join("bemodel/tests/data").join(out);
            let (reft, srct) = match (std::fs::read_to_string(&refp), std::fs::read_to_string(corpus::repo().join(src))) {
                (Ok(a), Ok(b)) => (a, b),
                _ => continue,
            };
            let refm = match Model::from_json(&reft) {
                Ok(m) => m,
                Err(e) => {
                    impl_findings.push(json!({"kind": "reference_unloadable", "reference": out, "msg": e.to_string(), "classes": ["reference_unloadable"]}));
                    continue;
                }
            };
            nref += 1;
            let conv = hproj::convert(&Src::Ctehexml(srct));
            let (cd, detail) = match &conv {
                Outcome::Ok(m) => {
                    let a: Value = serde_json::from_str(&m.as_json().unwrap_or_default()).unwrap_or(Value::Null);
                    let b: Value = serde_json::from_str(&refm.as_json().unwrap_or_default()).unwrap_or(Value::Null);
                    (fnv_bytes(a.to_string().as_bytes()), first_diff(&a, &b, ""))
                }
                o => (1, Some(format!("{:?}", o).chars().take(200).collect())),
            };
            let rv: Value = serde_json::from_str(&refm.as_json().unwrap_or_default()).unwrap_or(Value::Null);
            let rd = fnv_bytes(rv.to_string().as_bytes());
            cases.push(Case {
                term: format!("Ref {}%N {}%N", cd, rd),
                post: String::new(),
                json: json!({"kind": "ref", "project": src, "reference": out, "first_difference": detail}),
                nontrivial: true,
            });
        }
    }

    Batch {
        imports: "From Coq Require Import NArith List.\nFrom CTE Require Import Model.History.".into(),
        case_ty: "c05case".into(),
        agree: "agree_C05".into(),
        cases,
        impl_findings,
        rule: "operation pool = convert every shipped .ctehexml project and legacy .cte file + indicators of every converted project, shipped model file and generated model, each with three siblings sharing all ids (building turned 90 degrees, a climate zone of the other family - peninsular / Canary Islands -, resized windows / tilted walls); histories = three passes in this process (in order, reversed, shuffled), 16 concurrent threads with shuffled halves of the pool, every operation first in a fresh process, every id-sharing group in both orders in a fresh process, random histories in fresh processes; one Hist case per operation holding all its observations (non-trivial when observed in at least 4 contexts); Ids cases = element ids of each project before / after appending an unrelated MATERIAL, DAY-SCHEDULE-PD, BUILDING-SHADE, GLASS-TYPE or NAME-FRAME block, under a fresh name or under the name of an existing definition of another kind; Ref cases = the (project, reference model) pairs named in /repo/Makefile that exist".into(),
        stats: json!({"pool": npool, "histories": runs.len(), "observations": nobs, "histories_died": dead.len(), "ids_cases": nids, "ids_skipped": ids_skipped, "ref_cases": nref,
                       "convert_ops": shipped.len() + nleg, "indicator_ops": npool - shipped.len() - nleg}),
    }
}

/// path of the first difference of two JSON values
fn first_diff(a: &Value, b: &Value, path: &str) -> Option<String> {
    match (a, b) {
        (Value::Object(x), Value::Object(y)) => {
            for (k, v) in x {
                match y.get(k) {
                    None => return Some(format!("{}.{} missing in reference", path, k)),
                    Some(w) => {
                        if let Some(d) = first_diff(v, w, &format!("{}.{}", path, k)) {
                            return Some(d);
                        }
                    }
                }
            }
            for k in y.keys() {
                if !x.contains_key(k) {
                    return Some(format!("{}.{} only in reference", path, k));
                }
            }
            None
        }
        (Value::Array(x), Value::Array(y)) => {
            if x.len() != y.len() {
                return Some(format!("{} length {} vs {}", path, x.len(), y.len()));
            }
            for (i, (v, w)) in x.iter().zip(y).enumerate() {
                if let Some(d) = first_diff(v, w, &format!("{}[{}]", path, i)) {
                    return Some(d);
                }
            }
            None
        }
        _ => {
            if a == b {
                None
            } else {
                Some(format!("{}: {} vs {}", path, a.to_string().chars().take(60).collect::<String>(), b.to_string().chars().take(60).collect::<String>()))
            }
        }
    }
}
