//! Real models and projects shipped with the repository, read from /repo at run time.
use bemodel::Model;
use std::path::PathBuf;

pub fn repo() -> PathBuf {
    PathBuf::from(std::env::var("VERIF_REPO").unwrap_or_else(|_| "/repo".to_string()))
}

/// the shipped model JSON files
pub fn shipped_models() -> Vec<(String, Model)> {
    let dir = repo().join("bemodel/tests/data");
    let mut out = vec![];
    let mut names: Vec<_> = std::fs::read_dir(&dir)
        .map(|d| d.filter_map(|e| e.ok()).map(|e| e.path()).collect())
        .unwrap_or_default();
    names.sort();
    for p in names {
        if p.extension().map_or(false, |e| e == "json") {
            if let Ok(txt) = std::fs::read_to_string(&p) {
                if let Ok(m) = Model::from_json(&txt) {
                    out.push((p.file_name().unwrap().to_string_lossy().to_string(), m));
                }
            }
        }
    }
    out
}

/// directories of the shipped HULC projects
pub fn project_dirs() -> Vec<PathBuf> {
    let dir = repo().join("hulc_tests/tests");
    let mut out: Vec<PathBuf> = std::fs::read_dir(&dir)
        .map(|d| d.filter_map(|e| e.ok()).map(|e| e.path()).filter(|p| p.is_dir()).collect())
        .unwrap_or_default();
    out.sort();
    out.retain(|p| {
        std::fs::read_dir(p)
            .map(|d| d.filter_map(|e| e.ok()).any(|e| e.path().extension().map_or(false, |x| x == "ctehexml")))
            .unwrap_or(false)
    });
    out
}
