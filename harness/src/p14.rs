//! C14 — indicator computation is total: fault enumeration over the JSON tree of models, each
//! damaged model run in a worker process (crash, hang and lock-poisoning detection).
use crate::{coq, corpus, gen, rng::Rng, Args, Batch, Case};
use bemodel::*;
use serde_json::{json, Value};
use std::io::{BufRead, BufReader, Write};
use std::process::{Child, Command, Stdio};
use std::sync::mpsc;
use std::time::Duration;

// ---------- edits of a JSON tree ----------
#[derive(Clone, Debug)]
pub enum Edit {
    DelKey(Vec<String>),
    DelItem(Vec<String>, usize),
    Empty(Vec<String>),
    DupItem(Vec<String>, usize),
    Truncate(Vec<String>),
    Redirect(Vec<String>, String),
    Zero(Vec<String>),
    Negate(Vec<String>),
}

fn get_mut<'a>(v: &'a mut Value, path: &[String]) -> Option<&'a mut Value> {
    let mut cur = v;
    for p in path {
        cur = match cur {
            Value::Object(m) => m.get_mut(p)?,
            Value::Array(a) => a.get_mut(p.parse::<usize>().ok()?)?,
            _ => return None,
        };
    }
    Some(cur)
}

pub fn apply(v: &Value, e: &Edit) -> Option<Value> {
    let mut out = v.clone();
    match e {
        Edit::DelKey(p) => {
            let (last, parent) = p.split_last()?;
            get_mut(&mut out, parent)?.as_object_mut()?.remove(last)?;
        }
        Edit::DelItem(p, i) => {
            let a = get_mut(&mut out, p)?.as_array_mut()?;
            if *i < a.len() {
                a.remove(*i);
            } else {
                return None;
            }
        }
        Edit::Empty(p) => get_mut(&mut out, p)?.as_array_mut()?.clear(),
        Edit::DupItem(p, i) => {
            let a = get_mut(&mut out, p)?.as_array_mut()?;
            let x = a.get(*i)?.clone();
            a.push(x);
        }
        Edit::Truncate(p) => {
            let a = get_mut(&mut out, p)?.as_array_mut()?;
            let n = a.len() / 2;
            a.truncate(n);
        }
        Edit::Redirect(p, to) => *get_mut(&mut out, p)? = Value::String(to.clone()),
        Edit::Zero(p) => *get_mut(&mut out, p)? = json!(0.0),
        Edit::Negate(p) => {
            let x = get_mut(&mut out, p)?;
            let f = x.as_f64()?;
            *x = json!(-f);
        }
    }
    Some(out)
}

fn is_uuid(s: &str) -> bool {
    s.len() == 36 && s.as_bytes()[8] == b'-' && Uuid::parse_str(s).is_ok()
}

/// every single edit of the listed kinds; arrays longer than `cap` are sampled at their ends and middle
pub fn enumerate(v: &Value, cap: usize) -> Vec<Edit> {
    let mut ids: Vec<String> = vec![];
    fn collect_ids(v: &Value, ids: &mut Vec<String>) {
        match v {
            Value::Object(m) => {
                if let Some(Value::String(s)) = m.get("id") {
                    ids.push(s.clone());
                }
                m.values().for_each(|x| collect_ids(x, ids));
            }
            Value::Array(a) => a.iter().for_each(|x| collect_ids(x, ids)),
            _ => {}
        }
    }
    collect_ids(v, &mut ids);
    let mut out = vec![];
    fn walk(v: &Value, path: &mut Vec<String>, out: &mut Vec<Edit>, ids: &[String], cap: usize) {
        match v {
            Value::Object(m) => {
                for (k, x) in m {
                    path.push(k.clone());
                    out.push(Edit::DelKey(path.clone()));
                    walk(x, path, out, ids, cap);
                    path.pop();
                }
            }
            Value::Array(a) => {
                out.push(Edit::Empty(path.clone()));
                out.push(Edit::Truncate(path.clone()));
                let n = a.len();
                let picks: Vec<usize> = if n <= cap { (0..n).collect() } else { let mut p: Vec<usize> = (0..cap / 2).collect(); p.push(n / 2); p.extend(n - cap / 2..n); p };
                if n > 0 {
                    out.push(Edit::DupItem(path.clone(), 0));
                    out.push(Edit::DupItem(path.clone(), n - 1));
                }
                for i in picks {
                    out.push(Edit::DelItem(path.clone(), i));
                    path.push(i.to_string());
                    walk(&a[i], path, out, ids, cap);
                    path.pop();
                }
            }
            Value::String(s) if is_uuid(s) => {
                let other = ids.iter().find(|x| *x != s).cloned().unwrap_or_else(|| Uuid::nil().to_string());
                out.push(Edit::Redirect(path.clone(), other));
                out.push(Edit::Redirect(path.clone(), Uuid::nil().to_string()));
                out.push(Edit::Redirect(path.clone(), "11111111-2222-3333-4444-555555555555".to_string()));
            }
            Value::Number(_) => {
                out.push(Edit::Zero(path.clone()));
                out.push(Edit::Negate(path.clone()));
            }
            _ => {}
        }
    }
    walk(v, &mut vec![], &mut out, &ids, cap);
    out
}

// ---------- worker process ----------
/// reads one JSON model per line; answers one JSON line per model
pub fn worker() {
    let stdin = std::io::stdin();
    let healthy = Model::default();
    for line in stdin.lock().lines() {
        let line = match line {
            Ok(l) => l,
            Err(_) => break,
        };
        let out = match Model::from_json(&line) {
            Err(e) => json!({"load": "err", "msg": e.to_string().chars().take(80).collect::<String>()}),
            Ok(m) => match crate::guarded(std::panic::AssertUnwindSafe(|| m.energy_indicators())) {
                Ok(ind) => {
                    let txt = ind.as_json().unwrap_or_default();
                    let v: Value = serde_json::from_str(&txt).unwrap_or(Value::Null);
                    let back = serde_json::from_str::<bemodel::energy::EnergyIndicators>(&txt).is_ok();
                    json!({"load": "ok", "outcome": "ok", "finite": all_numbers_present(&v), "roundtrip": back, "nulls": null_paths(&v)})
                }
                Err(site) => {
                    // a failure on one model must not affect later computations in the same process
                    let poisoned = crate::guarded(std::panic::AssertUnwindSafe(|| healthy_probe(&healthy))).is_err();
                    json!({"load": "ok", "outcome": "panic", "site": site, "poisoned": poisoned})
                }
            },
        };
        println!("{}", out);
        let _ = std::io::stdout().flush();
        if out["poisoned"] == json!(true) {
            break; // this process is spoilt: the parent starts a new one
        }
    }
}

fn healthy_probe(_m: &Model) {
    // one wall, one window: goes through the climate tables and their locks
    let mut m = Model::default();
    let sp = Space::default();
    let w = Wall { space: sp.id, geometry: WallGeom { tilt: 90.0, azimuth: 0.0, position: Some(point![0.0, 0.0, 0.0]), polygon: vec![point![0.0, 0.0], point![3.0, 0.0], point![3.0, 3.0], point![0.0, 3.0]] }, ..Default::default() };
    let win = Window { wall: w.id, geometry: WinGeom { position: Some(point![1.0, 1.0]), width: 1.0, height: 1.0, setback: 0.0 }, ..Default::default() };
    m.spaces.push(sp);
    m.walls.push(w);
    m.windows.push(win);
    let _ = m.energy_indicators();
}

/// serde_json writes NaN / inf as null; Option fields that may legitimately be null are listed
const NULLABLE: [&str; 14] = ["u_value", "u_value_override", "f_shobst", "f_shobst_override", "space_next", "loads", "thermostat", "n_v", "illuminance", "veei", "u_max", "u_min", "u_mean", "resistance"];
const NULLABLE2: [&str; 6] = ["n_50_test_ach", "people_schedule", "equipment_schedule", "lighting_schedule", "id", "next_to"];
fn null_paths(v: &Value) -> Vec<String> {
    let mut out = vec![];
    fn walk(v: &Value, path: &str, key: &str, out: &mut Vec<String>) {
        match v {
            Value::Null => {
                if !NULLABLE.contains(&key) && !NULLABLE2.contains(&key) {
                    out.push(path.to_string())
                }
            }
            Value::Object(m) => m.iter().for_each(|(k, x)| walk(x, &format!("{}/{}", path, k), k, out)),
            Value::Array(a) => a.iter().enumerate().for_each(|(i, x)| walk(x, &format!("{}/{}", path, i), key, out)),
            _ => {}
        }
    }
    walk(v, "", "", &mut out);
    out.truncate(6);
    out
}
fn all_numbers_present(v: &Value) -> bool {
    null_paths(v).is_empty()
}

struct Worker {
    child: Child,
    tx: std::process::ChildStdin,
    rx: mpsc::Receiver<String>,
}
fn spawn_worker() -> Worker {
    let exe = std::env::current_exe().unwrap();
    let mut child = Command::new(exe).arg("c14-worker").stdin(Stdio::piped()).stdout(Stdio::piped()).stderr(Stdio::null()).spawn().unwrap();
    let tx = child.stdin.take().unwrap();
    let out = child.stdout.take().unwrap();
    let (s, rx) = mpsc::channel();
    std::thread::spawn(move || {
        for l in BufReader::new(out).lines().flatten() {
            if s.send(l).is_err() {
                break;
            }
        }
    });
    Worker { child, tx, rx }
}

/// runs every model text through worker processes (8 in parallel); returns one outcome per model
pub fn run_models(texts: &[String], timeout_s: u64) -> Vec<Value> {
    let nthreads = 12.min(texts.len().max(1));
    let chunks: Vec<Vec<(usize, String)>> = (0..nthreads).map(|k| texts.iter().cloned().enumerate().filter(|(i, _)| i % nthreads == k).collect()).collect();
    let handles: Vec<_> = chunks
        .into_iter()
        .map(|chunk| {
            std::thread::spawn(move || {
                let mut res = vec![];
                let mut w = spawn_worker();
                for (i, t) in chunk {
                    let line = t.replace('\n', " ");
                    let sent = writeln!(w.tx, "{}", line).and_then(|_| w.tx.flush());
                    let ans = if sent.is_ok() { w.rx.recv_timeout(Duration::from_secs(timeout_s)).ok() } else { None };
                    let val = match ans {
                        Some(l) => serde_json::from_str(&l).unwrap_or(json!({"load": "ok", "outcome": "garbled"})),
                        None => {
                            // hang or death of the worker: kill it and start afresh
                            let status = w.child.try_wait().ok().flatten();
                            let _ = w.child.kill();
                            let _ = w.child.wait();
                            w = spawn_worker();
                            match status {
                                Some(st) => json!({"load": "ok", "outcome": "died", "status": format!("{}", st)}),
                                None => json!({"load": "ok", "outcome": "timeout"}),
                            }
                        }
                    };
                    let spoilt = val["poisoned"] == json!(true);
                    res.push((i, val));
                    if spoilt {
                        let _ = w.child.kill();
                        let _ = w.child.wait();
                        w = spawn_worker();
                    }
                }
                let _ = w.child.kill();
                let _ = w.child.wait();
                res
            })
        })
        .collect();
    let mut all: Vec<(usize, Value)> = handles.into_iter().flat_map(|h| h.join().unwrap()).collect();
    all.sort_by_key(|x| x.0);
    all.into_iter().map(|x| x.1).collect()
}

/// models built element by element the way the web editor does
fn editor_prefixes() -> Vec<Model> {
    let mut out = vec![];
    let mut m = Model::default();
    out.push(m.clone());
    let sp = Space::default();
    m.spaces.push(sp.clone());
    out.push(m.clone());
    let wall = Wall { space: sp.id, ..Default::default() };
    m.walls.push(wall.clone());
    out.push(m.clone());
    m.walls[0].geometry = WallGeom { tilt: 90.0, azimuth: 0.0, position: Some(point![0.0, 0.0, 0.0]), polygon: vec![point![0.0, 0.0], point![4.0, 0.0], point![4.0, 3.0], point![0.0, 3.0]] };
    out.push(m.clone());
    let win = Window { wall: wall.id, ..Default::default() };
    m.windows.push(win);
    out.push(m.clone());
    m.windows[0].geometry.position = Some(point![1.0, 1.0]);
    out.push(m.clone());
    let mat = Material::default();
    let wc = WallCons { layers: vec![Layer { material: mat.id, e: 0.2 }], ..Default::default() };
    m.cons.materials.push(mat);
    m.walls[0].cons = wc.id;
    m.cons.wallcons.push(wc);
    out.push(m.clone());
    let (gl, fr) = (Glass::default(), Frame::default());
    let wnc = WinCons { glass: gl.id, frame: fr.id, ..Default::default() };
    m.windows[0].cons = wnc.id;
    m.cons.wincons.push(wnc);
    out.push(m.clone());
    m.cons.glasses.push(gl);
    m.cons.frames.push(fr);
    out.push(m.clone());
    let floor = Wall { space: sp.id, bounds: BoundaryType::GROUND, geometry: WallGeom { tilt: 180.0, azimuth: 0.0, position: Some(point![0.0, 3.0, 0.0]), polygon: vec![point![0.0, 0.0], point![4.0, 0.0], point![4.0, 3.0], point![0.0, 3.0]] }, ..Default::default() };
    m.walls.push(floor);
    out.push(m.clone());
    m.thermal_bridges.push(ThermalBridge::default());
    out.push(m.clone());
    m.shades.push(Shade::default());
    out.push(m.clone());
    let ld = SpaceLoads::default();
    m.spaces[0].loads = Some(ld.id);
    out.push(m.clone());
    m.loads.push(ld);
    out.push(m.clone());
    // the same steps in a project whose general data (building-wide ventilation flow, blower-door result,
    // perimeter insulation) were filled in first
    let with_meta: Vec<Model> = out
        .iter()
        .map(|x| {
            let mut y = x.clone();
            y.meta.global_ventilation_l_s = Some(30.0);
            y.meta.n50_test_ach = Some(4.0);
            y.meta.d_perim_insulation = 0.5;
            y.meta.rn_perim_insulation = 1.0;
            y
        })
        .collect();
    out.extend(with_meta);
    out
}

fn site_key(site: &str) -> String {
    // "msg @ /repo/bemodel/src/energy/props.rs:95" -> "bemodel/src/energy/props.rs:95"
    site.rsplit('@').next().unwrap_or("").trim().trim_start_matches("/repo/").to_string()
}

pub fn run(a: &Args) -> Batch {
    let mut r = Rng::new(a.seed ^ 0x14);
    let mut bases: Vec<(String, Value)> = vec![];
    let shipped = corpus::shipped_models();
    let wanted: &[&str] = if a.thorough { &[] } else { &["cubo.json", "cajazapatos_bombacaloracs.json", "ejemploviv_unif.json"] };
    for (name, m) in shipped {
        if wanted.is_empty() || wanted.contains(&name.as_str()) {
            bases.push((name, serde_json::to_value(&m).unwrap()));
        }
    }
    let cfg = gen::GenCfg { max_spaces: 3, ..Default::default() };
    for i in 0..(if a.thorough { 40 } else { 3 }) {
        let mut rr = r.fork(i as u64);
        bases.push((format!("gen seed={} i={}", a.seed, i), serde_json::to_value(&gen::gen_model(&mut rr, &cfg)).unwrap()));
    }
    let cap = if a.thorough { 12 } else { 4 };
    let mut texts: Vec<String> = vec![];
    let mut meta: Vec<(String, String)> = vec![]; // (base, edits)
    // the editor-style prefixes first: they are few and must always reach the Coq cases
    for (k, m) in editor_prefixes().into_iter().enumerate() {
        texts.push(serde_json::to_string(&m).unwrap());
        meta.push(("editor".into(), format!("prefix {}", k)));
    }
    // a sun-breaker in front of a shipped model: many equal slats, i.e. many obstacles whose centroids coincide on
    // the longest axis of the set (what the obstacle tree has to split without making progress by position)
    if let Some((_, cubo)) = corpus::shipped_models().into_iter().find(|(n, _)| n == "cubo.json") {
        for (x0, n) in [(2.0f32, 36usize), (2.1, 36), (0.3, 48), (7.7, 64)] {
            let mut m = cubo.clone();
            for k in 0..n {
                m.shades.push(Shade {
                    id: gen::uid(&mut r),
                    name: format!("lama {}", k),
                    geometry: WallGeom {
                        tilt: 0.0,
                        azimuth: 0.0,
                        position: Some(nalgebra::point![x0, -3.0, 0.2 + 0.08 * k as f32]),
                        polygon: vec![nalgebra::point![0.0, 0.0], nalgebra::point![6.1, 0.0], nalgebra::point![6.1, 0.2], nalgebra::point![0.0, 0.2]],
                    },
                });
            }
            texts.push(serde_json::to_string(&m).unwrap());
            meta.push(("cubo.json".into(), format!("{} equal slats from x = {}", n, x0)));
        }
    }
    for (name, v) in &bases {
        let edits = enumerate(v, cap);
        let nsingle = if a.thorough { edits.len() } else { edits.len().min(a.n * 6) };
        let step = (edits.len() / nsingle.max(1)).max(1);
        for e in edits.iter().step_by(step) {
            if let Some(x) = apply(v, e) {
                texts.push(x.to_string());
                meta.push((name.clone(), format!("{:?}", e)));
            }
        }
        // 2- and 3-edit combinations (seeded)
        for k in 0..(if a.thorough { 2000 } else { a.n }) {
            let mut rr = r.fork(1_000_000 + k as u64);
            let ne = 2 + rr.below(2);
            let mut x = v.clone();
            let mut desc = vec![];
            for _ in 0..ne {
                let es = enumerate(&x, cap);
                if es.is_empty() {
                    break;
                }
                let e = rr.pick(&es).clone();
                if let Some(y) = apply(&x, &e) {
                    x = y;
                    desc.push(format!("{:?}", e));
                }
            }
            texts.push(x.to_string());
            meta.push((name.clone(), desc.join(" ; ")));
        }
    }
    let outcomes = run_models(&texts, 20);
    let mut findings = vec![];
    let mut stats = std::collections::BTreeMap::<String, usize>::new();
    let mut cases = vec![];
    let mut seen_sites = std::collections::BTreeSet::new();
    let coq_cap = if a.thorough { 6000 } else { 400 };
    for (i, o) in outcomes.iter().enumerate() {
        let (base, edit) = &meta[i];
        if o["load"] == json!("err") {
            *stats.entry("rejected_by_from_json".into()).or_default() += 1;
            continue;
        }
        *stats.entry(format!("outcome_{}", o["outcome"].as_str().unwrap_or("?"))).or_default() += 1;
        match o["outcome"].as_str().unwrap_or("?") {
            "ok" => {
                if o["roundtrip"] != json!(true) && o["finite"] == json!(true) {
                    findings.push(json!({"what": "indicators do not load back from their own JSON", "base": base, "edit": edit, "classes": ["roundtrip"], "model": texts[i]}));
                }
                // the Coq model decides whether the damaged model is sane; sane models must give finite numbers
                if cases.len() < coq_cap {
                    if let Ok(m) = Model::from_json(&texts[i]) {
                        coq::reset_ids();
                        let finite = o["finite"] == json!(true);
                        cases.push(Case {
                            post: String::new(),
                            term: format!("(mkC14 {} {})", coq::model(&m), coq::b(finite)),
                            json: json!({"base": base, "edit": edit, "finite": finite, "nulls": o["nulls"], "model": serde_json::from_str::<Value>(&texts[i]).unwrap()}),
                            nontrivial: true,
                        });
                    }
                }
            }
            "panic" => {
                let site = site_key(o["site"].as_str().unwrap_or(""));
                if o["poisoned"] == json!(true) {
                    findings.push(json!({"what": "a crash on one model makes later computations in the same process crash (poisoned lock)", "site": site, "base": base, "edit": edit, "classes": ["poisoned"], "model": texts[i]}));
                }
                if seen_sites.insert(site.clone()) {
                    findings.push(json!({"what": format!("energy_indicators() crashes at {}", site), "site": site, "base": base, "edit": edit, "classes": ["panic"], "model": texts[i]}));
                }
            }
            other => {
                findings.push(json!({"what": format!("energy_indicators() did not return ({})", other), "site": other, "base": base, "edit": edit, "classes": ["hang"], "model": texts[i]}));
            }
        }
    }
    stats.insert("damaged_models".into(), texts.len());
    stats.insert("bases".into(), bases.len());
    Batch {
        imports: "From Coq Require Import ZArith NArith QArith List.\nFrom CTE Require Import Base.Num Model.BModel Model.Total.".into(),
        case_ty: "c14_case".into(),
        agree: "agree_C14".into(),
        cases,
        impl_findings: findings,
        rule: "fault enumeration over the JSON tree of base models (shipped + generated): every single edit of kinds delete key / delete array item / empty, duplicate, truncate an array / redirect an id to another, nil or fresh id / zero or negate a number (long arrays sampled at their ends and middle in quick), seeded 2- and 3-edit combinations, the prefixes of an editor-style construction script (with and without the general data filled in) and a shipped model behind sun-breakers of 36..64 equal slats; models from_json rejects are discarded; each remaining model runs energy_indicators() in a worker process under a 20 s watchdog, followed after a crash by a healthy model in the same process (poisoning); results must serialise and load back; the Coq model decides which damaged models are sane, and those must report finite numbers only; non-trivial = the damaged model still loads and its indicators were computed; distinct by content hash".into(),
        stats: json!(stats),
    }
}
