//! C07 — window U-value and solar factors.
use crate::{coq, corpus, gen, props, rng::Rng, Args, Batch, Case};
use bemodel::energy::EnergyProps;
use bemodel::*;
use serde_json::json;

fn fin(x: Option<f32>) -> Option<f32> {
    x.filter(|v| v.is_finite())
}

pub fn one_case(m: &Model, origin: &str) -> Option<Case> {
    coq::reset_ids();
    // only the construction database matters: props.wincons come from EnergyProps of a model that
    // holds nothing else (no geometry, so no ray casting)
    let mut k = Model::default();
    k.cons = m.cons.clone();
    let p: EnergyProps = crate::guarded(std::panic::AssertUnwindSafe(|| EnergyProps::from(&k))).ok()?;
    let db = coq::consdb(&k.cons);
    let wcs: Vec<_> = p.wincons.iter().collect();
    let direct: Vec<(Option<f32>, Option<f32>, Option<f32>)> =
        k.cons.wincons.iter().map(|w| (fin(w.u_value(&k.cons)), fin(w.g_glwi(&k.cons)), fin(w.g_glshwi(&k.cons)))).collect();
    let term = format!(
        "(mkC07 {}\n {}\n {})",
        db,
        coq::list(&wcs, |(i, c)| format!(
            "({}, mkWinConsP {} {} {} {} {})",
            coq::id(**i), props::qz(c.g_glwi), props::qz(c.g_glshwi), props::optqz(&c.u_value), props::qz(c.c_100), props::qz(c.f_f)
        )),
        coq::list(&direct, |(u, g, gs)| format!("({}, {}, {})", coq::optq(u), coq::optq(g), coq::optq(gs)))
    );
    let missing = k.cons.wincons.iter().filter(|w| k.cons.get_glass(w.glass).is_none() || k.cons.get_frame(w.frame).is_none()).count();
    Some(Case {
        post: String::new(),
        term,
        json: json!({"origin": origin, "cons": serde_json::to_value(&k.cons).unwrap(), "props_wincons": serde_json::to_value(&p.wincons).unwrap(), "missing_glass_or_frame": missing}),
        nontrivial: !k.cons.wincons.is_empty(),
    })
}

pub fn run(a: &Args) -> Batch {
    let mut r = Rng::new(a.seed ^ 0x07);
    let mut cases = vec![];
    let mut stats = std::collections::BTreeMap::<&str, usize>::new();
    for (name, m) in corpus::shipped_models() {
        if let Some(c) = one_case(&m, &name) {
            cases.push(c);
        }
    }
    let cfg = gen::GenCfg::default();
    for i in 0..a.n {
        let mut rr = r.fork(i as u64);
        let mut m = Model::default();
        m.cons = gen::gen_consdb(&mut rr, &cfg);
        // more constructions per database, frame fraction / dU / shading factor over their whole ranges
        for j in 0..rr.range(2, 6) as usize {
            let glass = match rr.below(8) {
                0 => Uuid::nil(),
                1 => gen::uid(&mut rr),
                _ => rr.pick(&m.cons.glasses).id,
            };
            let frame = match rr.below(8) {
                0 => Uuid::nil(),
                1 => gen::uid(&mut rr),
                _ => rr.pick(&m.cons.frames).id,
            };
            m.cons.wincons.push(WinCons {
                id: gen::uid(&mut rr),
                name: format!("x{}", j),
                glass,
                frame,
                f_f: match rr.below(6) {
                    0 => 0.0,
                    1 => 1.0,
                    _ => rr.grid(0.0, 1.0, 0.01),
                },
                delta_u: match rr.below(4) {
                    0 => 0.0,
                    1 => 50.0,
                    _ => rr.grid(0.0, 50.0, 0.5),
                },
                g_glshwi: if rr.chance(1, 2) { Some(rr.grid(0.0, 1.0, 0.01)) } else { None },
                c_100: rr.grid(1.0, 100.0, 1.0),
            });
        }
        if i % 5 == 4 {
            // duplicated construction id: the later one is what props report
            let mut d = rr.pick(&m.cons.wincons).clone();
            d.f_f = 0.5;
            d.g_glshwi = None;
            m.cons.wincons.push(d);
            *stats.entry("with_duplicate_id").or_default() += 1;
        }
        if let Some(c) = one_case(&m, &format!("gen seed={} i={}", a.seed, i)) {
            if c.json["missing_glass_or_frame"].as_u64().unwrap_or(0) > 0 {
                *stats.entry("with_missing_glass_or_frame").or_default() += 1;
            }
            cases.push(c);
        }
    }
    Batch {
        imports: "From Coq Require Import ZArith NArith QArith List.\nFrom CTE Require Import Base.Num Model.BModel Model.Props Model.WinCons.".into(),
        case_ty: "c07_case".into(),
        agree: "agree_C07".into(),
        cases,
        impl_findings: vec![],
        rule: "construction databases of shipped models + generated ones: frame fraction in [0,1] incl. 0 and 1, dU in [0,50] incl. the ends, glazing/frame U on a 0.01 grid, optional shading factor, glazing/frame references present, nil or dangling, duplicated construction ids; both the reported props.wincons and the direct WinCons methods are compared; non-trivial = at least one window construction; distinct by content hash".into(),
        stats: json!(stats),
    }
}
