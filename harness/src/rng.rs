//! SplitMix64: every random choice of a run derives from one seed.
#[derive(Clone)]
pub struct Rng(pub u64);

impl Rng {
    pub fn new(seed: u64) -> Self {
        Rng(seed ^ 0x9E37_79B9_7F4A_7C15)
    }
    pub fn fork(&mut self, salt: u64) -> Rng {
        let a = self.next();
        Rng(a ^ salt.wrapping_mul(0xBF58_476D_1CE4_E5B9))
    }
    pub fn next(&mut self) -> u64 {
        self.0 = self.0.wrapping_add(0x9E37_79B9_7F4A_7C15);
        let mut z = self.0;
        z = (z ^ (z >> 30)).wrapping_mul(0xBF58_476D_1CE4_E5B9);
        z = (z ^ (z >> 27)).wrapping_mul(0x94D0_49BB_1331_11EB);
        z ^ (z >> 31)
    }
    /// uniform in 0..n (n > 0)
    pub fn below(&mut self, n: usize) -> usize {
        (self.next() % n as u64) as usize
    }
    /// uniform in lo..=hi
    pub fn range(&mut self, lo: i64, hi: i64) -> i64 {
        lo + (self.next() % ((hi - lo + 1) as u64)) as i64
    }
    pub fn chance(&mut self, num: u32, den: u32) -> bool {
        (self.next() % den as u64) < num as u64
    }
    pub fn unit(&mut self) -> f64 {
        (self.next() >> 11) as f64 / (1u64 << 53) as f64
    }
    pub fn f(&mut self, lo: f64, hi: f64) -> f32 {
        (lo + (hi - lo) * self.unit()) as f32
    }
    /// value on a decimal grid (e.g. step 0.01), as HULC files have
    pub fn grid(&mut self, lo: f64, hi: f64, step: f64) -> f32 {
        let n = ((hi - lo) / step).round() as i64;
        let k = self.range(0, n.max(0));
        (lo + k as f64 * step) as f32
    }
    pub fn pick<'a, T>(&mut self, v: &'a [T]) -> &'a T {
        &v[self.below(v.len())]
    }
    pub fn u128(&mut self) -> u128 {
        ((self.next() as u128) << 64) | self.next() as u128
    }
    pub fn shuffle<T>(&mut self, v: &mut [T]) {
        for i in (1..v.len()).rev() {
            let j = self.below(i + 1);
            v.swap(i, j);
        }
    }
}
