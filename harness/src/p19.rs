//! C19 — damaged project files are rejected with an error, never with a crash or hang.
//! Single-edit corruptions of every line of the shipped files are enumerated (exhaustively in the
//! thorough tier, a seeded slice in the quick tier) and run in worker processes with a watchdog;
//! a sample of damaged BDL texts is also given to the Coq block parser, which must agree with
//! hulc::bdl::build_blocks on accepted / rejected and on every recovered block.
use crate::hproj::{self, Src};
use crate::{corpus, p18, rng::Rng, Args, Batch, Case};
use bemodel::Model;
use serde_json::{json, Value};
use std::convert::TryFrom;
use std::io::{BufRead, BufReader, Write};
use std::path::PathBuf;
use std::process::{Child, Command, Stdio};
use std::sync::mpsc;
use std::time::Duration;

#[derive(Clone)]
pub struct FileEntry {
    pub name: String,
    /// 0 ctehexml, 1 cte, 2 kyg, 3 tbl
    pub kind: u8,
    pub text: String,
    /// project directory of a result file
    pub dir: Option<PathBuf>,
}

pub fn files() -> Vec<FileEntry> {
    let mut out = vec![];
    for p in hproj::shipped_projects() {
        out.push(FileEntry { name: p.name.clone(), kind: 0, text: p.src.text().to_string(), dir: None });
    }
    for p in hproj::legacy_cte_files() {
        out.push(FileEntry { name: p.name.clone(), kind: 1, text: p.src.text().to_string(), dir: None });
    }
    for d in corpus::project_dirs() {
        for (f, kind) in [("KyGananciasSolares.txt", 2u8), ("NewBDL_O.tbl", 3u8)] {
            let p = d.join(f);
            if let Some(t) = hproj::read_latin1(&p) {
                out.push(FileEntry { name: format!("{}/{}", d.file_name().unwrap().to_string_lossy(), f), kind, text: t, dir: Some(d.clone()) });
            }
        }
    }
    out
}

pub const EDITS: [&str; 7] = ["delete line", "duplicate line", "remove block", "rename reference", "number -> text", "number -> out-of-range value", "truncate"];
/// what a quoted reference is renamed to: a name nothing defines, a name that takes the air-gap path of the
/// layer reader with a multi-byte character five bytes from its end, vertex-like and location-like names, nothing
pub const RENAMES: [&str; 6] = ["ZZ_no_existe", "Cámara de aire ñ1 cm", "V0", "V99999999999999999999", "SPACE-", ""];
pub const OUT_OF_RANGE: [&str; 10] = ["0", "-1", "13", "99999", "1e39", "-1e39", "1e-46", "nan", "inf", "4294967296"];

/// byte range of the first numeric token in s[from..]
fn first_number(s: &str, from: usize) -> Option<(usize, usize)> {
    let b = s.as_bytes();
    let mut i = from;
    while i < b.len() {
        let c = b[i];
        let starts = c.is_ascii_digit() || ((c == b'-' || c == b'+' || c == b'.') && i + 1 < b.len() && (b[i + 1].is_ascii_digit() || b[i + 1] == b'.'));
        let prev_ok = i == 0 || !(b[i - 1].is_ascii_alphanumeric() || b[i - 1] == b'_');
        if starts && prev_ok {
            let mut j = i + 1;
            while j < b.len() && (b[j].is_ascii_digit() || b[j] == b'.' || ((b[j] == b'e' || b[j] == b'E') && j + 1 < b.len() && (b[j + 1].is_ascii_digit() || b[j + 1] == b'-' || b[j + 1] == b'+')) || ((b[j] == b'-' || b[j] == b'+') && (b[j - 1] == b'e' || b[j - 1] == b'E'))) {
                j += 1;
            }
            if s[i..j].bytes().any(|x| x.is_ascii_digit()) {
                return Some((i, j));
            }
        }
        i += 1;
    }
    None
}

/// the damaged text, or None when the edit does not apply to that line
pub fn damage(text: &str, line: usize, edit: usize, variant: usize) -> Option<String> {
    let lines: Vec<&str> = text.split_inclusive('\n').collect();
    if line >= lines.len() {
        return None;
    }
    let l = lines[line];
    let value_from = l.find('=').map(|p| p + 1).or_else(|| l.find('>').map(|p| p + 1)).unwrap_or(0);
    let replaced = |new_line: String| -> String {
        let mut out = String::with_capacity(text.len() + 16);
        for (i, x) in lines.iter().enumerate() {
            if i == line {
                out.push_str(&new_line);
            } else {
                out.push_str(x);
            }
        }
        out
    };
    match edit {
        0 => Some(replaced(String::new())),
        1 => Some(replaced(format!("{}{}", l, l))),
        2 => {
            let t = l.trim();
            if !(t.starts_with('"') && t.contains("\" = ")) {
                return None;
            }
            let end = (line..lines.len()).find(|&i| lines[i].trim() == "..")?;
            Some(lines.iter().enumerate().filter(|(i, _)| *i < line || *i > end).map(|(_, x)| *x).collect())
        }
        3 => {
            let a = l[value_from..].find('"')? + value_from;
            let b = l[a + 1..].find('"')? + a + 1;
            if b == a + 1 {
                return None;
            }
            Some(replaced(format!("{}\"{}\"{}", &l[..a], RENAMES[variant % RENAMES.len()], &l[b + 1..])))
        }
        4 => {
            let (a, b) = first_number(l, value_from)?;
            Some(replaced(format!("{}abc{}", &l[..a], &l[b..])))
        }
        5 => {
            let (a, b) = first_number(l, value_from)?;
            Some(replaced(format!("{}{}{}", &l[..a], OUT_OF_RANGE[variant % OUT_OF_RANGE.len()], &l[b..])))
        }
        _ => {
            let mut cut = l.len() / 2;
            while !l.is_char_boundary(cut) {
                cut -= 1;
            }
            let mut out: String = lines[..line].concat();
            out.push_str(&l[..cut]);
            Some(out)
        }
    }
}

/// a job's fourth number is the variant of its edit, or 1000 + a packed second edit applied to the result
/// of the first: (((line2 * 8 + edit2) * 16 + variant2) * 16 + variant1)
pub fn pack_second(v1: usize, l2: usize, e2: usize, v2: usize) -> usize {
    1000 + (((l2 * 8 + e2) * 16 + v2 % 16) * 16 + v1 % 16)
}
pub fn damage_job(text: &str, line: usize, edit: usize, variant: usize) -> Option<String> {
    if variant < 1000 {
        return damage(text, line, edit, variant);
    }
    let c = variant - 1000;
    let (v1, c) = (c % 16, c / 16);
    let (v2, c) = (c % 16, c / 16);
    let (e2, l2) = (c % 8, c / 8);
    let first = damage(text, line, edit, v1)?;
    damage(&first, l2, e2, v2)
}

/// what the library does with a file text: ("ok" | "err" | "panic", detail)
pub fn run_file(kind: u8, text: &str, scratch: &PathBuf, dir: &Option<PathBuf>) -> (&'static str, String) {
    let t = text.to_string();
    let sc = scratch.clone();
    let dir = dir.clone();
    let res = crate::guarded(std::panic::AssertUnwindSafe(move || -> Result<(), String> {
        match kind {
            0 => {
                let d = hulc::ctehexml::parse_with_catalog(&t).map_err(|e| e.to_string())?;
                let m = Model::try_from(&d).map_err(|e| e.to_string())?;
                let _ = m.as_json();
                Ok(())
            }
            1 => hulc::bdl::Data::new(&t).map(|_| ()).map_err(|e| e.to_string()),
            _ => {
                let bytes: Vec<u8> = t.chars().map(|c| if (c as u32) < 256 { c as u32 as u8 } else { b'?' }).collect();
                // the parser alone ...
                let alone = if kind == 2 {
                    hulc::kyg::parse(&t).map(|_| ()).map_err(|e| e.to_string())
                } else {
                    std::fs::write(&sc, &bytes).map_err(|e| e.to_string())?;
                    hulc::tbl::parse(&sc).map(|_| ()).map_err(|e| e.to_string())
                };
                // ... and the export with --use-extra on the project directory holding the damaged file
                if let Some(d) = &dir {
                    let sd = PathBuf::from(format!("{}.d", sc.to_string_lossy()));
                    let _ = std::fs::remove_dir_all(&sd);
                    std::fs::create_dir_all(&sd).map_err(|e| e.to_string())?;
                    if let Ok(rd) = std::fs::read_dir(d) {
                        for e in rd.filter_map(|e| e.ok()) {
                            let p = e.path();
                            let n = p.file_name().unwrap().to_string_lossy().to_string();
                            let is_target = (kind == 2 && n == "KyGananciasSolares.txt") || (kind == 3 && n == "NewBDL_O.tbl");
                            if is_target {
                                let _ = std::fs::write(sd.join(&n), &bytes);
                            } else if p.is_file() && (n.ends_with(".ctehexml") || n == "KyGananciasSolares.txt" || n == "NewBDL_O.tbl") {
                                let _ = std::fs::copy(&p, sd.join(&n));
                            }
                        }
                    }
                    let r = hulc2model::collect_hulc_data(sd.to_string_lossy().to_string(), true, true).map(|_| ()).map_err(|e| e.to_string());
                    let _ = std::fs::remove_dir_all(&sd);
                    // rejected by either is a rejection; both fine is a conversion
                    return alone.and(r);
                }
                alone
            }
        }
    }));
    match res {
        Ok(Ok(())) => ("ok", String::new()),
        Ok(Err(e)) => ("err", e.chars().take(120).collect()),
        Err(site) => ("panic", site),
    }
}

/// `vharness c19-worker SCRATCH`: jobs "file line edit variant" on stdin, one JSON line per job
pub fn worker() {
    let fs = files();
    let scratch = PathBuf::from(std::env::args().nth(2).unwrap_or_else(|| "c19-scratch.tbl".into()));
    let stdin = std::io::stdin();
    for line in stdin.lock().lines() {
        let line = match line {
            Ok(l) => l,
            Err(_) => break,
        };
        let v: Vec<usize> = line.split_whitespace().filter_map(|x| x.parse().ok()).collect();
        let out = if v.len() == 4 && v[0] < fs.len() {
            match damage_job(&fs[v[0]].text, v[1], v[2], v[3]) {
                None => json!({"o": "na"}),
                Some(t) => {
                    let (o, d) = run_file(fs[v[0]].kind, &t, &scratch, &fs[v[0]].dir);
                    json!({"o": o, "d": d})
                }
            }
        } else {
            json!({"o": "bad"})
        };
        println!("C19OUT {}", out);
        let _ = std::io::stdout().flush();
    }
}

struct Worker {
    child: Child,
    tx: std::process::ChildStdin,
    rx: mpsc::Receiver<String>,
}

fn spawn_worker(scratch: &str) -> Worker {
    let exe = std::env::current_exe().unwrap();
    let mut child = Command::new(exe).arg("c19-worker").arg(scratch).stdin(Stdio::piped()).stdout(Stdio::piped()).stderr(Stdio::null()).spawn().unwrap();
    let tx = child.stdin.take().unwrap();
    let out = child.stdout.take().unwrap();
    let (s, rx) = mpsc::channel();
    std::thread::spawn(move || {
        for l in BufReader::new(out).lines().flatten() {
            if let Some(r) = l.strip_prefix("C19OUT ") {
                if s.send(r.to_string()).is_err() {
                    break;
                }
            }
        }
    });
    Worker { child, tx, rx }
}

pub type Job = (usize, usize, usize, usize);
static HANGS: std::sync::atomic::AtomicUsize = std::sync::atomic::AtomicUsize::new(0);

/// outcome per job: (o, detail) with o in ok | err | panic | hang | died | na
pub fn run_jobs(jobs: &[Job], out_dir: &str, timeout_s: u64) -> Vec<(String, String)> {
    let nthreads = 16.min(jobs.len().max(1));
    let chunks: Vec<Vec<(usize, Job)>> = (0..nthreads).map(|k| jobs.iter().cloned().enumerate().filter(|(i, _)| i % nthreads == k).collect()).collect();
    let handles: Vec<_> = chunks
        .into_iter()
        .enumerate()
        .map(|(k, chunk)| {
            let scratch = format!("{}/c19-scratch-{}.tbl", out_dir, k);
            std::thread::spawn(move || {
                let mut res = vec![];
                let mut w = spawn_worker(&scratch);
                for (i, j) in chunk {
                    // a hang costs a full watchdog period: after a dozen of them the point is made
                    if HANGS.load(std::sync::atomic::Ordering::Relaxed) >= 12 {
                        res.push((i, ("na".to_string(), "skipped after 12 hangs".to_string())));
                        continue;
                    }
                    let sent = writeln!(w.tx, "{} {} {} {}", j.0, j.1, j.2, j.3).is_ok();
                    let r = if sent { w.rx.recv_timeout(Duration::from_secs(timeout_s)) } else { Err(mpsc::RecvTimeoutError::Disconnected) };
                    match r {
                        Ok(l) => {
                            let v: Value = serde_json::from_str(&l).unwrap_or(Value::Null);
                            res.push((i, (v["o"].as_str().unwrap_or("bad").to_string(), v["d"].as_str().unwrap_or("").to_string())));
                        }
                        Err(e) => {
                            let what = if matches!(e, mpsc::RecvTimeoutError::Timeout) { "hang" } else { "died" };
                            if what == "hang" {
                                HANGS.fetch_add(1, std::sync::atomic::Ordering::Relaxed);
                            }
                            let _ = w.child.kill();
                            let _ = w.child.wait();
                            res.push((i, (what.to_string(), String::new())));
                            w = spawn_worker(&scratch);
                        }
                    }
                }
                let _ = w.child.kill();
                let _ = w.child.wait();
                let _ = std::fs::remove_file(&scratch);
                res
            })
        })
        .collect();
    let mut all: Vec<(usize, (String, String))> = handles.into_iter().flat_map(|h| h.join().unwrap_or_default()).collect();
    all.sort_by_key(|x| x.0);
    all.into_iter().map(|x| x.1).collect()
}

pub fn run(a: &Args) -> Batch {
    let mut r = Rng::new(a.seed);
    let fs = files();
    std::fs::create_dir_all(&a.out).unwrap();
    let nlines: Vec<usize> = fs.iter().map(|f| f.text.split_inclusive('\n').count()).collect();
    let total_lines: usize = nlines.iter().sum();
    // ---------- the jobs ----------
    let mut jobs: Vec<Job> = vec![];
    if a.thorough {
        // every line of every file x every edit kind (one out-of-range value per line, cycling)
        for (fi, n) in nlines.iter().enumerate() {
            for l in 0..*n {
                for e in 0..EDITS.len() {
                    if e == 3 {
                        // every replacement name on every line that holds a quoted reference
                        for v in 0..RENAMES.len() {
                            jobs.push((fi, l, e, v));
                        }
                    } else {
                        jobs.push((fi, l, e, l));
                    }
                }
            }
        }
    } else {
        // a seeded slice. First stratified by what the line defines (attribute keyword / XML tag / block
        // type), per kind of file: every keyword gets every edit kind and every out-of-range value on some
        // of its lines, so that rare lines (MONTH lists, vertices, systems data) are not left to chance
        let mut by_key: std::collections::BTreeMap<(u8, String), Vec<(usize, usize)>> = Default::default();
        for (fi, f) in fs.iter().enumerate() {
            for (li, l) in f.text.split_inclusive('\n').enumerate() {
                let t = l.trim();
                let key = if let Some(p) = t.find('=') {
                    let k = t[..p].trim();
                    if k.starts_with('"') { format!("block {}", t[p + 1..].trim()) } else { k.chars().take(40).collect() }
                } else if t.starts_with('<') {
                    t[1..].split(|c| c == '>' || c == ' ').next().unwrap_or("").to_string()
                } else {
                    continue;
                };
                by_key.entry((f.kind, key)).or_default().push((fi, li));
            }
        }
        let per_key = (a.n / 2 / (by_key.len().max(1) * (EDITS.len() + OUT_OF_RANGE.len() + RENAMES.len()))).max(1);
        for (_, lines) in by_key.iter() {
            for _ in 0..per_key {
                for e in 0..EDITS.len() {
                    let variants = if e == 5 { OUT_OF_RANGE.len() } else if e == 3 { RENAMES.len() } else { 1 };
                    for v in 0..variants {
                        let (fi, l) = *r.pick(lines);
                        if damage(&fs[fi].text, l, e, v).is_some() {
                            jobs.push((fi, l, e, v));
                        }
                    }
                }
            }
        }
        // then lines weighted by file, every edit kind equally often
        let mut guard = 0;
        while jobs.len() < a.n && guard < a.n * 40 {
            guard += 1;
            let fi = r.below(fs.len());
            let l = r.below(nlines[fi].max(1));
            let e = r.below(EDITS.len());
            let v = r.below(OUT_OF_RANGE.len());
            if damage(&fs[fi].text, l, e, v).is_some() {
                jobs.push((fi, l, e, v));
            }
        }
    }
    // two edits in one file (a slice in both tiers): the second edit within 40 lines of the first or anywhere
    let ndouble = if a.thorough { 200_000 } else { a.n / 8 };
    let mut guard = 0;
    let mut nd = 0usize;
    while nd < ndouble && guard < ndouble * 20 {
        guard += 1;
        let fi = r.below(fs.len());
        let l = r.below(nlines[fi].max(1));
        let (e, v) = (r.below(EDITS.len()), r.below(OUT_OF_RANGE.len()));
        let l2 = if r.chance(1, 2) { (l + r.below(40)).min(nlines[fi].saturating_sub(1)) } else { r.below(nlines[fi].max(1)) };
        let (e2, v2) = (r.below(EDITS.len()), r.below(OUT_OF_RANGE.len()));
        let packed = pack_second(v, l2, e2, v2);
        if damage_job(&fs[fi].text, l, e, packed).is_some() {
            jobs.push((fi, l, e, packed));
            nd += 1;
        }
    }
    let results = run_jobs(&jobs, &a.out, 30);
    // ---------- findings: crashes and hangs, grouped by site ----------
    let mut impl_findings = vec![];
    let mut counts = std::collections::BTreeMap::<String, usize>::new();
    let mut per_edit = vec![[0usize; 4]; EDITS.len()];
    let mut per_kind = [0usize; 4];
    let mut by_site = std::collections::BTreeMap::<String, (usize, Job, String)>::new();
    for (j, (o, d)) in jobs.iter().zip(&results) {
        *counts.entry(o.clone()).or_insert(0) += 1;
        if o == "na" {
            continue;
        }
        per_kind[fs[j.0].kind as usize] += 1;
        let col = match o.as_str() {
            "ok" => 0,
            "err" => 1,
            "panic" => 2,
            _ => 3,
        };
        per_edit[j.2][col] += 1;
        if col >= 2 {
            // a crash site is the source location of the panic; the message varies with the input
            let site = if o == "panic" { d.rsplit(" @ ").next().unwrap_or(d).to_string() } else { format!("{} (no answer from the worker process)", o) };
            let e = by_site.entry(site).or_insert((0, *j, d.clone()));
            e.0 += 1;
        }
    }
    for (site, (n, j, msg)) in &by_site {
        let damaged = damage_job(&fs[j.0].text, j.1, j.2, j.3).unwrap_or_default();
        let dl: String = damaged.split_inclusive('\n').nth(j.1).unwrap_or("").chars().take(160).collect();
        let orig: String = fs[j.0].text.split_inclusive('\n').nth(j.1).unwrap_or("").chars().take(160).collect();
        impl_findings.push(json!({"kind": "crash_on_damaged_file", "site": site, "message": msg, "times": n, "file": fs[j.0].name, "line": j.1 + 1, "edit": EDITS[j.2],
            "value": if j.2 == 5 { OUT_OF_RANGE[(j.3 % 1000) % 16 % OUT_OF_RANGE.len()] } else if j.2 == 3 { RENAMES[(j.3 % 1000) % 16 % RENAMES.len()] } else { "" }, "second_edit": j.3 >= 1000, "original_line": orig, "damaged_line": dl,
            "job": [j.0, j.1, j.2, j.3], "classes": [format!("crash_site:{}", site)]}));
    }
    // ---------- Coq: the block parser model on damaged BDL texts ----------
    let mut cases = vec![];
    let small: Vec<usize> = (0..fs.len()).filter(|&i| fs[i].kind <= 1 && fs[i].text.len() < 120_000).collect();
    let ncoq = if a.thorough { 600 } else { 96 };
    let mut guard = 0;
    let mut parser_hangs = 0usize;
    while cases.len() < ncoq && guard < ncoq * 40 && !small.is_empty() && parser_hangs < 3 {
        guard += 1;
        let fi = *r.pick(&small);
        let l = r.below(nlines[fi].max(1));
        let e = r.below(EDITS.len());
        let v = r.below(OUT_OF_RANGE.len());
        let bdl_of = |t: &str| if fs[fi].kind == 0 { Src::Ctehexml(t.to_string()).bdl() } else { t.to_string() };
        if let Some(t) = damage(&fs[fi].text, l, e, v) {
            let bdl = bdl_of(&t);
            if bdl == bdl_of(&fs[fi].text) {
                // the edit fell outside the BDL part of the project file
                continue;
            }
            // the block parser runs in a thread of its own: a text it never returns from is a finding, not a stall
            let (txc, rxc) = mpsc::channel();
            let b2 = bdl.clone();
            std::thread::spawn(move || {
                let r = p18::impl_term(&b2);
                let _ = txc.send((r.0, r.1));
            });
            let (it, cls) = match rxc.recv_timeout(Duration::from_secs(20)) {
                Ok(x) => x,
                Err(_) => {
                    parser_hangs += 1;
                    impl_findings.push(json!({"kind": "block_parser_hangs", "site": "hulc::bdl::build_blocks did not return in 20 s", "file": fs[fi].name, "line": l + 1, "edit": EDITS[e], "job": [fi, l, e, v],
                        "classes": ["crash_site:hang in build_blocks"]}));
                    ("IPanic".to_string(), 2)
                }
            };
            cases.push(Case {
                term: format!("mkC18 {}\n ({})", p18::clines(&bdl), it),
                post: String::new(),
                json: json!({"kind": "damaged BDL text", "file": fs[fi].name, "line": l + 1, "edit": EDITS[e], "job": [fi, l, e, v], "block_parser": (["accepted", "rejected", "crashed"][cls])}),
                nontrivial: true,
            });
        }
    }
    Batch {
        imports: "From Coq Require Import ZArith NArith QArith List String.\nFrom CTE Require Import Base.Num Model.Bdl Model.BdlCase.\nLocal Open Scope string_scope.".into(),
        case_ty: "c18case".into(),
        agree: "agree_C18".into(),
        cases,
        impl_findings,
        rule: "files = the shipped .ctehexml projects (parse_with_catalog + Model::try_from + as_json), legacy .cte files (bdl::Data::new), KyGananciasSolares.txt (kyg::parse) and NewBDL_O.tbl (tbl::parse), each also through hulc2model::collect_hulc_data(dir, true, true) on a copy of its project directory; edits on one line = delete, duplicate, remove the block it opens, rename the first quoted reference, first number -> text, first number -> one of 10 out-of-range values (0, -1, 13, 99999, +-1e39, 1e-46, nan, inf, 2^32), truncate the file in the middle of the line; thorough tier = every line x every edit, quick tier = a seeded slice, half of it stratified by attribute keyword / XML tag so that every kind of line meets every edit and every out-of-range value; both tiers add files with two edits (the second near the first or anywhere); every damaged file runs in a worker process with a 30 s watchdog; one finding per distinct crash site. Coq cases = damaged BDL texts of the smaller files: the model's block parser and hulc::bdl::build_blocks must agree on accepted / rejected and on all blocks; non-trivial = the edit fell inside the BDL text".into(),
        stats: json!({"files": fs.len(), "lines": total_lines, "damaged_files_run": jobs.len(), "outcomes": counts, "files_by_kind": {"ctehexml": per_kind[0], "cte": per_kind[1], "kyg": per_kind[2], "tbl": per_kind[3]},
            "by_edit": EDITS.iter().enumerate().map(|(i, e)| json!({"edit": e, "converted": per_edit[i][0], "rejected": per_edit[i][1], "crashed": per_edit[i][2], "hang_or_died": per_edit[i][3]})).collect::<Vec<_>>(),
            "distinct_crash_sites": by_site.len(), "files_with_two_edits": nd}),
    }
}
