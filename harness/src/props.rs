//! Printer of the implementation's reported EnergyProps / indicator data as Coq terms.
use crate::coq::*;
use bemodel::energy::EnergyProps;
use bemodel::*;

/// None when the number is not finite
pub fn fin(x: f32) -> Option<f32> {
    if x.is_finite() {
        Some(x)
    } else {
        None
    }
}
/// 0 for non-finite numbers (the case then carries finite = false)
pub fn qz(x: f32) -> String {
    q(if x.is_finite() { x } else { 0.0 })
}

/// Option<f32> with non-finite payloads printed as 0 (the case then carries finite = false)
pub fn optqz(o: &Option<f32>) -> String {
    opt(o, |x| qz(*x))
}

pub fn eprops(p: &EnergyProps) -> String {
    let g = &p.global;
    let global = format!(
        "(mkGlobalP {} {} {} {} {} {} {})",
        qz(g.a_ref), qz(g.vol_env_gross), qz(g.vol_env_net), qz(g.vol_env_inh_net), qz(g.compactness),
        optq(&g.n_50_test_ach), qz(g.c_o_100)
    );
    let walls: Vec<_> = p.walls.iter().collect();
    let wins: Vec<_> = p.windows.iter().collect();
    let tbs: Vec<_> = p.thermal_bridges.iter().collect();
    let wcs: Vec<_> = p.wincons.iter().collect();
    let sps: Vec<_> = p.spaces.iter().collect();
    format!(
        "(mkEProps {}\n {}\n {}\n {}\n {}\n {})",
        global,
        list(&walls, |(i, w)| format!(
            "({}, mkWallP {} {} {} {} {} {} {} {} {} {} {} {})",
            id(**i), id(w.space), optid(&w.space_next), boundary(w.bounds), id(w.cons), orient(w.orientation),
            tilt(w.tilt), qz(w.area_gross), qz(w.area_net), qz(w.multiplier), b(w.is_tenv), optqz(&w.u_value),
            optqz(&w.u_value_override)
        )),
        list(&wins, |(i, w)| format!(
            "({}, mkWinP {} {} {} {} {} {} {} {} {} {} {} {})",
            id(**i), id(w.cons), id(w.wall), orient(w.orientation), tilt(w.tilt), qz(w.area), qz(w.multiplier),
            boundary(w.bounds), b(w.is_tenv), optqz(&w.u_value), optqz(&w.u_value_override),
            optqz(&w.f_shobst), optqz(&w.f_shobst_override)
        )),
        list(&tbs, |(i, t)| format!("({}, mkTbP {} {} {})", id(**i), tbkind(t.kind), qz(t.l), qz(t.psi))),
        list(&wcs, |(i, c)| format!(
            "({}, mkWinConsP {} {} {} {} {})",
            id(**i), qz(c.g_glwi), qz(c.g_glshwi), optqz(&c.u_value), qz(c.c_100), qz(c.f_f)
        )),
        list(&sps, |(i, s)| format!(
            "({}, mkSpaceP {} {} {} {} {} {} {})",
            id(**i), spacetype(s.kind), b(s.inside_tenv), qz(s.area), qz(s.multiplier), qz(s.height),
            qz(s.height_net), qz(s.volume_net)
        ))
    )
}

/// every number the K model reads from props is finite
pub fn k_inputs_finite(p: &EnergyProps) -> bool {
    p.walls.values().all(|w| w.area_net.is_finite() && w.multiplier.is_finite() && w.u_value.map_or(true, f32::is_finite))
        && p.windows.values().all(|w| w.area.is_finite() && w.u_value.map_or(true, f32::is_finite))
}
/// every number the n50 model reads from props is finite
pub fn n50_inputs_finite(p: &EnergyProps) -> bool {
    p.global.vol_env_net.is_finite()
        && p.walls.values().all(|w| w.area_net.is_finite() && w.multiplier.is_finite())
        && p.windows.values().all(|w| w.area.is_finite())
}
/// every number the q_sol;jul model reads from props is finite
pub fn qsol_inputs_finite(p: &EnergyProps) -> bool {
    p.global.a_ref.is_finite() && p.windows.values().all(|w| w.area.is_finite() && w.multiplier.is_finite() && w.f_shobst.map_or(true, f32::is_finite))
}
/// which props numbers are not finite (for the replay file)
pub fn nonfinite_report(p: &EnergyProps) -> Vec<String> {
    let mut v = vec![];
    for (i, w) in &p.walls {
        if !w.area_net.is_finite() || !w.u_value.map_or(true, f32::is_finite) {
            v.push(format!("wall {} area_net={} u_value={:?}", i, w.area_net, w.u_value));
        }
    }
    for (i, w) in &p.windows {
        if !w.f_shobst.map_or(true, f32::is_finite) || !w.u_value.map_or(true, f32::is_finite) {
            v.push(format!("window {} f_shobst={:?} u_value={:?}", i, w.f_shobst, w.u_value));
        }
    }
    let g = &p.global;
    for (n, x) in [("a_ref", g.a_ref), ("vol_env_net", g.vol_env_net), ("compactness", g.compactness), ("global_ventilation_rate", g.global_ventilation_rate)] {
        if !x.is_finite() {
            v.push(format!("global.{}={}", n, x));
        }
    }
    v
}
