//! C12 — obstruction factors: bounded, monotone, ~1 for unobstructed windows; sunlit fraction by
//! exact geometry.
use crate::{coq, corpus, gen, rng::Rng, Args, Batch, Case};
use bemodel::climatedata::{CLIMATEMETADATA, JULYRADDATA};
use bemodel::energy::ray_dir_to_sun;
use bemodel::*;
use climate::{nday_from_md, radiation_for_surface, SolarRadiation};
use serde_json::json;
use std::collections::HashMap;

fn v3(p: &[f32; 3]) -> String {
    format!("(mkV {} {} {})", coq::q(p[0]), coq::q(p[1]), coq::q(p[2]))
}
fn frac(n: i64, d: i64) -> String {
    if n < 0 {
        format!("(({}) # {})", n, d)
    } else {
        format!("({} # {})", n, d)
    }
}

/// (cos, sin, den, degrees)
type Pair = (i64, i64, i64, f64);
fn unit_pairs() -> Vec<Pair> {
    let mut v = vec![(1, 0, 1, 0.0), (0, 1, 1, 90.0), (-1, 0, 1, 180.0), (0, -1, 1, -90.0)];
    for (p, q) in [(1i64, 2i64), (1, 3), (2, 3), (1, 4), (3, 4), (1, 5), (2, 5), (3, 5), (1, 7), (2, 7)] {
        let d = q * q + p * p;
        let (c, s) = (q * q - p * p, 2 * p * q);
        for (cc, ss) in [(c, s), (-c, s), (c, -s), (-c, -s), (s, c), (-s, c)] {
            v.push((cc, ss, d, (ss as f64).atan2(cc as f64).to_degrees()));
        }
    }
    v
}
/// quarter turn added to a pair
fn turn(p: Pair, quarters: i32) -> Pair {
    let mut r = p;
    for _ in 0..quarters.rem_euclid(4) {
        r = (-r.1, r.0, r.2, r.3 + 90.0);
    }
    r
}

#[derive(Clone)]
struct Rat {
    az: Pair,
    tilt: Pair,
}
fn pose_term(pos: &Point3, r: &Rat) -> String {
    format!(
        "(mkPose {} {} {} {} {})",
        v3(&[pos.x, pos.y, pos.z]), frac(r.az.0, r.az.2), frac(r.az.1, r.az.2), frac(r.tilt.0, r.tilt.2), frac(r.tilt.1, r.tilt.2)
    )
}
fn rect(w: f32, h: f32) -> Polygon {
    vec![point![0.0, 0.0], point![w, 0.0], point![w, h], point![0.0, h]]
}

struct Built {
    m: Model,
    rats: HashMap<Uuid, Rat>,
}

const UP: Pair = (1, 0, 1, 0.0);
const VERT: Pair = (0, 1, 1, 90.0);
const DOWN: Pair = (-1, 0, 1, 180.0);

fn gen_building(r: &mut Rng, pairs: &[Pair]) -> Built {
    let mut m = Model::default();
    m.meta.climate = *r.pick(&coq::ZONES);
    let mut rats = HashMap::new();
    let base = if r.chance(1, 3) { pairs[r.below(4)] } else { *r.pick(pairs) };
    let (c, s) = (base.0 as f64 / base.2 as f64, base.1 as f64 / base.2 as f64);
    let rot = |x: f64, y: f64| -> (f32, f32) { ((x * c - y * s) as f32, (x * s + y * c) as f32) };
    let nboxes = r.range(1, 3) as usize;
    let mut x0 = 0.0f64;
    for b in 0..nboxes {
        let sp = Space { name: format!("s{}", b), ..Default::default() };
        let w = r.grid(3.0, 9.0, 0.5) as f64;
        let d = r.grid(3.0, 9.0, 0.5) as f64 + if b == 1 { 4.0 } else { 0.0 }; // L shapes: non-convex outline
        let h = r.grid(2.5, 4.0, 0.25);
        let z0 = 0.0f32;
        // side walls: local x axis along the wall, outward normal = Rz(az)(0,-1,0)
        let sides = [(x0, 0.0, 0, w), (x0 + w, 0.0, 1, d), (x0 + w, d, 2, w), (x0, d, 3, d)];
        for (k, (px, py, q, len)) in sides.iter().enumerate() {
            let (gx, gy) = rot(*px, *py);
            let az = turn(base, *q);
            let bounds = match r.below(8) {
                0 => BoundaryType::ADIABATIC,
                1 => BoundaryType::INTERIOR,
                2 => BoundaryType::GROUND,
                _ => BoundaryType::EXTERIOR,
            };
            let wall = Wall {
                name: format!("s{}w{}", b, k),
                bounds,
                space: sp.id,
                geometry: WallGeom { tilt: 90.0, azimuth: az.3 as f32, position: if r.chance(1, 14) { None } else { Some(point![gx, gy, z0]) }, polygon: rect(*len as f32, h) },
                ..Default::default()
            };
            rats.insert(wall.id, Rat { az, tilt: VERT });
            let mut wall = wall;
            if r.chance(2, 3) {
                let ww = r.grid(0.5, 2.0, 0.25);
                let wh = r.grid(0.5, 1.5, 0.25);
                // the same outline listed from another corner: the window is placed in the frame of the first edge
                // (origin at the first vertex, x along the first edge), so its position is given in that frame
                let start = if r.chance(1, 4) { 1 + r.below(3) } else { 0 };
                let (lx, ly) = (r.grid(0.25, (*len - 2.25).max(0.25), 0.25), r.grid(0.25, 1.0, 0.25));
                let (lenf, hf) = (*len as f32, h);
                let pos = match start {
                    0 => point![lx, ly],
                    // origin (len, 0), x along +Y, y along -X: local (X, Y) = (len - py, px)
                    1 => point![ly, lenf - lx - wh.min(lenf - lx)],
                    // origin (len, h), x along -X, y along -Y
                    2 => point![lenf - lx - ww.min(lenf - lx), (hf - ly - wh).max(0.0)],
                    // origin (0, h), x along -Y, y along +X
                    _ => point![(hf - ly - ww).max(0.0), lx],
                };
                if start > 0 {
                    wall.geometry.polygon.rotate_left(start);
                }
                m.windows.push(Window {
                    name: format!("s{}w{}h", b, k),
                    wall: wall.id,
                    geometry: WinGeom {
                        position: if r.chance(1, 12) { None } else { Some(pos) },
                        width: ww,
                        height: wh,
                        setback: if start > 0 { 0.0 } else { *r.pick(&[0.0, 0.0, 0.005, 0.1, 0.25, 0.5]) },
                    },
                    ..Default::default()
                });
            }
            m.walls.push(wall);
        }
        // roof (sometimes pitched with a rational tilt, with a skylight) and floor
        let roof_tilt = if r.chance(1, 4) { *r.pick(&pairs[4..]) } else { UP };
        let roof_tilt = if roof_tilt.0 > 0 && roof_tilt.1 >= 0 { roof_tilt } else { UP };
        let (gx, gy) = rot(x0, 0.0);
        let roof = Wall {
            name: format!("s{}roof", b),
            bounds: BoundaryType::EXTERIOR,
            space: sp.id,
            geometry: WallGeom { tilt: roof_tilt.3 as f32, azimuth: base.3 as f32, position: Some(point![gx, gy, z0 + h]), polygon: rect(w as f32, d as f32) },
            ..Default::default()
        };
        rats.insert(roof.id, Rat { az: base, tilt: roof_tilt });
        if r.chance(1, 3) {
            m.windows.push(Window {
                name: format!("s{}sky", b),
                wall: roof.id,
                geometry: WinGeom { position: Some(point![0.5, 0.5]), width: 1.0, height: 1.0, setback: *r.pick(&[0.0, 0.2, 0.4]) },
                ..Default::default()
            });
        }
        m.walls.push(roof);
        let (fx, fy) = rot(x0, d);
        let floor = Wall {
            name: format!("s{}floor", b),
            bounds: BoundaryType::GROUND,
            space: sp.id,
            geometry: WallGeom { tilt: 180.0, azimuth: base.3 as f32, position: Some(point![fx, fy, z0]), polygon: rect(w as f32, d as f32) },
            ..Default::default()
        };
        rats.insert(floor.id, Rat { az: base, tilt: DOWN });
        m.walls.push(floor);
        m.spaces.push(sp);
        x0 += w;
    }
    // free-standing obstacles: shades in rational poses, some right in front of the facades
    for k in 0..r.range(0, 4) as usize {
        let az = if r.chance(1, 2) { turn(base, r.below(4) as i32) } else { *r.pick(pairs) };
        let tilt = if r.chance(3, 4) { VERT } else { *r.pick(pairs) };
        let (gx, gy) = rot(r.grid(-6.0, 22.0, 0.5) as f64, r.grid(-8.0, 18.0, 0.5) as f64);
        let sh = Shade {
            name: format!("shade{}", k),
            geometry: WallGeom { tilt: tilt.3 as f32, azimuth: az.3 as f32, position: Some(point![gx, gy, r.grid(0.0, 3.0, 0.5)]), polygon: if r.chance(1, 10) { vec![] } else { rect(r.grid(2.0, 12.0, 0.5), r.grid(2.0, 9.0, 0.5)) } },
            ..Default::default()
        };
        rats.insert(sh.id, Rat { az, tilt });
        m.shades.push(sh);
    }
    Built { m, rats }
}

fn bk(b: BoundaryType) -> &'static str {
    match b {
        BoundaryType::EXTERIOR => "BExt",
        BoundaryType::INTERIOR => "BInt",
        BoundaryType::GROUND => "BGnd",
        BoundaryType::ADIABATIC => "BAdb",
    }
}

struct HourRow {
    dir3: [f32; 3],
    f: f32,
    dir: f32,
    dif: f32,
}

/// the per-hour ingredients of compute_fshobst, through the public API
fn window_hours(m: &Model, w: &Window) -> Option<(Vec<[f32; 3]>, Vec<HourRow>)> {
    let wall = m.get_wall(w.wall)?;
    let latitude = CLIMATEMETADATA.lock().unwrap().get(&m.meta.climate)?.latitude;
    let rows = JULYRADDATA.lock().unwrap().get(&m.meta.climate)?.clone();
    let occluders = m.collect_occluders();
    let origins = m.ray_origins_for_window(w);
    let mut out = vec![];
    for d in &rows {
        let rd = ray_dir_to_sun(d.azimuth, d.altitude);
        let nday = nday_from_md(d.month, d.day);
        let rad = radiation_for_surface(nday, d.hour, SolarRadiation { dir: d.dir, dif: d.dif }, latitude, wall.geometry.tilt, wall.geometry.azimuth, 0.2);
        let f = m.sunlit_fraction(w, &origins, &rd, &occluders);
        out.push(HourRow { dir3: [rd.x, rd.y, rd.z], f, dir: rad.dir, dif: rad.dif });
    }
    Some((origins.iter().map(|p| [p.x, p.y, p.z]).collect(), out))
}

fn case_of(b: &Built, origin: &str, exact: bool, every: usize, stats: &mut std::collections::BTreeMap<String, usize>) -> Option<Case> {
    coq::reset_ids();
    let m = &b.m;
    let fmap = crate::guarded(std::panic::AssertUnwindSafe(|| m.compute_fshobst())).ok()?;
    let surf = |id: Uuid, bounds: &str, g: &WallGeom| {
        let pose = match (g.position, b.rats.get(&id)) {
            (Some(p), Some(r)) => format!("(Some {})", pose_term(&p, r)),
            _ => "None".to_string(),
        };
        format!("(mkSurf {} {} {} {})", coq::id(id), bounds, pose, coq::list(&g.polygon, |p| format!("({}, {})", coq::q(p.x), coq::q(p.y))))
    };
    let walls = coq::list(&m.walls, |w| surf(w.id, bk(w.bounds), &w.geometry));
    let shades = coq::list(&m.shades, |s| surf(s.id, "BExt", &s.geometry));
    let wins = coq::list(&m.windows, |w| {
        format!(
            "(mkWinq {} {} {} {} {} {})",
            coq::id(w.id), coq::id(w.wall), coq::opt(&w.geometry.position, |p| format!("({}, {})", coq::q(p.x), coq::q(p.y))),
            coq::q(w.geometry.width), coq::q(w.geometry.height), coq::q(w.geometry.setback)
        )
    });
    let mut wterms = vec![];
    let mut partial = 0;
    for w in &m.windows {
        let (origins, hours) = match crate::guarded(std::panic::AssertUnwindSafe(|| window_hours(m, w))) {
            Ok(Some(x)) => x,
            _ => continue,
        };
        if hours.iter().any(|h| !(h.f.is_finite() && h.dir.is_finite() && h.dif.is_finite())) {
            *stats.entry("nonfinite_hour_values".into()).or_default() += 1;
        }
        if hours.iter().any(|h| h.f > 0.0 && h.f < 1.0) {
            partial += 1;
        }
        let rep = fmap.get(&w.id).copied().filter(|x| x.is_finite());
        wterms.push(format!(
            "(mkC12Win {} {} {}\n {}\n {})",
            coq::id(w.id), coq::b(exact), coq::list(&origins, v3),
            coq::list(&hours.iter().enumerate().collect::<Vec<_>>(), |(k, h)| format!(
                "({}, {}, {}, {}, {})",
                v3(&h.dir3), crate::props::qz(h.f), crate::props::qz(h.dir), crate::props::qz(h.dif), coq::b(k % every == 0)
            )),
            coq::optq(&rep)
        ));
    }
    *stats.entry("windows".into()).or_default() += wterms.len();
    *stats.entry("windows_partially_shaded_some_hour".into()).or_default() += partial;
    Some(Case {
        post: String::new(),
        term: format!("(mkC12 {}\n {}\n {}\n [{}])", walls, shades, wins, wterms.join(";\n ")),
        json: json!({"origin": origin, "exact_geometry": exact, "model": serde_json::to_value(m).unwrap(), "f_shobst": fmap.iter().map(|(k, v)| (k.to_string(), *v)).collect::<HashMap<_, _>>()}),
        nontrivial: partial > 0,
    })
}

/// metamorphic oracles on the implementation alone
fn oracles(b: &Built, r: &mut Rng, origin: &str, findings: &mut Vec<serde_json::Value>) {
    let m = &b.m;
    let before = match crate::guarded(std::panic::AssertUnwindSafe(|| m.compute_fshobst())) {
        Ok(x) => x,
        Err(_) => return,
    };
    for (id, f) in &before {
        if !(*f >= 0.0 && *f <= 1.0) {
            findings.push(json!({"what": "obstruction factor outside [0,1]", "window": id.to_string(), "value": format!("{}", f), "origin": origin,
                "model": serde_json::to_value(m).unwrap(), "classes": ["fshobst_out_of_range"]}));
        }
    }
    // adding any wall or shade never increases the factor of any window
    let mut k = m.clone();
    k.shades.push(Shade {
        geometry: WallGeom {
            tilt: *r.pick(&[90.0, 90.0, 0.0, 37.0, 120.0]),
            azimuth: r.grid(-180.0, 180.0, 7.5),
            position: Some(point![r.grid(-8.0, 20.0, 0.5), r.grid(-10.0, 16.0, 0.5), r.grid(0.0, 4.0, 0.5)]),
            polygon: rect(r.grid(3.0, 15.0, 0.5), r.grid(3.0, 10.0, 0.5)),
        },
        ..Default::default()
    });
    if let Ok(after) = crate::guarded(std::panic::AssertUnwindSafe(|| k.compute_fshobst())) {
        for (id, f) in &before {
            if let Some(g) = after.get(id) {
                if *g > *f + 0.0101 {
                    findings.push(json!({"what": "adding a shade increased an obstruction factor", "window": id.to_string(), "before": f, "after": g, "origin": origin,
                        "model": serde_json::to_value(&k).unwrap(), "classes": ["fshobst_not_monotone"]}));
                }
            }
        }
    }
    // a window nothing can hide: isolated copy of its wall only
    if let Some(w) = m.windows.first() {
        if let Some(wall) = m.get_wall(w.wall) {
            if wall.geometry.position.is_some() && w.geometry.position.is_some() {
                let mut iso = Model::default();
                iso.meta.climate = m.meta.climate;
                let mut ww = w.clone();
                ww.geometry.setback = 0.0;
                iso.walls.push(wall.clone());
                iso.windows.push(ww);
                if let Ok(fm) = crate::guarded(std::panic::AssertUnwindSafe(|| iso.compute_fshobst())) {
                    if let Some(f) = fm.get(&w.id) {
                        if !(*f >= 0.97) {
                            findings.push(json!({"what": "a window nothing can hide has a factor below 0.97", "value": format!("{}", f), "origin": origin,
                                "model": serde_json::to_value(&iso).unwrap(), "classes": ["unobstructed_below_097"]}));
                        }
                    }
                }
            }
        }
    }
}

pub fn run(a: &Args) -> Batch {
    let mut r = Rng::new(a.seed ^ 0x12);
    let mut cases = vec![];
    let mut findings = vec![];
    let mut stats = std::collections::BTreeMap::<String, usize>::new();
    let pairs = unit_pairs();
    let every = if a.thorough { 2 } else { 4 };
    for i in 0..a.n {
        let mut rr = r.fork(i as u64);
        let b = gen_building(&mut rr, &pairs);
        let origin = format!("gen seed={} i={}", a.seed, i);
        if let Some(c) = case_of(&b, &origin, true, every, &mut stats) {
            cases.push(c);
        }
        oracles(&b, &mut rr, &origin, &mut findings);
    }
    // real models and generic generated models: aggregation, range and the metamorphic oracles
    let mut others: Vec<(String, Model)> = corpus::shipped_models();
    let cfg = gen::GenCfg::default();
    for i in 0..a.n / 4 {
        let mut rr = r.fork(70000 + i as u64);
        others.push((format!("generic seed={} i={}", a.seed, i), gen::gen_model(&mut rr, &cfg)));
    }
    for (k, (name, m)) in others.into_iter().enumerate() {
        let mut rr = r.fork(90000 + k as u64);
        let b = Built { m, rats: HashMap::new() };
        if let Some(c) = case_of(&b, &name, false, every, &mut stats) {
            cases.push(c);
        }
        oracles(&b, &mut rr, &name, &mut findings);
    }
    Batch {
        imports: "From Coq Require Import ZArith NArith QArith List.\nFrom CTE Require Import Base.Num Model.Aabb Model.Poly Model.Fshobst.".into(),
        case_ty: "c12_case".into(),
        agree: "agree_C12".into(),
        cases,
        impl_findings: findings,
        rule: "generated buildings of 1..3 boxes (L-shaped outlines) turned by a rational angle, pitched roofs with rational tilt, skylights, set-back windows, free-standing shades in rational poses, elements without position, random climate zone: sample points, the hourly sunlit fractions (every 4th hour in quick, 2nd in thorough) against exact geometry with margins, and the aggregation of all hours; shipped and generic generated models: aggregation and range only; metamorphic oracles on the implementation (range, extra shade never increases a factor, isolated window >= 0.97); non-trivial = some window partially shaded at some hour; distinct by content hash".into(),
        stats: json!(stats),
    }
}
