//! HULC projects: the shipped corpus, text access to the BDL part, conversion outcomes.
use crate::corpus;
use bemodel::Model;
use hulc::bdl::Data;
use hulc::ctehexml::{self, CtehexmlData};
use std::convert::TryFrom;
use std::path::PathBuf;

#[derive(Clone)]
pub enum Src {
    /// a .ctehexml project file (UTF-8 XML with the BDL text in <EntradaGraficaLIDER>)
    Ctehexml(String),
    /// a legacy LIDER .cte file (BDL text, latin-1)
    Cte(String),
}

pub struct Project {
    pub name: String,
    pub src: Src,
}

pub fn read_latin1(p: &PathBuf) -> Option<String> {
    std::fs::read(p).ok().map(|b| b.iter().map(|c| *c as char).collect())
}

pub fn shipped_projects() -> Vec<Project> {
    let mut out = vec![];
    for d in corpus::project_dirs() {
        if let Ok(rd) = std::fs::read_dir(&d) {
            let mut files: Vec<PathBuf> = rd.filter_map(|e| e.ok()).map(|e| e.path()).filter(|p| p.extension().map_or(false, |x| x == "ctehexml")).collect();
            files.sort();
            for f in files {
                if let Ok(t) = std::fs::read_to_string(&f) {
                    out.push(Project { name: f.file_name().unwrap().to_string_lossy().to_string(), src: Src::Ctehexml(t) });
                }
            }
        }
    }
    out
}

pub fn legacy_cte_files() -> Vec<Project> {
    let dir = corpus::repo().join("hulc_tests/tests/liderdata");
    let mut files: Vec<PathBuf> = std::fs::read_dir(&dir)
        .map(|d| d.filter_map(|e| e.ok()).map(|e| e.path()).filter(|p| p.extension().map_or(false, |x| x.to_string_lossy().to_lowercase() == "cte")).collect())
        .unwrap_or_default();
    files.sort();
    files.into_iter().filter_map(|f| read_latin1(&f).map(|t| Project { name: f.file_name().unwrap().to_string_lossy().to_string(), src: Src::Cte(t) })).collect()
}

/// (start, end) byte range of the BDL text inside a ctehexml document
pub fn bdl_range(xml: &str) -> Option<(usize, usize)> {
    let a = xml.find("<EntradaGraficaLIDER>")? + "<EntradaGraficaLIDER>".len();
    let b = xml[a..].find("</EntradaGraficaLIDER>")? + a;
    let inner = &xml[a..b];
    if let Some(c) = inner.find("<![CDATA[") {
        let s = a + c + "<![CDATA[".len();
        let e = xml[s..b].rfind("]]>")? + s;
        Some((s, e))
    } else {
        Some((a, b))
    }
}

impl Src {
    pub fn bdl(&self) -> String {
        match self {
            Src::Ctehexml(x) => bdl_range(x).map(|(a, b)| x[a..b].to_string()).unwrap_or_default(),
            Src::Cte(t) => t.clone(),
        }
    }
    pub fn with_bdl(&self, bdl: &str) -> Src {
        match self {
            Src::Ctehexml(x) => match bdl_range(x) {
                Some((a, b)) => Src::Ctehexml(format!("{}{}{}", &x[..a], bdl, &x[b..])),
                None => Src::Ctehexml(x.clone()),
            },
            Src::Cte(_) => Src::Cte(bdl.to_string()),
        }
    }
    pub fn text(&self) -> &str {
        match self {
            Src::Ctehexml(x) | Src::Cte(x) => x,
        }
    }
    /// parse (with the LIDER catalog for project files)
    pub fn parse(&self) -> Result<CtehexmlData, String> {
        match self {
            Src::Ctehexml(x) => ctehexml::parse_with_catalog(x).map_err(|e| e.to_string()),
            Src::Cte(t) => Data::new(t).map(|d| CtehexmlData { bdldata: d, ..Default::default() }).map_err(|e| e.to_string()),
        }
    }
}

#[derive(Debug, Clone)]
pub enum Outcome {
    Ok(Box<Model>),
    Err(String),
    Panic(String),
}
impl Outcome {
    pub fn class(&self) -> usize {
        match self {
            Outcome::Ok(_) => 0,
            Outcome::Err(_) => 1,
            Outcome::Panic(_) => 2,
        }
    }
}

/// parse + convert, catching crashes
pub fn convert(src: &Src) -> Outcome {
    let s = src.clone();
    match crate::guarded(std::panic::AssertUnwindSafe(move || s.parse().and_then(|d| Model::try_from(&d).map_err(|e| e.to_string())))) {
        Ok(Ok(m)) => Outcome::Ok(Box::new(m)),
        Ok(Err(e)) => Outcome::Err(e),
        Err(p) => Outcome::Panic(p),
    }
}
