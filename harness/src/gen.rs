//! Seeded generator of structured, mostly valid building models, plus perturbation passes.
use crate::rng::Rng;
use bemodel::climatedata::ClimateZone;
use bemodel::*;
use std::collections::BTreeMap;

pub fn uid(r: &mut Rng) -> Uuid {
    // keep ids well away from nil and distinct with overwhelming probability
    Uuid::from_u128(r.u128() | (1u128 << 100))
}

#[derive(Clone)]
pub struct GenCfg {
    pub max_spaces: usize,
    pub odd_tilts: bool,
    pub windows: bool,
    pub schedules: bool,
    pub shades: bool,
    pub overrides: bool,
    pub bad_materials: bool,
}
impl Default for GenCfg {
    fn default() -> Self {
        GenCfg {
            max_spaces: 5,
            odd_tilts: true,
            windows: true,
            schedules: true,
            shades: true,
            overrides: true,
            bad_materials: true,
        }
    }
}

fn rect(w: f32, h: f32) -> Polygon {
    vec![point![0.0, 0.0], point![w, 0.0], point![w, h], point![0.0, h]]
}

pub fn gen_consdb(r: &mut Rng, cfg: &GenCfg) -> ConsDb {
    let mut db = ConsDb::default();
    let nmat = r.range(2, 6) as usize;
    for i in 0..nmat {
        let props = if r.chance(1, 4) {
            MatProps::Resistance {
                resistance: r.grid(0.0, 3.0, 0.01),
                vapour_diff: if r.chance(1, 2) { Some(r.grid(1.0, 100.0, 1.0)) } else { None },
            }
        } else {
            let conductivity = if cfg.bad_materials && r.chance(1, 25) {
                0.0
            } else if r.chance(1, 2) {
                r.grid(0.025, 0.2, 0.001)
            } else {
                r.grid(0.2, 2.5, 0.01)
            };
            MatProps::Detailed {
                conductivity,
                density: r.grid(10.0, 2500.0, 10.0),
                specific_heat: r.grid(800.0, 2000.0, 100.0),
                vapour_diff: if r.chance(1, 2) { Some(r.grid(1.0, 100.0, 1.0)) } else { None },
            }
        };
        db.materials.push(Material { id: uid(r), name: format!("mat{}", i), properties: props });
    }
    let nwc = r.range(1, 4) as usize;
    for i in 0..nwc {
        let nl = if r.chance(1, 10) { 0 } else { r.range(1, 5) as usize };
        let layers = (0..nl)
            .map(|_| Layer {
                material: r.pick(&db.materials).id,
                e: if r.chance(1, 2) { r.grid(0.005, 0.1, 0.005) } else { r.grid(0.01, 0.4, 0.01) },
            })
            .collect();
        db.wallcons.push(WallCons {
            id: uid(r),
            name: format!("wc{}", i),
            layers,
            absorptance: r.grid(0.1, 0.9, 0.1),
        });
    }
    for i in 0..r.range(1, 3) as usize {
        db.glasses.push(Glass {
            id: uid(r),
            name: format!("gl{}", i),
            u_value: r.grid(0.5, 5.8, 0.01),
            g_gln: r.grid(0.2, 0.9, 0.01),
        });
    }
    for i in 0..r.range(1, 3) as usize {
        db.frames.push(Frame {
            id: uid(r),
            name: format!("fr{}", i),
            u_value: r.grid(0.8, 7.0, 0.01),
            absorptivity: r.grid(0.2, 0.9, 0.1),
        });
    }
    for i in 0..r.range(1, 3) as usize {
        db.wincons.push(WinCons {
            id: uid(r),
            name: format!("wnc{}", i),
            glass: r.pick(&db.glasses).id,
            frame: r.pick(&db.frames).id,
            f_f: *r.pick(&[0.0, 0.1, 0.2, 0.25, 0.3, 0.5, 1.0]),
            delta_u: *r.pick(&[0.0, 0.0, 5.0, 10.0, 12.5, 50.0]),
            g_glshwi: if r.chance(1, 2) { Some(r.grid(0.05, 0.8, 0.01)) } else { None },
            c_100: *r.pick(&[3.0, 9.0, 27.0, 50.0, 100.0]),
        });
    }
    db
}

/// daily / weekly / yearly schedules that are well formed (24 values, 7 days, 365 days)
pub fn gen_schedules(r: &mut Rng) -> SchedulesDb {
    let mut db = SchedulesDb::default();
    for i in 0..r.range(2, 4) as usize {
        let style = r.below(4);
        let values: Vec<f32> = (0..24)
            .map(|h| match style {
                0 => 0.0,
                1 => {
                    if (8..18).contains(&h) {
                        1.0
                    } else {
                        0.0
                    }
                }
                2 => *r.pick(&[0.0, 0.25, 0.5, 1.0]),
                _ => r.grid(0.0, 1.0, 0.05),
            })
            .collect();
        db.day.push(ScheduleDay { id: uid(r), name: format!("d{}", i), values });
    }
    for i in 0..r.range(1, 3) as usize {
        let mut left = 7u32;
        let mut values = vec![];
        while left > 0 {
            let c = (r.range(1, left as i64)) as u32;
            values.push((r.pick(&db.day).id, c));
            left -= c;
        }
        db.week.push(ScheduleWeek { id: uid(r), name: format!("w{}", i), values });
    }
    for i in 0..r.range(1, 3) as usize {
        let np = r.range(1, 6) as usize;
        let mut cuts: Vec<u32> = (0..np - 1).map(|_| r.range(1, 364) as u32).collect();
        cuts.push(365);
        cuts.sort_unstable();
        cuts.dedup();
        let mut prev = 0;
        let mut values = vec![];
        for c in cuts {
            values.push((r.pick(&db.week).id, c - prev));
            prev = c;
        }
        db.year.push(Schedule { id: uid(r), name: format!("y{}", i), values });
    }
    // a daily schedule that is referenced (by a weekly schedule in use) but never comes into effect:
    // the weekly schedule only covers the first days of the year, or is repeated zero times
    if r.chance(1, 2) {
        let d_rare = ScheduleDay { id: uid(r), name: "d_rare".into(), values: (0..24).map(|h| if h % 2 == 0 { 1.0 } else { 0.0 }).collect() };
        let first = r.range(1, 5) as u32;
        let w_rare = ScheduleWeek { id: uid(r), name: "w_rare".into(), values: vec![(db.day[0].id, first), (d_rare.id, 7 - first)] };
        let lead = if r.chance(1, 3) { 0 } else { r.range(1, first as i64) as u32 };
        let w0 = db.week[0].id;
        let y = Schedule { id: uid(r), name: "y_rare".into(), values: vec![(w_rare.id, lead), (w0, 365 - lead)] };
        db.day.push(d_rare);
        db.week.push(w_rare);
        // in front, so that loads picking the first yearly schedule use it
        db.year.insert(0, y);
    }
    db
}

pub fn gen_model(r: &mut Rng, cfg: &GenCfg) -> Model {
    let mut m = Model::default();
    m.meta = Meta {
        name: "generated".to_string(),
        is_new_building: r.chance(1, 2),
        is_dwelling: r.chance(1, 2),
        num_dwellings: r.range(1, 20) as i32,
        climate: *r.pick(&crate::coq::ZONES),
        global_ventilation_l_s: if r.chance(2, 3) { Some(r.grid(5.0, 300.0, 0.5)) } else { None },
        n50_test_ach: if r.chance(1, 3) { Some(r.grid(0.5, 12.0, 0.01)) } else { None },
        d_perim_insulation: if r.chance(1, 3) { r.grid(0.2, 2.0, 0.1) } else { 0.0 },
        rn_perim_insulation: if r.chance(1, 3) { r.grid(0.2, 3.0, 0.1) } else { 0.0 },
    };
    m.cons = gen_consdb(r, cfg);
    if cfg.schedules {
        m.schedules = gen_schedules(r);
        for i in 0..r.range(1, 3) as usize {
            let ys = &m.schedules.year;
            let mut pick = |r: &mut Rng| if r.chance(4, 5) { Some(r.pick(ys).id) } else { None };
            m.loads.push(SpaceLoads {
                id: uid(r),
                name: format!("loads{}", i),
                area_per_person: r.grid(1.0, 40.0, 0.5),
                people_schedule: pick(r),
                people_sensible: r.grid(0.0, 20.0, 0.01),
                people_latent: r.grid(0.0, 15.0, 0.01),
                equipment: r.grid(0.0, 20.0, 0.01),
                equipment_schedule: pick(r),
                lighting: r.grid(0.0, 20.0, 0.01),
                lighting_schedule: pick(r),
            });
        }
        for i in 0..r.range(1, 2) as usize {
            let ys = &m.schedules.year;
            m.thermostats.push(Thermostat {
                id: uid(r),
                name: format!("th{}", i),
                temp_max: if r.chance(4, 5) { Some(r.pick(ys).id) } else { None },
                temp_min: if r.chance(4, 5) { Some(r.pick(ys).id) } else { None },
            });
        }
    }
    let nsp = r.range(1, cfg.max_spaces as i64) as usize;
    struct Box3 {
        x: f32,
        y: f32,
        z: f32,
        w: f32,
        d: f32,
        h: f32,
    }
    let mut boxes = vec![];
    let mut x = 0.0f32;
    for i in 0..nsp {
        let w = r.grid(2.0, 12.0, 0.05);
        let d = r.grid(2.0, 12.0, 0.05);
        let h = r.grid(2.4, 4.5, 0.05);
        let zz = if r.chance(1, 5) { -r.grid(0.5, 3.5, 0.25) } else if r.chance(1, 4) { 3.0 } else { 0.0 };
        boxes.push(Box3 { x, y: 0.0, z: zz, w, d, h });
        x += w;
        let kind = match r.below(10) {
            0 | 1 => SpaceType::UNCONDITIONED,
            2 | 3 => SpaceType::UNINHABITED,
            _ => SpaceType::CONDITIONED,
        };
        m.spaces.push(Space {
            id: uid(r),
            name: format!("sp{}", i),
            multiplier: *r.pick(&[1.0, 1.0, 1.0, 1.0, 2.0, 0.5, 12.0, 3.0]),
            kind,
            inside_tenv: r.chance(4, 5),
            height: h,
            z: zz,
            loads: if !m.loads.is_empty() && r.chance(4, 5) { Some(r.pick(&m.loads).id) } else { None },
            thermostat: if !m.thermostats.is_empty() && r.chance(4, 5) {
                Some(r.pick(&m.thermostats).id)
            } else {
                None
            },
            n_v: if kind != SpaceType::CONDITIONED && r.chance(2, 3) || r.chance(1, 8) {
                Some(r.grid(0.0, 3.0, 0.05))
            } else {
                None
            },
            illuminance: if r.chance(1, 3) { Some(r.grid(0.0, 500.0, 50.0)) } else { None },
        });
    }
    // walls of each box: S, E, N, W, floor, roof (+ sometimes extra floors)
    let odd = [30.0f32, 45.0, 59.5, 60.0, 60.5, 119.5, 120.0, 120.5, 135.0, 240.0, 270.0, 300.0, 359.0, -90.0, 450.0, 180.5];
    for (i, bx) in boxes.iter().enumerate() {
        let sid = m.spaces[i].id;
        let mut add = |m: &mut Model, r: &mut Rng, name: String, tilt: f32, az: f32, pos: Point3, poly: Polygon| {
            let bounds = match r.below(10) {
                0..=4 => BoundaryType::EXTERIOR,
                5 | 6 => BoundaryType::INTERIOR,
                7 | 8 => BoundaryType::GROUND,
                _ => BoundaryType::ADIABATIC,
            };
            let next_to = if bounds == BoundaryType::INTERIOR && r.chance(5, 6) {
                Some(r.pick(&m.spaces).id)
            } else if bounds != BoundaryType::INTERIOR && r.chance(1, 12) {
                Some(r.pick(&m.spaces).id)
            } else {
                None
            };
            let tilt = if cfg.odd_tilts && r.chance(1, 8) { *r.pick(&odd) } else { tilt };
            let az = if r.chance(1, 4) { az + r.grid(-180.0, 180.0, 7.5) } else { az };
            // the limits of the orientation sectors, from either side and given as negative angles
            let az = if cfg.odd_tilts && r.chance(1, 6) {
                const LIMITS: [f32; 8] = [18.0, 69.0, 120.0, 157.5, 202.5, 240.0, 291.0, 342.0];
                let l = *r.pick(&LIMITS);
                match r.below(5) {
                    0 => l,
                    1 => f32::from_bits(l.to_bits() - 1),
                    2 => f32::from_bits(l.to_bits() + 1),
                    3 => l - 360.0,
                    _ => l + 360.0,
                }
            } else {
                az
            };
            let wid = uid(r);
            m.walls.push(Wall {
                id: wid,
                name,
                bounds,
                cons: r.pick(&m.cons.wallcons).id,
                space: sid,
                next_to,
                geometry: WallGeom {
                    tilt,
                    azimuth: az,
                    position: if r.chance(9, 10) { Some(pos) } else { None },
                    polygon: poly,
                },
            });
            wid
        };
        let sides = [
            (0.0f32, point![bx.x, bx.y, bx.z], bx.w),
            (90.0, point![bx.x + bx.w, bx.y, bx.z], bx.d),
            (180.0, point![bx.x + bx.w, bx.y + bx.d, bx.z], bx.w),
            (-90.0, point![bx.x, bx.y + bx.d, bx.z], bx.d),
        ];
        for (k, (az, pos, len)) in sides.iter().enumerate() {
            if r.chance(1, 10) {
                continue;
            }
            let wid = add(&mut m, r, format!("sp{}_w{}", i, k), 90.0, *az, *pos, rect(*len, bx.h));
            if cfg.windows && r.chance(1, 2) {
                let nw = r.range(1, 2);
                for j in 0..nw {
                    let ww = r.grid(0.4, (*len as f64 / 2.0).max(0.5), 0.05);
                    let wh = r.grid(0.4, 1.8, 0.05);
                    m.windows.push(Window {
                        id: uid(r),
                        name: format!("sp{}_w{}_h{}", i, k, j),
                        cons: r.pick(&m.cons.wincons).id,
                        wall: wid,
                        geometry: WinGeom {
                            position: if r.chance(9, 10) {
                                Some(point![r.grid(0.0, 1.0, 0.05) + j as f32 * len / 2.0, r.grid(0.2, 1.0, 0.05)])
                            } else {
                                None
                            },
                            height: wh,
                            width: ww,
                            setback: *r.pick(&[0.0, 0.0, 0.1, 0.2, 0.3]),
                        },
                    });
                }
            }
        }
        let nfloors = if r.chance(1, 6) { 2 } else if r.chance(1, 12) { 0 } else { 1 };
        for k in 0..nfloors {
            let fw = bx.w / nfloors as f32;
            add(
                &mut m,
                r,
                format!("sp{}_f{}", i, k),
                180.0,
                0.0,
                point![bx.x + k as f32 * fw, bx.y + bx.d, bx.z],
                rect(fw, bx.d),
            );
        }
        if r.chance(9, 10) {
            let wid = add(&mut m, r, format!("sp{}_r", i), 0.0, 0.0, point![bx.x, bx.y, bx.z + bx.h], rect(bx.w, bx.d));
            if cfg.windows && r.chance(1, 6) {
                m.windows.push(Window {
                    id: uid(r),
                    name: format!("sp{}_sky", i),
                    cons: r.pick(&m.cons.wincons).id,
                    wall: wid,
                    geometry: WinGeom {
                        position: Some(point![0.5, 0.5]),
                        height: 1.0,
                        width: r.grid(0.5, 1.5, 0.05),
                        setback: 0.0,
                    },
                });
            }
        }
    }
    // ceilings given from the other side: a BOTTOM wall of another space next to this one
    if nsp >= 2 && r.chance(1, 3) {
        let a = r.below(nsp);
        let b = (a + 1 + r.below(nsp - 1)) % nsp;
        let bx = &boxes[a];
        m.walls.push(Wall {
            id: uid(r),
            name: "ceiling_from_above".into(),
            bounds: BoundaryType::INTERIOR,
            cons: r.pick(&m.cons.wallcons).id,
            space: m.spaces[b].id,
            next_to: Some(m.spaces[a].id),
            geometry: WallGeom {
                tilt: 180.0,
                azimuth: 0.0,
                position: Some(point![bx.x, bx.y + bx.d, bx.z + bx.h]),
                polygon: rect(bx.w, bx.d),
            },
        });
    }
    for i in 0..r.range(0, 6) as usize {
        use ThermalBridgeKind::*;
        m.thermal_bridges.push(ThermalBridge {
            id: uid(r),
            name: format!("tb{}", i),
            kind: *r.pick(&[ROOF, BALCONY, CORNER, INTERMEDIATEFLOOR, INTERNALWALL, GROUNDFLOOR, PILLAR, WINDOW, GENERIC]),
            l: if r.chance(1, 6) { 0.0 } else { r.grid(0.5, 60.0, 0.01) },
            psi: r.grid(-0.1, 1.2, 0.01),
        });
    }
    if cfg.shades {
        for i in 0..r.range(0, 3) as usize {
            m.shades.push(Shade {
                id: uid(r),
                name: format!("shade{}", i),
                geometry: WallGeom {
                    tilt: *r.pick(&[0.0, 90.0, 90.0, 45.0]),
                    azimuth: r.grid(-180.0, 180.0, 15.0),
                    position: Some(point![r.grid(-10.0, 30.0, 0.5), r.grid(-15.0, -2.0, 0.5), r.grid(0.0, 6.0, 0.5)]),
                    polygon: rect(r.grid(1.0, 10.0, 0.5), r.grid(1.0, 8.0, 0.5)),
                },
            });
        }
    }
    if cfg.overrides {
        let mut walls = BTreeMap::new();
        let mut windows = BTreeMap::new();
        for w in &m.walls {
            if r.chance(1, 8) {
                walls.insert(w.id, WallPropsOverrides { u_value: if r.chance(5, 6) { Some(r.grid(0.1, 3.0, 0.01)) } else { None } });
            }
        }
        for w in &m.windows {
            if r.chance(1, 6) {
                windows.insert(
                    w.id,
                    WinPropsOverrides {
                        u_value: if r.chance(1, 2) { Some(r.grid(0.6, 5.7, 0.01)) } else { None },
                        // boundary values matter: exactly 1 (nothing hidden) and exactly 0
                        f_shobst: if r.chance(1, 2) {
                            Some(match r.below(8) {
                                0 | 1 => 1.0,
                                2 => 0.0,
                                _ => r.grid(0.0, 1.0, 0.01),
                            })
                        } else {
                            None
                        },
                    },
                );
            }
        }
        if r.chance(1, 6) {
            walls.insert(uid(r), WallPropsOverrides { u_value: Some(1.0) });
        }
        m.overrides = PropsOverrides { walls: walls.into_iter().collect(), windows: windows.into_iter().collect() };
    }
    m
}

/// Redirect a random subset of links to absent (fresh) or nil ids; negate some bridge lengths.
pub fn break_links(r: &mut Rng, m: &mut Model, p_num: u32, p_den: u32) -> usize {
    let mut n = 0;
    let mut bad = |r: &mut Rng| if r.chance(1, 3) { Uuid::nil() } else { uid(r) };
    for w in m.walls.iter_mut() {
        if r.chance(p_num, p_den) {
            w.space = bad(r);
            n += 1;
        }
        if r.chance(p_num, p_den) {
            w.cons = bad(r);
            n += 1;
        }
        if r.chance(p_num, p_den) {
            w.next_to = Some(bad(r));
            n += 1;
        }
    }
    for w in m.windows.iter_mut() {
        if r.chance(p_num, p_den) {
            w.wall = bad(r);
            n += 1;
        }
        if r.chance(p_num, p_den) {
            w.cons = bad(r);
            n += 1;
        }
    }
    for c in m.cons.wincons.iter_mut() {
        if r.chance(p_num, p_den * 2) {
            c.glass = bad(r);
            n += 1;
        }
        if r.chance(p_num, p_den * 2) {
            c.frame = bad(r);
            n += 1;
        }
    }
    for c in m.cons.wallcons.iter_mut() {
        for l in c.layers.iter_mut() {
            if r.chance(p_num, p_den * 3) {
                l.material = bad(r);
                n += 1;
            }
        }
    }
    n
}

pub fn negate_bridges(r: &mut Rng, m: &mut Model, p_num: u32, p_den: u32) -> usize {
    let mut n = 0;
    for t in m.thermal_bridges.iter_mut() {
        if r.chance(p_num, p_den) {
            t.l = -t.l; // 0.0 becomes -0.0
            n += 1;
        }
    }
    n
}

/// Add unused items of every kind and random sharing; returns how many were added.
pub fn add_unused(r: &mut Rng, m: &mut Model) -> usize {
    let mut n = 0;
    let cfg = GenCfg::default();
    let extra = gen_consdb(r, &cfg);
    let mut ins = |r: &mut Rng, len: usize| if len == 0 { 0 } else { r.below(len + 1) };
    for x in extra.materials {
        if r.chance(1, 2) {
            let k = ins(r, m.cons.materials.len());
            m.cons.materials.insert(k, x);
            n += 1;
        }
    }
    for x in extra.wallcons {
        if r.chance(1, 2) {
            let k = ins(r, m.cons.wallcons.len());
            m.cons.wallcons.insert(k, x);
            n += 1;
        }
    }
    for x in extra.glasses {
        if r.chance(1, 2) {
            let k = ins(r, m.cons.glasses.len());
            m.cons.glasses.insert(k, x);
            n += 1;
        }
    }
    for x in extra.frames {
        if r.chance(1, 2) {
            let k = ins(r, m.cons.frames.len());
            m.cons.frames.insert(k, x);
            n += 1;
        }
    }
    for x in extra.wincons {
        if r.chance(1, 2) {
            let k = ins(r, m.cons.wincons.len());
            m.cons.wincons.insert(k, x);
            n += 1;
        }
    }
    // a space that owns no wall and is referred to only as the adjacent space of a wall: it is used
    if !m.walls.is_empty() && r.chance(1, 2) {
        let sp = Space { id: uid(r), name: "adjacent_only".into(), ..Default::default() };
        let k = r.below(m.walls.len());
        m.walls[k].next_to = Some(sp.id);
        let at = ins(r, m.spaces.len());
        m.spaces.insert(at, sp);
    }
    // unused space with its own private chain loads -> year -> week -> day
    if r.chance(2, 3) {
        let sch = gen_schedules(r);
        let ld = SpaceLoads {
            id: uid(r),
            name: "unused_loads".into(),
            area_per_person: 10.0,
            people_schedule: Some(sch.year[0].id),
            people_sensible: 5.0,
            people_latent: 3.0,
            equipment: 4.0,
            equipment_schedule: Some(sch.year[sch.year.len() - 1].id),
            lighting: 4.0,
            lighting_schedule: None,
        };
        let th = Thermostat { id: uid(r), name: "unused_th".into(), temp_max: Some(sch.year[0].id), temp_min: None };
        let sp = Space {
            id: uid(r),
            name: "unused_space".into(),
            loads: Some(ld.id),
            thermostat: Some(th.id),
            ..Default::default()
        };
        let k = ins(r, m.spaces.len());
        m.spaces.insert(k, sp);
        if r.chance(5, 6) {
            m.loads.push(ld);
        }
        if r.chance(5, 6) {
            m.thermostats.push(th);
        }
        for y in sch.year {
            let k = ins(r, m.schedules.year.len());
            m.schedules.year.insert(k, y);
        }
        for y in sch.week {
            let k = ins(r, m.schedules.week.len());
            m.schedules.week.insert(k, y);
        }
        for y in sch.day {
            let k = ins(r, m.schedules.day.len());
            m.schedules.day.insert(k, y);
        }
        n += 5;
    }
    n
}

/// Duplicate (same id) some element of some collection.
pub fn add_duplicates(r: &mut Rng, m: &mut Model) -> usize {
    let mut n = 0;
    if !m.walls.is_empty() && r.chance(1, 2) {
        let w = r.pick(&m.walls).clone();
        m.walls.push(w);
        n += 1;
    }
    if !m.windows.is_empty() && r.chance(1, 2) {
        let w = r.pick(&m.windows).clone();
        m.windows.push(w);
        n += 1;
    }
    if !m.thermal_bridges.is_empty() && r.chance(1, 2) {
        let w = r.pick(&m.thermal_bridges).clone();
        m.thermal_bridges.push(w);
        n += 1;
    }
    if !m.spaces.is_empty() && r.chance(1, 3) {
        let mut w = r.pick(&m.spaces).clone();
        w.inside_tenv = !w.inside_tenv;
        m.spaces.push(w);
        n += 1;
    }
    if !m.cons.wallcons.is_empty() && r.chance(1, 3) {
        let mut w = r.pick(&m.cons.wallcons).clone();
        w.layers.clear();
        m.cons.wallcons.push(w);
        n += 1;
    }
    n
}
