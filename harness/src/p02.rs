//! C02 — converted models are referentially closed, or conversion fails with an error.
use crate::hproj::{self, Outcome, Project, Src};
use crate::{coq, rng::Rng, Args, Batch, Case};
use hulc::bdl::{build_blocks, BdlBlockType, Data, Schedule};
use serde_json::json;
use std::collections::HashMap;

#[derive(Clone, Default)]
pub struct BDoc {
    spaces: Vec<(String, String, String, String)>,                       // name, polygon, conds, sys
    walls: Vec<(String, String, String, Option<String>, Option<String>)>, // name, space, cons, next, polygon
    wins: Vec<(String, String, String)>,                                  // name, wall, gap
    polygons: Vec<String>,
    constructions: Vec<(String, String)>,
    layers: Vec<(String, Vec<String>)>,
    materials: Vec<String>,
    gaps: Vec<(String, String, String)>,
    glasses: Vec<String>,
    frames: Vec<String>,
    conds: Vec<(String, String, String, String)>,
    sys: Vec<(String, Option<(String, String)>)>,
    years: Vec<(String, Vec<String>)>,
    weeks: Vec<(String, Vec<String>)>,
    days: Vec<String>,
}

pub fn extract(d: &Data, bdl: &str) -> Option<BDoc> {
    let blocks = build_blocks(bdl).ok()?;
    let mut b = BDoc::default();
    let mut space_poly = HashMap::new();
    let mut wall_poly = HashMap::new();
    for bl in &blocks {
        match bl.btype {
            BdlBlockType::Space => {
                space_poly.insert(bl.name.clone(), bl.attrs.get_str("POLYGON").unwrap_or_default());
            }
            BdlBlockType::ExteriorWall | BdlBlockType::InteriorWall | BdlBlockType::UndergroundWall | BdlBlockType::Roof => {
                wall_poly.insert(bl.name.clone(), bl.attrs.get_str("POLYGON").ok());
            }
            BdlBlockType::Polygon => b.polygons.push(bl.name.clone()),
            BdlBlockType::Construction => b.constructions.push((bl.name.clone(), bl.attrs.get_str("LAYERS").unwrap_or_default())),
            BdlBlockType::Layers => b.layers.push((bl.name.clone(), hulc::bdl::extract_namesvec(bl.attrs.get_str("MATERIAL").unwrap_or_default()))),
            _ => {}
        }
    }
    for s in &d.spaces {
        b.spaces.push((s.name.clone(), space_poly.get(&s.name).cloned().unwrap_or_default(), s.spaceconds.clone(), s.systemconds.clone()));
    }
    for w in &d.walls {
        b.walls.push((w.name.clone(), w.space.clone(), w.cons.clone(), w.nextto.clone(), wall_poly.get(&w.name).cloned().flatten()));
    }
    for w in &d.windows {
        b.wins.push((w.name.clone(), w.wall.clone(), w.cons.clone()));
    }
    b.materials = d.db.materials.keys().cloned().collect();
    b.glasses = d.db.glasses.keys().cloned().collect();
    b.frames = d.db.frames.keys().cloned().collect();
    b.gaps = d.db.wincons.iter().map(|(k, v)| (k.clone(), v.glass.clone(), v.frame.clone())).collect();
    // catalog constructions are known too: as LAYERS under their own name
    for (k, v) in &d.db.wallcons {
        if !b.layers.iter().any(|l| &l.0 == k) && !b.constructions.iter().any(|c| &c.0 == k) {
            b.layers.push((k.clone(), v.material.clone()));
        }
    }
    for (k, c) in &d.space_conditions {
        let g = |a: &str| c.attrs.get_str(a).unwrap_or_else(|_| format!("<missing {}>", a));
        b.conds.push((k.clone(), g("PEOPLE-SCHEDULE"), g("EQUIP-SCHEDULE"), g("LIGHTING-SCHEDULE")));
    }
    for (k, c) in &d.system_conditions {
        let conditioned = c.attrs.get_str("TYPE").map_or(false, |t| t == "CONDITIONED");
        let g = |a: &str| c.attrs.get_str(a).unwrap_or_else(|_| format!("<missing {}>", a));
        b.sys.push((k.clone(), if conditioned { Some((g("COOL-TEMP-SCH"), g("HEAT-TEMP-SCH"))) } else { None }));
    }
    for s in &d.schedules {
        match s {
            Schedule::Day(x) => b.days.push(x.name.clone()),
            Schedule::Week(x) => b.weeks.push((x.name.clone(), x.days.clone())),
            Schedule::Year(x) => b.years.push((x.name.clone(), x.weeks.clone())),
        }
    }
    Some(b)
}

struct Names(HashMap<String, usize>);
impl Names {
    fn id(&mut self, s: &str) -> String {
        let n = self.0.len() + 1;
        coq::n(*self.0.entry(s.to_string()).or_insert(n))
    }
}

pub fn term(b: &BDoc) -> String {
    let mut nm = Names(HashMap::new());
    let ninguno = nm.id("Ninguno");
    let l = |v: Vec<String>| format!("[{}]", v.join("; "));
    let names = |nm: &mut Names, v: &[String]| format!("[{}]", v.iter().map(|x| nm.id(x)).collect::<Vec<_>>().join("; "));
    let spaces = l(b.spaces.iter().map(|s| format!("(mkBSpace {} {} {} {})", nm.id(&s.0), nm.id(&s.1), nm.id(&s.2), nm.id(&s.3))).collect());
    let walls = l(b.walls.iter().map(|w| {
        format!("(mkBWall {} {} {} {} {})", nm.id(&w.0), nm.id(&w.1), nm.id(&w.2),
            match &w.3 { Some(x) => format!("(Some {})", nm.id(x)), None => "None".into() },
            match &w.4 { Some(x) => format!("(Some {})", nm.id(x)), None => "None".into() })
    }).collect());
    let wins = l(b.wins.iter().map(|w| format!("(mkBWin {} {} {})", nm.id(&w.0), nm.id(&w.1), nm.id(&w.2))).collect());
    let polys = names(&mut nm, &b.polygons);
    let cons = l(b.constructions.iter().map(|c| format!("({}, {})", nm.id(&c.0), nm.id(&c.1))).collect());
    let layers = l(b.layers.iter().map(|c| format!("({}, {})", nm.id(&c.0), names(&mut nm, &c.1))).collect());
    let mats = names(&mut nm, &b.materials);
    let gaps = l(b.gaps.iter().map(|g| format!("({}, ({}, {}))", nm.id(&g.0), nm.id(&g.1), nm.id(&g.2))).collect());
    let gls = names(&mut nm, &b.glasses);
    let frs = names(&mut nm, &b.frames);
    let conds = l(b.conds.iter().map(|c| format!("(mkBConds {} {} {} {})", nm.id(&c.0), nm.id(&c.1), nm.id(&c.2), nm.id(&c.3))).collect());
    let sys = l(b.sys.iter().map(|c| format!("(mkBSys {} {})", nm.id(&c.0), match &c.1 { Some((x, y)) => format!("(Some ({}, {}))", nm.id(x), nm.id(y)), None => "None".into() })).collect());
    let years = l(b.years.iter().map(|c| format!("({}, {})", nm.id(&c.0), names(&mut nm, &c.1))).collect());
    let weeks = l(b.weeks.iter().map(|c| format!("({}, {})", nm.id(&c.0), names(&mut nm, &c.1))).collect());
    let days = names(&mut nm, &b.days);
    format!("(mkBDoc {}\n {}\n {}\n {} {} {}\n {} {} {} {}\n {} {}\n {} {} {} {})", spaces, walls, wins, polys, cons, layers, mats, gaps, gls, frs, conds, sys, years, weeks, days, ninguno)
}

#[derive(Clone, Copy, PartialEq, Debug)]
pub enum Kind {
    Material, Layers, Construction, Gap, Glass, Frame, Polygon, SpaceConds, SysConds, Year, Week, Day, Space,
}
impl Kind {
    fn bdl(self) -> &'static str {
        match self {
            Kind::Material => "MATERIAL", Kind::Layers => "LAYERS", Kind::Construction => "CONSTRUCTION", Kind::Gap => "GAP", Kind::Glass => "GLASS-TYPE",
            Kind::Frame => "NAME-FRAME", Kind::Polygon => "POLYGON", Kind::SpaceConds => "SPACE-CONDITIONS", Kind::SysConds => "SYSTEM-CONDITIONS",
            Kind::Year => "SCHEDULE-PD", Kind::Week => "WEEK-SCHEDULE-PD", Kind::Day => "DAY-SCHEDULE-PD", Kind::Space => "SPACE",
        }
    }
}

/// definitions that some other block refers to by name
fn referenced(b: &BDoc) -> Vec<(Kind, String)> {
    let mut out = vec![];
    let used_cons: Vec<&String> = b.walls.iter().map(|w| &w.2).collect();
    for c in &b.constructions {
        if used_cons.contains(&&c.0) {
            out.push((Kind::Construction, c.0.clone()));
            if b.layers.iter().any(|l| l.0 == c.1) {
                out.push((Kind::Layers, c.1.clone()));
            }
        }
    }
    let used_layers: Vec<String> = out.iter().filter(|x| x.0 == Kind::Layers).map(|x| x.1.clone()).collect();
    for l in &b.layers {
        if used_layers.contains(&l.0) {
            for m in &l.1 {
                out.push((Kind::Material, m.clone()));
            }
        }
    }
    for w in &b.wins {
        if let Some(g) = b.gaps.iter().find(|g| g.0 == w.2) {
            out.push((Kind::Gap, g.0.clone()));
            out.push((Kind::Glass, g.1.clone()));
            out.push((Kind::Frame, g.2.clone()));
        }
    }
    for s in &b.spaces {
        out.push((Kind::Polygon, s.1.clone()));
        out.push((Kind::SpaceConds, s.2.clone()));
        out.push((Kind::SysConds, s.3.clone()));
    }
    for w in &b.walls {
        if let Some(p) = &w.4 {
            out.push((Kind::Polygon, p.clone()));
        }
        if let Some(n) = &w.3 {
            out.push((Kind::Space, n.clone()));
        }
    }
    for c in &b.conds {
        for y in [&c.1, &c.2, &c.3] {
            out.push((Kind::Year, y.clone()));
        }
    }
    for c in &b.sys {
        if let Some((x, y)) = &c.1 {
            out.push((Kind::Year, x.clone()));
            out.push((Kind::Year, y.clone()));
        }
    }
    for y in &b.years {
        for w in &y.1 {
            out.push((Kind::Week, w.clone()));
        }
    }
    for w in &b.weeks {
        for d in &w.1 {
            out.push((Kind::Day, d.clone()));
        }
    }
    out.sort_by(|a, b| (a.0 as usize, &a.1).cmp(&(b.0 as usize, &b.1)));
    out.dedup();
    out
}

/// byte range of the header line and of the whole block of `"name" = KIND` in the BDL text
fn find_block(bdl: &str, kind: Kind, name: &str) -> Option<(usize, usize, usize)> {
    let mut pos = 0;
    let mut found = None;
    for line in bdl.split_inclusive('\n') {
        let t = line.trim();
        if found.is_none() {
            if let Some(rest) = t.strip_prefix(&format!("\"{}\"", name)) {
                let rest = rest.trim_start();
                if let Some(k) = rest.strip_prefix('=') {
                    if k.trim() == kind.bdl() {
                        found = Some((pos, pos + line.len()));
                    }
                }
            }
        } else if t == ".." {
            let (a, h) = found.unwrap();
            return Some((a, h, pos + line.len()));
        }
        pos += line.len();
    }
    None
}

/// the BDL text with attribute `attr` of block `"name" = KIND` set to the quoted value (added when absent)
fn set_attr(bdl: &str, kind: &str, name: &str, attr: &str, value: &str) -> Option<String> {
    set_attr_raw(bdl, kind, name, attr, &format!("\"{}\"", value))
}
/// the same with the value written as given (numbers, bare words)
fn set_attr_raw(bdl: &str, kind: &str, name: &str, attr: &str, value: &str) -> Option<String> {
    let mut out = String::with_capacity(bdl.len() + 64);
    let mut inside = false;
    let mut done = false;
    let mut seen = false;
    for line in bdl.split_inclusive('\n') {
        let t = line.trim();
        if !inside && !done {
            if let Some(rest) = t.strip_prefix(&format!("\"{}\"", name)) {
                if rest.trim_start().strip_prefix('=').map_or(false, |k| k.trim() == kind) {
                    inside = true;
                }
            }
            out.push_str(line);
        } else if inside {
            let is_attr = t.strip_prefix(attr).map_or(false, |r| r.trim_start().starts_with('='));
            if is_attr {
                out.push_str(&format!("   {} = {}\n", attr, value));
                seen = true;
            } else if t == ".." {
                if !seen {
                    out.push_str(&format!("   {} = {}\n", attr, value));
                }
                out.push_str(line);
                inside = false;
                done = true;
            } else {
                out.push_str(line);
            }
        } else {
            out.push_str(line);
        }
    }
    if done { Some(out) } else { None }
}

thread_local! {
    static CATALOG: Vec<String> = hulc::ctehexml::load_lider_catalog().map(|db| {
        db.materials.keys().chain(db.wallcons.keys()).chain(db.wincons.keys()).chain(db.glasses.keys()).chain(db.frames.keys()).cloned().collect()
    }).unwrap_or_default();
}

pub const FRESH: &str = "__RENOMBRADO__";

/// rename (header only) or remove the definition in the text and in the name-level document
fn mutate(bdl: &str, b: &BDoc, kind: Kind, name: &str, remove: bool) -> Option<(String, BDoc)> {
    // a definition the LIDER catalog also provides stays defined after the edit
    if CATALOG.with(|c| c.iter().any(|x| x == name)) && matches!(kind, Kind::Material | Kind::Layers | Kind::Construction | Kind::Gap | Kind::Glass | Kind::Frame) {
        return None;
    }
    // HULC repeats a definition after every element that uses it: edit every copy
    find_block(bdl, kind, name)?;
    let mut text = bdl.to_string();
    while let Some((a, h, e)) = find_block(&text, kind, name) {
        text = if remove {
            format!("{}{}", &text[..a], &text[e..])
        } else {
            format!("{}{}{}", &text[..a], text[a..h].replacen(&format!("\"{}\"", name), &format!("\"{}{}\"", name, FRESH), 1), &text[h..])
        };
    }
    let mut d = b.clone();
    let newname = format!("{}{}", name, FRESH);
    macro_rules! edit {
        ($v:expr) => {
            if remove {
                $v.retain(|x| x.0 != name);
            } else {
                for x in $v.iter_mut() {
                    if x.0 == name {
                        x.0 = newname.clone();
                    }
                }
            }
        };
    }
    match kind {
        Kind::Material => {
            if remove { d.materials.retain(|x| x != name) } else { d.materials.iter_mut().for_each(|x| if x == name { *x = newname.clone() }) }
        }
        Kind::Glass => {
            if remove { d.glasses.retain(|x| x != name) } else { d.glasses.iter_mut().for_each(|x| if x == name { *x = newname.clone() }) }
        }
        Kind::Frame => {
            if remove { d.frames.retain(|x| x != name) } else { d.frames.iter_mut().for_each(|x| if x == name { *x = newname.clone() }) }
        }
        Kind::Polygon => {
            if remove { d.polygons.retain(|x| x != name) } else { d.polygons.iter_mut().for_each(|x| if x == name { *x = newname.clone() }) }
        }
        Kind::Day => {
            if remove { d.days.retain(|x| x != name) } else { d.days.iter_mut().for_each(|x| if x == name { *x = newname.clone() }) }
        }
        Kind::Layers => edit!(d.layers),
        Kind::Construction => edit!(d.constructions),
        Kind::Gap => edit!(d.gaps),
        Kind::SpaceConds => edit!(d.conds),
        Kind::SysConds => edit!(d.sys),
        Kind::Year => edit!(d.years),
        Kind::Week => edit!(d.weeks),
        Kind::Space => {
            if remove {
                return None;
            }
            // the block keeps its children: they follow the new name; references by name dangle
            for s in d.spaces.iter_mut() {
                if s.0 == name {
                    s.0 = newname.clone();
                }
            }
            for w in d.walls.iter_mut() {
                if w.1 == name {
                    w.1 = newname.clone();
                }
            }
        }
    }
    Some((text, d))
}

fn case_of(b: &BDoc, out: &Outcome, mutated: bool, conds_kind: bool, js: serde_json::Value) -> Case {
    Case {
        post: String::new(),
        term: format!("(mkC02 {}\n {} {} {})", term(b), coq::n(out.class()), coq::b(mutated), coq::b(conds_kind)),
        json: js,
        nontrivial: mutated,
    }
}

pub fn run(a: &Args) -> Batch {
    let mut r = Rng::new(a.seed ^ 0x02);
    let mut cases = vec![];
    let mut closure_cases = vec![];
    let mut findings = vec![];
    let mut stats = std::collections::BTreeMap::<String, usize>::new();
    let mut projects: Vec<Project> = hproj::shipped_projects();
    projects.extend(hproj::legacy_cte_files());
    // (every mutant carries the whole name-level document: the thorough tier is bounded too, or the shards exhaust memory)
    let per_project = (a.n / projects.len().max(1)).max(3);
    for p in &projects {
        let parsed = match crate::guarded(std::panic::AssertUnwindSafe(|| p.src.parse())) {
            Ok(Ok(d)) => d,
            _ => {
                *stats.entry("projects_not_parsed".into()).or_default() += 1;
                continue;
            }
        };
        let bdl = p.src.bdl();
        let b = match extract(&parsed.bdldata, &bdl) {
            Some(b) => b,
            None => continue,
        };
        let out = hproj::convert(&p.src);
        *stats.entry(format!("projects_{}", ["converted", "rejected", "crashed"][out.class()])).or_default() += 1;
        cases.push(case_of(&b, &out, false, false, json!({"project": p.name, "mutation": "none", "outcome": format!("{:?}", out).chars().take(120).collect::<String>(),
            "classes": if out.class() == 2 { vec!["unmodified_project_crashes"] } else { vec![] }})));
        // the converted model is referentially closed (ids unique, every link resolves, checker silent)
        if let Outcome::Ok(m) = &out {
            coq::reset_ids();
            closure_cases.push((p.name.clone(), coq::model(m)));
            let ws = bemodel::check(m);
            if !ws.is_empty() {
                findings.push(json!({"what": "the checker reports broken links on a converted project", "project": p.name, "warnings": ws.iter().map(|w| w.msg.clone()).take(3).collect::<Vec<_>>(), "classes": ["converted_not_closed"]}));
            }
        }
        // every rename / removal of a referenced definition
        let mut muts: Vec<(Kind, String, bool)> = referenced(&b).into_iter().flat_map(|(k, n)| vec![(k, n.clone(), false), (k, n, true)]).collect();
        muts.retain(|m| !(m.0 == Kind::Space && m.2));
        r.shuffle(&mut muts);
        let mut done = 0;
        for (kind, name, remove) in muts {
            if done >= per_project {
                break;
            }
            let (text, d2) = match mutate(&bdl, &b, kind, &name, remove) {
                Some(x) => x,
                None => continue, // defined in the catalog, not in the file
            };
            let src2 = p.src.with_bdl(&text);
            let out2 = hproj::convert(&src2);
            done += 1;
            *stats.entry(format!("mutants_{:?}_{}", kind, ["converted", "rejected", "crashed"][out2.class()])).or_default() += 1;
            let conds_kind = matches!(kind, Kind::SpaceConds | Kind::SysConds);
            let mut classes = vec![];
            if out2.class() == 0 && conds_kind {
                classes.push("space_conditions_undefined");
            }
            if out2.class() == 2 {
                classes.push("crash_on_broken_reference");
            }
            cases.push(case_of(&d2, &out2, true, conds_kind, json!({"project": p.name, "mutation": format!("{} {:?} \"{}\"", if remove { "remove" } else { "rename" }, kind, name),
                "outcome": format!("{:?}", out2).chars().take(160).collect::<String>(), "classes": classes})));
        }
    }
    let _ = Src::Cte(String::new());
    // the window -> wall link: windows hang from the wall block before them, so the link breaks when the
    // first wall of the file is removed, or when the wall becomes a block kind that is not converted
    // (UNDERGROUND-FLOOR). The document is extracted again from the implementation's parse of the edited text.
    for p in &projects {
        let parsed = match crate::guarded(std::panic::AssertUnwindSafe(|| p.src.parse())) {
            Ok(Ok(d)) => d,
            _ => continue,
        };
        let bdl = p.src.bdl();
        let walls_with_windows: Vec<String> = {
            let mut v: Vec<String> = vec![];
            for w in &parsed.bdldata.windows {
                if !v.contains(&w.wall) {
                    v.push(w.wall.clone());
                }
            }
            v
        };
        let first_wall = parsed.bdldata.walls.first().map(|w| w.name.clone());
        let mut targets: Vec<(String, bool)> = vec![];
        if let Some(fw) = &first_wall {
            targets.push((fw.clone(), true));
        }
        for w in walls_with_windows.iter().take(if a.thorough { 8 } else { 2 }) {
            targets.push((w.clone(), false));
            if Some(w) == first_wall.as_ref() {
                continue;
            }
            targets.push((w.clone(), true));
        }
        for (wname, remove) in targets {
            // locate the wall block whatever its kind
            let lines: Vec<&str> = bdl.split_inclusive('\n').collect();
            let start = match lines.iter().position(|l| {
                let t = l.trim();
                t.starts_with(&format!("\"{}\"", wname)) && ["EXTERIOR-WALL", "INTERIOR-WALL", "ROOF", "UNDERGROUND-WALL"].iter().any(|k| t.replace(' ', "").ends_with(&format!("={}", k)))
            }) {
                Some(i) => i,
                None => continue,
            };
            let end = match (start..lines.len()).find(|&i| lines[i].trim() == "..") {
                Some(i) => i,
                None => continue,
            };
            let text: String = if remove {
                lines.iter().enumerate().filter(|(i, _)| *i < start || *i > end).map(|(_, l)| *l).collect()
            } else {
                lines.iter().enumerate().map(|(i, l)| if i == start { format!("\"{}\" = UNDERGROUND-FLOOR\n", wname) } else { l.to_string() }).collect()
            };
            let src2 = p.src.with_bdl(&text);
            let d2 = match crate::guarded(std::panic::AssertUnwindSafe(|| src2.parse())) {
                Ok(Ok(d)) => d,
                _ => continue, // rejected by the parser: not the converter's business
            };
            let b2 = match extract(&d2.bdldata, &text) {
                Some(b) => b,
                None => continue,
            };
            let out2 = hproj::convert(&src2);
            *stats.entry(format!("mutants_Wall_{}", ["converted", "rejected", "crashed"][out2.class()])).or_default() += 1;
            cases.push(case_of(&b2, &out2, true, false, json!({"project": p.name, "mutation": format!("{} wall \"{}\"", if remove { "remove" } else { "turn into an UNDERGROUND-FLOOR the" }, wname),
                "outcome": format!("{:?}", out2).chars().take(160).collect::<String>(), "classes": if out2.class() == 2 { vec!["crash_on_broken_reference"] } else { vec![] }})));
        }
    }
    // names shared across kinds: a window construction whose GLASS-TYPE names something that only exists as a
    // frame (must be rejected), and a glazing and a frame that carry the same name (a valid project: the
    // converted model must still be closed, every construction pointing at a glass and at a frame)
    for p in &projects {
        let parsed = match crate::guarded(std::panic::AssertUnwindSafe(|| p.src.parse())) {
            Ok(Ok(d)) => d,
            _ => continue,
        };
        let bdl = p.src.bdl();
        let b = match extract(&parsed.bdldata, &bdl) {
            Some(b) => b,
            None => continue,
        };
        let used: Vec<&(String, String, String)> = b.gaps.iter().filter(|g| b.wins.iter().any(|w| w.2 == g.0)).collect();
        for g in used.iter().take(if a.thorough { 6 } else { 2 }) {
            let (gap, glass, frame) = (&g.0, &g.1, &g.2);
            if glass == frame || CATALOG.with(|c| c.iter().any(|x| x == glass || x == frame)) {
                continue;
            }
            // (1) the glazing reference now names the frame
            let edit_line = |text: &str, block: &str, key: &str, newval: &str| -> Option<String> {
                let lines: Vec<&str> = text.split_inclusive('\n').collect();
                let start = lines.iter().position(|l| { let t = l.trim(); t.starts_with(&format!("\"{}\"", block)) && t.replace(' ', "").ends_with("=GAP") })?;
                let end = (start..lines.len()).find(|&i| lines[i].trim() == "..")?;
                let mut out = String::new();
                let mut done = false;
                for (i, l) in lines.iter().enumerate() {
                    let t = l.trim_start();
                    if i > start && i < end && t.starts_with(key) && t[key.len()..].trim_start().starts_with('=') {
                        out.push_str(&format!("     {} = \"{}\"\n", key, newval));
                        done = true;
                    } else {
                        out.push_str(l);
                    }
                }
                if done { Some(out) } else { None }
            };
            let mut variants: Vec<(String, String, bool)> = vec![];
            if let Some(mut t) = edit_line(&bdl, gap, "GLASS-TYPE", frame) {
                // HULC repeats blocks: edit every copy
                while let Some(t2) = edit_line(&t, gap, "GLASS-TYPE", frame).filter(|x| *x != t) { t = t2; }
                variants.push((t, format!("GLASS-TYPE of \"{}\" names the frame \"{}\"", gap, frame), false));
            }
            // (2) the frame is renamed to the glazing's name everywhere (definition and reference)
            let t = bdl.replace(&format!("\"{}\" = NAME-FRAME", frame), &format!("\"{}\" = NAME-FRAME", glass));
            if t != bdl {
                let mut t2 = t.clone();
                let mut cur = t;
                loop {
                    match edit_line(&cur, gap, "NAME-FRAME", glass) { Some(x) if x != cur => { cur = x; t2 = cur.clone(); } _ => break }
                }
                // every gap using that frame must follow: simplest is to rewrite every NAME-FRAME reference
                let t3: String = t2.split_inclusive('\n').map(|l| { let tt = l.trim_start(); if tt.starts_with("NAME-FRAME") && tt.contains(&format!("\"{}\"", frame)) { l.replace(&format!("\"{}\"", frame), &format!("\"{}\"", glass)) } else { l.to_string() } }).collect();
                variants.push((t3, format!("frame \"{}\" renamed to the glazing's name \"{}\"", frame, glass), true));
            }
            for (text, what, valid) in variants {
                let src2 = p.src.with_bdl(&text);
                let d2 = match crate::guarded(std::panic::AssertUnwindSafe(|| src2.parse())) {
                    Ok(Ok(d)) => d,
                    _ => continue,
                };
                let b2 = match extract(&d2.bdldata, &text) {
                    Some(b) => b,
                    None => continue,
                };
                let out2 = hproj::convert(&src2);
                *stats.entry(format!("mutants_NameCollision_{}", ["converted", "rejected", "crashed"][out2.class()])).or_default() += 1;
                if valid {
                    if let Outcome::Ok(m) = &out2 {
                        coq::reset_ids();
                        closure_cases.push((format!("{} [{}]", p.name, what), coq::model(m)));
                    }
                }
                cases.push(case_of(&b2, &out2, true, false, json!({"project": p.name, "mutation": what,
                    "outcome": format!("{:?}", out2).chars().take(160).collect::<String>(), "classes": if out2.class() == 2 { vec!["crash_on_broken_reference"] } else { vec![] }})));
            }
        }
    }
    // references redirected to ANOTHER existing definition of the same kind (a space given the use conditions or
    // the system conditions of some other space type, a window given another gap): still a valid project,
    // so it must convert, and the converted model must be closed
    for p in &projects {
        let parsed = match crate::guarded(std::panic::AssertUnwindSafe(|| p.src.parse())) {
            Ok(Ok(d)) => d,
            _ => continue,
        };
        let bdl = p.src.bdl();
        let b = match extract(&parsed.bdldata, &bdl) {
            Some(b) => b,
            None => continue,
        };
        let mut edits: Vec<(String, String)> = vec![];
        let nsp = if a.thorough { 4 } else { 2 };
        let sys_names: Vec<String> = b.sys.iter().map(|x| x.0.clone()).collect();
        let cond_names: Vec<String> = b.conds.iter().map(|x| x.0.clone()).collect();
        for sp in b.spaces.iter().take(nsp) {
            for (attr, cur, defs) in [("SYSTEM-CONDITIONS", &sp.3, &sys_names), ("SPACE-CONDITIONS", &sp.2, &cond_names)] {
                for d in defs.iter().filter(|d| *d != cur).take(if a.thorough { 4 } else { 2 }) {
                    if let Some(t) = set_attr(&bdl, "SPACE", &sp.0, attr, d) {
                        edits.push((format!("space {}: {} -> {}", sp.0, attr, d), t));
                    }
                }
            }
        }
        for w in b.wins.iter().take(nsp) {
            for g in b.gaps.iter().filter(|g| g.0 != w.2).take(1) {
                if let Some(t) = set_attr(&bdl, "WINDOW", &w.0, "GAP", &g.0) {
                    edits.push((format!("window {}: GAP -> {}", w.0, g.0), t));
                }
            }
        }
        // shading devices of a window (two equal fins and an overhang): still a valid project; the shades made for
        // them must all have ids of their own
        for w in b.wins.iter().take(nsp) {
            let mut t = Some(bdl.clone());
            for (k, v) in [("LEFT-FIN-A", "0.1"), ("LEFT-FIN-B", "0"), ("LEFT-FIN-H", "1.2"), ("LEFT-FIN-D", "0.5"), ("RIGHT-FIN-A", "0.1"), ("RIGHT-FIN-B", "0"),
                           ("RIGHT-FIN-H", "1.2"), ("RIGHT-FIN-D", "0.5"), ("OVERHANG-A", "0.1"), ("OVERHANG-B", "0.1"), ("OVERHANG-W", "1.5"), ("OVERHANG-D", "0.5"), ("OVERHANG-ANGLE", "90")] {
                t = t.and_then(|x| set_attr_raw(&x, "WINDOW", &w.0, k, v));
            }
            if let Some(t) = t {
                edits.push((format!("window {}: two equal fins and an overhang", w.0), t));
            }
        }
        for (what, text) in edits {
            let src2 = p.src.with_bdl(&text);
            let d2 = match crate::guarded(std::panic::AssertUnwindSafe(|| src2.parse())) {
                Ok(Ok(d)) => d,
                _ => continue,
            };
            let b2 = match extract(&d2.bdldata, &text) {
                Some(b) => b,
                None => continue,
            };
            let out2 = hproj::convert(&src2);
            *stats.entry(format!("mutants_Redirected_{}", ["converted", "rejected", "crashed"][out2.class()])).or_default() += 1;
            if let Outcome::Ok(m) = &out2 {
                coq::reset_ids();
                closure_cases.push((format!("{} [{}]", p.name, what), coq::model(m)));
            }
            cases.push(case_of(&b2, &out2, true, false, json!({"project": p.name, "mutation": format!("redirected reference: {}", what),
                "outcome": format!("{:?}", out2).chars().take(160).collect::<String>(), "classes": if out2.class() == 2 { vec!["crash_on_broken_reference"] } else { vec![] }})));
        }
    }
    stats.insert("closure_models".into(), closure_cases.len());
    // closure of the converted models goes through the C14 saneness predicate `closed` of the Coq model
    for (name, mt) in closure_cases {
        cases.push(Case { post: String::new(), term: format!("(mkC02m {})", mt), json: json!({"project": name, "kind": "closure of the converted model"}), nontrivial: true });
    }
    Batch {
        imports: "From Coq Require Import ZArith NArith QArith List.\nFrom CTE Require Import Base.Num Model.BModel Model.Convert Model.Total Model.ConvertCase.".into(),
        case_ty: "c02x_case".into(),
        agree: "agree_C02x".into(),
        cases: cases.into_iter().map(|mut c| { if c.term.starts_with("(mkC02 ") { c.term = format!("(C02Doc {})", c.term); } else { c.term = c.term.replacen("(mkC02m ", "(C02Model ", 1); } c }).collect(),
        impl_findings: findings,
        rule: "the 12 shipped .ctehexml projects (with the LIDER catalog) and the 56 legacy .cte files; for each, the name-level document extracted from the implementation's own parse, the conversion outcome, and every project obtained by renaming (header only) or removing one definition that another block refers to (materials, layers, constructions, gaps, glazings, frames, polygons, space / system conditions, yearly / weekly / daily schedules; spaces by rename), plus references redirected to another existing definition of the same kind (use / system conditions of a space, gap of a window: valid projects whose converted model must stay closed), names shared across kinds (a GLASS-TYPE reference naming a frame; a frame renamed to its glazing's name, whose converted model must stay closed) and the window -> wall link (the first wall of the file removed, walls with windows removed or turned into UNDERGROUND-FLOOR blocks, with the document extracted again from the implementation's parse), sampled per project (5 per project in the quick tier, 60 in the thorough tier); converted models are checked for referential closure by the Coq predicate `closed`; non-trivial = a mutated project; distinct by content hash".into(),
        stats: json!(stats),
    }
}
