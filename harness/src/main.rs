//! vharness: runs the implementation on generated / shipped inputs and writes, per property,
//! Coq case files that the model evaluates (`vm_compute`) and compares inside Coq.
mod coq;
mod corpus;
mod gen;
mod rng;
mod p15;
mod hproj;
mod p01;
mod p02;
mod p03;
mod p05;
mod p04;
mod p06;
mod p07;
mod p11;
mod p12;
mod p13;
mod p14;
mod p16;
mod p17;
mod p18;
mod p18b;
mod p18c;
mod p19;
mod p20;
mod p08;
mod props;
mod tables;

use serde_json::{json, Value};
use std::collections::HashSet;
use std::io::Write;

pub struct Case {
    /// Coq term of the property's case type
    pub term: String,
    /// extra vernacular run after the case's definition (certificates); `@C` is the case constant, `@K` its index
    pub post: String,
    /// everything needed to replay / understand the case
    pub json: Value,
    /// non-trivial by the property's own rule
    pub nontrivial: bool,
}

pub struct Batch {
    pub imports: String,
    pub case_ty: String,
    pub agree: String,
    pub cases: Vec<Case>,
    /// failures of the property oracle evaluated on the implementation alone
    pub impl_findings: Vec<Value>,
    pub rule: String,
    pub stats: Value,
}

pub struct Args {
    pub id: String,
    pub seed: u64,
    pub n: usize,
    pub out: String,
    pub shards: usize,
    pub thorough: bool,
    pub replay: Option<String>,
    pub only: Option<usize>,
}

fn parse_args() -> Args {
    let a: Vec<String> = std::env::args().collect();
    let mut args = Args { id: a.get(1).cloned().unwrap_or_default(), seed: 1, n: 100, out: "out".into(), shards: 16, thorough: false, replay: None, only: None };
    let mut i = 2;
    while i < a.len() {
        match a[i].as_str() {
            "--seed" => {
                args.seed = a[i + 1].parse().unwrap();
                i += 1
            }
            "--n" => {
                args.n = a[i + 1].parse().unwrap();
                i += 1
            }
            "--out" => {
                args.out = a[i + 1].clone();
                i += 1
            }
            "--shards" => {
                args.shards = a[i + 1].parse().unwrap();
                i += 1
            }
            "--thorough" => args.thorough = true,
            "--only" => {
                args.only = Some(a[i + 1].parse().unwrap());
                i += 1
            }
            "--replay" => {
                args.replay = Some(a[i + 1].clone());
                i += 1
            }
            _ => {}
        }
        i += 1;
    }
    args
}

fn fnv(s: &str) -> u64 {
    let mut h = 0xcbf29ce484222325u64;
    for b in s.bytes() {
        h ^= b as u64;
        h = h.wrapping_mul(0x100000001b3);
    }
    h
}

fn main() {
    let args = parse_args();
    // quiet panic hook: the location is recorded by the code that catches the unwind
    std::panic::set_hook(Box::new(|info| {
        let loc = info.location().map(|l| format!("{}:{}", l.file(), l.line())).unwrap_or_default();
        if !IN_GUARD.with(|g| g.get()) {
            eprintln!("harness panic: {} @ {}", info, loc);
        }
        LAST_PANIC.with(|p| *p.borrow_mut() = Some(loc));
    }));
    let batch = match args.id.as_str() {
        "C15" => p15::run(&args),
        "C16" => p16::run(&args),
        "C11" => p11::run(&args),
        "C12" => p12::run(&args),
        "C13" => p13::run(&args),
        "C14" => p14::run(&args),
        "c14-worker" => {
            p14::worker();
            return;
        }
        "C01" => p01::run(&args),
        "C03" => p03::run(&args),
        "C05" => p05::run(&args),
        "c05-worker" => {
            p05::worker();
            return;
        }
        "C07" => p07::run(&args),
        "C06" => p06::run(&args),
        "C04" => p04::run(&args),
        "C02" => p02::run(&args),
        "C17" => p17::run(&args),
        "C18" => p18::run(&args),
        "C19" => p19::run(&args),
        "c19-worker" => {
            p19::worker();
            return;
        }
        "C20" => p20::run(&args),
        "C08" => p08::run08(&args),
        "C09" => p08::run09(&args),
        "C10" => p08::run10(&args),
        "ind-dump" => {
            // vharness ind-dump MODEL.json: the indicators of a model file (for replays)
            let t = std::fs::read_to_string(std::env::args().nth(2).unwrap_or_default()).unwrap_or_default();
            match bemodel::Model::from_json(&t) {
                Ok(m) => {
                    let ind = m.energy_indicators();
                    for (id, w) in &ind.props.walls {
                        if !w.u_value.map_or(true, |u| u.is_finite()) {
                            let name = m.walls.iter().find(|x| x.id == *id).map(|x| x.name.clone()).unwrap_or_default();
                            println!("wall {} u_value {:?} area_gross {} area_net {} bounds {:?} tilt {:?}", name, w.u_value, w.area_gross, w.area_net, w.bounds, w.tilt);
                        }
                    }
                    println!("K {} n50 {} area_ref {} compactness {}", ind.K_data.K, ind.n50_data.n50, ind.area_ref, ind.compactness);
                }
                Err(e) => println!("ERROR: {}", e),
            }
            return;
        }
        "bdl-parse" => {
            // vharness bdl-parse FILE: what hulc::bdl::build_blocks makes of a text (for replays)
            let t = std::fs::read_to_string(std::env::args().nth(2).unwrap_or_default()).unwrap_or_default();
            match hulc::bdl::build_blocks(&t) {
                Ok(bs) => {
                    for b in bs {
                        println!("{:?} '{}' parent={:?} {:?}", b.btype, b.name, b.parent, p18::vals(&b));
                    }
                }
                Err(e) => println!("ERROR: {}", e),
            }
            return;
        }
        "tables" => {
            tables::dump(&args.out);
            return;
        }
        other => {
            eprintln!("unknown property {}", other);
            std::process::exit(2);
        }
    };
    std::fs::create_dir_all(&args.out).unwrap();
    let ncases = batch.cases.len();
    let shards = args.shards.max(1).min(ncases.max(1));
    let mut files: Vec<std::fs::File> = (0..shards)
        .map(|k| {
            let mut f = std::fs::File::create(format!("{}/shard_{}.v", args.out, k)).unwrap();
            writeln!(f, "{}\nImport ListNotations.\n", batch.imports).unwrap();
            f
        })
        .collect();
    let mut per_shard: Vec<Vec<usize>> = vec![vec![]; shards];
    let mut jl = std::fs::File::create(format!("{}/cases.jsonl", args.out)).unwrap();
    let mut distinct = HashSet::new();
    for (i, c) in batch.cases.iter().enumerate() {
        if args.only.map_or(false, |o| o != i) {
            continue;
        }
        let k = i % shards;
        writeln!(files[k], "Definition c{} : {} :=\n {}.\n", i, batch.case_ty, c.term).unwrap();
        if !c.post.is_empty() {
            writeln!(files[k], "{}\n", c.post.replace("@C", &format!("c{}", i)).replace("@K", &format!("{}%N", i))).unwrap();
        }
        per_shard[k].push(i);
        writeln!(jl, "{}", json!({"index": i, "nontrivial": c.nontrivial, "case": c.json})).unwrap();
        if c.nontrivial {
            distinct.insert(fnv(&c.term));
        }
    }
    for k in 0..shards {
        let items: Vec<String> = per_shard[k].iter().map(|i| format!("({}%N, {} c{})", i, batch.agree, i)).collect();
        writeln!(files[k], "Definition results : list (N * N) := [{}].\nEval vm_compute in results.", items.join("; ")).unwrap();
    }
    let samples: Vec<&Value> = batch.cases.iter().take(2).map(|c| &c.json).collect();
    let meta = json!({
        "property": args.id, "seed": args.seed, "cases": ncases, "shards": shards,
        "distinct_nontrivial": distinct.len(), "rule": batch.rule,
        "impl_findings": batch.impl_findings, "stats": batch.stats, "samples": samples,
    });
    std::fs::write(format!("{}/meta.json", args.out), serde_json::to_string_pretty(&meta).unwrap()).unwrap();
    println!("cases={} shards={} impl_findings={}", ncases, shards, batch.impl_findings.len());
}

thread_local! {
    pub static IN_GUARD: std::cell::Cell<bool> = std::cell::Cell::new(false);
    pub static LAST_PANIC: std::cell::RefCell<Option<String>> = std::cell::RefCell::new(None);
}

/// run f, turning a panic into Err(location)
pub fn guarded<T>(f: impl FnOnce() -> T + std::panic::UnwindSafe) -> Result<T, String> {
    let prev = IN_GUARD.with(|g| g.replace(true));
    let res = std::panic::catch_unwind(f);
    IN_GUARD.with(|g| g.set(prev));
    match res {
        Ok(v) => Ok(v),
        Err(e) => {
            let msg = e.downcast_ref::<String>().cloned().or_else(|| e.downcast_ref::<&str>().map(|s| s.to_string())).unwrap_or_default();
            let loc = LAST_PANIC.with(|p| p.borrow_mut().take()).unwrap_or_default();
            Err(format!("{} @ {}", msg, loc))
        }
    }
}
