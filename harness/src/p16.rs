//! C16 — purging removes exactly the unreachable items and changes no indicator.
use crate::{coq, corpus, gen, rng::Rng, Args, Batch, Case};
use bemodel::*;
use serde_json::{json, Value};

fn snap(m: &Model) -> String {
    let ids = |v: Vec<Uuid>| coq::list(&v, |i| coq::id(*i));
    format!(
        "(mkSnap {} {} {} {} {} {} {} {} {} {} {} {} {} {} {})",
        ids(m.spaces.iter().map(|x| x.id).collect()),
        ids(m.thermal_bridges.iter().map(|x| x.id).collect()),
        ids(m.cons.wallcons.iter().map(|x| x.id).collect()),
        ids(m.cons.wincons.iter().map(|x| x.id).collect()),
        ids(m.cons.materials.iter().map(|x| x.id).collect()),
        ids(m.cons.glasses.iter().map(|x| x.id).collect()),
        ids(m.cons.frames.iter().map(|x| x.id).collect()),
        ids(m.loads.iter().map(|x| x.id).collect()),
        ids(m.thermostats.iter().map(|x| x.id).collect()),
        ids(m.schedules.year.iter().map(|x| x.id).collect()),
        ids(m.schedules.week.iter().map(|x| x.id).collect()),
        ids(m.schedules.day.iter().map(|x| x.id).collect()),
        ids(m.walls.iter().map(|x| x.id).collect()),
        ids(m.windows.iter().map(|x| x.id).collect()),
        ids(m.shades.iter().map(|x| x.id).collect())
    )
}

/// every item of `after` (a JSON array) appears in `before` as the same JSON value, in order
fn items_subsequence(before: &Value, after: &Value) -> bool {
    match (before, after) {
        (Value::Array(b), Value::Array(a)) => {
            let mut it = b.iter();
            a.iter().all(|x| it.any(|y| y == x))
        }
        (Value::Null, Value::Null) => true,
        (Value::Array(_), Value::Null) => true,
        _ => before == after,
    }
}

pub fn indicator_vector(m: &Model) -> Result<Vec<f32>, String> {
    let ind = crate::guarded(std::panic::AssertUnwindSafe(|| m.energy_indicators()))?;
    Ok(vec![
        ind.area_ref,
        ind.vol_env_net,
        ind.vol_env_gross,
        ind.compactness,
        ind.K_data.K,
        ind.n50_data.n50,
        ind.n50_data.n50_ref,
        ind.q_soljul_data.q_soljul,
        ind.q_soljul_data.Q_soljul,
    ])
}

fn close(a: f32, b: f32) -> bool {
    (a.is_nan() && b.is_nan()) || a == b || (a - b).abs() <= 1e-5 * a.abs().max(b.abs()) + 1e-6
}

pub fn one_case(m: &Model, origin: &str) -> Case {
    coq::reset_ids();
    let model_term = coq::model(m);
    let before: Value = serde_json::to_value(m).unwrap();
    let mut p = m.clone();
    purge_unused(&mut p);
    let after: Value = serde_json::to_value(&p).unwrap();
    let keys: [&[&str]; 12] = [
        &["spaces"], &["thermal_bridges"], &["cons", "wallcons"], &["cons", "wincons"], &["cons", "materials"],
        &["cons", "glasses"], &["cons", "frames"], &["loads"], &["thermostats"], &["schedules", "year"],
        &["schedules", "week"], &["schedules", "day"],
    ];
    let get = |v: &Value, k: &[&str]| -> Value {
        let mut c = v.clone();
        for s in k {
            c = c.get(*s).cloned().unwrap_or(Value::Null);
        }
        c
    };
    let mut items_same = keys.iter().all(|k| items_subsequence(&get(&before, k), &get(&after, k)));
    for k in ["walls", "windows", "shades", "meta", "overrides"] {
        items_same &= before.get(k) == after.get(k);
    }
    let mut p2 = p.clone();
    purge_unused(&mut p2);
    let twice_same = p2.as_json().unwrap() == p.as_json().unwrap();
    let mut wa: Vec<String> = check(m).iter().map(|w| format!("{:?}{}", w.id, w.msg)).collect();
    let mut wb: Vec<String> = check(&p).iter().map(|w| format!("{:?}{}", w.id, w.msg)).collect();
    wa.sort();
    wb.sort();
    // bridges of length in (-eps, 0) lose their "negative length" warning: not a new broken link
    let check_same = wb.iter().all(|w| wa.contains(w)) && wa.len() >= wb.len();
    let (ia, ib) = (indicator_vector(m), indicator_vector(&p));
    let indicators_same = match (&ia, &ib) {
        (Ok(a), Ok(b)) => a.iter().zip(b).all(|(x, y)| close(*x, *y)),
        (Err(_), Err(_)) => true, // a crash on both is C14's business
        _ => false,
    };
    let removed = before.to_string().len() - after.to_string().len();
    let term = format!(
        "(mkC16 {}\n {} {} {} {} {})",
        model_term, snap(&p), coq::b(items_same), coq::b(twice_same), coq::b(check_same), coq::b(indicators_same)
    );
    Case {
        post: String::new(),
        term,
        json: json!({"origin": origin, "model": before, "indicators_before": format!("{:?}", ia), "indicators_after": format!("{:?}", ib)}),
        nontrivial: removed > 0,
    }
}

pub fn run(a: &Args) -> Batch {
    let mut r = Rng::new(a.seed ^ 0x16);
    let mut cases = vec![];
    for (name, m) in corpus::shipped_models() {
        cases.push(one_case(&m, &name));
    }
    let cfg = gen::GenCfg::default();
    let mut added = 0;
    for i in 0..a.n {
        let mut rr = r.fork(i as u64);
        let mut m = gen::gen_model(&mut rr, &cfg);
        match i % 4 {
            0 => {}
            1 => added += gen::add_unused(&mut rr, &mut m),
            2 => {
                added += gen::add_unused(&mut rr, &mut m);
                gen::add_duplicates(&mut rr, &mut m);
            }
            _ => {
                added += gen::add_unused(&mut rr, &mut m);
                gen::break_links(&mut rr, &mut m, 1, 10);
            }
        }
        cases.push(one_case(&m, &format!("gen seed={} i={}", a.seed, i)));
    }
    Batch {
        imports: "From Coq Require Import ZArith NArith QArith List.\nFrom CTE Require Import Base.Num Model.BModel Model.Purge.".into(),
        case_ty: "c16_case".into(),
        agree: "agree_C16".into(),
        cases,
        impl_findings: vec![],
        rule: "shipped model files + generated models with unused items of every kind inserted at random positions (private loads->year->week->day chains of an unused space, shared constructions/schedules), duplicates, broken links; non-trivial = purge removes something; distinct by content hash".into(),
        stats: json!({"unused_items_added": added}),
    }
}
